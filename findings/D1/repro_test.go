package statefulset

import (
	"fmt"
	"runtime/debug"
	"strings"
	"testing"

	v1 "k8s.io/api/core/v1"
	"k8s.io/client-go/kubernetes/fake"

	apps "github.com/pingcap/advanced-statefulset/client/apis/apps/v1"
	pcfake "github.com/pingcap/advanced-statefulset/client/client/clientset/versioned/fake"
	k8s "github.com/pingcap/advanced-statefulset/pkg/third_party/k8s"
)

// D1: updateStrategy {type: RollingUpdate, rollingUpdate: {}} (RollingUpdate
// non-nil, Partition nil) must reconcile like partition 0 and must not
// dereference the nil Partition.
func TestReproD1(t *testing.T) {
	newSet := func() *apps.StatefulSet {
		set := newStatefulSet(3)
		set.Spec.UpdateStrategy = apps.StatefulSetUpdateStrategy{
			Type:          apps.RollingUpdateStatefulSetStrategyType,
			RollingUpdate: &apps.RollingUpdateStatefulSetStrategy{}, // Partition == nil
		}
		return set
	}

	// run f, turning a panic in the code under test into an error
	guarded := func(f func() error) (err error) {
		defer func() {
			if r := recover(); r != nil {
				stack := string(debug.Stack())
				// keep the frames of the package under test only
				var frames []string
				for _, l := range strings.Split(stack, "\n") {
					if strings.Contains(l, "pkg/controller/statefulset/stateful_set") && !strings.Contains(l, "_test.go") {
						frames = append(frames, strings.TrimSpace(l))
					}
				}
				err = fmt.Errorf("panic: %v\n\tat %s", r, strings.Join(frames, "\n\tat "))
			}
		}()
		return f()
	}

	// Site 1: no pods exist yet, the reconcile builds them with newVersionedStatefulSetPod.
	t.Run("scale-up", func(t *testing.T) {
		set := newSet()
		spc, _, ssc, stop := setupController(pcfake.NewSimpleClientset(set), fake.NewSimpleClientset())
		defer close(stop)
		if err := guarded(func() error {
			return scaleUpStatefulSetControl(set, ssc, spc, assertMonotonicInvariants)
		}); err != nil {
			t.Fatalf("reconcile of a set with rollingUpdate: {} (nil partition), creating pods: %v", err)
		}
		got, err := spc.setsLister.StatefulSets(set.Namespace).Get(set.Name)
		if err != nil {
			t.Fatal(err)
		}
		if got.Status.Replicas != 3 || got.Status.ReadyReplicas != 3 || got.Status.UpdatedReplicas != 3 {
			t.Fatalf("unexpected status after scale up: %+v", got.Status)
		}
	})

	// Site 2: all pods exist, are Running+Ready and at the update revision, so the
	// reconcile goes straight to the update walk of updateStatefulSet.
	t.Run("update-walk", func(t *testing.T) {
		set := newSet()
		spc, _, ssc, stop := setupController(pcfake.NewSimpleClientset(set), fake.NewSimpleClientset())
		defer close(stop)
		// the name the controller will give to the set's (only) revision
		revision, err := newRevision(set, 1, new(int32))
		if err != nil {
			t.Fatal(err)
		}
		revisionName := revision.Name
		var pods []*v1.Pod
		for ord := 0; ord < 3; ord++ {
			pod := newStatefulSetPod(set, ord)
			setPodRevision(pod, revisionName)
			pod.Status.Phase = v1.PodRunning
			k8s.UpdatePodCondition(&pod.Status, &v1.PodCondition{Type: v1.PodReady, Status: v1.ConditionTrue})
			fakeResourceVersion(pod)
			spc.podsIndexer.Add(pod)
			pods = append(pods, pod)
		}
		if err := guarded(func() error { return ssc.UpdateStatefulSet(set, pods) }); err != nil {
			t.Fatalf("reconcile of a set with rollingUpdate: {} (nil partition), all pods healthy: %v", err)
		}
		got, err := spc.setsLister.StatefulSets(set.Namespace).Get(set.Name)
		if err != nil {
			t.Fatal(err)
		}
		if got.Status.Replicas != 3 || got.Status.ReadyReplicas != 3 || got.Status.UpdatedReplicas != 3 {
			t.Fatalf("unexpected status after reconcile: %+v", got.Status)
		}
		if n := spc.deletePodTracker.requests; n != 0 {
			t.Fatalf("reconcile deleted %d pods although every pod is at the update revision", n)
		}
	})
}
