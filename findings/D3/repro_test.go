package statefulset

import (
	"context"
	"testing"

	kubeapps "k8s.io/api/apps/v1"
	apierrors "k8s.io/apimachinery/pkg/api/errors"
	metav1 "k8s.io/apimachinery/pkg/apis/meta/v1"
	"k8s.io/apimachinery/pkg/runtime"
	"k8s.io/apimachinery/pkg/types"
	"k8s.io/client-go/informers"
	"k8s.io/client-go/kubernetes/fake"
	"k8s.io/client-go/tools/record"

	pcfake "github.com/pingcap/advanced-statefulset/client/client/clientset/versioned/fake"
	pcinformers "github.com/pingcap/advanced-statefulset/client/client/informers/externalversions"
)

// D3: a ControllerRevision which is controlled by another owner (here a
// DaemonSet) but whose labels match the set's selector must not be part of the
// set's history: ListRevisions must not return it and the history truncation
// of UpdateStatefulSet must not delete it.
func TestReproD3(t *testing.T) {
	set := newStatefulSet(3)
	zero := int32(0)
	set.Spec.RevisionHistoryLimit = &zero

	isController := true
	foreign := &kubeapps.ControllerRevision{
		ObjectMeta: metav1.ObjectMeta{
			Name:      "someones-daemonset-6d4f5b7c9",
			Namespace: set.Namespace,
			UID:       types.UID("foreign-revision-uid"),
			Labels:    map[string]string{"foo": "bar"}, // matches set.Spec.Selector
			OwnerReferences: []metav1.OwnerReference{{
				APIVersion: "apps/v1",
				Kind:       "DaemonSet",
				Name:       "someones-daemonset",
				UID:        types.UID("daemonset-uid"),
				Controller: &isController,
			}},
		},
		Data:     runtime.RawExtension{Raw: []byte(`{"spec":{"template":{"$patch":"replace"}}}`)},
		Revision: 1,
	}

	client := fake.NewSimpleClientset(foreign)
	pcClient := pcfake.NewSimpleClientset(set)
	informerFactory := pcinformers.NewSharedInformerFactory(pcClient, 0)
	kubeInformerFactory := informers.NewSharedInformerFactory(client, 0)
	spc := newFakeStatefulPodControl(kubeInformerFactory.Core().V1().Pods(), informerFactory.Apps().V1().StatefulSets())
	ssu := newFakeStatefulSetStatusUpdater(informerFactory.Apps().V1().StatefulSets())
	ssc := NewDefaultStatefulSetControl(spc, ssu, client.AppsV1(), record.NewFakeRecorder(10))

	revisions, err := ssc.ListRevisions(set)
	if err != nil {
		t.Fatal(err)
	}
	for _, r := range revisions {
		if r.Name == foreign.Name {
			t.Errorf("ListRevisions returned ControllerRevision %q which is controlled by %+v, not by StatefulSet %s (uid %s)",
				r.Name, *metav1.GetControllerOf(r), set.Name, set.UID)
		}
	}

	// One reconcile with no pods: it creates the set's own revision and pod 0,
	// then truncates the history down to revisionHistoryLimit = 0.
	if err := ssc.UpdateStatefulSet(set, nil); err != nil {
		t.Fatalf("UpdateStatefulSet: %v", err)
	}

	for _, a := range client.Actions() {
		if a.GetVerb() == "delete" && a.GetResource().Resource == "controllerrevisions" {
			t.Errorf("UpdateStatefulSet issued: %s %s in namespace %q", a.GetVerb(), a.GetResource().Resource, a.GetNamespace())
		}
	}
	_, err = client.AppsV1().ControllerRevisions(set.Namespace).Get(context.TODO(), foreign.Name, metav1.GetOptions{})
	if apierrors.IsNotFound(err) {
		t.Errorf("ControllerRevision %q owned by DaemonSet someones-daemonset was DELETED by the StatefulSet's history truncation", foreign.Name)
	} else if err != nil {
		t.Fatal(err)
	}
}
