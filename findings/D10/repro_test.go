package statefulset

import (
	"fmt"
	"runtime/debug"
	"strings"
	"testing"

	"k8s.io/client-go/kubernetes/fake"

	pcfake "github.com/pingcap/advanced-statefulset/client/client/clientset/versioned/fake"
)

// D10: consequence of the CRD not requiring `spec`. An object admitted without
// spec is never defaulted (the `default: 1` of spec.replicas only applies when
// spec is present), so the controller sees Spec.Replicas == nil and
// dereferences it in updateStatefulSet.
//
// NOTE: this test fails on ceaf4d4 AND on the repaired tree. The repair of D10
// is in manifests/crd.v1.yaml (see check_crd.py), which keeps such an object
// from ever being admitted; the controller code itself is unchanged.
func TestReproD10(t *testing.T) {
	set := newStatefulSet(3)
	set.Spec.Replicas = nil // what the controller sees for an object admitted without spec (nothing defaults it)

	_, _, ssc, stop := setupController(pcfake.NewSimpleClientset(set), fake.NewSimpleClientset())
	defer close(stop)

	err := func() (err error) {
		defer func() {
			if r := recover(); r != nil {
				var frames []string
				for _, l := range strings.Split(string(debug.Stack()), "\n") {
					if strings.Contains(l, "pkg/controller/statefulset/stateful_set") && !strings.Contains(l, "_test.go") {
						frames = append(frames, strings.TrimSpace(l))
					}
				}
				err = fmt.Errorf("panic: %v\n\tat %s", r, strings.Join(frames, "\n\tat "))
			}
		}()
		return ssc.UpdateStatefulSet(set, nil)
	}()
	if err != nil {
		t.Fatalf("reconcile of a set with spec.replicas == nil: %v", err)
	}
}
