#!/usr/bin/env python3
"""D10: every served version of the StatefulSet CRD must require `spec` at the
top level of its openAPIV3Schema.

usage: check_crd.py <path-to-crd.v1.yaml>
exit status: 0 all served versions require spec, 1 at least one does not, 2 usage/parse problem

Why it matters: structural-schema defaulting (spec.replicas has `default: 1`)
and the `required: [replicas, ...]` list *inside* spec only apply when the
`spec` object is present. Without a top-level `required: [spec]` an object with
no spec at all is admitted, spec.replicas stays nil and the controller
dereferences it (`*set.Spec.Replicas`).
"""
import sys

import yaml


def main(argv):
    if len(argv) != 2:
        print(__doc__, file=sys.stderr)
        return 2
    path = argv[1]
    with open(path) as f:
        docs = [d for d in yaml.safe_load_all(f) if d]
    crds = [d for d in docs if d.get("kind") == "CustomResourceDefinition"]
    if not crds:
        print("%s: no CustomResourceDefinition found" % path, file=sys.stderr)
        return 2

    bad = 0
    checked = 0
    for crd in crds:
        name = crd.get("metadata", {}).get("name", "<unnamed>")
        for version in crd.get("spec", {}).get("versions", []) or []:
            vname = version.get("name")
            if not version.get("served", False):
                print("%s %s: not served, skipped" % (name, vname))
                continue
            checked += 1
            schema = (version.get("schema") or {}).get("openAPIV3Schema")
            if schema is None:
                print("FAIL %s %s: served version has no openAPIV3Schema" % (name, vname))
                bad += 1
                continue
            required = schema.get("required") or []
            if "spec" in required:
                print("ok   %s %s: top-level required = %s" % (name, vname, required))
            else:
                print("FAIL %s %s: top-level required = %s, `spec` is not required: an object without spec is admitted"
                      % (name, vname, required))
                bad += 1
    if checked == 0:
        print("%s: no served version found" % path, file=sys.stderr)
        return 2
    return 1 if bad else 0


if __name__ == "__main__":
    sys.exit(main(sys.argv))
