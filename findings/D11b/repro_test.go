package helper

import (
	"runtime"
	"strings"
	"testing"
	"time"

	metav1 "k8s.io/apimachinery/pkg/apis/meta/v1"
	"k8s.io/apimachinery/pkg/watch"

	asv1 "github.com/pingcap/advanced-statefulset/client/apis/apps/v1"
)

// D11b: the source emits one event, the consumer calls Stop() without reading
// it. The relay goroutine is blocked in the unbuffered `w.result <- event`
// send; nothing wakes it up on Stop(), so it stays blocked forever and
// ResultChan() is never closed.
func TestReproD11b(t *testing.T) {
	// the stack of the relay goroutine, or "" if there is none
	relayGoroutine := func() string {
		buf := make([]byte, 1<<20)
		buf = buf[:runtime.Stack(buf, true)]
		for _, g := range strings.Split(string(buf), "\n\n") {
			if strings.Contains(g, "helper.(*hijackWatch).receive") {
				return g
			}
		}
		return ""
	}
	if g := relayGoroutine(); g != "" {
		t.Fatalf("test setup: a relay goroutine exists before the test starts:\n%s", g)
	}

	source := watch.NewRaceFreeFake()
	w := newHijackWatch(source)

	source.Add(&asv1.StatefulSet{ObjectMeta: metav1.ObjectMeta{Name: "web", Namespace: "default"}})
	// Let the relay goroutine pick the event up (the race-free fake buffers it
	// until then) and block on handing it to the consumer, who is not reading.
	taken := false
	for i := 0; i < 200 && !taken; i++ {
		time.Sleep(10 * time.Millisecond)
		taken = len(source.ResultChan()) == 0
	}
	if !taken {
		t.Fatalf("test setup: relay goroutine did not take the event from the source:\n%s", relayGoroutine())
	}
	time.Sleep(100 * time.Millisecond)
	if g := relayGoroutine(); g == "" {
		t.Fatal("test setup: relay goroutine is gone before Stop()")
	}

	// the consumer gives up without ever reading
	w.Stop()
	if !source.IsStopped() {
		t.Fatal("Stop() did not stop the source watch")
	}

	// 1. the relay goroutine must terminate on its own within 2 seconds
	var leaked string
	for deadline := time.Now().Add(2 * time.Second); ; {
		if leaked = relayGoroutine(); leaked == "" || time.Now().After(deadline) {
			break
		}
		time.Sleep(20 * time.Millisecond)
	}
	if leaked != "" {
		lines := strings.Split(leaked, "\n")
		if len(lines) > 7 {
			lines = lines[:7]
		}
		t.Errorf("relay goroutine is still alive 2s after Stop():\n%s", strings.Join(lines, "\n"))
	}

	// 2. ... and ResultChan() must be closed: the first receive reports !ok
	select {
	case ev, ok := <-w.ResultChan():
		if ok {
			t.Errorf("ResultChan() is not closed after Stop(): a receive still delivers the pending %s event (%T) "+
				"from the blocked relay goroutine", ev.Type, ev.Object)
		}
	case <-time.After(2 * time.Second):
		t.Errorf("ResultChan() is not closed after Stop(): receive blocked for 2s")
	}
}
