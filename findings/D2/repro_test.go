package helper

import (
	"testing"

	"k8s.io/apimachinery/pkg/util/sets"
)

// D2: a negative delete slot is not an ordinal. It must neither be "skipped"
// (which would extend the ordinal range by one) nor survive in the returned
// delete slots.
func TestReproD2(t *testing.T) {
	ordinals := GetPodOrdinalsFromReplicasAndDeleteSlots(3, sets.NewInt32(-1))
	if want := sets.NewInt32(0, 1, 2); !ordinals.Equal(want) {
		t.Errorf("GetPodOrdinalsFromReplicasAndDeleteSlots(3, {-1}) = %v (%d ordinals), want %v (3 ordinals)",
			ordinals.List(), ordinals.Len(), want.List())
	}

	count, slots := GetMaxReplicaCountAndDeleteSlots(3, sets.NewInt32(-1))
	if count != 3 {
		t.Errorf("GetMaxReplicaCountAndDeleteSlots(3, {-1}) count = %d, want 3 (returned delete slots %v)", count, slots.List())
	}
	if int(count)-slots.Len() != 3 {
		t.Errorf("GetMaxReplicaCountAndDeleteSlots(3, {-1}) = (%d, %v): count - len(slots) = %d, want 3 desired pods",
			count, slots.List(), int(count)-slots.Len())
	}

	// control: a non-negative slot inside the range still extends it
	ordinals = GetPodOrdinalsFromReplicasAndDeleteSlots(3, sets.NewInt32(1))
	if want := sets.NewInt32(0, 2, 3); !ordinals.Equal(want) {
		t.Errorf("control: GetPodOrdinalsFromReplicasAndDeleteSlots(3, {1}) = %v, want %v", ordinals.List(), want.List())
	}
}
