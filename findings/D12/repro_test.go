// place at pkg/controller/statefulset/zz_repro_d12_test.go
// go test -vet=off -count=1 -run TestReproD12 ./pkg/controller/statefulset/
package statefulset

import (
	"fmt"
	"testing"

	v1 "k8s.io/api/core/v1"
	"k8s.io/client-go/kubernetes/fake"

	pcfake "github.com/pingcap/advanced-statefulset/client/client/clientset/versioned/fake"
)

// D12: a condemned, unhealthy pod whose ordinal is math.MaxInt32 (name <set>-2147483647) is counted as
// unhealthy but never recorded as the first unhealthy pod (`ord < firstUnhealthyOrdinal` is false for
// ord == MaxInt32), so firstUnhealthyPod stays nil and `firstUnhealthyPod.Name` in the log call panics.
func TestReproD12(t *testing.T) {
	set := newStatefulSet(1)
	client := fake.NewSimpleClientset()
	pcClient := pcfake.NewSimpleClientset(set)
	_, _, ssc, stop := setupController(pcClient, client)
	defer close(stop)
	healthy := newStatefulSetPod(set, 0)
	healthy.Status.Phase = v1.PodRunning
	healthy.Status.Conditions = []v1.PodCondition{{Type: v1.PodReady, Status: v1.ConditionTrue}}
	pod := newStatefulSetPod(set, 2147483647)
	pod.Status.Phase = v1.PodPending
	var rec interface{}
	func() {
		defer func() { rec = recover() }()
		_ = ssc.UpdateStatefulSet(set, []*v1.Pod{healthy, pod})
	}()
	if rec != nil {
		t.Fatalf("reconcile panicked: %v", fmt.Sprint(rec))
	}
}
