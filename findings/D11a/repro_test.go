package helper

import (
	"os"
	"testing"
	"time"

	metav1 "k8s.io/apimachinery/pkg/apis/meta/v1"
	utilruntime "k8s.io/apimachinery/pkg/util/runtime"
	"k8s.io/apimachinery/pkg/watch"

	asv1 "github.com/pingcap/advanced-statefulset/client/apis/apps/v1"
)

// D11a: the source watch emits an event of type Error carrying a
// *metav1.Status (what the API server sends for e.g. "410 Gone: too old
// resource version"). The relay goroutine of the hijacked watch only knows
// *StatefulSet objects and panics("unreachable"). With the default
// utilruntime.ReallyCrash = true that kills the whole process; this test
// turns ReallyCrash off so that it can fail instead of dying, and asserts
// that the consumer receives the Error event.
func TestReproD11a(t *testing.T) {
	// REPRO_D11A_REALLY_CRASH=1 keeps the production default (ReallyCrash = true)
	// to show the process dying instead of a test failure.
	if os.Getenv("REPRO_D11A_REALLY_CRASH") == "" {
		oldReallyCrash := utilruntime.ReallyCrash
		utilruntime.ReallyCrash = false
		defer func() { utilruntime.ReallyCrash = oldReallyCrash }()
	}

	// record what HandleCrash sees, so that the failure message shows the panic value
	panics := make(chan interface{}, 1)
	oldHandlers := utilruntime.PanicHandlers
	utilruntime.PanicHandlers = []func(interface{}){func(r interface{}) {
		select {
		case panics <- r:
		default:
		}
	}}
	defer func() { utilruntime.PanicHandlers = oldHandlers }()

	source := watch.NewRaceFreeFake()
	w := newHijackWatch(source)
	defer w.Stop()

	// control: a normal event is converted and relayed
	source.Add(&asv1.StatefulSet{ObjectMeta: metav1.ObjectMeta{Name: "web", Namespace: "default"}})
	select {
	case ev, ok := <-w.ResultChan():
		if !ok || ev.Type != watch.Added {
			t.Fatalf("control: expected an Added event, got %+v (open=%v)", ev, ok)
		}
	case <-time.After(2 * time.Second):
		t.Fatal("control: timed out waiting for the Added event")
	}

	status := &metav1.Status{
		Status:  metav1.StatusFailure,
		Code:    410,
		Reason:  metav1.StatusReasonExpired,
		Message: "too old resource version: 1 (2)",
	}
	source.Error(status)

	select {
	case ev, ok := <-w.ResultChan():
		if !ok {
			var p interface{}
			select {
			case p = <-panics:
			case <-time.After(time.Second):
			}
			t.Fatalf("ResultChan was closed without delivering the Error event; relay goroutine panicked with: %v", p)
		}
		if ev.Type != watch.Error {
			t.Fatalf("expected an Error event, got type %q object %T", ev.Type, ev.Object)
		}
		got, isStatus := ev.Object.(*metav1.Status)
		if !isStatus || got.Code != 410 || got.Reason != metav1.StatusReasonExpired {
			t.Fatalf("expected the *metav1.Status to be relayed unchanged, got %T %+v", ev.Object, ev.Object)
		}
	case <-time.After(2 * time.Second):
		t.Fatal("timed out waiting for the Error event")
	}
}
