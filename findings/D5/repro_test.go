package statefulset

import (
	"context"
	"testing"

	kubeapps "k8s.io/api/apps/v1"
	metav1 "k8s.io/apimachinery/pkg/apis/meta/v1"
	"k8s.io/apimachinery/pkg/runtime"
	"k8s.io/apimachinery/pkg/types"
)

// D5: the set already controls one revision and there is one matching orphan.
// adoptOrphanRevisions passes *all* listed revisions (not only the orphans) to
// AdoptOrphanRevisions, which refuses the revision that already has a
// controller. The orphan is never adopted and every sync fails.
func TestReproD5(t *testing.T) {
	set := newStatefulSet(3)

	owned := &kubeapps.ControllerRevision{
		ObjectMeta: metav1.ObjectMeta{
			Name:            set.Name + "-1111111111", // sorts (and is listed) before the orphan
			Namespace:       set.Namespace,
			UID:             types.UID("owned-revision-uid"),
			Labels:          map[string]string{"foo": "bar"},
			OwnerReferences: []metav1.OwnerReference{*metav1.NewControllerRef(set, controllerKind)},
		},
		Data:     runtime.RawExtension{Raw: []byte(`{"spec":{"template":{"$patch":"replace"}}}`)},
		Revision: 1,
	}
	orphan := &kubeapps.ControllerRevision{
		ObjectMeta: metav1.ObjectMeta{
			Name:      set.Name + "-2222222222",
			Namespace: set.Namespace,
			UID:       types.UID("orphan-revision-uid"),
			Labels:    map[string]string{"foo": "bar"},
		},
		Data:     runtime.RawExtension{Raw: []byte(`{"spec":{"template":{"$patch":"replace"},"x":1}}`)},
		Revision: 2,
	}

	ssc, spc := newFakeStatefulSetController(set, owned, orphan)
	spc.setsIndexer.Add(set)

	// "forever": the failure does not heal by retrying
	for attempt := 1; attempt <= 3; attempt++ {
		if err := ssc.adoptOrphanRevisions(set); err != nil {
			t.Errorf("attempt %d: adoptOrphanRevisions: %v", attempt, err)
		}
	}

	got, err := ssc.kubeClient.AppsV1().ControllerRevisions(set.Namespace).Get(context.TODO(), orphan.Name, metav1.GetOptions{})
	if err != nil {
		t.Fatal(err)
	}
	if ref := metav1.GetControllerOf(got); ref == nil || ref.UID != set.UID {
		t.Errorf("orphan ControllerRevision %q was not adopted by the set: controller ref = %v", orphan.Name, ref)
	}
	got, err = ssc.kubeClient.AppsV1().ControllerRevisions(set.Namespace).Get(context.TODO(), owned.Name, metav1.GetOptions{})
	if err != nil {
		t.Fatal(err)
	}
	if ref := metav1.GetControllerOf(got); ref == nil || ref.UID != set.UID || len(got.OwnerReferences) != 1 {
		t.Errorf("owned ControllerRevision %q changed: owner references = %v", owned.Name, got.OwnerReferences)
	}
}
