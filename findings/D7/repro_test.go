package statefulset

import (
	"context"
	"testing"
	"time"

	kubeapps "k8s.io/api/apps/v1"
	metav1 "k8s.io/apimachinery/pkg/apis/meta/v1"
	"k8s.io/apimachinery/pkg/runtime"
	"k8s.io/apimachinery/pkg/types"
	kubefake "k8s.io/client-go/kubernetes/fake"

	"github.com/pingcap/advanced-statefulset/client/apis/apps/v1/helper"
)

// D7: the set is being deleted (DeletionTimestamp set, both in the lister
// cache and in what a fresh Get returns). adoptOrphanRevisions never looks at
// the fresh object's DeletionTimestamp and adopts (and label-syncs) matching
// orphan ControllerRevisions anyway.
func TestReproD7(t *testing.T) {
	set := newStatefulSet(3)
	deleted := metav1.NewTime(time.Now().Add(-time.Minute))
	set.DeletionTimestamp = &deleted
	set.Finalizers = []string{"foregroundDeletion"}

	orphan := &kubeapps.ControllerRevision{
		ObjectMeta: metav1.ObjectMeta{
			Name:      set.Name + "-1111111111",
			Namespace: set.Namespace,
			UID:       types.UID("orphan-revision-uid"),
			Labels:    map[string]string{"foo": "bar"}, // matches set.Spec.Selector
		},
		Data:     runtime.RawExtension{Raw: []byte(`{"spec":{"template":{"$patch":"replace"}}}`)},
		Revision: 1,
	}
	// an orphan left behind by the upgrade from a builtin StatefulSet: found by the upgrade label, gets label-synced
	upgradeOrphan := &kubeapps.ControllerRevision{
		ObjectMeta: metav1.ObjectMeta{
			Name:      set.Name + "-2222222222",
			Namespace: set.Namespace,
			UID:       types.UID("upgrade-orphan-revision-uid"),
			Labels:    map[string]string{helper.UpgradeToAdvancedStatefulSetAnn: set.Name},
		},
		Data:     runtime.RawExtension{Raw: []byte(`{"spec":{"template":{"$patch":"replace"},"x":1}}`)},
		Revision: 2,
	}

	ssc, spc := newFakeStatefulSetController(set, orphan, upgradeOrphan)
	spc.setsIndexer.Add(set)

	// preconditions: both the cache and a live read say "being deleted"
	cached, err := ssc.setLister.StatefulSets(set.Namespace).Get(set.Name)
	if err != nil || cached.DeletionTimestamp == nil {
		t.Fatalf("test setup: cached set: %v, deletionTimestamp %v", err, cached.GetDeletionTimestamp())
	}
	fresh, err := ssc.pcClient.AppsV1().StatefulSets(set.Namespace).Get(context.TODO(), set.Name, metav1.GetOptions{})
	if err != nil || fresh.DeletionTimestamp == nil {
		t.Fatalf("test setup: fresh set: %v, deletionTimestamp %v", err, fresh.GetDeletionTimestamp())
	}

	kubeClient := ssc.kubeClient.(*kubefake.Clientset)
	kubeClient.ClearActions()

	err = ssc.adoptOrphanRevisions(cached)
	t.Logf("adoptOrphanRevisions returned: %v", err)

	for _, a := range kubeClient.Actions() {
		if a.GetResource().Resource != "controllerrevisions" {
			continue
		}
		switch a.GetVerb() {
		case "patch", "update", "create", "delete":
			t.Errorf("adoptOrphanRevisions of a set with deletionTimestamp issued: %s %s", a.GetVerb(), a.GetResource().Resource)
		}
	}
	for _, name := range []string{orphan.Name, upgradeOrphan.Name} {
		got, err := kubeClient.AppsV1().ControllerRevisions(set.Namespace).Get(context.TODO(), name, metav1.GetOptions{})
		if err != nil {
			t.Fatal(err)
		}
		if len(got.OwnerReferences) != 0 {
			t.Errorf("ControllerRevision %q was adopted by a set that is being deleted: %+v", name, got.OwnerReferences)
		}
	}
}
