package statefulset

import (
	"testing"

	kubeapps "k8s.io/api/apps/v1"
	metav1 "k8s.io/apimachinery/pkg/apis/meta/v1"
	"k8s.io/apimachinery/pkg/runtime"
	"k8s.io/apimachinery/pkg/types"
	"k8s.io/client-go/kubernetes/fake"

	"github.com/pingcap/advanced-statefulset/client/apis/apps/v1/helper"
	pcfake "github.com/pingcap/advanced-statefulset/client/client/clientset/versioned/fake"
)

// D4: a ControllerRevision which carries both the selector labels and the
// label apps.pingcap.com/upgrade-to-asts=<set name> matches both List calls of
// ListRevisions and must still be returned once.
func TestReproD4(t *testing.T) {
	set := newStatefulSet(3)

	rev := &kubeapps.ControllerRevision{
		ObjectMeta: metav1.ObjectMeta{
			Name:      set.Name + "-7d9f8c6b5",
			Namespace: set.Namespace,
			UID:       types.UID("rev-uid"),
			Labels: map[string]string{
				"foo":                                  "bar", // matches set.Spec.Selector
				helper.UpgradeToAdvancedStatefulSetAnn: set.Name,
			},
		},
		Data:     runtime.RawExtension{Raw: []byte(`{"spec":{"template":{"$patch":"replace"}}}`)},
		Revision: 1,
	}
	if helper.UpgradeToAdvancedStatefulSetAnn != "apps.pingcap.com/upgrade-to-asts" {
		t.Fatalf("unexpected upgrade label key %q", helper.UpgradeToAdvancedStatefulSetAnn)
	}

	client := fake.NewSimpleClientset(rev)
	_, _, ssc, stop := setupController(pcfake.NewSimpleClientset(set), client)
	defer close(stop)

	revisions, err := ssc.ListRevisions(set)
	if err != nil {
		t.Fatal(err)
	}
	var names []string
	for _, r := range revisions {
		names = append(names, r.Name)
	}
	if len(revisions) != 1 {
		t.Fatalf("ListRevisions returned %d revisions %v, want exactly 1 (%s)", len(revisions), names, rev.Name)
	}
	if revisions[0].Name != rev.Name {
		t.Fatalf("ListRevisions returned %v, want [%s]", names, rev.Name)
	}
}
