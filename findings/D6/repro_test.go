package statefulset

import (
	"testing"

	v1 "k8s.io/api/core/v1"
	"k8s.io/client-go/kubernetes/fake"

	pcfake "github.com/pingcap/advanced-statefulset/client/client/clientset/versioned/fake"
	k8s "github.com/pingcap/advanced-statefulset/pkg/third_party/k8s"
)

// D6: status.currentRevision = A but no pod carries A; all pods are at B; the
// template changed again so the update revision is C. The update walk deletes
// the highest B pod and decrements status.currentReplicas although that pod
// was never counted as a current replica: the status written is -1.
func TestReproD6(t *testing.T) {
	// three generations of the same set, differing in the container image
	setA := newStatefulSet(3)
	setA.Spec.Template.Spec.Containers[0].Image = "nginx:a"
	setB := setA.DeepCopy()
	setB.Spec.Template.Spec.Containers[0].Image = "nginx:b"
	set := setA.DeepCopy() // the live object, template C
	set.Spec.Template.Spec.Containers[0].Image = "nginx:c"
	set.Generation = 3

	revA, err := newRevision(setA, 1, new(int32))
	if err != nil {
		t.Fatal(err)
	}
	revB, err := newRevision(setB, 2, new(int32))
	if err != nil {
		t.Fatal(err)
	}
	revC, err := newRevision(set, 3, new(int32)) // only to know its name; the controller creates it
	if err != nil {
		t.Fatal(err)
	}
	if revA.Name == revB.Name || revB.Name == revC.Name || revA.Name == revC.Name {
		t.Fatalf("test setup: revisions must differ: %s %s %s", revA.Name, revB.Name, revC.Name)
	}

	// newRevision leaves the namespace to the code which creates the object
	revA.Namespace, revB.Namespace = set.Namespace, set.Namespace

	set.Status.ObservedGeneration = 2
	set.Status.Replicas = 3
	set.Status.ReadyReplicas = 3
	set.Status.CurrentRevision = revA.Name
	set.Status.UpdateRevision = revB.Name
	set.Status.CurrentReplicas = 0
	set.Status.UpdatedReplicas = 3

	client := fake.NewSimpleClientset(revA, revB)
	spc, _, ssc, stop := setupController(pcfake.NewSimpleClientset(set), client)
	defer close(stop)
	spc.setsIndexer.Add(set)

	var pods []*v1.Pod
	for ord := 0; ord < 3; ord++ {
		pod := newStatefulSetPod(setB, ord)
		setPodRevision(pod, revB.Name)
		pod.Status.Phase = v1.PodRunning
		k8s.UpdatePodCondition(&pod.Status, &v1.PodCondition{Type: v1.PodReady, Status: v1.ConditionTrue})
		fakeResourceVersion(pod)
		spc.podsIndexer.Add(pod)
		pods = append(pods, pod)
	}

	if err := ssc.UpdateStatefulSet(set, pods); err != nil {
		t.Fatalf("UpdateStatefulSet: %v", err)
	}

	got, err := spc.setsLister.StatefulSets(set.Namespace).Get(set.Name)
	if err != nil {
		t.Fatal(err)
	}
	t.Logf("status written: %+v", got.Status)
	if got.Status.CurrentRevision != revA.Name || got.Status.UpdateRevision != revC.Name {
		t.Fatalf("test setup: expected currentRevision %s / updateRevision %s, got %s / %s",
			revA.Name, revC.Name, got.Status.CurrentRevision, got.Status.UpdateRevision)
	}
	if spc.deletePodTracker.requests != 1 {
		t.Fatalf("test setup: expected the update walk to delete exactly one pod, got %d deletes", spc.deletePodTracker.requests)
	}
	if got.Status.CurrentReplicas < 0 {
		t.Errorf("status.currentReplicas = %d after deleting a pod at revision %s (current revision is %s): a replica count must not be negative",
			got.Status.CurrentReplicas, revB.Name, revA.Name)
	}
	if got.Status.CurrentReplicas != 0 {
		t.Errorf("status.currentReplicas = %d, want 0: no pod is at the current revision %s", got.Status.CurrentReplicas, revA.Name)
	}
}
