package statefulset

import (
	"fmt"
	"runtime/debug"
	"strings"
	"testing"

	v1 "k8s.io/api/core/v1"
	"k8s.io/client-go/kubernetes/fake"

	apps "github.com/pingcap/advanced-statefulset/client/apis/apps/v1"
	pcfake "github.com/pingcap/advanced-statefulset/client/client/clientset/versioned/fake"
	k8s "github.com/pingcap/advanced-statefulset/pkg/third_party/k8s"
)

// D8: partition: -1 with every pod present, healthy and at the update revision.
// The update walk of updateStatefulSet runs `for target := len(replicas)-1;
// target >= updateMin; target--` and so reaches replicas[-1].
func TestReproD8(t *testing.T) {
	set := newStatefulSet(3)
	partition := int32(-1)
	set.Spec.UpdateStrategy = apps.StatefulSetUpdateStrategy{
		Type:          apps.RollingUpdateStatefulSetStrategyType,
		RollingUpdate: &apps.RollingUpdateStatefulSetStrategy{Partition: &partition},
	}

	spc, _, ssc, stop := setupController(pcfake.NewSimpleClientset(set), fake.NewSimpleClientset())
	defer close(stop)

	// the name the controller will give to the set's (only) revision
	revision, err := newRevision(set, 1, new(int32))
	if err != nil {
		t.Fatal(err)
	}
	var pods []*v1.Pod
	for ord := 0; ord < 3; ord++ {
		pod := newStatefulSetPod(set, ord)
		setPodRevision(pod, revision.Name)
		pod.Status.Phase = v1.PodRunning
		k8s.UpdatePodCondition(&pod.Status, &v1.PodCondition{Type: v1.PodReady, Status: v1.ConditionTrue})
		fakeResourceVersion(pod)
		spc.podsIndexer.Add(pod)
		pods = append(pods, pod)
	}

	err = func() (err error) {
		defer func() {
			if r := recover(); r != nil {
				var frames []string
				for _, l := range strings.Split(string(debug.Stack()), "\n") {
					if strings.Contains(l, "pkg/controller/statefulset/stateful_set") && !strings.Contains(l, "_test.go") {
						frames = append(frames, strings.TrimSpace(l))
					}
				}
				err = fmt.Errorf("panic: %v\n\tat %s", r, strings.Join(frames, "\n\tat "))
			}
		}()
		return ssc.UpdateStatefulSet(set, pods)
	}()
	if err != nil {
		t.Fatalf("reconcile of a set with partition -1, all pods updated and healthy: %v", err)
	}

	got, err := spc.setsLister.StatefulSets(set.Namespace).Get(set.Name)
	if err != nil {
		t.Fatal(err)
	}
	if got.Status.Replicas != 3 || got.Status.ReadyReplicas != 3 || got.Status.UpdatedReplicas != 3 {
		t.Fatalf("unexpected status after reconcile: %+v", got.Status)
	}
	if n := spc.deletePodTracker.requests; n != 0 {
		t.Fatalf("reconcile deleted %d pods although every pod is at the update revision", n)
	}
}
