#!/usr/bin/env bash
# Run one defect reproduction against one revision of /repo.
#
#   usage: run_repro.sh <Dx> <git-rev>        e.g. run_repro.sh D6 ceaf4d4
#                                                  run_repro.sh D6 HEAD
#
# Creates a scratch worktree of /repo at <git-rev> below a `mktemp -d`
# directory (outside /repo and /verif), copies <Dx>/repro_test.go into the
# package it tests as zz_repro_<dx>_test.go, runs the single test
# TestRepro<Dx> offline, prints PASS or FAIL, removes the worktree and exits
# with the test's status. /repo's work tree is never touched.
#
# D10 is special: the repair is in manifests/crd.v1.yaml, not in Go code. For
# D10 the script runs D10/check_crd.py on the worktree's manifests/crd.v1.yaml
# AND the Go test TestReproD10. The PASS/FAIL verdict and the exit status are
# those of the CRD check; the Go test (which shows the controller panic on a
# set with nil spec.replicas, and fails at every revision because the
# controller code was not changed) is reported on its own line.
set -u

REPO=${REPO:-/repo}
HERE=$(cd "$(dirname "${BASH_SOURCE[0]}")" && pwd)

if [ $# -ne 2 ]; then
	sed -n '2,20p' "$0" >&2
	exit 2
fi
dx=$1
rev=$2
lc=$(printf '%s' "$dx" | tr 'A-Z' 'a-z')
src=$HERE/$dx/repro_test.go
[ -f "$src" ] || { echo "no such reproduction: $src" >&2; exit 2; }

# which go module / package the test belongs to
case $dx in
D2 | D11a | D11b) mod=client pkg=./apis/apps/v1/helper ;;
*) mod=. pkg=./pkg/controller/statefulset ;;
esac

sha=$(git -C "$REPO" rev-parse --verify --quiet "$rev^{commit}") || { echo "unknown revision: $rev" >&2; exit 2; }
short=$(git -C "$REPO" rev-parse --short "$sha")

# offline go
export GOFLAGS=-mod=mod GOPROXY=off GOSUMDB=off GOTOOLCHAIN=local

tmp=$(mktemp -d) || exit 2
case $tmp in
"$REPO" | "$REPO"/* | /verif | /verif/*) echo "refusing to work in $tmp" >&2; rmdir "$tmp"; exit 2 ;;
esac
wt=$tmp/wt
cleanup() {
	git -C "$REPO" worktree remove --force "$wt" >/dev/null 2>&1
	rm -rf "$tmp"
}
trap cleanup EXIT
trap 'exit 130' INT TERM

git -C "$REPO" worktree add --quiet --detach "$wt" "$sha" || { echo "cannot create worktree" >&2; exit 2; }

cp "$src" "$wt/$mod/$pkg/zz_repro_${lc}_test.go" || exit 2

echo "### $dx @ $short ($rev): go test -vet=off -count=1 -run '^TestRepro${dx}\$' $pkg   (module dir: $mod)"
(cd "$wt/$mod" && go test -vet=off -count=1 -timeout 300s -v -run "^TestRepro${dx}\$" "$pkg" 2>&1) |
	grep -v -e '^I[0-9]\{4\} ' -e '^=== RUN' -e '^=== PAUSE' -e '^=== CONT' | sed "s#$wt/##g"
status=${PIPESTATUS[0]}

if [ "$dx" = D10 ]; then
	if [ "$status" -eq 0 ]; then gores=PASS; else gores=FAIL; fi
	echo "### D10 @ $short ($rev): python3 check_crd.py manifests/crd.v1.yaml"
	python3 "$HERE/D10/check_crd.py" "$wt/manifests/crd.v1.yaml"
	status=$?
	echo "D10 go test TestReproD10 @ $short: $gores   (informational: fails at every revision, the repair is in the CRD)"
	if [ "$status" -eq 0 ]; then echo "D10 CRD check @ $short: PASS"; else echo "D10 CRD check @ $short: FAIL"; fi
fi

if [ "$status" -eq 0 ]; then
	echo "RESULT $dx @ $short: PASS"
else
	echo "RESULT $dx @ $short: FAIL"
fi
exit "$status"
