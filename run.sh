#!/bin/sh
# run.sh <Cxx> <quick|thorough>: (re)builds the checker if needed and analyses /repo's current working tree.
set -u
cd "$(dirname "$0")"
export GOFLAGS=-mod=mod GOPROXY=off GOSUMDB=off GOTOOLCHAIN=local GOWORK=off
unset GOOS GOARCH
if [ ! -x bin/asverif ] || [ -n "$(find checker -name '*.go' -newer bin/asverif 2>/dev/null | head -1)" ]; then
  ./setup.sh || { echo "CHECKER-FAILURE: cannot build the checker"; exit 2; }
fi
exec bin/asverif check "$1" --tier "${2:-${VERIF_TIER:-quick}}" --repo "${VERIF_REPO:-/repo}" --evidence "${VERIF_EVIDENCE:-/verif/evidence}" --findings /verif/known_findings.json
