package main

import (
	"fmt"
	"go/ast"
	"go/printer"
	"os"
	"strings"
	"time"

	"asverif/internal/gf"
	"asverif/internal/load"
)

func main() {
	t := time.Now()
	p, err := load.Load(os.Getenv("DUMP_REPO"), false, "", "")
	if err != nil {
		fmt.Println(err)
		os.Exit(2)
	}
	fmt.Println("loaded", len(p.Roots), "pkgs", len(p.All), "all", time.Since(t))
	fi := p.Func(os.Args[1], os.Args[2])
	if fi == nil {
		fmt.Println("not found")
		os.Exit(2)
	}
	t = time.Now()
	eng := gf.NewEngine(p)
	fmt.Println("summaries", time.Since(t))
	if len(os.Args) > 3 && os.Args[3] == "mod" {
		for _, k := range gf.SortedKeys(toStr(eng.Sum.ModOf(fi.Obj))) {
			fmt.Println("  W", k)
		}
		return
	}
	if len(os.Args) > 3 && os.Args[3] == "inl" {
		for _, g := range p.Funcs() {
			ok, size, why := eng.InlineDecision(g.Obj)
			fmt.Printf("  %-5v %4d %-40s %s\n", ok, size, why, g.Obj.FullName())
		}
		return
	}
	fn := eng.FnOf(fi)
	for _, g := range fn.Expanded() {
		fmt.Println("expanded:", g.Obj.FullName())
	}
	t = time.Now()
	an := fn.Analyze(nil)
	fmt.Println("analysis", time.Since(t))
	wantLine := 0
	if len(os.Args) > 3 {
		fmt.Sscanf(os.Args[3], "line:%d", &wantLine)
	}
	for _, b := range fn.CFG.Blocks {
		if !b.Live {
			continue
		}
		if wantLine > 0 {
			hit := false
			for _, n := range b.Nodes {
				if p.Fset.Position(n.Pos()).Line == wantLine {
					hit = true
				}
			}
			if !hit {
				continue
			}
			fmt.Printf("B%d %s\n", b.Index, b.Kind)
			for _, n := range b.Nodes {
				var sb strings.Builder
				printer.Fprint(&sb, p.Fset, n)
				fmt.Printf("  BEFORE %s:\n", strings.ReplaceAll(sb.String(), "\n", " "))
				st := an.StateBefore(n)
				for _, d := range st.D {
					fmt.Printf("     | %s\n", d.String())
				}
			}
			continue
		}
		var succ []string
		for _, s := range b.Succs {
			succ = append(succ, fmt.Sprint(s.Index))
		}
		fmt.Printf("B%d %s -> %s\n", b.Index, b.Kind, strings.Join(succ, ","))
		if in, ok := an.In[b.Index]; ok {
			fmt.Printf("  IN(%d): %s\n", len(in.D), in.String())
		}
		for _, n := range b.Nodes {
			var sb strings.Builder
			printer.Fprint(&sb, p.Fset, n)
			s := sb.String()
			if len(s) > 100 {
				s = s[:100] + "..."
			}
			fmt.Printf("    %T %s\n", n, strings.ReplaceAll(s, "\n", " "))
		}
	}
	_ = ast.Inspect
}

func toStr(m map[string]bool) map[string]bool { return m }
