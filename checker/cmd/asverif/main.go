// asverif: repository-specific static checker for pingcap/advanced-statefulset.
//
//	asverif check <Cxx> [--tier quick|thorough] [--repo DIR] [--evidence DIR] [--findings FILE]
//	asverif sites [--repo DIR]           (effect catalogue, for review)
//	asverif list
package main

import (
	"encoding/json"
	"flag"
	"fmt"
	"os"
	"path/filepath"
	"sort"
	"strconv"
	"time"

	"asverif/internal/load"
	"asverif/internal/rules"
)

func main() {
	if len(os.Args) < 2 {
		fmt.Fprintln(os.Stderr, "usage: asverif check|sites|list ...")
		os.Exit(2)
	}
	cmd := os.Args[1]
	fs := flag.NewFlagSet(cmd, flag.ExitOnError)
	tier := fs.String("tier", envOr("VERIF_TIER", "quick"), "quick or thorough")
	repo := fs.String("repo", "/repo", "repository root")
	evdir := fs.String("evidence", "/verif/evidence", "evidence directory")
	findings := fs.String("findings", "/verif/known_findings.json", "known findings file")
	noEvidence := fs.Bool("no-evidence", false, "do not write the evidence file")
	var args []string
	rest := os.Args[2:]
	for len(rest) > 0 && rest[0][0] != '-' {
		args = append(args, rest[0])
		rest = rest[1:]
	}
	fs.Parse(rest)
	args = append(args, fs.Args()...)
	switch cmd {
	case "list":
		var ids []string
		for id := range rules.Registry {
			ids = append(ids, id)
		}
		sort.Strings(ids)
		for _, id := range ids {
			fmt.Println(id, rules.Registry[id].Title)
		}
	case "sites":
		p, err := load.Load(*repo, false, "", "")
		if err != nil {
			fmt.Fprintln(os.Stderr, err)
			os.Exit(2)
		}
		c := rules.NewCtx(p, "quick")
		for _, s := range c.G.Sites {
			fmt.Printf("%-12s %-28s %-16s %s  in %s\n", s.Class, s.Resource, s.Verb, s.Pos, s.Fn.FullName())
		}
	case "anchors":
		p, err := load.Load(*repo, false, "", "")
		if err != nil {
			fmt.Fprintln(os.Stderr, err)
			os.Exit(2)
		}
		b, _ := json.MarshalIndent(rules.Fingerprints(p), "", " ")
		fmt.Println(string(b))
	case "checkall":
		// development aid: every property (or the listed ones) on one load, no evidence written
		fnd, err := rules.LoadFindings(*findings)
		if err != nil {
			fmt.Println("CHECKER-FAILURE:", err)
			os.Exit(2)
		}
		abs, _ := filepath.Abs(*repo)
		p, err := load.Load(abs, false, "", "")
		if err != nil {
			fmt.Println("CHECKER-FAILURE:", err)
			os.Exit(2)
		}
		ids := args
		if len(ids) == 0 {
			for id := range rules.Registry {
				ids = append(ids, id)
			}
			sort.Strings(ids)
		}
		tmp, _ := os.MkdirTemp("", "asv-all-")
		defer os.RemoveAll(tmp)
		worst := 0
		for _, id := range ids {
			c := rules.NewCtx(p, "quick")
			res := rules.RunProperty(c, rules.Registry[id], fnd, 0, tmp, map[string]any{})
			fmt.Printf("== %s exit %d\n", id, res.Exit)
			if res.Exit != 0 {
				for _, l := range res.Lines {
					fmt.Println(l)
				}
			}
			if res.Exit > worst {
				worst = res.Exit
			}
		}
		os.RemoveAll(tmp)
		os.Exit(worst)
	case "check":
		if len(args) != 1 {
			fmt.Fprintln(os.Stderr, "usage: asverif check <Cxx>")
			os.Exit(2)
		}
		os.Exit(check(args[0], *tier, *repo, *evdir, *findings, !*noEvidence))
	default:
		fmt.Fprintln(os.Stderr, "unknown command", cmd)
		os.Exit(2)
	}
}

func envOr(k, d string) string {
	if v := os.Getenv(k); v != "" {
		return v
	}
	return d
}

func check(id, tier, repo, evdir, findingsPath string, writeEvidence bool) int {
	t0 := time.Now()
	prop := rules.Registry[id]
	if prop == nil {
		fmt.Fprintln(os.Stderr, "no such property", id)
		return 2
	}
	seed, _ := strconv.Atoi(os.Getenv("VERIF_SEED"))
	os.MkdirAll(evdir, 0o755)
	// remove stale violation files of this property
	old, _ := filepath.Glob(filepath.Join(evdir, id+".violation-*.json"))
	for _, f := range old {
		os.Remove(f)
	}
	fnd, err := rules.LoadFindings(findingsPath)
	if err != nil {
		fmt.Println("CHECKER-FAILURE: cannot read known findings:", err)
		return 2
	}
	abs, _ := filepath.Abs(repo)
	p, err := load.Load(abs, false, "", "")
	if err != nil {
		fmt.Printf("CHECKER-FAILURE: property=%s cannot analyse %s: %v\n", id, repo, err)
		writeFailureEvidence(evdir, id, tier, seed, err.Error(), time.Since(t0).Seconds(), writeEvidence)
		return 2
	}
	c := rules.NewCtx(p, tier)
	extra := map[string]any{}
	res := rules.RunProperty(c, prop, fnd, seed, evdir, extra)
	if tier == "thorough" {
		lines, exit := rules.Thorough(c, prop, fnd, abs, res)
		res.Lines = append(res.Lines, lines...)
		if exit > res.Exit {
			res.Exit = exit
		}
	}
	res.Evidence.WallS = time.Since(t0).Seconds()
	if os.Getenv("ASV_VERBOSE") != "" {
		for _, o := range c.Obs {
			fmt.Printf("  OB %-12s [%s] %s @%s :: %s\n", o.Status, o.Rule, o.Construct, o.Pos, o.Detail)
		}
	}
	for _, l := range res.Lines {
		fmt.Println(l)
	}
	if writeEvidence {
		b, _ := json.MarshalIndent(res.Evidence, "", " ")
		if err := os.WriteFile(filepath.Join(evdir, id+".json"), b, 0o644); err != nil {
			fmt.Println("CHECKER-FAILURE: cannot write evidence:", err)
			return 2
		}
	}
	return res.Exit
}

func writeFailureEvidence(evdir, id, tier string, seed int, msg string, wall float64, write bool) {
	if !write {
		return
	}
	ev := rules.Evidence{PropertyID: id, Tier: tier, Seed: seed, Level: "other",
		Coverage: map[string]any{"explanation": "the checker could not analyse the tree: " + msg, "evaluations": 0, "distinct_nontrivial": 0},
		WallS:    wall, Violations: 0}
	b, _ := json.MarshalIndent(ev, "", " ")
	os.WriteFile(filepath.Join(evdir, id+".json"), b, 0o644)
}
