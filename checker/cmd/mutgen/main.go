// mutgen lists single-point source mutants of the repo's non-test, non-generated Go files
// (development aid for measuring what the checks report; it never runs anything).
// Output: one JSON object per line {id, file, start, end, repl, op, line, fn}.
package main

import (
	"encoding/json"
	"fmt"
	"go/ast"
	"go/parser"
	"go/token"
	"os"
	"path/filepath"
	"strings"
)

type mut struct {
	ID    int    `json:"id"`
	File  string `json:"file"`
	Start int    `json:"start"`
	End   int    `json:"end"`
	Repl  string `json:"repl"`
	Op    string `json:"op"`
	Line  int    `json:"line"`
	Fn    string `json:"fn"`
}

func main() {
	root := os.Args[1]
	dirs := os.Args[2:]
	enc := json.NewEncoder(os.Stdout)
	id := 0
	for _, d := range dirs {
		files, _ := filepath.Glob(filepath.Join(root, d, "*.go"))
		for _, f := range files {
			base := filepath.Base(f)
			if strings.HasSuffix(base, "_test.go") || strings.HasPrefix(base, "zz_generated") || base == "doc.go" || base == "register.go" {
				continue
			}
			fset := token.NewFileSet()
			src, err := os.ReadFile(f)
			if err != nil {
				continue
			}
			af, err := parser.ParseFile(fset, f, src, 0)
			if err != nil {
				continue
			}
			rel, _ := filepath.Rel(root, f)
			off := func(p token.Pos) int { return fset.Position(p).Offset }
			for _, decl := range af.Decls {
				fd, ok := decl.(*ast.FuncDecl)
				if !ok || fd.Body == nil {
					continue
				}
				emit := func(start, end token.Pos, repl, op string) {
					id++
					enc.Encode(mut{id, rel, off(start), off(end), repl, op, fset.Position(start).Line, fd.Name.Name})
				}
				ast.Inspect(fd.Body, func(n ast.Node) bool {
					switch x := n.(type) {
					case *ast.BinaryExpr:
						swap := map[token.Token][]string{
							token.EQL: {"!="}, token.NEQ: {"=="}, token.LSS: {"<=", ">="}, token.LEQ: {"<", ">"}, token.GTR: {">=", "<="}, token.GEQ: {">", "<"},
							token.LAND: {"||"}, token.LOR: {"&&"}, token.ADD: {"-"}, token.SUB: {"+"},
						}
						for _, r := range swap[x.Op] {
							emit(x.OpPos, x.OpPos+token.Pos(len(x.Op.String())), r, "binop:"+x.Op.String()+"->"+r)
						}
						if x.Op == token.LAND || x.Op == token.LOR {
							// drop one operand
							emit(x.Pos(), x.End(), string(src[off(x.X.Pos()):off(x.X.End())]), "keep-left")
							emit(x.Pos(), x.End(), string(src[off(x.Y.Pos()):off(x.Y.End())]), "keep-right")
						}
					case *ast.UnaryExpr:
						if x.Op == token.NOT {
							emit(x.OpPos, x.OpPos+1, "", "drop-not")
						}
					case *ast.IfStmt:
						emit(x.Cond.Pos(), x.Cond.End(), "false", "if-false")
						emit(x.Cond.Pos(), x.Cond.End(), "true", "if-true")
					case *ast.ExprStmt:
						if _, ok := x.X.(*ast.CallExpr); ok {
							emit(x.Pos(), x.End(), "", "del-call")
						}
					case *ast.AssignStmt:
						if x.Tok == token.ASSIGN || x.Tok == token.ADD_ASSIGN || x.Tok == token.SUB_ASSIGN {
							emit(x.Pos(), x.End(), "", "del-assign")
						}
					case *ast.IncDecStmt:
						emit(x.Pos(), x.End(), "", "del-incdec")
						if x.Tok == token.INC {
							emit(x.TokPos, x.TokPos+2, "--", "inc->dec")
						} else {
							emit(x.TokPos, x.TokPos+2, "++", "dec->inc")
						}
					case *ast.BranchStmt:
						if x.Tok == token.CONTINUE && x.Label == nil {
							emit(x.Pos(), x.End(), "break", "continue->break")
						} else if x.Tok == token.BREAK && x.Label == nil {
							emit(x.Pos(), x.End(), "continue", "break->continue")
						}
					case *ast.ReturnStmt:
						// return ..., err  ->  return ..., nil
						if n := len(x.Results); n > 0 {
							if id, ok := x.Results[n-1].(*ast.Ident); ok && strings.Contains(strings.ToLower(id.Name), "err") {
								emit(id.Pos(), id.End(), "nil", "return-nil-error")
							}
						}
					case *ast.BasicLit:
						if x.Kind == token.INT && (x.Value == "0" || x.Value == "1") {
							r := "1"
							if x.Value == "1" {
								r = "0"
							}
							emit(x.Pos(), x.End(), r, "int:"+x.Value+"->"+r)
						}
					}
					return true
				})
			}
		}
	}
	fmt.Fprintln(os.Stderr, id, "mutants")
}
