// Package eff is engine E1: the effect catalogue (which call site performs
// which API verb on which resource) and the repo-restricted call graph with
// transitive effect summaries. Callees are resolved through type information.
package eff

import (
	"fmt"
	"go/ast"
	"go/types"
	"sort"
	"strings"

	"asverif/internal/gf"
	"asverif/internal/load"
)

type Site struct {
	Fn       *types.Func // enclosing declared function (literals are attributed to it)
	Call     *ast.CallExpr
	Info     *types.Info
	Class    string // "write","read","cached-read","event","queue"
	Resource string
	Verb     string
	Pos      string
	InLit    *ast.FuncLit // innermost enclosing literal, if any
}

func (s *Site) String() string {
	return fmt.Sprintf("%s.%s @%s in %s", s.Resource, s.Verb, s.Pos, s.Fn.FullName())
}

var writeVerbs = map[string]bool{"Create": true, "Update": true, "UpdateStatus": true, "UpdateScale": true, "Delete": true,
	"DeleteCollection": true, "Patch": true, "Apply": true, "ApplyStatus": true, "ApplyScale": true}
var readVerbs = map[string]bool{"Get": true, "List": true, "Watch": true, "GetScale": true}

type Graph struct {
	Prog  *load.Prog
	Sum   *gf.Summaries
	Sites []*Site
	// call edges between declared repo functions
	Edges map[*types.Func]map[*types.Func]bool
	// Direct: static calls, interface dispatch and references to named functions as values
	// (without the by-signature edges of dynamic calls to enclosing functions of literals)
	Direct map[*types.Func]map[*types.Func]bool
	byFn   map[*types.Func][]*Site
}

func resourceOf(recv types.Type) (string, bool) {
	if p, ok := recv.(*types.Pointer); ok {
		recv = p.Elem()
	}
	n, ok := types.Unalias(recv).(*types.Named)
	if !ok || n.Obj().Pkg() == nil {
		return "", false
	}
	path := n.Obj().Pkg().Path()
	name := n.Obj().Name()
	advanced := strings.HasPrefix(path, load.ClientMod+"/client/clientset/versioned/typed/")
	builtin := strings.HasPrefix(path, "k8s.io/client-go/kubernetes/typed/")
	if !advanced && !builtin {
		return "", false
	}
	if strings.HasSuffix(path, "/fake") {
		return "", false
	}
	base := strings.TrimSuffix(name, "Interface")
	if base == name {
		// concrete typed clients (unexported structs such as statefulSets)
		base = strings.ToUpper(name[:1]) + name[1:]
		base = strings.TrimSuffix(base, "s")
	}
	if strings.HasSuffix(base, "Getter") || strings.HasSuffix(base, "Client") || strings.HasSuffix(base, "Expansion") || base == "" ||
		strings.HasSuffix(name, "V1Interface") || strings.HasSuffix(name, "V1beta1Interface") {
		return "", false
	}
	res := strings.ToLower(base) + "s"
	if base == "StatefulSet" {
		if advanced {
			res = "statefulsets.pingcap"
		} else {
			res = "statefulsets.apps"
		}
	}
	return res, true
}

// Classify resolves a call to an effect, if it is one.
func Classify(info *types.Info, call *ast.CallExpr) (class, resource, verb string) {
	fn := gf.StaticCallee(info, call)
	if fn == nil {
		return
	}
	sig := fn.Type().(*types.Signature)
	if sig.Recv() == nil || fn.Pkg() == nil {
		return
	}
	recv := sig.Recv().Type()
	// the static receiver expression's type is more specific than the declaring interface when embedded
	if sel, ok := ast.Unparen(call.Fun).(*ast.SelectorExpr); ok {
		if s, ok := info.Selections[sel]; ok {
			// for promoted methods through embedding, Recv() is the declaring type; keep it
			_ = s
		}
	}
	path := fn.Pkg().Path()
	name := fn.Name()
	if res, ok := resourceOf(recv); ok {
		switch {
		case writeVerbs[name]:
			return "write", res, name
		case readVerbs[name]:
			return "read", res, name
		}
		return
	}
	switch {
	case strings.HasPrefix(path, "k8s.io/client-go/listers/") || strings.HasPrefix(path, load.ClientMod+"/client/listers/"):
		if name == "Get" || name == "List" || strings.HasPrefix(name, "GetPod") {
			rn := "?"
			if n, ok := derefNamed(recv); ok {
				rn = n
			}
			return "cached-read", strings.ToLower(strings.TrimSuffix(strings.TrimSuffix(rn, "NamespaceLister"), "Lister")) + "s", name
		}
	case path == "k8s.io/client-go/tools/record":
		if name == "Event" || name == "Eventf" || name == "AnnotatedEventf" {
			return "event", "events", name
		}
	case path == "k8s.io/client-go/util/workqueue":
		switch name {
		case "Add", "AddRateLimited", "AddAfter", "Forget", "Done", "Get", "ShutDown", "NumRequeues":
			return "queue", "workqueue", name
		}
	}
	return
}

func derefNamed(t types.Type) (string, bool) {
	if p, ok := t.(*types.Pointer); ok {
		t = p.Elem()
	}
	if n, ok := types.Unalias(t).(*types.Named); ok {
		return n.Obj().Name(), true
	}
	return "", false
}

func Build(p *load.Prog, sum *gf.Summaries) *Graph {
	g := &Graph{Prog: p, Sum: sum, Edges: map[*types.Func]map[*types.Func]bool{}, Direct: map[*types.Func]map[*types.Func]bool{}, byFn: map[*types.Func][]*Site{}}
	// value references by signature
	type ref struct{ fn *types.Func }
	bySig := map[string][]*types.Func{}
	funcs := p.Funcs()
	sigOf := func(t types.Type) string {
		s, ok := t.Underlying().(*types.Signature)
		if !ok {
			return ""
		}
		return types.TypeString(types.NewSignatureType(nil, nil, nil, s.Params(), s.Results(), s.Variadic()), nil)
	}
	// first pass: literals and function-value references
	for _, fi := range funcs {
		info := fi.Pkg.TypesInfo
		callFun := map[ast.Expr]bool{}
		ast.Inspect(fi.Decl.Body, func(n ast.Node) bool {
			switch x := n.(type) {
			case *ast.CallExpr:
				callFun[ast.Unparen(x.Fun)] = true
			case *ast.FuncLit:
				k := sigOf(info.TypeOf(x))
				bySig[k] = append(bySig[k], fi.Obj)
			case *ast.SelectorExpr:
				if !callFun[x] {
					if f, ok := info.Uses[x.Sel].(*types.Func); ok && load.IsRepo(pkgPath(f)) {
						bySig[sigOf(info.TypeOf(x))] = append(bySig[sigOf(info.TypeOf(x))], f.Origin())
					}
				}
			case *ast.Ident:
				if !callFun[x] {
					if f, ok := info.Uses[x].(*types.Func); ok && load.IsRepo(pkgPath(f)) && f.Type().(*types.Signature).Recv() == nil {
						bySig[sigOf(f.Type())] = append(bySig[sigOf(f.Type())], f.Origin())
					}
				}
			}
			return true
		})
	}
	for _, fi := range funcs {
		info := fi.Pkg.TypesInfo
		edges := map[*types.Func]bool{}
		g.Edges[fi.Obj] = edges
		direct := map[*types.Func]bool{}
		g.Direct[fi.Obj] = direct
		var litStack []*ast.FuncLit
		var walk func(n ast.Node) bool
		walk = func(n ast.Node) bool {
			switch x := n.(type) {
			case *ast.FuncLit:
				litStack = append(litStack, x)
				ast.Inspect(x.Body, walk)
				litStack = litStack[:len(litStack)-1]
				return false
			case *ast.SelectorExpr:
				if f, ok := info.Uses[x.Sel].(*types.Func); ok && load.IsRepo(pkgPath(f)) {
					g.addTarget(edges, f.Origin())
					g.addTarget(direct, f.Origin())
				}
			case *ast.Ident:
				if f, ok := info.Uses[x].(*types.Func); ok && load.IsRepo(pkgPath(f)) {
					g.addTarget(edges, f.Origin())
					g.addTarget(direct, f.Origin())
				}
			case *ast.CallExpr:
				class, res, verb := Classify(info, x)
				if class != "" {
					s := &Site{Fn: fi.Obj, Call: x, Info: info, Class: class, Resource: res, Verb: verb, Pos: p.Pos(x.Pos())}
					if len(litStack) > 0 {
						s.InLit = litStack[len(litStack)-1]
					}
					g.Sites = append(g.Sites, s)
					g.byFn[fi.Obj] = append(g.byFn[fi.Obj], s)
				}
				if gf.StaticCallee(info, x) == nil {
					if tv, ok := info.Types[x.Fun]; ok && !tv.IsType() {
						if _, isB := info.Uses[identOf(x.Fun)].(*types.Builtin); !isB {
							for _, t := range bySig[sigOf(info.TypeOf(x.Fun))] {
								edges[t] = true
							}
						}
					}
				}
			}
			return true
		}
		ast.Inspect(fi.Decl.Body, walk)
	}
	sort.Slice(g.Sites, func(i, j int) bool { return g.Sites[i].Pos < g.Sites[j].Pos })
	return g
}

func identOf(e ast.Expr) *ast.Ident {
	id, _ := ast.Unparen(e).(*ast.Ident)
	return id
}

func pkgPath(f *types.Func) string {
	if f.Pkg() == nil {
		return ""
	}
	return f.Pkg().Path()
}

func (g *Graph) addTarget(edges map[*types.Func]bool, f *types.Func) {
	if impl, ok := g.Sum.Impls[f]; ok {
		for _, t := range impl {
			edges[t] = true
		}
		return
	}
	if g.Prog.FuncInfoOf(f) != nil {
		edges[f] = true
	}
}

// Reach returns the declared functions reachable from the roots (inclusive).
func (g *Graph) Reach(roots ...*types.Func) map[*types.Func]bool {
	seen := map[*types.Func]bool{}
	var work []*types.Func
	for _, r := range roots {
		if r == nil {
			continue
		}
		if impl, ok := g.Sum.Impls[r]; ok {
			work = append(work, impl...)
		} else {
			work = append(work, r.Origin())
		}
	}
	for len(work) > 0 {
		f := work[len(work)-1]
		work = work[:len(work)-1]
		if seen[f] {
			continue
		}
		seen[f] = true
		for t := range g.Edges[f] {
			if !seen[t] {
				work = append(work, t)
			}
		}
	}
	return seen
}

// ReachDirect is Reach over the direct edges only (static calls, interface
// dispatch, references to named functions); closures belong to their enclosing function.
func (g *Graph) ReachDirect(roots ...*types.Func) map[*types.Func]bool {
	seen := map[*types.Func]bool{}
	var work []*types.Func
	for _, r := range roots {
		if r == nil {
			continue
		}
		if impl, ok := g.Sum.Impls[r]; ok {
			work = append(work, impl...)
		} else {
			work = append(work, r.Origin())
		}
	}
	for len(work) > 0 {
		f := work[len(work)-1]
		work = work[:len(work)-1]
		if seen[f] {
			continue
		}
		seen[f] = true
		for t := range g.Direct[f] {
			if !seen[t] {
				work = append(work, t)
			}
		}
	}
	return seen
}

// HasEffects reports whether f transitively (direct edges) contains any effect site.
func (g *Graph) HasEffects(f *types.Func) bool {
	for _, s := range g.SitesIn(g.ReachDirect(f)) {
		if s.Class != "queue" {
			return true
		}
	}
	return false
}

// SitesIn lists the effect sites syntactically inside the given functions.
func (g *Graph) SitesIn(fns map[*types.Func]bool) []*Site {
	var out []*Site
	for _, s := range g.Sites {
		if fns[s.Fn] {
			out = append(out, s)
		}
	}
	return out
}

// Effects returns the transitive effect set "resource.Verb" -> witness site of a function.
func (g *Graph) Effects(f *types.Func, classes ...string) map[string]*Site {
	want := map[string]bool{}
	for _, c := range classes {
		want[c] = true
	}
	out := map[string]*Site{}
	for _, s := range g.SitesIn(g.Reach(f)) {
		if len(want) > 0 && !want[s.Class] {
			continue
		}
		k := s.Resource + "." + s.Verb
		if _, ok := out[k]; !ok {
			out[k] = s
		}
	}
	return out
}

// Callers returns the declared functions with an edge to f.
func (g *Graph) Callers(f *types.Func) []*types.Func {
	var out []*types.Func
	for c, es := range g.Direct {
		if es[f] {
			out = append(out, c)
		}
	}
	sort.Slice(out, func(i, j int) bool { return out[i].FullName() < out[j].FullName() })
	return out
}

// CallTargets resolves the in-repo targets of one call (static, interface dispatch).
func (g *Graph) CallTargets(info *types.Info, call *ast.CallExpr) []*types.Func {
	fn := gf.StaticCallee(info, call)
	if fn == nil || !load.IsRepo(pkgPath(fn)) {
		return nil
	}
	if impl, ok := g.Sum.Impls[fn.Origin()]; ok {
		return impl
	}
	if g.Prog.FuncInfoOf(fn) != nil {
		return []*types.Func{fn.Origin()}
	}
	return nil
}
