package gf

import (
	"fmt"
	"go/ast"
	"go/token"
	"go/types"
	"os"
	"sort"
	"strings"

	"asverif/internal/load"

	"golang.org/x/tools/go/cfg"
)

// Engine caches per-function CFGs and the global summaries.
type Engine struct {
	Prog  *load.Prog
	Canon *Canon
	Sum   *Summaries
	fns   map[ast.Node]*Fn
	// NoInline switches the in-place expansion of helpers off (inline.go)
	NoInline bool
	inliner  *inliner
	rangeIdx map[*ast.RangeStmt]*types.Var
	// IsPinned reports whether a function already existed (by name) at the pinned commit; set by the rules
	IsPinned func(*types.Func) bool
}

func NewEngine(p *load.Prog) *Engine {
	sum := BuildSummaries(p)
	detectSubSequences(p)
	return &Engine{Prog: p, Canon: &Canon{Prog: p, Sum: sum}, Sum: sum, fns: map[ast.Node]*Fn{}, NoInline: os.Getenv("ASV_NOINLINE") == "1"}
}

// Fn is one function body (declaration or literal) prepared for analysis.
type Fn struct {
	Eng       *Engine
	Info      *types.Info
	Name      string
	Node      ast.Node // *ast.FuncDecl or *ast.FuncLit
	Body      *ast.BlockStmt
	Type      *ast.FuncType
	CFG       *cfg.CFG
	volatile  map[types.Object]bool
	addrTaken map[types.Object]bool
	where     map[ast.Node]nodeRef
	whereAll  map[ast.Node][]nodeRef
	preds     map[int32][]edge
	// expansion of helpers (inline.go)
	synthetic   map[ast.Node]bool
	retMarker   map[ast.Node]bool
	inlAt       map[ast.Node][]*InlSite
	inlCall     map[*ast.CallExpr]bool
	bodies      []*load.FuncInfo
	rootBlock   map[*cfg.Block]bool
	extraLocals map[types.Object]bool
	rangeBody   map[int32]map[int32]bool
	fresh       map[types.Object]bool
	inlVars     map[types.Object]bool // parameters, results and locals of expanded helpers, result temporaries
	tsClause    map[*ast.CaseClause]*ast.TypeSwitchStmt
	preOf       map[ast.Node]nodeRef // node whose call was expanded -> where its evaluation starts
	blockCalls  map[*cfg.Block][]*ast.CallExpr
	liveIn      map[int32]map[types.Object]bool
	locals      map[types.Object]bool
	// PostFacts: formulas that hold right after the given CFG node (facts
	// established by a rule outside the engine, e.g. an allocation summary)
	PostFacts map[ast.Node]*Formula
	// KeepDead keeps facts about dead and out-of-scope local variables in all
	// analyses of this function started while it is set (queries about them).
	KeepDead bool
}

type nodeRef struct {
	b   *cfg.Block
	idx int
}

type edge struct {
	from *cfg.Block
	succ int
}

// NoReturn reports calls that never return (so that go/cfg ends the block there).
func NoReturn(info *types.Info, call *ast.CallExpr) bool {
	if id, ok := ast.Unparen(call.Fun).(*ast.Ident); ok {
		if b, ok := info.ObjectOf(id).(*types.Builtin); ok && b.Name() == "panic" {
			return true
		}
	}
	if fn := StaticCallee(info, call); fn != nil {
		full := fn.FullName()
		if full == "os.Exit" || strings.HasPrefix(full, "k8s.io/klog/v2.Fatal") || strings.HasPrefix(full, "log.Fatal") ||
			strings.HasPrefix(full, "log.Panic") || strings.HasPrefix(full, "k8s.io/klog/v2.Exit") {
			return true
		}
	}
	return false
}

// FnOf prepares (and caches) a function declaration.
func (e *Engine) FnOf(fi *load.FuncInfo) *Fn {
	if f, ok := e.fns[fi.Decl]; ok {
		return f
	}
	f := e.prepare(fi.Pkg.TypesInfo, fi.Obj.FullName(), fi.Decl, fi.Decl.Body, fi.Decl.Type, fi.Pkg.Types)
	e.fns[fi.Decl] = f
	return f
}

// FnOfLit prepares a function literal (analysed as a function of its own).
func (e *Engine) FnOfLit(info *types.Info, lit *ast.FuncLit, name string) *Fn {
	if f, ok := e.fns[lit]; ok {
		return f
	}
	var pkg *types.Package
	if pk := e.Prog.PkgOfPos(lit.Pos()); pk != nil && pk.TypesInfo == info {
		pkg = pk.Types
	}
	f := e.prepare(info, name, lit, lit.Body, lit.Type, pkg)
	e.fns[lit] = f
	return f
}

func (e *Engine) prepare(info *types.Info, name string, node ast.Node, body *ast.BlockStmt, typ *ast.FuncType, pkg *types.Package) *Fn {
	f := &Fn{Eng: e, Info: info, Name: name, Node: node, Body: body, Type: typ,
		volatile: map[types.Object]bool{}, addrTaken: map[types.Object]bool{}, where: map[ast.Node]nodeRef{}, whereAll: map[ast.Node][]nodeRef{}, preds: map[int32][]edge{},
		synthetic: map[ast.Node]bool{}, retMarker: map[ast.Node]bool{}, inlAt: map[ast.Node][]*InlSite{}, inlCall: map[*ast.CallExpr]bool{},
		rootBlock: map[*cfg.Block]bool{}, extraLocals: map[types.Object]bool{}, rangeBody: map[int32]map[int32]bool{}, preOf: map[ast.Node]nodeRef{}, blockCalls: map[*cfg.Block][]*ast.CallExpr{}}
	f.CFG = cfg.New(body, func(c *ast.CallExpr) bool { return !NoReturn(info, c) })
	f.expand(pkg)
	// variables assigned inside nested literals, and address-taken variables
	var inLit int
	// &x handed straight to a pure in-repo function with basic results is only read through: x keeps being a
	// variable nobody else can reach
	benign := map[*ast.UnaryExpr]bool{}
	for _, bd := range f.Bodies() {
		ast.Inspect(bd, func(n ast.Node) bool {
			call, ok := n.(*ast.CallExpr)
			if !ok {
				return true
			}
			fnc := StaticCallee(info, call)
			if fnc == nil || fnc.Pkg() == nil || !load.IsRepo(fnc.Pkg().Path()) || e.Sum == nil || !e.Sum.Pure[fnc.Origin()] {
				return true
			}
			res := fnc.Type().(*types.Signature).Results()
			for i := 0; i < res.Len(); i++ {
				if _, isBasic := res.At(i).Type().Underlying().(*types.Basic); !isBasic {
					return true
				}
			}
			for _, a := range call.Args {
				if u, ok := ast.Unparen(a).(*ast.UnaryExpr); ok && u.Op == token.AND {
					benign[u] = true
				}
			}
			return true
		})
	}
	var walk func(n ast.Node) bool
	walk = func(n ast.Node) bool {
		switch x := n.(type) {
		case *ast.FuncLit:
			inLit++
			ast.Inspect(x.Body, walk)
			inLit--
			return false
		case *ast.AssignStmt:
			if inLit > 0 {
				for _, l := range x.Lhs {
					if id, ok := ast.Unparen(l).(*ast.Ident); ok {
						if obj := info.ObjectOf(id); obj != nil && x.Tok != token.DEFINE {
							f.volatile[obj] = true
						} else if obj != nil && info.Defs[id] == nil {
							f.volatile[obj] = true
						}
					}
				}
			}
		case *ast.IncDecStmt:
			if inLit > 0 {
				if id, ok := ast.Unparen(x.X).(*ast.Ident); ok {
					if obj := info.ObjectOf(id); obj != nil {
						f.volatile[obj] = true
					}
				}
			}
		case *ast.UnaryExpr:
			if x.Op == token.AND && !benign[x] {
				if id, ok := ast.Unparen(x.X).(*ast.Ident); ok {
					if obj := info.ObjectOf(id); obj != nil {
						f.addrTaken[obj] = true
					}
				}
			}
		}
		return true
	}
	for _, bd := range f.Bodies() {
		ast.Inspect(bd, walk)
	}
	f.fresh = ownedFresh(info, f.Bodies())
	f.tsClause = map[*ast.CaseClause]*ast.TypeSwitchStmt{}
	for _, bd := range f.Bodies() {
		ast.Inspect(bd, func(n ast.Node) bool {
			if ts, ok := n.(*ast.TypeSwitchStmt); ok {
				for _, cl := range ts.Body.List {
					if cc, ok := cl.(*ast.CaseClause); ok {
						f.tsClause[cc] = ts
					}
				}
			}
			return true
		})
	}
	for _, b := range f.CFG.Blocks {
		if !b.Live {
			continue
		}
		for i, n := range b.Nodes {
			if _, dup := f.where[n]; !dup {
				f.where[n] = nodeRef{b, i}
			}
			f.whereAll[n] = append(f.whereAll[n], nodeRef{b, i})
		}
		for si, s := range b.Succs {
			f.preds[s.Index] = append(f.preds[s.Index], edge{b, si})
		}
	}
	// the blocks of each range loop's body (reachable from the body edge without passing the head)
	for _, h := range f.CFG.Blocks {
		if !h.Live || h.Kind != cfg.KindRangeLoop || len(h.Succs) != 2 {
			continue
		}
		in := map[int32]bool{}
		work := []*cfg.Block{h.Succs[0]}
		for len(work) > 0 {
			x := work[len(work)-1]
			work = work[:len(work)-1]
			if x == h || in[x.Index] {
				continue
			}
			in[x.Index] = true
			work = append(work, x.Succs...)
		}
		f.rangeBody[h.Index] = in
	}
	f.liveness()
	return f
}

// liveness computes, per block, the local variables whose value may still be
// read (used to drop facts about dead variables, which only weakens states).
func (f *Fn) liveness() {
	f.liveIn = map[int32]map[types.Object]bool{}
	f.locals = map[types.Object]bool{}
	use := map[int32]map[types.Object]bool{}
	// every local variable defined inside the body; parameters are kept always live
	// (those of expanded helpers are ordinary locals here)
	for _, bd := range f.Bodies() {
		ast.Inspect(bd, func(n ast.Node) bool {
			if id, ok := n.(*ast.Ident); ok {
				if v, ok := f.Info.Defs[id].(*types.Var); ok && !v.IsField() {
					f.locals[v] = true
				}
			}
			return true
		})
	}
	f.inlVars = map[types.Object]bool{}
	for obj := range f.extraLocals {
		f.locals[obj] = true
		f.inlVars[obj] = true
	}
	for _, fi := range f.bodies {
		ast.Inspect(fi.Decl.Body, func(n ast.Node) bool {
			if id, ok := n.(*ast.Ident); ok {
				if v, ok := f.Info.Defs[id].(*types.Var); ok && !v.IsField() {
					f.inlVars[v] = true
				}
			}
			return true
		})
	}
	for obj := range f.volatile {
		delete(f.locals, obj)
	}
	for obj := range f.addrTaken {
		delete(f.locals, obj)
	}
	// variables mentioned inside function literals or defers are always live
	for _, bd := range f.Bodies() {
		f.closureUses(bd)
	}
	f.livenessRest(use)
}

func (f *Fn) closureUses(body *ast.BlockStmt) {
	ast.Inspect(body, func(n ast.Node) bool {
		switch x := n.(type) {
		case *ast.FuncLit:
			ast.Inspect(x.Body, func(m ast.Node) bool {
				if id, ok := m.(*ast.Ident); ok {
					if obj := f.Info.Uses[id]; obj != nil {
						delete(f.locals, obj)
					}
				}
				return true
			})
			return false
		case *ast.DeferStmt:
			ast.Inspect(x, func(m ast.Node) bool {
				if id, ok := m.(*ast.Ident); ok {
					if obj := f.Info.Uses[id]; obj != nil {
						delete(f.locals, obj)
					}
				}
				return true
			})
			return false
		}
		return true
	})
}

func (f *Fn) livenessRest(use map[int32]map[types.Object]bool) {
	// kill[b]: the variables of expanded helpers (parameters, locals, result temporaries) that b
	// assigns before reading them. Only these get a precise liveness: they are bound afresh at every
	// expansion, so keeping them live across loop iterations would only pile up stale facts. The
	// function's own variables keep the use-based over-approximation (rules may ask about them late).
	kill := map[int32]map[types.Object]bool{}
	for _, b := range f.CFG.Blocks {
		if !b.Live {
			continue
		}
		u := map[types.Object]bool{}
		use[b.Index] = u
		defined := map[types.Object]bool{}
		kill[b.Index] = defined
		mark := func(obj types.Object) {
			if obj != nil && f.locals[obj] && !(f.inlVars[obj] && defined[obj]) {
				u[obj] = true
			}
		}
		for _, n := range b.Nodes {
			// a statement whose call was expanded reads the call's result temporaries
			for _, s := range f.inlAt[n] {
				for _, v := range s.Res {
					mark(v)
				}
			}
			pureDef := map[*ast.Ident]bool{}
			var defs []types.Object
			switch x := n.(type) {
			case *ast.AssignStmt:
				if x.Tok == token.ASSIGN || x.Tok == token.DEFINE {
					for _, l := range x.Lhs {
						if id, ok := l.(*ast.Ident); ok {
							if obj := f.Info.ObjectOf(id); obj != nil && f.inlVars[obj] {
								pureDef[id] = true
								defs = append(defs, obj)
							}
						}
					}
				}
			case *ast.ValueSpec:
				for _, id := range x.Names {
					if obj := f.Info.ObjectOf(id); obj != nil && f.inlVars[obj] {
						pureDef[id] = true
						defs = append(defs, obj)
					}
				}
			}
			ast.Inspect(n, func(m ast.Node) bool {
				if id, ok := m.(*ast.Ident); ok && !pureDef[id] {
					mark(f.Info.Uses[id])
				}
				return true
			})
			for _, obj := range defs {
				defined[obj] = true
			}
		}
		// a range statement reads its operand at the loop head
		if rs, ok := b.Stmt.(*ast.RangeStmt); ok && b.Kind == cfg.KindRangeLoop {
			ast.Inspect(rs.X, func(m ast.Node) bool {
				if id, ok := m.(*ast.Ident); ok {
					mark(f.Info.Uses[id])
				}
				return true
			})
		}
	}
	// live-in = use ∪ (live-out − kill); kill is empty for the function's own variables
	for changed := true; changed; {
		changed = false
		for i := len(f.CFG.Blocks) - 1; i >= 0; i-- {
			b := f.CFG.Blocks[i]
			if !b.Live {
				continue
			}
			li := f.liveIn[b.Index]
			if li == nil {
				li = map[types.Object]bool{}
				f.liveIn[b.Index] = li
			}
			for o := range use[b.Index] {
				if !li[o] {
					li[o] = true
					changed = true
				}
			}
			for _, s := range b.Succs {
				for o := range f.liveIn[s.Index] {
					if !li[o] && !kill[b.Index][o] {
						li[o] = true
						changed = true
					}
				}
			}
		}
	}
}

// dropDead removes facts that mention a local variable which is dead at the entry of b.
func (a *Analysis) dropDead(b *cfg.Block, st State) State {
	f := a.Fn
	if !st.Reachable() || a.KeepDead || a.fnKeepDead {
		return st
	}
	li := f.liveIn[b.Index]
	dead := func(t *Term) bool { return t.K == 'v' && t.Obj != nil && f.locals[t.Obj] && !li[t.Obj] }
	// only facts that are about dead variables alone (v op constant, boolean v):
	// relations between a dead variable and live terms may still connect live terms
	onlyDead := func(t *Term) bool {
		// every variable the term mentions is dead (fields, cells and calls over dead variables included)
		return !t.Mentions(func(s *Term) bool {
			switch s.K {
			case 'v':
				return !dead(s)
			case 'o':
				return true
			}
			return false
		})
	}
	// a dead variable known equal to another term is eliminated by substitution first,
	// so that what was learned through it (a helper's parameter, a result temporary) stays
	st = a.substDead(st, func(t *Term) bool { return dead(t) && f.inlVars[t.Obj] })
	// dead variables that are related to live terms by some atom are kept entirely
	related := map[types.Object]bool{}
	for _, d := range st.D {
		for _, l := range d.L {
			if !l.A.Mentions(dead) {
				continue
			}
			rel := false
			for _, t := range l.A.Terms() {
				if !onlyDead(t) {
					rel = true
				}
			}
			if rel {
				l.A.Mentions(func(t *Term) bool {
					if dead(t) {
						related[t.Obj] = true
					}
					return false
				})
			}
		}
	}
	return st.Kill(func(at *Atom) bool {
		if !at.Mentions(dead) {
			return false
		}
		if at.Mentions(func(t *Term) bool { return dead(t) && related[t.Obj] }) {
			return false
		}
		return true
	})
}

// substDead rewrites, disjunct by disjunct, every dead variable that has a known
// equal term into that term (live terms preferred).
func (a *Analysis) substDead(st State, dead func(*Term) bool) State {
	seen := map[types.Object]bool{}
	var objs []types.Object
	for _, d := range st.D {
		for _, l := range d.L {
			if l.A.Op != "eq" || l.Neg {
				continue
			}
			for _, t := range []*Term{l.A.L, l.A.R} {
				if dead(t) && !seen[t.Obj] {
					seen[t.Obj] = true
					objs = append(objs, t.Obj)
				}
			}
		}
	}
	if len(objs) == 0 {
		return st
	}
	sort.Slice(objs, func(i, j int) bool {
		if objs[i].Pos() != objs[j].Pos() {
			return objs[i].Pos() < objs[j].Pos()
		}
		return objs[i].Name() < objs[j].Name()
	})
	changed := false
	out := make([]*Disj, len(st.D))
	copy(out, st.D)
	for _, obj := range objs {
		vkey := Var(obj).key
		mentionsV := func(t *Term) bool { return t.Mentions(func(s *Term) bool { return s.K == 'v' && s.Obj == obj }) }
		for di, d := range out {
			if d == nil {
				continue
			}
			var repl *Term
			replLive := false
			for _, l := range d.L {
				if l.A.Op != "eq" || l.Neg {
					continue
				}
				var other *Term
				if l.A.L.key == vkey {
					other = l.A.R
				} else if l.A.R.key == vkey {
					other = l.A.L
				}
				if other == nil || mentionsV(other) || other.K == 'o' {
					continue
				}
				live := !other.Mentions(dead)
				if repl == nil || (live && !replLive) || (live == replLive && other.key < repl.key) {
					repl, replLive = other, live
				}
			}
			if repl == nil {
				continue
			}
			n := newDisj()
			ok := true
			for _, l := range d.L {
				if !l.A.Mentions(func(t *Term) bool { return t.K == 'v' && t.Obj == obj }) {
					n.L[l.A.key] = l
					continue
				}
				na := l.A.Subst(vkey, repl)
				fm := foldAtom(na)
				switch fm.Op {
				case 'T':
					if l.Neg {
						ok = false
					}
					continue
				case 'F':
					if !l.Neg {
						ok = false
					}
					continue
				}
				if !n.add(Lit{A: na, Neg: l.Neg}) {
					ok = false
				}
			}
			changed = true
			if ok && n.feasible() {
				out[di] = n
			} else {
				out[di] = nil
			}
		}
	}
	if !changed {
		return st
	}
	var res []*Disj
	for _, d := range out {
		if d != nil {
			res = append(res, d)
		}
	}
	if len(res) == 0 {
		return Unreachable()
	}
	return normalize(res)
}

// Locate finds the CFG node that contains the given AST node.
func (f *Fn) Locate(n ast.Node) (*cfg.Block, int, ast.Node, bool) {
	if r, ok := f.where[n]; ok {
		return r.b, r.idx, n, true
	}
	var best ast.Node
	var bref nodeRef
	for cn, r := range f.where {
		if f.synthetic[cn] {
			continue
		}
		if cn.Pos() <= n.Pos() && n.End() <= cn.End() {
			// skip if n is inside a function literal nested in cn (belongs to another Fn)
			if best == nil || (cn.End()-cn.Pos()) < (best.End()-best.Pos()) {
				best, bref = cn, r
			}
		}
	}
	if best == nil {
		// n is a composite statement (if/for/switch ...): take the first CFG node inside it
		for cn, r := range f.where {
			if f.synthetic[cn] {
				continue
			}
			if n.Pos() <= cn.Pos() && cn.End() <= n.End() {
				if best == nil || cn.Pos() < best.Pos() {
					best, bref = cn, r
				}
			}
		}
		if best == nil {
			return nil, 0, nil, false
		}
	}
	return bref.b, bref.idx, best, true
}

// locateStart is Locate for "start running just before n": when a call inside n was expanded,
// the evaluation of n starts at the bindings of that call, not where n itself now sits.
func (f *Fn) locateStart(n ast.Node) (*cfg.Block, int, ast.Node, bool) {
	b, idx, root, ok := f.Locate(n)
	if ok {
		if pre, have := f.preOf[root]; have {
			return pre.b, pre.idx, root, true
		}
	}
	return b, idx, root, ok
}

// Cond returns the branch condition of a two-successor block, if it has one.
func (f *Fn) Cond(b *cfg.Block) ast.Expr {
	if len(b.Succs) != 2 || len(b.Nodes) == 0 {
		return nil
	}
	if b.Kind == cfg.KindRangeLoop || b.Succs[0].Kind == cfg.KindSelectCaseBody || b.Succs[0].Kind == cfg.KindRangeBody {
		return nil
	}
	e, ok := b.Nodes[len(b.Nodes)-1].(ast.Expr)
	if !ok || !isBool(f.Info.TypeOf(e)) {
		return nil
	}
	return e
}

// ---------------------------------------------------------------------------

// Analysis is one fixpoint over a function, from its entry or from a node.
type Analysis struct {
	Fn       *Fn
	In       map[int32]State
	out      map[int32][]State
	startB   *cfg.Block
	startIdx int
	startSt  State
	startOut []State
	visits   map[int32]int
	// for range loops: the part of the loop head's in-state that comes from outside the loop
	// (first entry) and from inside (back edges), so that the exit edge of a first entry can assume an empty operand
	rangeEntry map[int32]State
	rangeBack  map[int32]State
	// StopAt: control does not continue past these CFG nodes (used for "before X" queries)
	StopAt map[ast.Node]bool
	// KeepDead keeps facts about dead local variables (for queries about them)
	KeepDead bool
	// cur: the expanded calls of the CFG node being evaluated
	cur []*InlSite
	// self-referential assignment being evaluated disjunct by disjunct, and the old value's equal term
	inSelfSplit bool
	cut         map[int32]bool        // blocks the analysis does not enter (FromCut)
	postFacts   map[ast.Node]*Formula // the function's PostFacts and KeepDead when the analysis was made (queries re-step lazily)
	fnKeepDead  bool
	selfPartner *Term
}

// Analyze runs from the function entry with an assumption (True for none).
func (f *Fn) Analyze(assume *Formula) *Analysis {
	a := &Analysis{Fn: f, postFacts: f.PostFacts, fnKeepDead: f.KeepDead, In: map[int32]State{}, out: map[int32][]State{}, visits: map[int32]int{}}
	init := TrueState()
	if assume != nil {
		init = init.Assume(assume)
	}
	a.run(f.CFG.Blocks[0], 0, init)
	return a
}

// From runs forward from just before the CFG node n with the given state.
func (f *Fn) From(n ast.Node, st State) *Analysis {
	b, idx, _, ok := f.locateStart(n)
	a := &Analysis{Fn: f, postFacts: f.PostFacts, fnKeepDead: f.KeepDead, In: map[int32]State{}, out: map[int32][]State{}, visits: map[int32]int{}}
	if !ok {
		return a
	}
	a.run(b, idx, st)
	return a
}

// FromAfterUntil runs forward from just after the CFG node containing n and
// does not continue past the CFG nodes containing any of the stop nodes.
func (f *Fn) FromAfterUntil(n ast.Node, st State, stops ...ast.Node) *Analysis {
	b, idx, _, ok := f.Locate(n)
	a := &Analysis{Fn: f, postFacts: f.PostFacts, fnKeepDead: f.KeepDead, In: map[int32]State{}, out: map[int32][]State{}, visits: map[int32]int{}, StopAt: map[ast.Node]bool{}}
	if !ok {
		return a
	}
	for _, s := range stops {
		if _, _, root, ok := f.Locate(s); ok {
			a.StopAt[root] = true
		}
	}
	a.run(b, idx+1, st)
	return a
}

// FromUntil runs forward from just before the CFG node containing n and does
// not continue past the CFG nodes containing any of the stop nodes.
func (f *Fn) FromUntil(n ast.Node, st State, stops ...ast.Node) *Analysis {
	b, idx, _, ok := f.locateStart(n)
	a := &Analysis{Fn: f, postFacts: f.PostFacts, fnKeepDead: f.KeepDead, In: map[int32]State{}, out: map[int32][]State{}, visits: map[int32]int{}, StopAt: map[ast.Node]bool{}}
	if !ok {
		return a
	}
	for _, s := range stops {
		if _, _, root, ok := f.Locate(s); ok {
			a.StopAt[root] = true
		}
	}
	a.run(b, idx, st)
	return a
}

// FromCut runs forward from just before n and does not enter the given blocks: with a loop's head cut, the facts
// are those of the one iteration the analysis was started in (an assumption made at the start is not diluted by
// later iterations).
func (f *Fn) FromCut(n ast.Node, st State, cut ...*cfg.Block) *Analysis {
	b, idx, _, ok := f.locateStart(n)
	a := &Analysis{Fn: f, postFacts: f.PostFacts, fnKeepDead: f.KeepDead, In: map[int32]State{}, out: map[int32][]State{}, visits: map[int32]int{}, cut: map[int32]bool{}}
	if !ok {
		return a
	}
	for _, c := range cut {
		if c != nil {
			a.cut[c.Index] = true
		}
	}
	a.run(b, idx, st)
	return a
}

// FromBlock runs forward from the entry of block b with the given state (e.g. the state on one outgoing edge of a test).
func (f *Fn) FromBlock(b *cfg.Block, st State) *Analysis {
	a := &Analysis{Fn: f, postFacts: f.PostFacts, fnKeepDead: f.KeepDead, In: map[int32]State{}, out: map[int32][]State{}, visits: map[int32]int{}}
	a.run(b, 0, st)
	return a
}

// ImplicitReturn returns the synthetic return statement go/cfg appends when
// control can fall off the end of the body (nil if there is none).
func (f *Fn) ImplicitReturn() *ast.ReturnStmt {
	real := map[*ast.ReturnStmt]bool{}
	ast.Inspect(f.Body, func(n ast.Node) bool {
		if r, ok := n.(*ast.ReturnStmt); ok {
			real[r] = true
		}
		return true
	})
	for _, b := range f.CFG.Blocks {
		if !b.Live || len(b.Nodes) == 0 || !f.IsRootBlock(b) {
			continue
		}
		if r, ok := b.Nodes[len(b.Nodes)-1].(*ast.ReturnStmt); ok && !real[r] {
			return r
		}
	}
	return nil
}

// BlockOf returns the CFG block holding the node containing n.
func (f *Fn) BlockOf(n ast.Node) *cfg.Block {
	b, _, _, ok := f.Locate(n)
	if !ok {
		return nil
	}
	return b
}

// Reentered reports whether the block containing n is entered (again) by
// propagation, i.e. through some edge, not merely as the starting point.
func (a *Analysis) Reentered(n ast.Node) bool {
	b := a.Fn.BlockOf(n)
	if b == nil {
		return false
	}
	in, ok := a.In[b.Index]
	return ok && in.Reachable()
}

// BlockReached reports whether block b is entered by propagation.
func (a *Analysis) BlockReached(b *cfg.Block) bool {
	in, ok := a.In[b.Index]
	return ok && in.Reachable()
}

// FromAfter runs forward from just after the CFG node containing n.
func (f *Fn) FromAfter(n ast.Node, st State) *Analysis {
	b, idx, _, ok := f.Locate(n)
	a := &Analysis{Fn: f, postFacts: f.PostFacts, fnKeepDead: f.KeepDead, In: map[int32]State{}, out: map[int32][]State{}, visits: map[int32]int{}}
	if !ok {
		return a
	}
	a.run(b, idx+1, st)
	return a
}

func (a *Analysis) run(start *cfg.Block, idx int, init State) {
	f := a.Fn
	a.startB, a.startIdx, a.startSt = start, idx, init
	a.startOut = a.flowBlock(start, idx, init)
	work := []*cfg.Block{}
	inWork := map[int32]bool{}
	push := func(b *cfg.Block) {
		if !inWork[b.Index] {
			inWork[b.Index] = true
			work = append(work, b)
		}
	}
	for _, s := range start.Succs {
		push(s)
	}
	for len(work) > 0 {
		// lowest index first approximates reverse post-order well enough for go/cfg's numbering
		sort.Slice(work, func(i, j int) bool { return work[i].Index < work[j].Index })
		b := work[0]
		work = work[1:]
		inWork[b.Index] = false
		if a.cut[b.Index] {
			continue
		}
		in := Unreachable()
		inEntry, inBack := Unreachable(), Unreachable()
		rs, isRange := b.Stmt.(*ast.RangeStmt)
		isRange = isRange && b.Kind == cfg.KindRangeLoop
		for _, e := range f.preds[b.Index] {
			contrib := Unreachable()
			if outs, ok := a.out[e.from.Index]; ok && e.succ < len(outs) {
				contrib = Join(contrib, outs[e.succ])
			}
			if e.from == start && e.succ < len(a.startOut) {
				contrib = Join(contrib, a.startOut[e.succ])
			}
			in = Join(in, contrib)
			if isRange {
				_ = rs
				if f.rangeBody[b.Index][e.from.Index] {
					inBack = Join(inBack, contrib)
				} else {
					inEntry = Join(inEntry, contrib)
				}
			}
		}
		splitChanged := false
		if isRange {
			if a.rangeEntry == nil {
				a.rangeEntry, a.rangeBack = map[int32]State{}, map[int32]State{}
			}
			if a.rangeEntry[b.Index].Key() != inEntry.Key() || a.rangeBack[b.Index].Key() != inBack.Key() {
				splitChanged = true
			}
			a.rangeEntry[b.Index], a.rangeBack[b.Index] = inEntry, inBack
		}
		in = a.scopeExit(b, in)
		in = a.dropDead(b, in)
		a.visits[b.Index]++
		if old, ok := a.In[b.Index]; ok {
			if a.visits[b.Index] > 24 {
				in = Join(old, in).Collapse()
			} else if a.visits[b.Index] > 6 {
				in = Join(old, in)
			}
			if old.Key() == in.Key() && !splitChanged {
				continue
			}
		}
		a.In[b.Index] = in
		outs := a.flowBlock(b, 0, in)
		prev := a.out[b.Index]
		a.out[b.Index] = outs
		for i, s := range b.Succs {
			if i >= len(prev) || prev[i].Key() != outs[i].Key() {
				push(s)
			}
		}
	}
}

func (a *Analysis) visitsOf(b *cfg.Block) int { return a.visits[b.Index] }

// scopeExit drops facts about variables whose scope ends when control reaches
// the done-block of the statement that declared them (they are dead there).
func (a *Analysis) scopeExit(b *cfg.Block, st State) State {
	if !st.Reachable() || a.Fn.KeepDead {
		return st
	}
	f := a.Fn
	var init ast.Stmt
	var extra []ast.Expr
	switch b.Kind {
	case cfg.KindForDone:
		if s, ok := b.Stmt.(*ast.ForStmt); ok {
			init = s.Init
		}
	case cfg.KindIfDone:
		if s, ok := b.Stmt.(*ast.IfStmt); ok {
			init = s.Init
		}
	case cfg.KindSwitchDone:
		if s, ok := b.Stmt.(*ast.SwitchStmt); ok {
			init = s.Init
		}
	case cfg.KindRangeDone:
		if s, ok := b.Stmt.(*ast.RangeStmt); ok && s.Tok == token.DEFINE {
			extra = append(extra, s.Key, s.Value)
		}
	}
	dead := map[types.Object]bool{}
	if as, ok := init.(*ast.AssignStmt); ok && as.Tok == token.DEFINE {
		for _, l := range as.Lhs {
			if id, ok := l.(*ast.Ident); ok {
				if obj := f.Info.Defs[id]; obj != nil {
					dead[obj] = true
				}
			}
		}
	}
	for _, e := range extra {
		if id, ok := e.(*ast.Ident); ok && id != nil {
			if obj := f.Info.Defs[id]; obj != nil {
				dead[obj] = true
			}
		}
	}
	if len(dead) == 0 {
		return st
	}
	// substitute-on-kill, so that facts learned through a scoped variable
	// (`if ref := f(x); ref != nil && ...`) survive as facts about f(x)
	var objs []types.Object
	for obj := range dead {
		objs = append(objs, obj)
	}
	sort.Slice(objs, func(i, j int) bool { return objs[i].Pos() < objs[j].Pos() })
	for _, obj := range objs {
		st = a.killVar(st, obj)
	}
	return st
}

// flowBlock pushes a state through the nodes of b from index idx and returns
// the state on each outgoing edge.
func (a *Analysis) flowBlock(b *cfg.Block, idx int, st State) []State {
	f := a.Fn
	cond := f.Cond(b)
	n := len(b.Nodes)
	for i := idx; i < n; i++ {
		if cond != nil && i == n-1 {
			break
		}
		st = a.step(st, b.Nodes[i])
	}
	outs := make([]State, len(b.Succs))
	switch {
	case cond != nil:
		st = a.enter(st, cond)
		if idx <= n-1 {
			st = a.callKills(st, cond)
		}
		fm := a.formula(cond)
		a.cur = nil
		// whatever the outcome, the left-most operand chain was evaluated: the pointers it went through are non-nil
		st = st.Assume(derefFacts(fm))
		outs[0] = a.clean(st.Assume(fm))
		outs[1] = a.clean(st.Assume(Not(fm)))
	case b.Kind == cfg.KindRangeLoop && len(b.Succs) == 2:
		rs, _ := b.Stmt.(*ast.RangeStmt)
		body, done := st, st
		if rs != nil {
			body = a.rangeEnter(st, rs)
			done = a.rangeKill(st, rs)
			// a first entry leaves the loop at once only if the operand is empty
			if ent, ok := a.rangeEntry[b.Index]; ok && a.visitsOf(b) > 0 {
				if xt := f.Info.TypeOf(rs.X); xt != nil {
					switch xt.Underlying().(type) {
					case *types.Slice, *types.Map, *types.Array:
						empty := FEq(LenOf(f.Eng.Canon.Term(f.Info, rs.X)), ConstInt(0))
						done = Join(a.rangeKill(a.dropDead(b, a.scopeExit(b, ent)).Assume(empty), rs), a.rangeKill(a.dropDead(b, a.scopeExit(b, a.rangeBack[b.Index])), rs))
					}
				}
			}
		}
		outs[0], outs[1] = body, done
	default:
		for i := range outs {
			outs[i] = st
		}
		// a type switch test (go/cfg issues the two edges without a condition node):
		// towards the case body the dynamic type is one of the listed types, towards the next test none of them
		if len(b.Succs) == 2 && b.Succs[0].Kind == cfg.KindSwitchCaseBody {
			if cc, ok := b.Succs[0].Stmt.(*ast.CaseClause); ok && cc.List != nil {
				if ts := f.tsClause[cc]; ts != nil {
					if x := typeSwitchOperand(ts); x != nil {
						xt := a.term(x)
						if f.Eng.Canon.PureTerm(xt) {
							var is []*Formula
							nilCase := false
							for _, te := range cc.List {
								if tv, ok := f.Info.Types[te]; ok && tv.IsNil() {
									nilCase = true
									is = append(is, FNil(xt))
									continue
								}
								is = append(is, FBool(TypeIs(xt, f.Info.TypeOf(te))))
							}
							_ = nilCase
							yes := st.Assume(Or(is...))
							// the clause variable is the asserted value
							if len(cc.List) == 1 {
								if v, ok := f.Info.Implicits[cc].(*types.Var); ok && !f.volatile[v] {
									if tv, ok := f.Info.Types[cc.List[0]]; !ok || !tv.IsNil() {
										yes = a.killVar(yes, v)
										yes = yes.Assume(FEq(Var(v), mk('t', types.TypeString(f.Info.TypeOf(cc.List[0]), nil), nil, f.Info.TypeOf(cc.List[0]), xt)))
									}
								}
							}
							outs[0] = a.clean(yes)
							outs[1] = a.clean(st.Assume(Not(Or(is...))))
						}
					}
				}
			}
		}
	}
	return outs
}

// TypeIs is the boolean term "the dynamic type of x is t".
func TypeIs(x *Term, t types.Type) *Term {
	return mk('k', "typeis:"+types.TypeString(t, nil), nil, types.Typ[types.Bool], x)
}

func typeSwitchOperand(ts *ast.TypeSwitchStmt) ast.Expr {
	var e ast.Expr
	switch a := ts.Assign.(type) {
	case *ast.AssignStmt:
		if len(a.Rhs) == 1 {
			e = a.Rhs[0]
		}
	case *ast.ExprStmt:
		e = a.X
	}
	if ta, ok := ast.Unparen(e).(*ast.TypeAssertExpr); ok {
		return ta.X
	}
	return nil
}

func (a *Analysis) rangeKill(st State, rs *ast.RangeStmt) State {
	if id, ok := rs.Key.(*ast.Ident); rs.Key == nil || (ok && id.Name == "_") {
		if iv, have := a.Fn.Eng.rangeIdx[rs]; have {
			st = a.killVar(st, iv)
		}
	}
	for _, e := range []ast.Expr{rs.Key, rs.Value} {
		if e == nil {
			continue
		}
		st = a.killLHS(st, e)
	}
	return st
}

func (a *Analysis) rangeEnter(st State, rs *ast.RangeStmt) State {
	f := a.Fn
	st = a.rangeKill(st, rs)
	xt := f.Info.TypeOf(rs.X)
	if xt == nil {
		return st
	}
	var kt *Term
	if id, ok := rs.Key.(*ast.Ident); ok && id.Name != "_" {
		if obj := f.Info.ObjectOf(id); obj != nil && !f.volatile[obj] {
			kt = Var(obj)
		}
	} else if rs.Key == nil || ok {
		// `for _, v := range xs`: the position still exists, it just has no name in the source
		switch xt.Underlying().(type) {
		case *types.Slice, *types.Array:
			kt = Var(f.Eng.rangeIndex(rs))
		}
	}
	switch xt.Underlying().(type) {
	case *types.Slice, *types.Array, *types.Basic:
		if kt != nil && isIntegerType(kt.Typ) {
			x := f.Eng.Canon.Term(f.Info, rs.X)
			st = st.Assume(And(FGe(kt, ConstInt(0)), FLt(kt, LenOf(x))))
			if vid, ok := rs.Value.(*ast.Ident); ok && vid.Name != "_" {
				if vo := f.Info.ObjectOf(vid); vo != nil && !f.volatile[vo] && !isBool(vo.Type()) {
					st = st.Assume(FEq(Var(vo), IndexOf(x, kt, vo.Type())))
				}
			}
		}
	}
	return a.clean(st)
}

// rangeIndex returns the unnamed position variable of a range statement without a key.
func (e *Engine) rangeIndex(rs *ast.RangeStmt) *types.Var {
	if e.rangeIdx == nil {
		e.rangeIdx = map[*ast.RangeStmt]*types.Var{}
	}
	if v, ok := e.rangeIdx[rs]; ok {
		return v
	}
	v := types.NewVar(rs.Pos(), nil, fmt.Sprintf("ι@%d", e.Prog.Fset.Position(rs.Pos()).Line), types.Typ[types.Int])
	e.rangeIdx[rs] = v
	return v
}

// RangeIndex exposes the position variable of a key-less range loop to rules.
func (e *Engine) RangeIndex(rs *ast.RangeStmt) *types.Var { return e.rangeIndex(rs) }

// clean drops atoms over volatile variables (assigned inside closures).
func (a *Analysis) clean(st State) State {
	f := a.Fn
	if len(f.volatile) == 0 {
		return st
	}
	return st.Kill(func(at *Atom) bool {
		return at.Mentions(func(t *Term) bool { return t.K == 'v' && t.Obj != nil && f.volatile[t.Obj] })
	})
}

// derefFacts: for the always-evaluated part of a condition (the left-most
// operand chain of && / ||), every pointer a field was selected through is
// non-nil afterwards (otherwise the evaluation would have panicked).
func derefFacts(f *Formula) *Formula {
	for f.Op == '&' || f.Op == '|' || f.Op == '!' {
		f = f.Sub[0]
	}
	if f.Op != 'A' {
		return True
	}
	var out []*Formula
	seen := map[string]bool{}
	for _, t := range f.Atom.Terms() {
		t.Mentions(func(s *Term) bool {
			if s.K == 'f' && len(s.A) == 1 && s.A[0].Typ != nil {
				if _, isPtr := s.A[0].Typ.Underlying().(*types.Pointer); isPtr && !seen[s.A[0].key] && (s.A[0].K == 'i' || derefVars && s.A[0].K == 'v' && s.A[0].Obj != nil) {
					// slice cells and variables (a helper's parameter standing for a slice cell of the caller)
					seen[s.A[0].key] = true
					out = append(out, FNotNil(s.A[0]))
				}
			}
			return false
		})
	}
	return And(out...)
}

// StateBefore returns the facts just before the CFG node containing n.
func (a *Analysis) StateBefore(n ast.Node) State {
	b, idx, root, ok := a.Fn.Locate(n)
	if !ok {
		return Unreachable()
	}
	res := a.stateAt(b, idx)
	// a node of a helper expanded at several call sites: all its instances
	if all := a.Fn.whereAll[root]; len(all) > 1 {
		for _, r := range all[1:] {
			res = Join(res, a.stateAt(r.b, r.idx))
		}
	}
	return res
}

func (a *Analysis) stateAt(b *cfg.Block, idx int) State {
	res := Unreachable()
	if in, ok := a.In[b.Index]; ok {
		st := in
		for i := 0; i < idx; i++ {
			st = a.step(st, b.Nodes[i])
		}
		res = st
	}
	if b == a.startB && idx >= a.startIdx {
		st := a.startSt
		for i := a.startIdx; i < idx; i++ {
			st = a.step(st, b.Nodes[i])
		}
		res = Join(res, st)
	}
	return res
}

// StateAfter returns the facts just after the CFG node containing n.
func (a *Analysis) StateAfter(n ast.Node) State {
	b, idx, root, ok := a.Fn.Locate(n)
	if !ok {
		return Unreachable()
	}
	res := a.stateAt(b, idx+1)
	if all := a.Fn.whereAll[root]; len(all) > 1 {
		for _, r := range all[1:] {
			res = Join(res, a.stateAt(r.b, r.idx+1))
		}
	}
	return res
}

// Reached reports whether the CFG node containing n is reachable in this analysis.
func (a *Analysis) Reached(n ast.Node) bool {
	return a.StateBefore(n).Reachable()
}

// EdgeStates returns the states on the outgoing edges of block b.
func (a *Analysis) EdgeStates(b *cfg.Block) []State {
	outs := make([]State, len(b.Succs))
	if o, ok := a.out[b.Index]; ok {
		copy(outs, o)
	}
	if b == a.startB {
		for i := range outs {
			if i < len(a.startOut) {
				outs[i] = Join(outs[i], a.startOut[i])
			}
		}
	}
	return outs
}

// StateAtExpr returns the facts at the evaluation of expression e, including
// the short-circuit context inside its enclosing condition.
func (a *Analysis) StateAtExpr(e ast.Expr) State {
	b, idx, root, ok := a.Fn.Locate(e)
	if !ok {
		return Unreachable()
	}
	st := a.stateAt(b, idx)
	st = a.enter(st, root)
	defer func() { a.cur = nil }()
	return a.descend(st, root, e)
}

// StatesAtExpr is StateAtExpr for every occurrence of e: an expression inside a helper expanded at
// several call sites is evaluated once per site.
func (a *Analysis) StatesAtExpr(e ast.Expr) []State {
	_, _, root, ok := a.Fn.Locate(e)
	if !ok {
		return nil
	}
	refs := a.Fn.whereAll[root]
	if len(refs) <= 1 {
		return []State{a.StateAtExpr(e)}
	}
	var out []State
	for _, r := range refs {
		st := a.stateAt(r.b, r.idx)
		st = a.enter(st, root)
		out = append(out, a.descend(st, root, e))
		a.cur = nil
	}
	return out
}

func contains(outer, inner ast.Node) bool {
	return outer.Pos() <= inner.Pos() && inner.End() <= outer.End()
}

func (a *Analysis) descend(st State, n ast.Node, target ast.Expr) State {
	for n != target {
		switch x := n.(type) {
		case *ast.BinaryExpr:
			if x.Op == token.LAND || x.Op == token.LOR {
				if contains(x.X, target) {
					n = x.X
					continue
				}
				st = a.callKills(st, x.X)
				fm := a.formula(x.X)
				if x.Op == token.LOR {
					fm = Not(fm)
				}
				st = st.Assume(fm)
				n = x.Y
				continue
			}
		case *ast.AssignStmt:
			// `v := cond-expression`: descend into the right-hand side
		}
		var child ast.Node
		ast.Inspect(n, func(c ast.Node) bool {
			if c == nil || c == n || child != nil {
				return c == n
			}
			if contains(c, target) {
				child = c
			}
			return false
		})
		if child == nil {
			return st
		}
		n = child
	}
	return st
}

// ---------------------------------------------------------------------------
// transfer functions

func (a *Analysis) term(e ast.Expr) *Term {
	t := a.Fn.Eng.Canon.Term(a.Fn.Info, e)
	for _, s := range a.cur {
		if len(s.Res) == 1 && !a.sitePure(s) {
			ct := a.Fn.Eng.Canon.Term(a.Fn.Info, s.Call)
			t = t.Subst(ct.key, Var(s.Res[0]))
		}
	}
	return t
}

func (a *Analysis) formula(e ast.Expr) *Formula {
	fm := a.Fn.Eng.Canon.Formula(a.Fn.Info, e)
	for _, s := range a.cur {
		if len(s.Res) == 1 && !a.sitePure(s) {
			ct := a.Fn.Eng.Canon.Term(a.Fn.Info, s.Call)
			fm = substFormula(fm, ct.key, Var(s.Res[0]))
		}
	}
	return fm
}

// sitePure: the expanded call is a pure term (then it stays in facts as a term, known equal to its result temporary).
func (a *Analysis) sitePure(s *InlSite) bool {
	if !s.pureSet {
		s.pureSet = true
		ct := a.Fn.Eng.Canon.Term(a.Fn.Info, s.Call)
		s.Pure = a.Fn.Eng.Canon.PureTerm(ct)
	}
	return s.Pure
}

func substFormula(f *Formula, from string, to *Term) *Formula {
	switch f.Op {
	case 'A':
		if !f.Atom.Mentions(func(t *Term) bool { return t.key == from }) {
			return f
		}
		return foldAtom(f.Atom.Subst(from, to))
	case 'T', 'F':
		return f
	}
	subs := make([]*Formula, len(f.Sub))
	for i, s := range f.Sub {
		subs[i] = substFormula(s, from, to)
	}
	switch f.Op {
	case '&':
		return And(subs...)
	case '|':
		return Or(subs...)
	case '!':
		return Not(subs[0])
	}
	return f
}

// enter prepares the evaluation of CFG node n: the result temporaries of the
// calls expanded before it stand for those calls.
func (a *Analysis) enter(st State, n ast.Node) State {
	a.cur = a.Fn.inlAt[n]
	for _, s := range a.cur {
		if len(s.Res) != 1 || !a.sitePure(s) || !st.Reachable() {
			continue
		}
		rv := Var(s.Res[0])
		if isBool(s.Res[0].Type()) {
			fm := a.Fn.Eng.Canon.Formula(a.Fn.Info, s.Call)
			st = Join(st.Assume(And(fm, FBool(rv))), st.Assume(And(Not(fm), Not(FBool(rv)))))
		} else {
			st = st.Assume(FEq(a.Fn.Eng.Canon.Term(a.Fn.Info, s.Call), rv))
		}
	}
	return st
}

// Term / Formula expose canonicalisation in the function's package.
func (f *Fn) Term(e ast.Expr) *Term       { return f.Eng.Canon.Term(f.Info, e) }
func (f *Fn) Formula(e ast.Expr) *Formula { return f.Eng.Canon.Formula(f.Info, e) }

func (a *Analysis) step(st State, n ast.Node) State {
	if !st.Reachable() {
		return st
	}
	if a.StopAt[n] {
		return Unreachable()
	}
	if a.Fn.retMarker[n] {
		return st // the return of an expanded helper: its results are stored by the nodes that follow
	}
	st = a.enter(st, n)
	defer func() { a.cur = nil }()
	if derefStmts {
		st = st.Assume(a.derefsIn(n))
	}
	switch x := n.(type) {
	case *ast.AssignStmt:
		st = a.callKills(st, x)
		if len(x.Lhs) == len(x.Rhs) && len(x.Lhs) == 1 {
			st = a.assign(st, x.Lhs[0], x.Rhs[0], x.Tok)
		} else if len(x.Lhs) == len(x.Rhs) && len(x.Lhs) > 1 && (x.Tok == token.ASSIGN || x.Tok == token.DEFINE) {
			// a, b = e1, e2: the right-hand sides are evaluated first
			rts := make([]*Term, len(x.Rhs))
			for i, r := range x.Rhs {
				if !isBool(a.Fn.Info.TypeOf(r)) {
					if t := a.term(r); t != nil && a.Fn.Eng.Canon.PureTerm(t) {
						rts[i] = t
					}
				}
			}
			var lts []*Term
			for _, l := range x.Lhs {
				st = a.killLHS(st, l)
				if id, ok := ast.Unparen(l).(*ast.Ident); ok && id.Name != "_" {
					if obj := a.Fn.Info.ObjectOf(id); obj != nil && !a.Fn.volatile[obj] {
						lts = append(lts, Var(obj))
						continue
					}
				}
				lts = append(lts, nil)
			}
			for i, rt := range rts {
				if rt == nil || lts[i] == nil || !st.Reachable() {
					continue
				}
				clash := false
				for _, lt := range lts {
					if lt != nil && rt.Mentions(func(s *Term) bool { return s.key == lt.key }) {
						clash = true
					}
				}
				if !clash {
					st = st.Assume(FEq(lts[i], rt))
				}
			}
		} else if ta := commaOkAssert(x); ta != nil {
			// v, ok := x.(T): ok tells the dynamic type, and v is the asserted value when ok
			xt := a.term(ta.X)
			tt := a.Fn.Info.TypeOf(ta.Type)
			for _, l := range x.Lhs {
				st = a.killLHS(st, l)
			}
			if st.Reachable() && a.Fn.Eng.Canon.PureTerm(xt) && tt != nil {
				is := FBool(TypeIs(xt, tt))
				yes, no := st.Assume(is), st.Assume(Not(is))
				if okID, isID := ast.Unparen(x.Lhs[1]).(*ast.Ident); isID && okID.Name != "_" {
					if oo := a.Fn.Info.ObjectOf(okID); oo != nil && !a.Fn.volatile[oo] {
						yes, no = yes.Assume(FBool(Var(oo))), no.Assume(Not(FBool(Var(oo))))
					}
				}
				if vID, isID := ast.Unparen(x.Lhs[0]).(*ast.Ident); isID && vID.Name != "_" {
					if vo := a.Fn.Info.ObjectOf(vID); vo != nil && !a.Fn.volatile[vo] && !xt.Mentions(func(s *Term) bool { return s.K == 'v' && s.Obj == vo }) {
						yes = yes.Assume(FEq(Var(vo), mk('t', types.TypeString(tt, nil), nil, tt, xt)))
						if z := zeroFormula(Var(vo)); z != nil {
							no = no.Assume(z)
						}
					}
				}
				st = Join(yes, no)
			}
		} else if s := a.tupleSite(x); s != nil {
			// v1, v2 := helper(...) with the helper expanded: each variable takes its result temporary
			for k, l := range x.Lhs {
				st = a.assign(st, l, s.ResID[k], x.Tok)
			}
		} else {
			// a, b := g(...) with g a pure in-repo function: each variable is that result of the call
			var ct *Term
			if call, isCall := ast.Unparen(x.Rhs[0]).(*ast.CallExpr); isCall && len(x.Rhs) == 1 && len(x.Lhs) > 1 && !a.Fn.inlCall[call] {
				if g := StaticCallee(a.Fn.Info, call); g != nil && g.Pkg() != nil && load.IsRepo(g.Pkg().Path()) {
					if t := a.term(call); t != nil && t.K == 'k' && t.Fn != nil && a.Fn.Eng.Canon.PureTerm(t) {
						ct = t
					}
				}
			}
			// v, ok := m[k]: v is m[k] (the zero value for an absent key), and without ok it is the zero value
			var mapIx *Term
			if ix, isIx := ast.Unparen(x.Rhs[0]).(*ast.IndexExpr); isIx && len(x.Rhs) == 1 && len(x.Lhs) == 2 {
				if _, isMap := a.Fn.Info.TypeOf(ix.X).Underlying().(*types.Map); isMap {
					if t := a.term(ix); t != nil && a.Fn.Eng.Canon.PureTerm(t) {
						mapIx = t
					}
				}
			}
			for _, l := range x.Lhs {
				st = a.killLHS(st, l)
			}
			if mapIx != nil && st.Reachable() {
				vid, isV := ast.Unparen(x.Lhs[0]).(*ast.Ident)
				oid, isO := ast.Unparen(x.Lhs[1]).(*ast.Ident)
				var vo, oo types.Object
				if isV && vid.Name != "_" {
					vo = a.Fn.Info.ObjectOf(vid)
				}
				if isO && oid.Name != "_" {
					oo = a.Fn.Info.ObjectOf(oid)
				}
				mentions := func(o types.Object) bool {
					return o != nil && mapIx.Mentions(func(s *Term) bool { return s.K == 'v' && s.Obj == o })
				}
				if vo != nil && !a.Fn.volatile[vo] && !mentions(vo) {
					st = st.Assume(FEq(Var(vo), mapIx))
				}
				if oo != nil && !a.Fn.volatile[oo] && !mentions(oo) {
					mt, _ := a.Fn.Info.TypeOf(ast.Unparen(x.Rhs[0]).(*ast.IndexExpr).X).Underlying().(*types.Map)
					if z := zeroFormulaOf(mapIx, mt.Elem()); z != nil {
						st = Join(st.Assume(FBool(Var(oo))), st.Assume(And(Not(FBool(Var(oo))), z)))
					}
				}
			}
			if ct != nil && st.Reachable() {
				for k, l := range x.Lhs {
					id, isID := ast.Unparen(l).(*ast.Ident)
					if !isID || id.Name == "_" {
						continue
					}
					obj := a.Fn.Info.ObjectOf(id)
					if obj == nil || a.Fn.volatile[obj] || ct.Mentions(func(s *Term) bool { return s.K == 'v' && s.Obj == obj }) {
						continue
					}
					st = st.Assume(FEq(Var(obj), ProjOf(ct, k, obj.Type())))
				}
			}
			// v, ok := x.(T) / m[k] / <-ch : nothing is learned
		}
	case *ast.IncDecStmt:
		st = a.callKills(st, x)
		st = a.incdec(st, x)
	case *ast.ValueSpec:
		st = a.callKills(st, x)
		for i, name := range x.Names {
			if len(x.Values) == len(x.Names) {
				st = a.assign(st, name, x.Values[i], token.DEFINE)
			} else if len(x.Values) == 0 {
				st = a.killLHS(st, name)
				if obj := a.Fn.Info.ObjectOf(name); obj != nil && !a.Fn.volatile[obj] && !a.Fn.addrTaken[obj] {
					if z := zeroFormula(Var(obj)); z != nil {
						st = st.Assume(z)
					}
				}
			} else {
				st = a.killLHS(st, name)
			}
		}
	case *ast.DeferStmt:
		// arguments are evaluated now, the call runs at exit: no kills here
	case *ast.GoStmt:
		st = a.callKills(st, x)
	case *ast.Ident:
		// range key/value markers
	default:
		st = a.callKills(st, n)
	}
	if pf, ok := a.postFacts[n]; ok && st.Reachable() {
		st = st.Assume(pf)
	}
	return a.clean(st)
}

// commaOkAssert: the statement is `v, ok := x.(T)` (or with =).
func commaOkAssert(x *ast.AssignStmt) *ast.TypeAssertExpr {
	if len(x.Lhs) != 2 || len(x.Rhs) != 1 {
		return nil
	}
	ta, ok := ast.Unparen(x.Rhs[0]).(*ast.TypeAssertExpr)
	if !ok || ta.Type == nil {
		return nil
	}
	return ta
}

// tupleSite: the statement assigns the results of one expanded call.
func (a *Analysis) tupleSite(x *ast.AssignStmt) *InlSite {
	if len(x.Rhs) != 1 {
		return nil
	}
	call, ok := ast.Unparen(x.Rhs[0]).(*ast.CallExpr)
	if !ok {
		return nil
	}
	for _, s := range a.cur {
		if s.Call == call && len(s.Res) == len(x.Lhs) {
			return s
		}
	}
	return nil
}

func zeroFormula(v *Term) *Formula { return zeroFormulaOf(v, v.Typ) }

// zeroFormulaOf: v has the zero value of type t.
func zeroFormulaOf(v *Term, t types.Type) *Formula {
	if t == nil {
		return nil
	}
	switch u := t.Underlying().(type) {
	case *types.Pointer, *types.Slice, *types.Map, *types.Interface, *types.Signature, *types.Chan:
		return FNil(v)
	case *types.Basic:
		switch {
		case u.Info()&types.IsInteger != 0:
			return FEq(v, ConstInt(0))
		case u.Info()&types.IsString != 0:
			return FEq(v, ConstStr(""))
		case u.Info()&types.IsBoolean != 0:
			return Not(FBool(v))
		}
	}
	return nil
}

func (a *Analysis) mentionsVar(obj types.Object) func(*Atom) bool {
	return func(at *Atom) bool {
		return at.Mentions(func(t *Term) bool { return t.K == 'v' && t.Obj == obj })
	}
}

// killVar removes facts about a variable, after rewriting them over a known
// equal expression where one exists (substitute-on-kill).
func (a *Analysis) killVar(st State, obj types.Object) State {
	if !st.Reachable() {
		return st
	}
	vkey := Var(obj).key
	var out []*Disj
	for _, d := range st.D {
		var repl *Term
		for _, l := range d.L {
			if l.A.Op == "eq" && !l.Neg {
				var other *Term
				if l.A.L.key == vkey {
					other = l.A.R
				} else if l.A.R.key == vkey {
					other = l.A.L
				}
				if other != nil && !other.Mentions(func(t *Term) bool { return t.K == 'v' && t.Obj == obj }) && other.K != 'o' {
					if repl == nil || other.key < repl.key {
						repl = other
					}
				}
			}
		}
		n := newDisj()
		ok := true
		// terms t that mention the dying variable and are known equal to a term x that does not:
		// facts about t are carried over to x before they are dropped
		type alias struct{ t, x *Term }
		var aliases []alias
		if repl == nil {
			mentionsV := func(t *Term) bool { return t.Mentions(func(s *Term) bool { return s.K == 'v' && s.Obj == obj }) }
			for _, l := range d.L {
				if l.A.Op != "eq" || l.Neg {
					continue
				}
				if mentionsV(l.A.L) && !mentionsV(l.A.R) && l.A.R.K != 'c' && l.A.R.K != 'n' {
					aliases = append(aliases, alias{l.A.L, l.A.R})
				} else if mentionsV(l.A.R) && !mentionsV(l.A.L) && l.A.L.K != 'c' && l.A.L.K != 'n' {
					aliases = append(aliases, alias{l.A.R, l.A.L})
				}
			}
		}
		for _, l := range d.L {
			if !l.A.Mentions(func(t *Term) bool { return t.K == 'v' && t.Obj == obj }) {
				n.L[l.A.key] = l
				continue
			}
			if repl == nil {
				for _, al := range aliases {
					if !l.A.Mentions(func(t *Term) bool { return t.key == al.t.key }) {
						continue
					}
					na := l.A.Subst(al.t.key, al.x)
					if na.Mentions(func(t *Term) bool { return t.K == 'v' && t.Obj == obj }) {
						continue
					}
					if fm := foldAtom(na); fm.Op == 'A' {
						if _, dup := n.L[na.key]; !dup {
							n.L[na.key] = Lit{A: na, Neg: l.Neg}
						}
					}
				}
				continue
			}
			na := l.A.Subst(vkey, repl)
			fm := foldAtom(na)
			switch fm.Op {
			case 'T':
				if l.Neg {
					ok = false
				}
				continue
			case 'F':
				if !l.Neg {
					ok = false
				}
				continue
			}
			if !n.add(Lit{A: na, Neg: l.Neg}) {
				ok = false
			}
		}
		if ok {
			out = append(out, n)
		}
	}
	if len(out) == 0 {
		return Unreachable()
	}
	return normalize(out)
}

// killLHS removes the facts invalidated by a store to lhs.
func (a *Analysis) killLHS(st State, lhs ast.Expr) State {
	f := a.Fn
	lhs = ast.Unparen(lhs)
	if id, ok := lhs.(*ast.Ident); ok {
		if id.Name == "_" {
			return st
		}
		obj := f.Info.ObjectOf(id)
		if obj == nil {
			return st
		}
		st = a.killVar(st, obj)
		w := map[string]bool{}
		WriteTargets(f.Info, lhs, w)
		if len(w) > 0 {
			st = st.Kill(func(at *Atom) bool { return f.Eng.Sum.AtomKilledBy(at, w, f.addrTaken) })
		}
		return st
	}
	// a store into a field of a local struct value (no pointer on the way, address never taken) changes that
	// variable's own storage only: facts about other objects with a field of the same name stay
	if root := a.localValueRoot(lhs); root != nil {
		return st.Kill(func(at *Atom) bool {
			return at.Mentions(func(t *Term) bool { return t.K == 'v' && t.Obj == root })
		})
	}
	w := map[string]bool{}
	WriteTargets(f.Info, lhs, w)
	lt := a.term(lhs)
	return st.Kill(func(at *Atom) bool {
		if at.Mentions(func(t *Term) bool { return t.key == lt.key }) {
			return true
		}
		return f.Eng.Sum.AtomKilledBy(at, w, f.addrTaken)
	})
}

// localValueRoot: lhs is x.f.g (or x.arr[i].f) with x a local variable of struct or array type whose address is
// never taken and no pointer, slice or map is passed on the way from x to the stored field.
func (a *Analysis) localValueRoot(lhs ast.Expr) types.Object {
	f := a.Fn
	e := ast.Unparen(lhs)
	steps := 0
	for {
		switch x := e.(type) {
		case *ast.SelectorExpr:
			sel, ok := f.Info.Selections[x]
			if !ok || sel.Kind() != types.FieldVal || sel.Indirect() {
				return nil
			}
			e = ast.Unparen(x.X)
			steps++
			continue
		case *ast.IndexExpr:
			t := f.Info.TypeOf(x.X)
			if t == nil {
				return nil
			}
			if _, isArr := t.Underlying().(*types.Array); !isArr {
				return nil
			}
			e = ast.Unparen(x.X)
			steps++
			continue
		case *ast.Ident:
			if steps == 0 {
				return nil
			}
			v, ok := f.Info.ObjectOf(x).(*types.Var)
			if !ok || v.IsField() || v.Pkg() == nil || v.Parent() == v.Pkg().Scope() {
				return nil
			}
			switch v.Type().Underlying().(type) {
			case *types.Struct, *types.Array:
			default:
				return nil
			}
			if f.addrTaken[v] || f.volatile[v] {
				return nil
			}
			return v
		}
		return nil
	}
}

func (a *Analysis) assign(st State, lhs, rhs ast.Expr, tok token.Token) State {
	f := a.Fn
	lhs = ast.Unparen(lhs)
	if tok != token.ASSIGN && tok != token.DEFINE {
		return a.killLHS(st, lhs)
	}
	var rt *Term
	var rf *Formula
	lt := f.Info.TypeOf(lhs)
	if id, ok := lhs.(*ast.Ident); ok && id.Name == "_" {
		return st
	}
	if isBool(lt) {
		rf = a.formula(rhs)
	} else {
		rt = a.term(rhs)
	}
	id, isIdent := lhs.(*ast.Ident)
	var obj types.Object
	if isIdent {
		obj = f.Info.ObjectOf(id)
	}
	// v = f(v): where the old value of v has a known equal term, the right-hand side is read over that term,
	// path by path (`event = watch.Event{Type: event.Type, ...}` with event == received)
	if isIdent && obj != nil && !a.inSelfSplit && len(st.D) > 1 || isIdent && obj != nil && !a.inSelfSplit && len(st.D) == 1 {
		if mentionsIdent(f.Info, rhs, obj) && !isIntegerType(lt) && !isBool(lt) {
			res := Unreachable()
			a.inSelfSplit = true
			for _, d := range st.D {
				one := State{D: []*Disj{d}}
				var partner *Term
				for _, o := range d.EqualTerms(Var(obj)) {
					if o.K != 'c' && o.K != 'n' && o.K != 'o' && !o.Mentions(func(s *Term) bool { return s.K == 'v' && s.Obj == obj }) && f.Eng.Canon.PureTerm(o) {
						if partner == nil || (o.K == 'v' && partner.K != 'v') {
							partner = o
						}
					}
				}
				a.selfPartner = partner
				res = Join(res, a.assign(one, lhs, rhs, tok))
			}
			a.inSelfSplit, a.selfPartner = false, nil
			return res
		}
	}
	if a.inSelfSplit && a.selfPartner != nil && isIdent && obj != nil && rt != nil {
		rt = rt.Subst(Var(obj).key, a.selfPartner)
	}
	// x = x op c for integers keeps one-sided bounds
	if isIdent && obj != nil && rt != nil && isIntegerType(lt) {
		if b, off, ok := linear(rt); ok && b != nil && b.K == 'v' && b.Obj == obj && off != 0 {
			return a.shiftVar(st, obj, off > 0, off == 1 || off == -1)
		}
	}
	st = a.killLHS(st, lhs)
	if !st.Reachable() {
		return st
	}
	var ltm *Term
	if isIdent {
		if obj == nil || f.volatile[obj] {
			return st
		}
		ltm = Var(obj)
	} else {
		ltm = a.term(lhs)
	}
	selfRef := func(t *Term) bool { return t.Mentions(func(s *Term) bool { return s.key == ltm.key }) }
	if rf != nil {
		if formulaMentions(rf, ltm.key) {
			return st
		}
		// case split: (v ∧ F) ∨ (¬v ∧ ¬F)
		pos := st.Assume(And(rf, FBool(ltm)))
		neg := st.Assume(And(Not(rf), Not(FBool(ltm))))
		return Join(pos, neg)
	}
	// x = y[lo:hi] has length hi-lo (hi alone for a prefix)
	if se, ok := ast.Unparen(rhs).(*ast.SliceExpr); ok && se.High != nil && se.Max == nil {
		if _, isSlice := lt.Underlying().(*types.Slice); isSlice {
			hi := a.term(se.High)
			var n *Term
			if se.Low == nil {
				n = hi
			} else if lo := a.term(se.Low); lo != nil {
				n = Bin("-", hi, lo)
			}
			if n != nil && f.Eng.Canon.PureTerm(n) && !selfRef(n) {
				st = st.Assume(FEq(LenOf(ltm), n))
			}
		}
	}
	// allocation facts: fresh storage is non-nil, a made slice has the given length
	switch x := ast.Unparen(rhs).(type) {
	case *ast.UnaryExpr:
		if x.Op == token.AND {
			st = st.Assume(FNotNil(ltm))
			if cl, ok := ast.Unparen(x.X).(*ast.CompositeLit); ok {
				if p, ok := lt.Underlying().(*types.Pointer); ok {
					if _, ok := p.Elem().Underlying().(*types.Struct); ok {
						st = a.literalFields(st, ltm, lt, cl)
					}
				}
			}
		}
	case *ast.CompositeLit:
		switch lt.Underlying().(type) {
		case *types.Map, *types.Slice:
			st = st.Assume(FNotNil(ltm))
			if len(x.Elts) == 0 {
				st = st.Assume(FEq(LenOf(ltm), ConstInt(0)))
			}
		case *types.Struct:
			st = a.literalFields(st, ltm, lt, x)
		}
	case *ast.CallExpr:
		// error constructors never return nil
		if fn := StaticCallee(f.Info, x); fn != nil {
			switch fn.FullName() {
			case "fmt.Errorf", "errors.New":
				st = st.Assume(FNotNil(ltm))
			}
		}
		if id, ok := x.Fun.(*ast.Ident); ok {
			if b, ok := f.Info.ObjectOf(id).(*types.Builtin); ok {
				switch b.Name() {
				case "new":
					st = st.Assume(FNotNil(ltm))
				case "make":
					st = st.Assume(FNotNil(ltm))
					if len(x.Args) >= 2 {
						if _, isSlice := lt.Underlying().(*types.Slice); isSlice {
							n := a.term(x.Args[1])
							if f.Eng.Canon.PureTerm(n) && !n.Mentions(func(s *Term) bool { return s.key == ltm.key }) {
								st = st.Assume(FEq(LenOf(ltm), n))
							}
						}
					}
				}
			}
		}
	}
	if rt == nil || selfRef(rt) || !f.Eng.Canon.PureTerm(rt) {
		return st
	}
	return st.Assume(FEq(ltm, rt))
}

func mentionsIdent(info *types.Info, e ast.Expr, obj types.Object) bool {
	found := false
	ast.Inspect(e, func(n ast.Node) bool {
		if id, ok := n.(*ast.Ident); ok && info.ObjectOf(id) == obj {
			found = true
		}
		return !found
	})
	return found
}

// literalFields: `x := T{F: e}` (or &T{...}) stores e into x.F exactly as `x.F = e` would.
func (a *Analysis) literalFields(st State, base *Term, baseT types.Type, lit *ast.CompositeLit) State {
	f := a.Fn
	stt := structOf(baseT)
	if stt == nil {
		return st
	}
	for _, el := range lit.Elts {
		kv, ok := el.(*ast.KeyValueExpr)
		if !ok {
			return st // positional literal: not used for API structs
		}
		kid, ok := kv.Key.(*ast.Ident)
		if !ok {
			continue
		}
		var fld *types.Var
		for i := 0; i < stt.NumFields(); i++ {
			if stt.Field(i).Name() == kid.Name {
				fld = stt.Field(i)
			}
		}
		if fld == nil {
			continue
		}
		ft := mk('f', fieldKey(baseT, fld), fld, fld.Type(), base)
		switch v := ast.Unparen(kv.Value).(type) {
		case *ast.UnaryExpr:
			if v.Op == token.AND {
				st = st.Assume(FNotNil(ft))
			}
		case *ast.CallExpr:
			if id, ok := v.Fun.(*ast.Ident); ok {
				if b, ok := f.Info.ObjectOf(id).(*types.Builtin); ok && (b.Name() == "new" || b.Name() == "make") {
					st = st.Assume(FNotNil(ft))
				}
			}
		}
		if isBool(fld.Type()) {
			rf := a.formula(kv.Value)
			if !formulaMentions(rf, base.key) {
				st = Join(st.Assume(And(rf, FBool(ft))), st.Assume(And(Not(rf), Not(FBool(ft)))))
			}
			continue
		}
		rt := a.term(kv.Value)
		if rt != nil && a.inSelfSplit && a.selfPartner != nil {
			rt = rt.Subst(base.key, a.selfPartner)
		}
		if rt != nil && f.Eng.Canon.PureTerm(rt) && !rt.Mentions(func(s *Term) bool { return s.key == base.key }) {
			st = st.Assume(FEq(ft, rt))
		}
	}
	return st
}

func formulaMentions(f *Formula, key string) bool {
	if f.Op == 'A' {
		return f.Atom.Mentions(func(t *Term) bool { return t.key == key })
	}
	for _, s := range f.Sub {
		if formulaMentions(s, key) {
			return true
		}
	}
	return false
}

// shiftVar handles v++ / v += c (up) and v-- / v -= c (down): bounds on the
// safe side survive, everything else about v is dropped.
func (a *Analysis) shiftVar(st State, obj types.Object, up bool, unit bool) State {
	vkey := Var(obj).key
	mentions := func(t *Term) bool { return t.Mentions(func(s *Term) bool { return s.K == 'v' && s.Obj == obj }) }
	// v == t: what bounds t on the surviving side bounds v as well (then it survives the shift)
	if st.Reachable() {
		var out []*Disj
		for _, d := range st.D {
			var partners []*Term
			for _, l := range d.L {
				if l.A.Op == "eq" && !l.Neg {
					if l.A.L.key == vkey && !mentions(l.A.R) && l.A.R.K != 'c' && l.A.R.K != 'n' {
						partners = append(partners, l.A.R)
					} else if l.A.R.key == vkey && !mentions(l.A.L) && l.A.L.K != 'c' && l.A.L.K != 'n' {
						partners = append(partners, l.A.L)
					}
				}
			}
			if len(partners) == 0 {
				out = append(out, d)
				continue
			}
			n := d.clone()
			for _, t := range partners {
				for _, l := range d.L {
					switch l.A.Op {
					case "eq":
						if l.Neg {
							continue
						}
						var c *Term
						if l.A.L.key == t.key && (l.A.R.K == 'c') {
							c = l.A.R
						} else if l.A.R.key == t.key && (l.A.L.K == 'c') {
							c = l.A.L
						}
						if c != nil && isIntegerType(t.Typ) {
							n.add(Lit{A: Eq(Var(obj), c)})
						}
					case "lt":
						lIs, rIs := l.A.L.key == t.key, l.A.R.key == t.key
						if lIs == rIs {
							continue
						}
						other := l.A.R
						if rIs {
							other = l.A.L
						}
						if mentions(other) {
							continue
						}
						lower := (lIs && l.Neg) || (rIs && !l.Neg)
						if lower != up {
							continue
						}
						if lIs {
							n.add(Lit{A: Lt(Var(obj), other), Neg: l.Neg})
						} else {
							n.add(Lit{A: Lt(other, Var(obj)), Neg: l.Neg})
						}
					}
				}
			}
			out = append(out, n)
		}
		st = normalize(out)
	}
	return st.Map(func(l Lit) *Lit {
		if !l.A.Mentions(func(s *Term) bool { return s.K == 'v' && s.Obj == obj }) {
			return &l
		}
		at := l.A
		if at.Op == "b" {
			return nil
		}
		lIs, rIs := at.L.key == vkey, at.R.key == vkey
		if lIs == rIs {
			return nil
		}
		other := at.R
		if rIs {
			other = at.L
		}
		if mentions(other) {
			return nil
		}
		// normalise to a relation "v REL other"
		switch {
		case at.Op == "eq" && !l.Neg:
			if up { // v == t  →  v > t
				return &Lit{A: Lt(other, Var(obj))}
			}
			return &Lit{A: Lt(Var(obj), other)}
		case at.Op == "lt":
			// lt(v,t): v < t ; ¬lt(v,t): v >= t ; lt(t,v): v > t ; ¬lt(t,v): v <= t
			lower := (lIs && l.Neg) || (rIs && !l.Neg) // a lower bound on v
			if lower == up {
				return &l
			}
			// a step of one turns a strict bound on the other side into a weak one: v < t, v++ gives v <= t
			if unit && !l.Neg {
				if up && lIs {
					return &Lit{A: Lt(other, Var(obj)), Neg: true}
				}
				if !up && rIs {
					return &Lit{A: Lt(Var(obj), other), Neg: true}
				}
			}
			return nil
		}
		return nil
	})
}

func (a *Analysis) incdec(st State, x *ast.IncDecStmt) State {
	f := a.Fn
	if id, ok := ast.Unparen(x.X).(*ast.Ident); ok {
		if obj := f.Info.ObjectOf(id); obj != nil {
			if f.volatile[obj] {
				return a.killVar(st, obj)
			}
			return a.shiftVar(st, obj, x.Tok == token.INC, true)
		}
	}
	return a.killLHS(st, x.X)
}

// callKills applies the write sets of every call evaluated inside n.
func (a *Analysis) callKills(st State, n ast.Node) State {
	f := a.Fn
	if !st.Reachable() || n == nil {
		return st
	}
	ast.Inspect(n, func(c ast.Node) bool {
		switch x := c.(type) {
		case *ast.FuncLit:
			return false
		case *ast.CallExpr:
			if f.inlCall[x] {
				return false // expanded in place: its body ran before this node
			}
			f.Eng.Sum.curFresh, f.Eng.Sum.hitFresh = f.fresh, nil
			w := f.Eng.CallWrites(f.Info, x)
			hit := f.Eng.Sum.hitFresh
			f.Eng.Sum.curFresh, f.Eng.Sum.hitFresh = nil, nil
			if len(w) > 0 {
				st = st.Kill(func(at *Atom) bool { return f.Eng.Sum.AtomKilledBy(at, w, f.addrTaken) })
			}
			// an external mutator wrote through a local that alone reaches its storage:
			// only facts about what hangs off that local are invalidated
			for _, o := range hit {
				st = st.Kill(func(at *Atom) bool {
					for _, t := range at.Terms() {
						if t.K != 'v' && t.Mentions(func(s *Term) bool { return s.K == 'v' && s.Obj == o }) {
							return true
						}
					}
					return false
				})
			}
		}
		return true
	})
	return st
}

// CallWrites returns the write set of one call (builtins, external mutators,
// in-repo callees with interface dispatch, dynamic calls by signature).
func (e *Engine) CallWrites(info *types.Info, call *ast.CallExpr) map[string]bool {
	w := e.Sum.ExternalWrites(info, call)
	if tv, ok := info.Types[call.Fun]; ok && tv.IsType() {
		return w
	}
	if id, ok := ast.Unparen(call.Fun).(*ast.Ident); ok {
		if _, ok := info.ObjectOf(id).(*types.Builtin); ok {
			return w
		}
	}
	fn := StaticCallee(info, call)
	if fn == nil {
		for x := range e.Sum.DynMod[sigKey(info.TypeOf(call.Fun))] {
			w[x] = true
		}
		return w
	}
	if fn.Pkg() != nil && load.IsRepo(fn.Pkg().Path()) {
		for x := range e.Sum.ModOf(fn) {
			w[x] = true
		}
	}
	return w
}

// Dump renders the analysis for debugging.
func (a *Analysis) Dump() string {
	var sb strings.Builder
	for _, b := range a.Fn.CFG.Blocks {
		if !b.Live {
			continue
		}
		in, ok := a.In[b.Index]
		if !ok {
			continue
		}
		fmt.Fprintf(&sb, "B%d %s (%s)\n  %s\n", b.Index, b.Kind, a.Fn.Eng.Prog.Pos(b.Stmt.Pos()), in.String())
	}
	return sb.String()
}

var derefVars = os.Getenv("ASV_DEREFVARS") != "0"

var derefStmts = os.Getenv("ASV_DEREFSTMTS") != "0"

// derefsIn: the pointers that evaluating statement n certainly dereferences
// (selector through a pointer, explicit *p) are non-nil once it has run.
// Only variables, fields and cells that are evaluated unconditionally count.
func (a *Analysis) derefsIn(n ast.Node) *Formula {
	f := a.Fn
	switch n.(type) {
	case *ast.AssignStmt, *ast.ExprStmt, *ast.ReturnStmt, *ast.IncDecStmt, *ast.ValueSpec:
	default:
		return True
	}
	var out []*Formula
	seen := map[string]bool{}
	add := func(base ast.Expr) {
		t := f.Info.TypeOf(base)
		if t == nil {
			return
		}
		if _, isPtr := t.Underlying().(*types.Pointer); !isPtr {
			return
		}
		bt := a.term(base)
		if bt == nil || seen[bt.key] || !(bt.K == 'v' && bt.Obj != nil || bt.K == 'f' || bt.K == 'i') || !f.Eng.Canon.PureTerm(bt) {
			return
		}
		if bt.K == 'v' && f.volatile[bt.Obj] {
			return
		}
		// only what stands for a caller's value inside an expanded helper (its parameters and locals):
		// non-nil facts about the function's own parameters on every path would only make paths differ
		root := bt
		for root.K != 'v' && len(root.A) > 0 {
			root = root.A[0]
		}
		if root.K != 'v' || root.Obj == nil || !f.inlVars[root.Obj] {
			return
		}
		seen[bt.key] = true
		out = append(out, FNotNil(bt))
	}
	var walk func(x ast.Node)
	walk = func(x ast.Node) {
		switch y := x.(type) {
		case nil:
			return
		case *ast.FuncLit:
			return
		case *ast.BinaryExpr:
			walk(y.X)
			if y.Op != token.LAND && y.Op != token.LOR {
				walk(y.Y)
			}
			return
		case *ast.StarExpr:
			add(y.X)
		case *ast.SelectorExpr:
			if sel, ok := f.Info.Selections[y]; ok && sel.Kind() == types.FieldVal && sel.Indirect() {
				add(y.X)
			}
		case *ast.UnaryExpr:
			if y.Op == token.AND {
				return // &p.f does not load through p... it does evaluate p; keep it simple and skip
			}
		}
		first := true
		ast.Inspect(x, func(c ast.Node) bool {
			if first {
				first = false
				return true
			}
			if c != nil {
				walk(c)
			}
			return false
		})
	}
	walk(n)
	return And(out...)
}
