package gf

import (
	"os"
	"sort"
	"strings"
)

// Lit is an atom or its negation.
type Lit struct {
	A   *Atom
	Neg bool
}

func (l Lit) Key() string {
	if l.Neg {
		return "!" + l.A.key
	}
	return l.A.key
}

func (l Lit) String() string {
	if !l.Neg {
		return l.A.String()
	}
	return Not(FAtom(l.A)).String()
}

func (l Lit) Formula() *Formula {
	if l.Neg {
		return Not(FAtom(l.A))
	}
	return FAtom(l.A)
}

// Disj is a conjunction of literals (one disjunct of the DNF).
type Disj struct {
	L   map[string]Lit // by atom key
	key string
	// cache of canonical()
	canonFor string
	canonD   *Disj
	canonRep map[string]*Term
	canonBad bool
}

func newDisj() *Disj { return &Disj{L: map[string]Lit{}} }

func (d *Disj) clone() *Disj {
	n := &Disj{L: make(map[string]Lit, len(d.L)+2)}
	for k, v := range d.L {
		n.L[k] = v
	}
	return n
}

func (d *Disj) Key() string {
	if d.key == "" {
		ks := make([]string, 0, len(d.L))
		for _, l := range d.L {
			ks = append(ks, l.Key())
		}
		sort.Strings(ks)
		d.key = "{" + strings.Join(ks, " ; ") + "}"
	}
	return d.key
}

func (d *Disj) String() string {
	ks := make([]string, 0, len(d.L))
	for _, l := range d.L {
		ks = append(ks, l.String())
	}
	sort.Strings(ks)
	return "{" + strings.Join(ks, ", ") + "}"
}

// add conjoins a literal; returns false if the disjunct becomes infeasible.
func (d *Disj) add(l Lit) bool {
	if old, ok := d.L[l.A.key]; ok {
		return old.Neg == l.Neg
	}
	d.L[l.A.key] = l
	d.key = ""
	// an error that satisfies one of the apimachinery error predicates is not nil
	if !l.Neg && l.A.Op == "b" && l.A.L != nil && l.A.L.K == 'k' && len(l.A.L.A) == 1 &&
		strings.HasPrefix(l.A.L.S, "k8s.io/apimachinery/pkg/api/errors.Is") {
		return d.add(Lit{A: Eq(l.A.L.A[0], NilTerm), Neg: true})
	}
	return true
}

// feasible applies the cheap contradiction rules and the integer bounds.
func (d *Disj) feasible() bool {
	// equivalence classes of terms under the positive equalities (by key, no congruence over subterms);
	// a class holds at most one constant, and no negated equality may relate members of one class
	parent := map[string]string{}
	var find func(k string) string
	find = func(k string) string {
		p, ok := parent[k]
		if !ok || p == k {
			return k
		}
		r := find(p)
		parent[k] = r
		return r
	}
	isConst := func(t *Term) bool { return t.K == 'c' || t.K == 'n' }
	for _, l := range d.L {
		if l.A.Op == "eq" && !l.Neg && !isConst(l.A.L) && !isConst(l.A.R) {
			a, b := find(l.A.L.key), find(l.A.R.key)
			if a != b {
				parent[a] = b
			}
		}
	}
	eqConst := map[string]string{}
	for _, l := range d.L {
		if l.A.Op == "eq" && !l.Neg {
			x, c := l.A.L, l.A.R
			if isConst(x) {
				x, c = c, x
			}
			if isConst(c) && !isConst(x) {
				r := find(x.key)
				if prev, ok := eqConst[r]; ok && prev != c.key {
					return false
				}
				eqConst[r] = c.key
			}
		}
	}
	for _, l := range d.L {
		if l.A.Op == "eq" && l.Neg {
			x, c := l.A.L, l.A.R
			if isConst(x) {
				x, c = c, x
			}
			if isConst(x) {
				continue
			}
			if isConst(c) {
				if v, ok := eqConst[find(x.key)]; ok && v == c.key {
					return false
				}
			} else {
				rx, rc := find(x.key), find(c.key)
				if rx == rc {
					return false
				}
				if vx, ok := eqConst[rx]; ok {
					if vc, ok := eqConst[rc]; ok && vx == vc {
						return false
					}
				}
			}
		}
	}
	if congruence {
		if d.canonical(); d.canonBad {
			return false
		}
	}
	return newBounds(d).consistent()
}

// State is a DNF: a set of feasible disjuncts. An empty State is unreachable.
type State struct {
	D []*Disj
}

func TrueState() State   { return State{D: []*Disj{newDisj()}} }
func Unreachable() State { return State{} }

func (s State) Reachable() bool { return len(s.D) > 0 }

func (s State) Key() string {
	ks := make([]string, len(s.D))
	for i, d := range s.D {
		ks[i] = d.Key()
	}
	sort.Strings(ks)
	return strings.Join(ks, " | ")
}

func (s State) String() string {
	if len(s.D) == 0 {
		return "unreachable"
	}
	ks := make([]string, len(s.D))
	for i, d := range s.D {
		ks[i] = d.String()
	}
	sort.Strings(ks)
	return strings.Join(ks, "\n  OR ")
}

const MaxDisj = 48

// normalize removes duplicates and subsumed disjuncts, merges complementary
// pairs and bounds the size (merging by intersection, which only weakens).
func normalize(ds []*Disj) State {
	for {
		// dedupe
		seen := map[string]*Disj{}
		var out []*Disj
		for _, d := range ds {
			if _, ok := seen[d.Key()]; ok {
				continue
			}
			seen[d.Key()] = d
			out = append(out, d)
		}
		ds = out
		// subsumption: drop d if some other e ⊆ d
		sort.Slice(ds, func(i, j int) bool {
			if len(ds[i].L) != len(ds[j].L) {
				return len(ds[i].L) < len(ds[j].L)
			}
			return ds[i].Key() < ds[j].Key()
		})
		var kept []*Disj
		for _, d := range ds {
			sub := false
			for _, e := range kept {
				if subset(e, d) {
					sub = true
					break
				}
			}
			if !sub {
				kept = append(kept, d)
			}
		}
		ds = kept
		// complementary merge: {A}∪X and {¬A}∪X  =>  X
		merged := false
	outer:
		for i := 0; i < len(ds); i++ {
			for j := i + 1; j < len(ds); j++ {
				if len(ds[i].L) != len(ds[j].L) {
					continue
				}
				diff := ""
				n := 0
				for k, l := range ds[i].L {
					m, ok := ds[j].L[k]
					if !ok {
						n = 2
						break
					}
					if m.Neg != l.Neg {
						n++
						diff = k
					}
				}
				if n == 1 {
					x := ds[i].clone()
					delete(x.L, diff)
					x.key = ""
					ds[i] = x
					ds = append(ds[:j], ds[j+1:]...)
					merged = true
					break outer
				}
			}
		}
		if merged {
			continue
		}
		if len(ds) > MaxDisj {
			// merge the two most similar disjuncts by intersection
			bi, bj, best := 0, 1, -1
			for i := 0; i < len(ds); i++ {
				for j := i + 1; j < len(ds); j++ {
					c := common(ds[i], ds[j])
					if c > best {
						bi, bj, best = i, j, c
					}
				}
			}
			x := intersect(ds[bi], ds[bj])
			ds[bi] = x
			ds = append(ds[:bj], ds[bj+1:]...)
			continue
		}
		return State{D: ds}
	}
}

func subset(a, b *Disj) bool {
	if len(a.L) > len(b.L) {
		return false
	}
	for k, l := range a.L {
		m, ok := b.L[k]
		if !ok || m.Neg != l.Neg {
			return false
		}
	}
	return true
}

func common(a, b *Disj) int {
	n := 0
	for k, l := range a.L {
		if m, ok := b.L[k]; ok && m.Neg == l.Neg {
			n++
		}
	}
	return n
}

// intersect keeps what both disjuncts entail: common literals, literals of one
// entailed by the other, and the one-sided weakenings of integer literals
// (x == y gives x <= y and x >= y; x < y gives x <= y) entailed by both.
func intersect(a, b *Disj) *Disj {
	x := newDisj()
	try := func(l Lit, other *Disj) {
		if _, done := x.L[l.A.key]; done {
			return
		}
		if other.entailsLit(l) {
			x.L[l.A.key] = l
		}
	}
	weak := func(l Lit) []Lit {
		if l.A.Op == "b" || !(isIntegerType(l.A.L.Typ) || isIntegerType(l.A.R.Typ)) {
			return nil
		}
		switch {
		case l.A.Op == "eq" && !l.Neg:
			return []Lit{{A: Lt(l.A.L, l.A.R), Neg: true}, {A: Lt(l.A.R, l.A.L), Neg: true}}
		case l.A.Op == "lt" && !l.Neg:
			return []Lit{{A: Lt(l.A.R, l.A.L), Neg: true}}
		}
		return nil
	}
	for _, l := range a.L {
		try(l, b)
		if _, kept := x.L[l.A.key]; kept {
			continue
		}
		for _, w := range weak(l) {
			try(w, b)
		}
	}
	for _, l := range b.L {
		try(l, a)
		if _, kept := x.L[l.A.key]; kept {
			continue
		}
		for _, w := range weak(l) {
			try(w, a)
		}
	}
	return x
}

// Join is the union of disjuncts.
func Join(a, b State) State {
	if !a.Reachable() {
		return b
	}
	if !b.Reachable() {
		return a
	}
	ds := append(append([]*Disj{}, a.D...), b.D...)
	return normalize(ds)
}

// Collapse keeps only what all disjuncts agree on (widening).
func (s State) Collapse() State {
	if len(s.D) <= 1 {
		return s
	}
	x := s.D[0]
	for _, d := range s.D[1:] {
		x = intersect(x, d)
	}
	return State{D: []*Disj{x}}
}

// dnf converts a formula to a list of literal lists, bounded.
func dnf(f *Formula, neg bool) [][]Lit {
	switch f.Op {
	case 'T':
		if neg {
			return nil
		}
		return [][]Lit{{}}
	case 'F':
		if neg {
			return [][]Lit{{}}
		}
		return nil
	case 'A':
		return [][]Lit{{Lit{A: f.Atom, Neg: neg}}}
	case '!':
		return dnf(f.Sub[0], !neg)
	case '&', '|':
		isAnd := (f.Op == '&') != neg
		if isAnd {
			res := [][]Lit{{}}
			for _, s := range f.Sub {
				part := dnf(s, neg)
				var nr [][]Lit
				for _, a := range res {
					for _, b := range part {
						c := append(append([]Lit{}, a...), b...)
						nr = append(nr, c)
					}
				}
				res = nr
				if len(res) > 4096 {
					res = res[:4096] // never reached for the conditions in this repo; truncation only loses paths of a guard, reported as undecided downstream
				}
			}
			return res
		}
		var res [][]Lit
		for _, s := range f.Sub {
			res = append(res, dnf(s, neg)...)
		}
		return res
	}
	return nil
}

// Assume conjoins a formula onto every disjunct.
func (s State) Assume(f *Formula) State {
	if !s.Reachable() {
		return s
	}
	parts := dnf(f, false)
	var out []*Disj
	for _, d := range s.D {
		for _, p := range parts {
			n := d.clone()
			ok := true
			for _, l := range p {
				if !n.add(l) {
					ok = false
					break
				}
			}
			if ok && n.feasible() {
				out = append(out, n)
			}
		}
	}
	if len(out) == 0 {
		return Unreachable()
	}
	return normalize(out)
}

// entailsLit reports whether the disjunct entails the literal, also trying
// the goal rewritten by one or two of the disjunct's known equalities.
func (d *Disj) entailsLit(l Lit) bool {
	if d.entailsLit0(l) {
		return true
	}
	// modulo the equalities in force: goal and facts rewritten over one representative per class
	if cd, rep := d.canonical(); cd != nil {
		na := rewriteAtom(l.A, rep)
		if na.key != l.A.key || cd != d {
			fm := foldAtom(na)
			switch fm.Op {
			case 'T':
				if !l.Neg {
					return true
				}
			case 'F':
				if l.Neg {
					return true
				}
			default:
				if cd.entailsLit0(Lit{A: na, Neg: l.Neg}) {
					return true
				}
			}
		}
	}
	type eqn struct{ a, b *Term }
	var eqs []eqn
	for _, m := range d.L {
		if m.A.Op == "eq" && !m.Neg && m.A.L.K != 'c' && m.A.L.K != 'n' && m.A.R.K != 'c' && m.A.R.K != 'n' {
			eqs = append(eqs, eqn{m.A.L, m.A.R}, eqn{m.A.R, m.A.L})
		}
	}
	if len(eqs) == 0 {
		return false
	}
	seen := map[string]bool{l.A.key: true}
	frontier := []*Atom{l.A}
	for depth := 0; depth < 2; depth++ {
		var next []*Atom
		for _, at := range frontier {
			for _, e := range eqs {
				if !at.Mentions(func(t *Term) bool { return t.key == e.a.key }) {
					continue
				}
				na := at.Subst(e.a.key, e.b)
				if seen[na.key] {
					continue
				}
				seen[na.key] = true
				fm := foldAtom(na)
				switch fm.Op {
				case 'T':
					if !l.Neg {
						return true
					}
					continue
				case 'F':
					if l.Neg {
						return true
					}
					continue
				}
				if d.entailsLit0(Lit{A: na, Neg: l.Neg}) {
					return true
				}
				next = append(next, na)
			}
		}
		frontier = next
		if len(seen) > 200 {
			break
		}
	}
	return false
}

// canonical returns the disjunct with every term rewritten to the representative of its
// equivalence class under the positive equalities (nil if there are none), and the rewriting.
func (d *Disj) canonical() (*Disj, map[string]*Term) {
	if k := d.Key(); d.canonFor == k {
		return d.canonD, d.canonRep
	}
	d.canonBad = false
	cd, rep := d.canonical0()
	d.canonFor, d.canonD, d.canonRep = d.Key(), cd, rep
	return cd, rep
}

// constClasses: constants take part in the equality classes (ASV_CONSTCLASSES=0 switches it off)
var constClasses = os.Getenv("ASV_CONSTCLASSES") != "0"

func (d *Disj) canonical0() (*Disj, map[string]*Term) {
	parent := map[string]string{}
	terms := map[string]*Term{}
	var find func(k string) string
	find = func(k string) string {
		p, ok := parent[k]
		if !ok || p == k {
			return k
		}
		r := find(p)
		parent[k] = r
		return r
	}
	isNil := func(t *Term) bool { return t.K == 'n' }
	// a string or integer constant may stand for its class (x == "k" lets m[x] be read as m["k"]); nil does not
	constKey := map[string]bool{}
	n := 0
	for _, l := range d.L {
		if l.A.Op == "eq" && !l.Neg && !isNil(l.A.L) && !isNil(l.A.R) && l.A.L.K != 'o' && l.A.R.K != 'o' && !(l.A.L.K == 'c' && l.A.R.K == 'c') {
			if (l.A.L.K == 'c' || l.A.R.K == 'c') && !constClasses {
				continue
			}
			terms[l.A.L.key], terms[l.A.R.key] = l.A.L, l.A.R
			if l.A.L.K == 'c' {
				constKey[l.A.L.key] = true
			}
			if l.A.R.K == 'c' {
				constKey[l.A.R.key] = true
			}
			a, b := find(l.A.L.key), find(l.A.R.key)
			if a != b {
				// a constant becomes the root, else the smaller key (deterministic)
				switch {
				case constKey[a] && constKey[b]:
					d.canonBad = true // two different constants in one class
					parent[b] = a
				case constKey[a]:
					parent[b] = a
				case constKey[b]:
					parent[a] = b
				case a < b:
					parent[b] = a
				default:
					parent[a] = b
				}
				n++
			}
		}
	}
	if n == 0 {
		return nil, nil
	}
	union := func(a, b string) bool {
		a, b = find(a), find(b)
		if a == b {
			return false
		}
		switch {
		case constKey[a] && constKey[b]:
			d.canonBad = true
			parent[b] = a
		case constKey[a]:
			parent[b] = a
		case constKey[b]:
			parent[a] = b
		case a < b:
			parent[b] = a
		default:
			parent[a] = b
		}
		return true
	}
	rep := map[string]*Term{}
	build := func() {
		rep = map[string]*Term{}
		for k := range terms {
			if r := find(k); r != k {
				rep[k] = terms[r]
			}
		}
	}
	build()
	// congruence: a member of a class read over the representatives of its own subterms is the same value
	// (f(obj) with obj == set is f(set)): such readings join the class, until nothing new appears
	for round := 0; round < 3; round++ {
		changed := false
		var keys []string
		for k := range terms {
			keys = append(keys, k)
		}
		sort.Strings(keys)
		for _, k := range keys {
			t := terms[k]
			if len(t.A) == 0 {
				continue
			}
			rt := rewriteArgs(t, rep, 0)
			if rt.key == k {
				continue
			}
			if _, known := terms[rt.key]; !known {
				terms[rt.key] = rt
				if rt.K == 'c' {
					constKey[rt.key] = true
				}
			}
			if union(k, rt.key) {
				changed = true
			}
		}
		if !changed {
			break
		}
		build()
	}
	out := newDisj()
	for _, l := range d.L {
		na := rewriteAtom(l.A, rep)
		fm := foldAtom(na)
		switch fm.Op {
		case 'T':
			if l.Neg {
				d.canonBad = true
			}
			continue
		case 'F':
			if !l.Neg {
				d.canonBad = true
			}
			continue
		}
		if old, ok := out.L[na.key]; ok && old.Neg != l.Neg {
			d.canonBad = true // the same fact, modulo the equalities, asserted and denied
		}
		out.L[na.key] = Lit{A: na, Neg: l.Neg}
	}
	return out, rep
}

func rewriteTerm(t *Term, rep map[string]*Term) *Term { return rewriteTermD(t, rep, 0) }

func rewriteTermD(t *Term, rep map[string]*Term, depth int) *Term {
	if t == nil {
		return nil
	}
	if depth > 6 {
		return t
	}
	if r, ok := rep[t.key]; ok && r.key != t.key {
		// the representative's own subterms are rewritten too (it is the root of its class, so it stays itself at the top)
		return rewriteArgs(r, rep, depth+1)
	}
	return rewriteArgs(t, rep, depth)
}

func rewriteArgs(t *Term, rep map[string]*Term, depth int) *Term {
	if len(t.A) == 0 {
		return t
	}
	changed := false
	args := make([]*Term, len(t.A))
	for i, a := range t.A {
		args[i] = rewriteTermD(a, rep, depth+1)
		if args[i] != a {
			changed = true
		}
	}
	if !changed {
		return t
	}
	nt := mk(t.K, t.S, t.Obj, t.Typ, args...)
	nt.Fn = t.Fn
	if r, ok := rep[nt.key]; ok && r.key != nt.key && depth <= 6 {
		return rewriteArgs(r, rep, depth+1)
	}
	return nt
}

func rewriteAtom(a *Atom, rep map[string]*Term) *Atom {
	switch a.Op {
	case "b":
		l := rewriteTerm(a.L, rep)
		if l == a.L {
			return a
		}
		return BoolAtom(l)
	case "eq":
		l, r := rewriteTerm(a.L, rep), rewriteTerm(a.R, rep)
		if l == a.L && r == a.R {
			return a
		}
		return Eq(l, r)
	case "lt":
		l, r := rewriteTerm(a.L, rep), rewriteTerm(a.R, rep)
		if l == a.L && r == a.R {
			return a
		}
		return Lt(l, r)
	}
	return a
}

func (d *Disj) entailsLit0(l Lit) bool {
	if m, ok := d.L[l.A.key]; ok {
		return m.Neg == l.Neg
	}
	switch l.A.Op {
	case "eq":
		x, c := l.A.L, l.A.R
		if x.K == 'c' || x.K == 'n' {
			x, c = c, x
		}
		if c.K == 'c' || c.K == 'n' {
			// x == c' known
			for _, m := range d.L {
				if m.A.Op != "eq" || m.Neg {
					continue
				}
				y, k := m.A.L, m.A.R
				if y.K == 'c' || y.K == 'n' {
					y, k = k, y
				}
				if y.key == x.key && (k.K == 'c' || k.K == 'n') {
					if l.Neg {
						return k.key != c.key
					}
					return k.key == c.key
				}
			}
		}
	}
	if isIntegerType(l.A.L.Typ) || (l.A.R != nil && isIntegerType(l.A.R.Typ)) || l.A.Op == "lt" {
		// adding the negation must be inconsistent
		n := d.clone()
		if !n.add(Lit{A: l.A, Neg: !l.Neg}) {
			return true
		}
		b := newBounds(n)
		if !b.consistent() {
			return true
		}
		if l.A.Op == "eq" && !l.Neg {
			// a == b is entailed if a <= b and b <= a are
			if d.entailsLit0(Lit{A: Lt(l.A.L, l.A.R), Neg: true}) && d.entailsLit0(Lit{A: Lt(l.A.R, l.A.L), Neg: true}) {
				return true
			}
		}
		if l.A.Op == "eq" && l.Neg {
			// a != b is entailed if a < b or b < a is
			if d.entailsLit0(Lit{A: Lt(l.A.L, l.A.R)}) || d.entailsLit0(Lit{A: Lt(l.A.R, l.A.L)}) {
				return true
			}
		}
	}
	return false
}

// entails decides d ⊨ f for a formula by structural recursion (sound, incomplete).
func (d *Disj) entails(f *Formula, neg bool) bool {
	switch f.Op {
	case 'T':
		return !neg
	case 'F':
		return neg
	case 'A':
		return d.entailsLit(Lit{A: f.Atom, Neg: neg})
	case '!':
		return d.entails(f.Sub[0], !neg)
	case '&', '|':
		isAnd := (f.Op == '&') != neg
		if isAnd {
			for _, s := range f.Sub {
				if !d.entails(s, neg) {
					return false
				}
			}
			return true
		}
		for _, s := range f.Sub {
			if d.entails(s, neg) {
				return true
			}
		}
		// case split: d ⊨ (A ∨ B) also when d ∧ ¬A ⊨ B
		if len(f.Sub) >= 2 {
			first := f.Sub[0]
			rest := &Formula{Op: f.Op, Sub: f.Sub[1:]}
			if len(f.Sub) == 2 {
				rest = f.Sub[1]
			}
			// assume the negation of the first alternative
			st := State{D: []*Disj{d}}.Assume(negIf(first, !neg))
			if !st.Reachable() {
				return true
			}
			all := true
			for _, e := range st.D {
				if !e.entails(rest, neg) {
					all = false
					break
				}
			}
			return all
		}
	}
	return false
}

func negIf(f *Formula, neg bool) *Formula {
	if neg {
		return Not(f)
	}
	return f
}

// Implies: every disjunct entails f. The second result is a disjunct that does not.
func (s State) Implies(f *Formula) (bool, string) {
	if len(s.D) == 0 {
		// nothing reaches this point: callers that want vacuous truth test Reachable() themselves
		return false, "unreachable"
	}
	for _, d := range s.D {
		if !d.entails(f, false) {
			return false, d.String()
		}
	}
	return true, ""
}

// Consistent reports whether the state together with f is satisfiable by the engine's rules.
func (s State) ConsistentWith(f *Formula) bool {
	return s.Assume(f).Reachable()
}

// Kill removes literals whose atom satisfies pred.
func (s State) Kill(pred func(*Atom) bool) State {
	if !s.Reachable() {
		return s
	}
	changed := false
	out := make([]*Disj, len(s.D))
	for i, d := range s.D {
		var n *Disj
		for k, l := range d.L {
			if pred(l.A) {
				if n == nil {
					n = d.clone()
				}
				delete(n.L, k)
			}
		}
		if n != nil {
			n.key = ""
			out[i] = n
			changed = true
		} else {
			out[i] = d
		}
	}
	if !changed {
		return s
	}
	return normalize(out)
}

// Map rewrites every literal; a nil result drops the literal.
func (s State) Map(fn func(Lit) *Lit) State {
	if !s.Reachable() {
		return s
	}
	var out []*Disj
	for _, d := range s.D {
		n := newDisj()
		ok := true
		for _, l := range d.L {
			r := fn(l)
			if r == nil {
				continue
			}
			f := foldAtom(r.A)
			switch f.Op {
			case 'T':
				if r.Neg {
					ok = false
				}
				continue
			case 'F':
				if !r.Neg {
					ok = false
				}
				continue
			}
			if !n.add(*r) {
				ok = false
			}
		}
		if ok && n.feasible() {
			out = append(out, n)
		}
	}
	if len(out) == 0 {
		return Unreachable()
	}
	return normalize(out)
}

// ---------------------------------------------------------------------------
// integer difference bounds

type bounds struct {
	idx map[string]int
	d   [][]int64
	ok  bool
}

const inf = int64(1) << 60

// linear splits a term into base+offset.
func linear(t *Term) (*Term, int64, bool) {
	if v, ok := constInt(t); ok {
		return nil, v, true
	}
	if t.K == 'b' && (t.S == "+" || t.S == "-") {
		if c, ok := constInt(t.A[1]); ok {
			b, off, ok2 := linear(t.A[0])
			if !ok2 {
				return nil, 0, false
			}
			if t.S == "-" {
				c = -c
			}
			return b, off + c, true
		}
		if c, ok := constInt(t.A[0]); ok && t.S == "+" {
			b, off, ok2 := linear(t.A[1])
			if !ok2 {
				return nil, 0, false
			}
			return b, off + c, true
		}
	}
	if t.K == 'c' || t.K == 'n' {
		return nil, 0, false
	}
	return t, 0, true
}

func newBounds(d *Disj) *bounds {
	b := &bounds{idx: map[string]int{"0": 0}, ok: true}
	type cons struct {
		x, y string
		c    int64
	}
	var cs []cons
	// sums and differences of two non-constant terms: t = a ⊕ b, tied to their operands after a first closure
	type def struct {
		t, ab, bb string
		ao, bo    int64
		minus     bool
	}
	var defs []def
	var node func(t *Term) string
	node = func(t *Term) string {
		if t == nil {
			return "0"
		}
		if _, ok := b.idx[t.key]; !ok {
			b.idx[t.key] = len(b.idx)
			if t.K == 'k' && (t.S == "len" || t.S == "cap") {
				cs = append(cs, cons{"0", t.key, 0}) // 0 - len <= 0
				if t.S == "len" && len(t.A) == 1 && t.A[0].K == 'k' {
					// a filter returns no more elements than it was given
					if k, ok := subSeqFuncs[t.A[0].S]; ok && k < len(t.A[0].A) {
						cs = append(cs, cons{t.key, node(LenOf(t.A[0].A[k])), 0})
					}
				}
			}
			if t.K == 'b' && (t.S == "+" || t.S == "-") && len(t.A) == 2 && isIntegerType(t.Typ) {
				ab, ao, ok1 := linear(t.A[0])
				bb, bo, ok2 := linear(t.A[1])
				if ok1 && ok2 && (ab != nil || bb != nil) {
					defs = append(defs, def{t.key, node(ab), node(bb), ao, bo, t.S == "-"})
				}
			}
		}
		return t.key
	}
	addLe := func(x *Term, xo int64, y *Term, yo int64, c int64) {
		// (x+xo) - (y+yo) <= c
		cs = append(cs, cons{node(x), node(y), c - xo + yo})
	}
	for _, l := range d.L {
		a := l.A
		if a.Op == "b" {
			continue
		}
		if !(isIntegerType(a.L.Typ) || isIntegerType(a.R.Typ)) {
			continue
		}
		lb, lo, ok1 := linear(a.L)
		rb, ro, ok2 := linear(a.R)
		if !ok1 || !ok2 {
			continue
		}
		switch {
		case a.Op == "lt" && !l.Neg: // L < R : L - R <= -1
			addLe(lb, lo, rb, ro, -1)
		case a.Op == "lt" && l.Neg: // L >= R : R - L <= 0
			addLe(rb, ro, lb, lo, 0)
		case a.Op == "eq" && !l.Neg:
			addLe(lb, lo, rb, ro, 0)
			addLe(rb, ro, lb, lo, 0)
		}
	}
	// len(x) for an x that equals a filter's result: no longer than the filter's input
	if len(subSeqFuncs) > 0 {
		var lens []*Term
		seenLen := map[string]bool{}
		for _, l := range d.L {
			for _, side := range []*Term{l.A.L, l.A.R} {
				if side == nil {
					continue
				}
				side.Mentions(func(t *Term) bool {
					if t.K == 'k' && t.S == "len" && len(t.A) == 1 && !seenLen[t.key] {
						seenLen[t.key] = true
						lens = append(lens, t)
					}
					return false
				})
			}
		}
		for _, t := range lens {
			for _, o := range d.EqualTerms(t.A[0]) {
				if o.K == 'k' {
					if k, ok := subSeqFuncs[o.S]; ok && k < len(o.A) {
						cs = append(cs, cons{node(t), node(LenOf(o.A[k])), 0})
					}
				}
			}
		}
	}
	n := len(b.idx)
	b.d = make([][]int64, n)
	for i := range b.d {
		b.d[i] = make([]int64, n)
		for j := range b.d[i] {
			if i != j {
				b.d[i][j] = inf
			}
		}
	}
	for _, c := range cs {
		i, j := b.idx[c.x], b.idx[c.y]
		// x - y <= c  : edge y -> x weight c ; store d[x][y] as bound of x - y
		if c.c < b.d[i][j] {
			b.d[i][j] = c.c
		}
	}
	closure := func() {
		for k := 0; k < n; k++ {
			for i := 0; i < n; i++ {
				if b.d[i][k] == inf {
					continue
				}
				for j := 0; j < n; j++ {
					if b.d[k][j] == inf {
						continue
					}
					if v := b.d[i][k] + b.d[k][j]; v < b.d[i][j] {
						b.d[i][j] = v
					}
				}
			}
		}
	}
	closure()
	// x != y with x <= y known becomes x < y (and the other way round)
	{
		tight := false
		for _, l := range d.L {
			if l.A.Op != "eq" || !l.Neg {
				continue
			}
			if !(isIntegerType(l.A.L.Typ) || isIntegerType(l.A.R.Typ)) {
				continue
			}
			lb, lo, ok1 := linear(l.A.L)
			rb, ro, ok2 := linear(l.A.R)
			if !ok1 || !ok2 {
				continue
			}
			xi, okx := b.idx[keyOrZero(lb)]
			yi, oky := b.idx[keyOrZero(rb)]
			if !okx || !oky || xi == yi {
				continue
			}
			// (x+lo) != (y+ro); x - y <= d[xi][yi]
			if b.d[xi][yi] == ro-lo { // x - y <= ro - lo, i.e. x+lo <= y+ro: make it strict
				b.d[xi][yi] = ro - lo - 1
				tight = true
			}
			if b.d[yi][xi] == lo-ro {
				b.d[yi][xi] = lo - ro - 1
				tight = true
			}
		}
		if tight {
			closure()
		}
	}
	if len(defs) > 0 {
		changed := false
		set := func(x, y int, c int64) {
			if c < b.d[x][y] && x != y {
				b.d[x][y] = c
				changed = true
			}
		}
		fin := func(v int64) bool { return v < inf/2 }
		for _, df := range defs {
			t, a, bb := b.idx[df.t], b.idx[df.ab], b.idx[df.bb]
			if df.minus {
				// t = (a+ao) - (bb+bo)
				if v := b.d[a][bb]; fin(v) { // a - bb <= v  =>  t <= v + ao - bo
					set(t, 0, v+df.ao-df.bo)
				}
				if v := b.d[bb][a]; fin(v) { // bb - a <= v  =>  -t <= v + bo - ao
					set(0, t, v+df.bo-df.ao)
				}
				if v := b.d[0][bb]; fin(v) { // -bb <= v  =>  t - a = ao - bb - bo <= ao + v - bo
					set(t, a, df.ao+v-df.bo)
				}
				if v := b.d[bb][0]; fin(v) { // bb <= v  =>  a - t = bb + bo - ao <= v + bo - ao
					set(a, t, v+df.bo-df.ao)
				}
			} else {
				// t = (a+ao) + (bb+bo)
				if v := b.d[bb][0]; fin(v) { // t - a = ao + bb + bo <= ao + v + bo
					set(t, a, df.ao+v+df.bo)
				}
				if v := b.d[0][bb]; fin(v) { // a - t = -(ao + bb + bo) <= v - ao - bo
					set(a, t, v-df.ao-df.bo)
				}
				if v := b.d[a][0]; fin(v) {
					set(t, bb, df.bo+v+df.ao)
				}
				if v := b.d[0][a]; fin(v) {
					set(bb, t, v-df.ao-df.bo)
				}
			}
		}
		if changed {
			closure()
		}
	}
	for i := 0; i < n; i++ {
		if b.d[i][i] < 0 {
			b.ok = false
		}
	}
	return b
}

func keyOrZero(t *Term) string {
	if t == nil {
		return "0"
	}
	return t.key
}

func (b *bounds) consistent() bool { return b.ok }

// Mentions reports whether any literal of any disjunct mentions a term satisfying pred.
func (s State) Mentions(pred func(*Term) bool) bool {
	for _, d := range s.D {
		for _, l := range d.L {
			if l.A.Mentions(pred) {
				return true
			}
		}
	}
	return false
}

// EqualTerms lists the terms the disjunct knows equal to t (transitively), t excluded.
func (d *Disj) EqualTerms(t *Term) []*Term {
	adj := map[string][]*Term{}
	for _, l := range d.L {
		if l.A.Op == "eq" && !l.Neg {
			adj[l.A.L.key] = append(adj[l.A.L.key], l.A.R)
			adj[l.A.R.key] = append(adj[l.A.R.key], l.A.L)
		}
	}
	seen := map[string]bool{t.key: true}
	var out []*Term
	work := []*Term{t}
	for len(work) > 0 {
		x := work[len(work)-1]
		work = work[:len(work)-1]
		for _, y := range adj[x.key] {
			if !seen[y.key] {
				seen[y.key] = true
				out = append(out, y)
				if y.K != 'c' && y.K != 'n' {
					work = append(work, y)
				}
			}
		}
	}
	sort.Slice(out, func(i, j int) bool { return out[i].key < out[j].key })
	return out
}

var congruence = os.Getenv("ASV_CONGRUENCE") != "0"
