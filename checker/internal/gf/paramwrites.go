package gf

import (
	"go/ast"
	"go/token"
	"go/types"

	"asverif/internal/load"
)

// ParamWrites computes, per in-repo function, which parameters (receiver = -1
// is not tracked; index 0.. are the declared parameters) the function may write
// through: a store whose target is rooted at the parameter or at a local alias
// of it, an external mutator applied to it, or passing it on to a callee that
// writes through the corresponding parameter.
type ParamWrites struct {
	W map[*types.Func]map[int]bool
}

func BuildParamWrites(p *load.Prog, sum *Summaries) *ParamWrites {
	pw := &ParamWrites{W: map[*types.Func]map[int]bool{}}
	funcs := p.Funcs()
	type passOn struct {
		callee *types.Func
		from   int // caller param
		to     int // callee param
	}
	passes := map[*types.Func][]passOn{}
	for _, fi := range funcs {
		info := fi.Pkg.TypesInfo
		w := map[int]bool{}
		pw.W[fi.Obj] = w
		// parameter objects and simple aliases
		root := map[types.Object]int{}
		i := 0
		for _, f := range fi.Decl.Type.Params.List {
			for _, n := range f.Names {
				if o := info.Defs[n]; o != nil {
					root[o] = i
				}
				i++
			}
			if len(f.Names) == 0 {
				i++
			}
		}
		// aliases: x := p / x := p.f / x := p[i] / for _, x := range p  (pointer-ish values only)
		for changed := true; changed; {
			changed = false
			ast.Inspect(fi.Decl.Body, func(n ast.Node) bool {
				bind := func(lhs ast.Expr, rhs ast.Expr) {
					id, ok := lhs.(*ast.Ident)
					if !ok || id.Name == "_" {
						return
					}
					lo := info.ObjectOf(id)
					if lo == nil {
						return
					}
					if _, done := root[lo]; done {
						return
					}
					if !pointerish(info.TypeOf(id)) {
						return
					}
					if ro := rootObj(info, rhs); ro != nil {
						if idx, ok := root[ro]; ok {
							root[lo] = idx
							changed = true
						}
					}
				}
				switch x := n.(type) {
				case *ast.AssignStmt:
					if len(x.Lhs) == len(x.Rhs) {
						for k := range x.Lhs {
							bind(x.Lhs[k], x.Rhs[k])
						}
					}
				case *ast.RangeStmt:
					if x.Value != nil {
						bind(x.Value, x.X)
					}
				}
				return true
			})
		}
		mark := func(e ast.Expr) {
			if ro := rootObj(info, e); ro != nil {
				if idx, ok := root[ro]; ok {
					w[idx] = true
				}
			}
		}
		ast.Inspect(fi.Decl.Body, func(n ast.Node) bool {
			switch x := n.(type) {
			case *ast.AssignStmt:
				for _, l := range x.Lhs {
					if _, isID := ast.Unparen(l).(*ast.Ident); !isID {
						mark(l)
					}
				}
			case *ast.IncDecStmt:
				if _, isID := ast.Unparen(x.X).(*ast.Ident); !isID {
					mark(x.X)
				}
			case *ast.CallExpr:
				// external mutators
				ext := sum.ExternalWrites(info, x)
				if len(ext) > 0 {
					if sel, ok := ast.Unparen(x.Fun).(*ast.SelectorExpr); ok {
						mark(sel.X)
					}
					for _, a := range x.Args {
						if u, ok := ast.Unparen(a).(*ast.UnaryExpr); ok && u.Op == token.AND {
							mark(u.X)
						} else if pointerish(info.TypeOf(a)) {
							mark(a)
						}
					}
				}
				fn := StaticCallee(info, x)
				if fn == nil || fn.Pkg() == nil || !load.IsRepo(fn.Pkg().Path()) {
					return true
				}
				targets := []*types.Func{fn.Origin()}
				if impl, ok := sum.Impls[fn.Origin()]; ok {
					targets = impl
				}
				for k, a := range x.Args {
					ro := rootObj(info, a)
					if ro == nil {
						continue
					}
					idx, ok := root[ro]
					if !ok {
						continue
					}
					if !pointerish(info.TypeOf(a)) {
						if _, isAddr := ast.Unparen(a).(*ast.UnaryExpr); !isAddr {
							continue
						}
					}
					for _, t := range targets {
						passes[fi.Obj] = append(passes[fi.Obj], passOn{t, idx, k})
					}
				}
			}
			return true
		})
	}
	for changed := true; changed; {
		changed = false
		for f, ps := range passes {
			for _, p := range ps {
				if pw.W[p.callee][p.to] && !pw.W[f][p.from] {
					pw.W[f][p.from] = true
					changed = true
				}
			}
		}
	}
	return pw
}

func pointerish(t types.Type) bool {
	if t == nil {
		return false
	}
	switch t.Underlying().(type) {
	case *types.Pointer, *types.Slice, *types.Map, *types.Interface:
		return true
	}
	return false
}

// Writes reports whether f (or any implementer, for interface methods) may write through parameter i.
func (pw *ParamWrites) Writes(sum *Summaries, f *types.Func, i int) bool {
	if impl, ok := sum.Impls[f.Origin()]; ok {
		for _, g := range impl {
			if pw.W[g][i] {
				return true
			}
		}
		return false
	}
	return pw.W[f.Origin()][i]
}
