// Package gf is engine E2 "guardflow": path-sensitive propagation of guard
// facts (a bounded DNF of literals over canonical atoms) along go/cfg graphs.
// Nothing here executes repository code and no path is handed to a solver; the
// engine propagates propositional facts plus integer difference bounds.
package gf

import (
	"fmt"
	"go/ast"
	"go/constant"
	"go/token"
	"go/types"
	"sort"
	"strings"

	"asverif/internal/load"
)

// Term is a canonical expression over types.Objects.
type Term struct {
	K   byte // v var, c const, n nil, f field, i index, k call, d deref, a addr, b binop, u unop, o opaque, s slice, t assert, z zero value
	S   string
	Obj types.Object
	A   []*Term
	Typ types.Type
	Fn  *types.Func // static callee of a call term
	key string
}

func (t *Term) Key() string {
	if t == nil {
		return "<unresolved>"
	}
	return t.key
}
func (t *Term) String() string {
	return pretty(t)
}

func mk(k byte, s string, obj types.Object, typ types.Type, args ...*Term) *Term {
	// (&x).f is x.f, *(&x) is x: so that a pointer known equal to &x rewrites to the same terms as x itself
	if len(args) >= 1 && args[0] != nil && args[0].K == 'a' && len(args[0].A) == 1 {
		switch k {
		case 'f':
			args = append([]*Term{args[0].A[0]}, args[1:]...)
		case 'd':
			return args[0].A[0]
		}
	}
	t := &Term{K: k, S: s, Obj: obj, A: args, Typ: typ}
	var sb strings.Builder
	sb.WriteByte(k)
	sb.WriteByte(':')
	switch k {
	case 'v':
		if obj != nil && obj.Pkg() != nil && obj.Parent() == obj.Pkg().Scope() {
			sb.WriteString(obj.Pkg().Path() + "." + obj.Name())
		} else if obj != nil {
			fmt.Fprintf(&sb, "%s#%d", obj.Name(), obj.Pos())
		} else {
			sb.WriteString(s)
		}
	default:
		sb.WriteString(s)
	}
	if len(args) > 0 {
		sb.WriteByte('(')
		for i, a := range args {
			if i > 0 {
				sb.WriteByte(',')
			}
			sb.WriteString(a.key)
		}
		sb.WriteByte(')')
	}
	t.key = sb.String()
	return t
}

func pretty(t *Term) string {
	switch t.K {
	case 'v':
		if t.Obj != nil {
			return t.Obj.Name()
		}
		return t.S
	case 'c':
		return t.S
	case 'n':
		return "nil"
	case 'z':
		return "zero"
	case 'f':
		return pretty(t.A[0]) + "." + t.S
	case 'i':
		return pretty(t.A[0]) + "[" + pretty(t.A[1]) + "]"
	case 'd':
		return "*" + pretty(t.A[0])
	case 'a':
		return "&" + pretty(t.A[0])
	case 'b':
		return "(" + pretty(t.A[0]) + " " + t.S + " " + pretty(t.A[1]) + ")"
	case 'u':
		return t.S + pretty(t.A[0])
	case 'k':
		var as []string
		for _, a := range t.A {
			as = append(as, pretty(a))
		}
		name := t.S
		if t.Fn != nil {
			name = t.Fn.Name()
		} else if i := strings.LastIndex(name, "/"); i >= 0 {
			name = name[i+1:]
		}
		return name + "(" + strings.Join(as, ", ") + ")"
	case 's':
		return pretty(t.A[0]) + "[:]"
	case 't':
		return pretty(t.A[0]) + ".(" + t.S + ")"
	}
	return "<" + t.S + ">"
}

var NilTerm = mk('n', "nil", nil, types.Typ[types.UntypedNil])

func ConstInt(v int64) *Term {
	return mk('c', fmt.Sprint(v), nil, types.Typ[types.Int])
}
func ConstStr(s string) *Term {
	return mk('c', constant.MakeString(s).ExactString(), nil, types.Typ[types.String])
}
func ConstBool(b bool) *Term {
	return mk('c', fmt.Sprint(b), nil, types.Typ[types.Bool])
}
func Var(obj types.Object) *Term { return mk('v', obj.Name(), obj, obj.Type()) }
func Field(base *Term, name string, typ types.Type) *Term {
	return mk('f', name, nil, typ, base)
}
func Index(base, idx *Term, typ types.Type) *Term { return mk('i', "", nil, typ, base, idx) }

// IndexOf is Index with the prefix-slice normalisation of the canoniser: x[:n][i] is x[i].
func IndexOf(base, idx *Term, typ types.Type) *Term {
	if base.K == 's' && len(base.A) >= 2 && base.A[1].K == 'z' && base.A[0].Typ != nil {
		if _, isSlice := base.A[0].Typ.Underlying().(*types.Slice); isSlice {
			base = base.A[0]
		}
	}
	return mk('i', "", nil, typ, base, idx)
}
func Deref(p *Term, typ types.Type) *Term { return mk('d', "", nil, typ, p) }
func CallT(fn string, typ types.Type, args ...*Term) *Term {
	return mk('k', fn, nil, typ, args...)
}

// CastT is the term of the type assertion x.(t).
func CastT(x *Term, t types.Type) *Term { return mk('t', types.TypeString(t, nil), nil, t, x) }

func LenOf(t *Term) *Term {
	// len(x[:n]) is n (the slice expression would have panicked otherwise)
	if t.K == 's' && len(t.A) >= 3 && t.A[1].K == 'z' && t.A[2].K != 'z' && (len(t.A) < 4 || t.A[3].K == 'z') {
		return t.A[2]
	}
	return mk('k', "len", nil, types.Typ[types.Int], t)
}
func Bin(op string, l, r *Term) *Term {
	return mk('b', op, nil, l.Typ, l, r)
}

// Mentions reports whether t contains a sub-term satisfying pred.
func (t *Term) Mentions(pred func(*Term) bool) bool {
	if pred(t) {
		return true
	}
	for _, a := range t.A {
		if a.Mentions(pred) {
			return true
		}
	}
	return false
}

// Subst replaces sub-terms with key from by to.
func (t *Term) Subst(from string, to *Term) *Term {
	if t.key == from {
		return to
	}
	if len(t.A) == 0 {
		return t
	}
	changed := false
	args := make([]*Term, len(t.A))
	for i, a := range t.A {
		args[i] = a.Subst(from, to)
		if args[i] != a {
			changed = true
		}
	}
	if !changed {
		return t
	}
	return mk(t.K, t.S, t.Obj, t.Typ, args...)
}

// ---------------------------------------------------------------------------

// Canon builds canonical terms and formulas for expressions of one package,
// inlining in-repo single-return pure functions.
type Canon struct {
	Prog *load.Prog
	Sum  *Summaries
}

// PureTerm reports whether evaluating the term twice yields the same value and
// has no effect: no opaque parts and only pure calls.
func (c *Canon) PureTerm(t *Term) bool {
	return !t.Mentions(func(s *Term) bool {
		switch s.K {
		case 'o':
			return true
		case 'k':
			if s.S == "len" || s.S == "cap" || s.S == "min" || s.S == "max" {
				return false
			}
			if s.Fn != nil {
				if load.IsRepo(pkgPathOf(s.Fn)) {
					return !(c.Sum != nil && c.Sum.Pure[s.Fn.Origin()])
				}
				return !PureExternal(s.Fn)
			}
			return true
		}
		return false
	})
}

func pkgPathOf(f *types.Func) string {
	if f.Pkg() == nil {
		return ""
	}
	return f.Pkg().Path()
}

type scope struct {
	info  *types.Info
	subst map[types.Object]*Term
	depth int
}

func isIntegerType(t types.Type) bool {
	if t == nil {
		return false
	}
	b, ok := t.Underlying().(*types.Basic)
	return ok && b.Info()&types.IsInteger != 0
}

func (c *Canon) infoFor(pos token.Pos) *types.Info {
	pk := c.Prog.PkgOfPos(pos)
	if pk == nil {
		return nil
	}
	return pk.TypesInfo
}

// Term canonicalises e as seen from the package whose info is given.
func (c *Canon) Term(info *types.Info, e ast.Expr) *Term {
	return c.term(&scope{info: info}, e)
}

func (c *Canon) opaque(sc *scope, e ast.Expr) *Term {
	return mk('o', fmt.Sprintf("%T@%d", e, e.Pos()), nil, sc.info.TypeOf(e))
}

// StaticCallee resolves the called function (nil for dynamic calls, builtins and conversions).
func StaticCallee(info *types.Info, call *ast.CallExpr) *types.Func {
	var id *ast.Ident
	switch f := ast.Unparen(call.Fun).(type) {
	case *ast.Ident:
		id = f
	case *ast.SelectorExpr:
		id = f.Sel
	case *ast.IndexExpr:
		switch g := ast.Unparen(f.X).(type) {
		case *ast.Ident:
			id = g
		case *ast.SelectorExpr:
			id = g.Sel
		}
	}
	if id == nil {
		return nil
	}
	if fn, ok := info.Uses[id].(*types.Func); ok {
		return fn
	}
	return nil
}

// inlineBody returns the single returned expression of an in-repo function
// whose body is exactly `return expr`, or nil.
func (c *Canon) inlineBody(fn *types.Func) (*load.FuncInfo, ast.Expr) {
	fi := c.Prog.FuncInfoOf(fn)
	if fi == nil || fi.Decl.Body == nil || len(fi.Decl.Body.List) != 1 {
		return nil, nil
	}
	ret, ok := fi.Decl.Body.List[0].(*ast.ReturnStmt)
	if !ok || len(ret.Results) != 1 {
		return nil, nil
	}
	sig := fn.Type().(*types.Signature)
	if sig.Variadic() || sig.Results().Len() != 1 {
		return nil, nil
	}
	return fi, ret.Results[0]
}

// projectionBody: the function's body is `a, b := g(...); return a` (or b): it hands back one result of g.
// Returns the call of g and the index of the result.
func (c *Canon) projectionBody(fn *types.Func) (*load.FuncInfo, *ast.CallExpr, int) {
	fi := c.Prog.FuncInfoOf(fn)
	if fi == nil || fi.Decl.Body == nil || len(fi.Decl.Body.List) != 2 {
		return nil, nil, 0
	}
	sig := fn.Type().(*types.Signature)
	if sig.Variadic() || sig.Results().Len() != 1 {
		return nil, nil, 0
	}
	as, ok := fi.Decl.Body.List[0].(*ast.AssignStmt)
	if !ok || len(as.Rhs) != 1 || len(as.Lhs) < 2 || (as.Tok != token.DEFINE && as.Tok != token.ASSIGN) {
		return nil, nil, 0
	}
	g, ok := ast.Unparen(as.Rhs[0]).(*ast.CallExpr)
	if !ok {
		return nil, nil, 0
	}
	ret, ok := fi.Decl.Body.List[1].(*ast.ReturnStmt)
	if !ok || len(ret.Results) != 1 {
		return nil, nil, 0
	}
	rid, ok := ast.Unparen(ret.Results[0]).(*ast.Ident)
	if !ok {
		return nil, nil, 0
	}
	info := fi.Pkg.TypesInfo
	for k, l := range as.Lhs {
		if id, ok := l.(*ast.Ident); ok && id.Name != "_" && info.ObjectOf(id) == info.ObjectOf(rid) {
			return fi, g, k
		}
	}
	return nil, nil, 0
}

// ProjOf is the k-th result of the (pure) call ct.
func ProjOf(ct *Term, k int, typ types.Type) *Term {
	t := mk('k', fmt.Sprintf("%s#%d", ct.S, k), nil, typ, ct.A...)
	t.Fn = ct.Fn
	return t
}

func (c *Canon) bindParams(sc *scope, fi *load.FuncInfo, call *ast.CallExpr) *scope {
	sub := map[types.Object]*Term{}
	sig := fi.Obj.Type().(*types.Signature)
	args := call.Args
	if sig.Recv() != nil {
		sel, ok := ast.Unparen(call.Fun).(*ast.SelectorExpr)
		if !ok {
			return nil
		}
		if fi.Decl.Recv != nil && len(fi.Decl.Recv.List) == 1 && len(fi.Decl.Recv.List[0].Names) == 1 {
			if ro := fi.Pkg.TypesInfo.Defs[fi.Decl.Recv.List[0].Names[0]]; ro != nil {
				sub[ro] = c.term(sc, sel.X)
			}
		}
	}
	i := 0
	for _, f := range fi.Decl.Type.Params.List {
		for _, n := range f.Names {
			if i >= len(args) {
				return nil
			}
			if po := fi.Pkg.TypesInfo.Defs[n]; po != nil {
				sub[po] = c.term(sc, args[i])
			}
			i++
		}
		if len(f.Names) == 0 {
			i++
		}
	}
	if i != len(args) {
		return nil
	}
	return &scope{info: fi.Pkg.TypesInfo, subst: sub, depth: sc.depth + 1}
}

func constTerm(tv types.TypeAndValue) *Term {
	if tv.Value == nil {
		return nil
	}
	typ := tv.Type
	switch tv.Value.Kind() {
	case constant.Bool:
		return mk('c', tv.Value.ExactString(), nil, typ)
	case constant.String:
		return mk('c', tv.Value.ExactString(), nil, typ)
	case constant.Int:
		return mk('c', tv.Value.ExactString(), nil, typ)
	case constant.Float, constant.Complex:
		return mk('c', tv.Value.ExactString(), nil, typ)
	}
	return nil
}

func (c *Canon) term(sc *scope, e ast.Expr) *Term {
	e = ast.Unparen(e)
	if tv, ok := sc.info.Types[e]; ok {
		if ct := constTerm(tv); ct != nil {
			return ct
		}
		if tv.IsNil() {
			return NilTerm
		}
	}
	typ := sc.info.TypeOf(e)
	switch x := e.(type) {
	case *ast.Ident:
		obj := sc.info.ObjectOf(x)
		if obj == nil {
			return c.opaque(sc, e)
		}
		if t, ok := sc.subst[obj]; ok {
			return t
		}
		switch o := obj.(type) {
		case *types.Var:
			return mk('v', o.Name(), o, o.Type())
		case *types.Nil:
			return NilTerm
		case *types.Func:
			return mk('v', o.FullName(), nil, o.Type())
		}
		return c.opaque(sc, e)
	case *ast.SelectorExpr:
		if sel, ok := sc.info.Selections[x]; ok {
			switch sel.Kind() {
			case types.FieldVal:
				base := c.term(sc, x.X)
				// make embedded-field promotion explicit so that a.B and a.Emb.B agree
				t := base
				cur := sc.info.TypeOf(x.X)
				idx := sel.Index()
				for n, fi := range idx {
					st := structOf(cur)
					if st == nil {
						return c.opaque(sc, e)
					}
					f := st.Field(fi)
					_ = n
					t = mk('f', fieldKey(cur, f), f, f.Type(), t)
					cur = f.Type()
				}
				return t
			case types.MethodVal:
				// method value (not a call): opaque but stable
				return mk('k', "methodvalue:"+sel.Obj().(*types.Func).FullName(), nil, typ, c.term(sc, x.X))
			}
			return c.opaque(sc, e)
		}
		// qualified identifier pkg.Name
		obj := sc.info.ObjectOf(x.Sel)
		switch o := obj.(type) {
		case *types.Var:
			return mk('v', o.Name(), o, o.Type())
		case *types.Func:
			return mk('v', o.FullName(), nil, o.Type())
		}
		return c.opaque(sc, e)
	case *ast.StarExpr:
		return mk('d', "", nil, typ, c.term(sc, x.X))
	case *ast.UnaryExpr:
		switch x.Op {
		case token.AND:
			return mk('a', "", nil, typ, c.term(sc, x.X))
		case token.SUB, token.ADD, token.NOT, token.XOR:
			return mk('u', x.Op.String(), nil, typ, c.term(sc, x.X))
		case token.ARROW:
			return c.opaque(sc, e)
		}
		return c.opaque(sc, e)
	case *ast.BinaryExpr:
		l, r := c.term(sc, x.X), c.term(sc, x.Y)
		return mk('b', x.Op.String(), nil, typ, l, r)
	case *ast.IndexExpr:
		if tv, ok := sc.info.Types[x.Index]; ok && tv.IsType() {
			return c.opaque(sc, e) // generic instantiation
		}
		bt := c.term(sc, x.X)
		// x[:n][i] is x[i]
		if bt.K == 's' && len(bt.A) >= 2 && bt.A[1].K == 'z' {
			if _, isSlice := bt.A[0].Typ.Underlying().(*types.Slice); isSlice {
				bt = bt.A[0]
			}
		}
		return mk('i', "", nil, typ, bt, c.term(sc, x.Index))
	case *ast.SliceExpr:
		args := []*Term{c.term(sc, x.X)}
		for _, b := range []ast.Expr{x.Low, x.High, x.Max} {
			if b != nil {
				args = append(args, c.term(sc, b))
			} else {
				args = append(args, mk('z', "-", nil, nil))
			}
		}
		return mk('s', "", nil, typ, args...)
	case *ast.TypeAssertExpr:
		if x.Type == nil {
			return c.opaque(sc, e)
		}
		return mk('t', types.TypeString(sc.info.TypeOf(x.Type), nil), nil, typ, c.term(sc, x.X))
	case *ast.CallExpr:
		return c.callTerm(sc, x)
	}
	return c.opaque(sc, e)
}

func structOf(t types.Type) *types.Struct {
	if t == nil {
		return nil
	}
	if p, ok := t.Underlying().(*types.Pointer); ok {
		t = p.Elem()
	}
	st, _ := t.Underlying().(*types.Struct)
	return st
}

// OwnerName names the struct type owning a field selected from a value of type t.
func OwnerName(t types.Type) string {
	if t == nil {
		return "?"
	}
	if p, ok := t.Underlying().(*types.Pointer); ok {
		t = p.Elem()
	}
	if p, ok := t.(*types.Pointer); ok {
		t = p.Elem()
	}
	t = types.Unalias(t)
	if n, ok := t.(*types.Named); ok {
		if n.Obj().Pkg() != nil {
			return n.Obj().Pkg().Path() + "." + n.Obj().Name()
		}
		return n.Obj().Name()
	}
	return types.TypeString(t, nil)
}

func fieldKey(owner types.Type, f *types.Var) string {
	return f.Name()
}

// FieldOwner returns "pkg.Type.Field" for a field term.
func FieldOwner(t *Term) string {
	if t.K != 'f' || len(t.A) == 0 {
		return ""
	}
	return OwnerName(t.A[0].Typ) + "." + t.S
}

func (c *Canon) callTerm(sc *scope, call *ast.CallExpr) *Term {
	typ := sc.info.TypeOf(call)
	// conversion
	if tv, ok := sc.info.Types[call.Fun]; ok && tv.IsType() && len(call.Args) == 1 {
		return c.term(sc, call.Args[0]) // conversions are stripped: guard identity only
	}
	// builtin
	if id, ok := ast.Unparen(call.Fun).(*ast.Ident); ok {
		if b, ok := sc.info.ObjectOf(id).(*types.Builtin); ok {
			var args []*Term
			for _, a := range call.Args {
				if tv, ok := sc.info.Types[a]; ok && tv.IsType() {
					args = append(args, mk('o', "type:"+types.TypeString(tv.Type, nil), nil, nil))
					continue
				}
				args = append(args, c.term(sc, a))
			}
			switch b.Name() {
			case "len":
				if len(args) == 1 {
					return LenOf(args[0])
				}
				return mk('k', b.Name(), nil, types.Typ[types.Int], args...)
			case "cap":
				return mk('k', b.Name(), nil, types.Typ[types.Int], args...)
			case "make", "new", "append":
				// results are fresh or derived values; identity by position
				return mk('o', fmt.Sprintf("%s@%d", b.Name(), call.Pos()), nil, typ)
			}
			return mk('k', b.Name(), nil, typ, args...)
		}
	}
	fn := StaticCallee(sc.info, call)
	if fn != nil && sc.depth < 8 {
		if fi, body := c.inlineBody(fn); fi != nil {
			if inner := c.bindParams(sc, fi, call); inner != nil {
				return c.term(inner, body)
			}
		}
		if fi, g, k := c.projectionBody(fn); fi != nil {
			if inner := c.bindParams(sc, fi, call); inner != nil {
				if gt := c.term(inner, g); gt != nil && gt.K == 'k' && gt.Fn != nil {
					return ProjOf(gt, k, typ)
				}
			}
		}
	}
	var args []*Term
	name := ""
	if fn != nil {
		name = fn.FullName()
		if sel, ok := ast.Unparen(call.Fun).(*ast.SelectorExpr); ok {
			if s, ok := sc.info.Selections[sel]; ok && s.Kind() == types.MethodVal {
				args = append(args, c.term(sc, sel.X))
			}
		}
	} else {
		// a call of a function value: the value is the first argument of the term, so that equalities
		// between function-typed variables (a helper's parameter bound to the caller's) rewrite it
		name = "dyn"
		args = append(args, c.term(sc, call.Fun))
	}
	for _, a := range call.Args {
		args = append(args, c.term(sc, a))
	}
	if call.Ellipsis.IsValid() {
		name += "..."
	}
	ct := mk('k', name, nil, typ, args...)
	ct.Fn = fn
	return ct
}

// ---------------------------------------------------------------------------
// Formulas

type Atom struct {
	Op   string // "eq", "lt", "b"
	L, R *Term
	key  string
}

func (a *Atom) Key() string { return a.key }

func (a *Atom) String() string {
	switch a.Op {
	case "eq":
		return pretty(a.L) + " == " + pretty(a.R)
	case "lt":
		return pretty(a.L) + " < " + pretty(a.R)
	}
	return pretty(a.L)
}

func Eq(l, r *Term) *Atom {
	if r.key < l.key {
		l, r = r, l
	}
	return &Atom{Op: "eq", L: l, R: r, key: "eq(" + l.key + "," + r.key + ")"}
}
func Lt(l, r *Term) *Atom {
	return &Atom{Op: "lt", L: l, R: r, key: "lt(" + l.key + "," + r.key + ")"}
}
func BoolAtom(t *Term) *Atom {
	return &Atom{Op: "b", L: t, key: "b(" + t.key + ")"}
}

func (a *Atom) Terms() []*Term {
	if a.R != nil {
		return []*Term{a.L, a.R}
	}
	return []*Term{a.L}
}

func (a *Atom) Mentions(pred func(*Term) bool) bool {
	for _, t := range a.Terms() {
		if t.Mentions(pred) {
			return true
		}
	}
	return false
}

func (a *Atom) Subst(from string, to *Term) *Atom {
	switch a.Op {
	case "eq":
		return Eq(a.L.Subst(from, to), a.R.Subst(from, to))
	case "lt":
		return Lt(a.L.Subst(from, to), a.R.Subst(from, to))
	}
	return BoolAtom(a.L.Subst(from, to))
}

// Formula is a boolean combination of atoms.
type Formula struct {
	Op   byte // 'A' atom, '&', '|', '!', 'T', 'F'
	Atom *Atom
	Sub  []*Formula
}

var (
	True  = &Formula{Op: 'T'}
	False = &Formula{Op: 'F'}
)

func FAtom(a *Atom) *Formula { return &Formula{Op: 'A', Atom: a} }
func And(fs ...*Formula) *Formula {
	var out []*Formula
	for _, f := range fs {
		switch f.Op {
		case 'T':
		case 'F':
			return False
		case '&':
			out = append(out, f.Sub...)
		default:
			out = append(out, f)
		}
	}
	if len(out) == 0 {
		return True
	}
	if len(out) == 1 {
		return out[0]
	}
	return &Formula{Op: '&', Sub: out}
}
func Or(fs ...*Formula) *Formula {
	var out []*Formula
	for _, f := range fs {
		switch f.Op {
		case 'F':
		case 'T':
			return True
		case '|':
			out = append(out, f.Sub...)
		default:
			out = append(out, f)
		}
	}
	if len(out) == 0 {
		return False
	}
	if len(out) == 1 {
		return out[0]
	}
	return &Formula{Op: '|', Sub: out}
}
func Not(f *Formula) *Formula {
	switch f.Op {
	case 'T':
		return False
	case 'F':
		return True
	case '!':
		return f.Sub[0]
	}
	return &Formula{Op: '!', Sub: []*Formula{f}}
}

// Convenience constructors over terms.
func FEq(l, r *Term) *Formula  { return foldAtom(Eq(l, r)) }
func FNe(l, r *Term) *Formula  { return Not(FEq(l, r)) }
func FLt(l, r *Term) *Formula  { return foldAtom(Lt(l, r)) }
func FGe(l, r *Term) *Formula  { return Not(FLt(l, r)) }
func FLe(l, r *Term) *Formula  { return Not(FLt(r, l)) }
func FGt(l, r *Term) *Formula  { return FLt(r, l) }
func FBool(t *Term) *Formula   { return foldAtom(BoolAtom(t)) }
func FNil(t *Term) *Formula    { return FEq(t, NilTerm) }
func FNotNil(t *Term) *Formula { return Not(FNil(t)) }

func constInt(t *Term) (int64, bool) {
	if t.K != 'c' {
		return 0, false
	}
	var v int64
	if _, err := fmt.Sscan(t.S, &v); err != nil {
		return 0, false
	}
	if fmt.Sprint(v) != t.S {
		return 0, false
	}
	return v, true
}

func foldAtom(a *Atom) *Formula {
	switch a.Op {
	case "eq":
		if a.L.key == a.R.key && a.L.K != 'o' {
			return True
		}
		if a.L.K == 'c' && a.R.K == 'c' {
			if a.L.S == a.R.S {
				return True
			}
			return False
		}
		if (a.L.K == 'c' && a.R.K == 'n') || (a.L.K == 'n' && a.R.K == 'c') {
			return False
		}
		if (a.L.K == 'a' && a.R.K == 'n') || (a.L.K == 'n' && a.R.K == 'a') {
			return False // the address of a variable is never nil
		}
	case "lt":
		if l, ok := constInt(a.L); ok {
			if r, ok := constInt(a.R); ok {
				if l < r {
					return True
				}
				return False
			}
		}
		if a.L.key == a.R.key {
			return False
		}
	case "b":
		if a.L.K == 'c' {
			if a.L.S == "true" {
				return True
			}
			if a.L.S == "false" {
				return False
			}
		}
	}
	return FAtom(a)
}

// Key is a canonical rendering over atom keys (independent of display names).
func (f *Formula) Key() string {
	switch f.Op {
	case 'T':
		return "T"
	case 'F':
		return "F"
	case 'A':
		return f.Atom.key
	}
	parts := make([]string, len(f.Sub))
	for i, s := range f.Sub {
		parts[i] = s.Key()
	}
	return string(f.Op) + "(" + strings.Join(parts, ",") + ")"
}

func (f *Formula) String() string {
	switch f.Op {
	case 'T':
		return "true"
	case 'F':
		return "false"
	case 'A':
		return f.Atom.String()
	case '!':
		if f.Sub[0].Op == 'A' {
			a := f.Sub[0].Atom
			switch a.Op {
			case "eq":
				return pretty(a.L) + " != " + pretty(a.R)
			case "lt":
				return pretty(a.L) + " >= " + pretty(a.R)
			}
		}
		return "!(" + f.Sub[0].String() + ")"
	}
	var parts []string
	for _, s := range f.Sub {
		parts = append(parts, s.String())
	}
	sep := " && "
	if f.Op == '|' {
		sep = " || "
	}
	return "(" + strings.Join(parts, sep) + ")"
}

// Formula converts a boolean expression.
func (c *Canon) Formula(info *types.Info, e ast.Expr) *Formula {
	return c.formula(&scope{info: info}, e)
}

func (c *Canon) formula(sc *scope, e ast.Expr) *Formula {
	e = ast.Unparen(e)
	if tv, ok := sc.info.Types[e]; ok && tv.Value != nil && tv.Value.Kind() == constant.Bool {
		if constant.BoolVal(tv.Value) {
			return True
		}
		return False
	}
	switch x := e.(type) {
	case *ast.UnaryExpr:
		if x.Op == token.NOT {
			return Not(c.formula(sc, x.X))
		}
	case *ast.BinaryExpr:
		switch x.Op {
		case token.LAND:
			return And(c.formula(sc, x.X), c.formula(sc, x.Y))
		case token.LOR:
			return Or(c.formula(sc, x.X), c.formula(sc, x.Y))
		case token.EQL, token.NEQ:
			lt, rt := sc.info.TypeOf(x.X), sc.info.TypeOf(x.Y)
			if isBool(lt) && isBool(rt) {
				l, r := c.formula(sc, x.X), c.formula(sc, x.Y)
				iff := Or(And(l, r), And(Not(l), Not(r)))
				if x.Op == token.NEQ {
					return Not(iff)
				}
				return iff
			}
			f := FEq(c.term(sc, x.X), c.term(sc, x.Y))
			if x.Op == token.NEQ {
				return Not(f)
			}
			return f
		case token.LSS:
			return FLt(c.term(sc, x.X), c.term(sc, x.Y))
		case token.GTR:
			return FLt(c.term(sc, x.Y), c.term(sc, x.X))
		case token.LEQ:
			return Not(FLt(c.term(sc, x.Y), c.term(sc, x.X)))
		case token.GEQ:
			return Not(FLt(c.term(sc, x.X), c.term(sc, x.Y)))
		}
	case *ast.CallExpr:
		if fn := StaticCallee(sc.info, x); fn != nil && sc.depth < 8 {
			if fi, body := c.inlineBody(fn); fi != nil && isBool(fn.Type().(*types.Signature).Results().At(0).Type()) {
				if inner := c.bindParams(sc, fi, x); inner != nil {
					return c.formula(inner, body)
				}
			}
		}
	case *ast.Ident:
		if obj := sc.info.ObjectOf(x); obj != nil {
			if t, ok := sc.subst[obj]; ok {
				return FBool(t)
			}
		}
	}
	return FBool(c.term(sc, e))
}

func isBool(t types.Type) bool {
	if t == nil {
		return false
	}
	b, ok := t.Underlying().(*types.Basic)
	return ok && b.Info()&types.IsBoolean != 0
}

// SortedKeys is a helper for deterministic iteration.
func SortedKeys[V any](m map[string]V) []string {
	ks := make([]string, 0, len(m))
	for k := range m {
		ks = append(ks, k)
	}
	sort.Strings(ks)
	return ks
}
