package gf

import (
	"fmt"
	"go/ast"
	"go/token"
	"go/types"

	"asverif/internal/load"

	"golang.org/x/tools/go/cfg"
)

// In-place expansion of small same-package helpers.
//
// A statement-level call to a small, non-recursive function of the same
// package is replaced, in the caller's control-flow graph, by the callee's own
// graph: synthetic assignments bind the parameters before it, every return of
// the callee stores its results in per-call-site temporaries and continues at
// the rest of the calling block, where the original statement reads the
// temporaries instead of making the call. Rules therefore see the same paths
// and facts whether a piece of logic sits in the function they are anchored on
// or in a helper it was extracted to.
//
// Whether a call is expanded depends only on the call itself (callee shape and
// size, position inside its statement), never on the function being analysed,
// so every analysis agrees on it.

// InlineLimit bounds the expanded size (CFG nodes) of a callee that is expanded in place.
const InlineLimit = 40

// vocabulary: the pure accessors and predicates the rule templates mention by name. They stay
// uninterpreted symbols in facts (getOrdinal(p), getPodRevision(p), ...): expanding their bodies
// would replace the symbol the rules reason with by facts about its implementation. Any other
// small helper, in particular one that a refactoring introduces, is expanded.
var vocabulary = map[string]bool{
	load.CtrlPkg + ".getOrdinal":              true,
	load.CtrlPkg + ".getParentName":           true,
	load.CtrlPkg + ".getParentNameAndOrdinal": true,
	load.CtrlPkg + ".getPodRevision":          true,
	load.CtrlPkg + ".identityMatches":         true,
	load.CtrlPkg + ".storageMatches":          true,
	load.CtrlPkg + ".nextRevision":            true,
	load.CtrlPkg + ".shouldSyncLabels":        true,
	load.CtrlPkg + ".controllerRevisionName":  true,
	load.K8sPkg + ".ControllerRevisionName":   true,
	load.K8sPkg + ".IsPodReadyConditionTrue":  true,
	load.K8sPkg + ".GetPodCondition":          true,
	load.K8sPkg + ".GetPodReadyCondition":     true,
	load.K8sPkg + ".GetPodConditionFromList":  true,
	load.K8sPkg + ".EqualRevision":            true,
	load.K8sPkg + ".FindEqualRevisions":       true,
	load.HelperPkg + ".GetPausedReconcile":    true,
	load.HelperPkg + ".GetDeleteSlots":        true,
}

// BigInlineLimit bounds the size of a new single-caller function that is expanded back into its caller.
const BigInlineLimit = 400

// callSites counts the static call expressions of fn in the repo.
func (e *Engine) callSites(fn *types.Func) int {
	in := e.inl()
	if in.nCalls == nil {
		in.nCalls = map[*types.Func]int{}
		for _, fi := range e.Prog.Funcs() {
			info := fi.Pkg.TypesInfo
			ast.Inspect(fi.Decl.Body, func(n ast.Node) bool {
				if call, ok := n.(*ast.CallExpr); ok {
					if f := StaticCallee(info, call); f != nil {
						in.nCalls[f.Origin()]++
					}
				}
				return true
			})
		}
	}
	return in.nCalls[fn.Origin()]
}

// InlSite is one expanded call.
type InlSite struct {
	Call    *ast.CallExpr
	Callee  *load.FuncInfo
	Res     []*types.Var // result temporaries
	ResID   []*ast.Ident // one use of each, registered in the package's Info
	Pure    bool
	pureSet bool
}

type inlDecision struct {
	ok   bool
	size int
	why  string
}

type inliner struct {
	memo      map[*types.Func]*inlDecision
	sites     map[*ast.CallExpr]*InlSite
	callees   map[*types.Func][]*types.Func // static repo call graph
	recursive map[*types.Func]bool
	built     bool
	nCalls    map[*types.Func]int
}

func (e *Engine) inl() *inliner {
	if e.inliner == nil {
		e.inliner = &inliner{memo: map[*types.Func]*inlDecision{}, sites: map[*ast.CallExpr]*InlSite{}, callees: map[*types.Func][]*types.Func{}, recursive: map[*types.Func]bool{}}
	}
	return e.inliner
}

func (e *Engine) buildStaticGraph() {
	in := e.inl()
	if in.built {
		return
	}
	in.built = true
	for _, fi := range e.Prog.Funcs() {
		info := fi.Pkg.TypesInfo
		ast.Inspect(fi.Decl.Body, func(n ast.Node) bool {
			if call, ok := n.(*ast.CallExpr); ok {
				if fn := StaticCallee(info, call); fn != nil && e.Prog.FuncInfoOf(fn) != nil {
					in.callees[fi.Obj] = append(in.callees[fi.Obj], fn.Origin())
				}
			}
			return true
		})
	}
	for _, fi := range e.Prog.Funcs() {
		seen := map[*types.Func]bool{}
		var dfs func(f *types.Func) bool
		dfs = func(f *types.Func) bool {
			for _, g := range in.callees[f] {
				if g == fi.Obj {
					return true
				}
				if !seen[g] {
					seen[g] = true
					if dfs(g) {
						return true
					}
				}
			}
			return false
		}
		in.recursive[fi.Obj] = dfs(fi.Obj)
	}
}

// InlineDecision reports whether calls to fn are expanded in place, and why not.
func (e *Engine) InlineDecision(fn *types.Func) (bool, int, string) {
	d := e.inlineInfo(fn)
	return d.ok, d.size, d.why
}

func (e *Engine) inlineInfo(fn *types.Func) *inlDecision {
	in := e.inl()
	e.buildStaticGraph()
	fn = fn.Origin()
	if d, ok := in.memo[fn]; ok {
		return d
	}
	d := &inlDecision{}
	in.memo[fn] = d
	fi := e.Prog.FuncInfoOf(fn)
	sig, _ := fn.Type().(*types.Signature)
	switch {
	case e.NoInline:
		d.why = "expansion disabled"
	case fi == nil || fi.Decl.Body == nil:
		d.why = "no body"
	case sig == nil || sig.Variadic():
		d.why = "variadic"
	case sig.TypeParams() != nil || sig.RecvTypeParams() != nil:
		d.why = "generic"
	case in.recursive[fn]:
		d.why = "recursive"
	}
	if d.why != "" {
		return d
	}
	if _, body := e.Canon.inlineBody(fn); body != nil {
		d.why = "single return expression (handled as a term)"
		return d
	}
	if vocabulary[fn.FullName()] {
		d.why = "vocabulary of the rules (stays a symbol)"
		return d
	}
	bad := ""
	ast.Inspect(fi.Decl.Body, func(n ast.Node) bool {
		switch x := n.(type) {
		case *ast.FuncLit:
			return false
		case *ast.DeferStmt:
			bad = "defer"
		case *ast.CallExpr:
			if id, ok := ast.Unparen(x.Fun).(*ast.Ident); ok {
				if b, ok := fi.Pkg.TypesInfo.ObjectOf(id).(*types.Builtin); ok && b.Name() == "recover" {
					bad = "recover"
				}
			}
		}
		return true
	})
	if bad != "" {
		d.why = bad
		return d
	}
	info := fi.Pkg.TypesInfo
	g := cfg.New(fi.Decl.Body, func(c *ast.CallExpr) bool { return !NoReturn(info, c) })
	size := 0
	for _, b := range g.Blocks {
		if !b.Live {
			continue
		}
		size += len(b.Nodes)
		for _, n := range b.Nodes {
			for _, call := range e.eligibleCalls(info, fi.Pkg.Types, n) {
				size += e.inlineInfo(StaticCallee(info, call)).size
			}
		}
	}
	d.size = size
	if size > InlineLimit {
		// a function that did not exist at the pinned commit and has a single call site was cut out of its
		// caller ("extract a phase into a helper"): it is expanded back whatever its size
		single := e.IsPinned != nil && !e.IsPinned(fn) && size <= BigInlineLimit && e.callSites(fn) == 1
		if !single {
			d.why = fmt.Sprintf("expanded size %d > %d", size, InlineLimit)
			return d
		}
	}
	d.ok = true
	return d
}

// eligibleCalls lists, in evaluation order (inner calls first), the calls inside
// CFG node n that are expanded in place.
func (e *Engine) eligibleCalls(info *types.Info, pkg *types.Package, n ast.Node) []*ast.CallExpr {
	switch n.(type) {
	case *ast.AssignStmt, *ast.ExprStmt, *ast.ReturnStmt, *ast.ValueSpec, ast.Expr:
	default:
		return nil
	}
	var out []*ast.CallExpr
	var walk func(x ast.Node)
	walk = func(x ast.Node) {
		switch y := x.(type) {
		case nil:
			return
		case *ast.FuncLit:
			return
		case *ast.BinaryExpr:
			walk(y.X)
			if y.Op != token.LAND && y.Op != token.LOR {
				walk(y.Y)
			}
			return
		case *ast.CallExpr:
			walk(y.Fun)
			for _, a := range y.Args {
				walk(a)
			}
			if e.siteEligible(info, pkg, y) {
				out = append(out, y)
			}
			return
		}
		// generic traversal of direct children
		first := true
		ast.Inspect(x, func(c ast.Node) bool {
			if first {
				first = false
				return true
			}
			if c != nil {
				walk(c)
			}
			return false
		})
	}
	walk(n)
	return out
}

func (e *Engine) siteEligible(info *types.Info, pkg *types.Package, call *ast.CallExpr) bool {
	if tv, ok := info.Types[call.Fun]; ok && tv.IsType() {
		return false
	}
	fn := StaticCallee(info, call)
	if fn == nil || fn.Pkg() != pkg || call.Ellipsis.IsValid() {
		return false
	}
	if !e.inlineInfo(fn).ok {
		return false
	}
	sig := fn.Type().(*types.Signature)
	if sig.Params().Len() != len(call.Args) {
		return false
	}
	if sig.Recv() != nil {
		sel, ok := ast.Unparen(call.Fun).(*ast.SelectorExpr)
		if !ok {
			return false
		}
		s, ok := info.Selections[sel]
		if !ok || s.Kind() != types.MethodVal || len(s.Index()) != 1 {
			return false
		}
	}
	return true
}

// site returns (creating it on first use) the record of an expanded call.
func (e *Engine) site(info *types.Info, call *ast.CallExpr) *InlSite {
	in := e.inl()
	if s, ok := in.sites[call]; ok {
		return s
	}
	fn := StaticCallee(info, call)
	fi := e.Prog.FuncInfoOf(fn)
	s := &InlSite{Call: call, Callee: fi}
	sig := fn.Type().(*types.Signature)
	for i := 0; i < sig.Results().Len(); i++ {
		v := types.NewVar(call.Pos(), fn.Pkg(), fmt.Sprintf("%s·r%d@%d", fn.Name(), i, e.Prog.Fset.Position(call.Pos()).Line), sig.Results().At(i).Type())
		s.Res = append(s.Res, v)
		id := &ast.Ident{NamePos: call.Pos(), Name: v.Name()}
		info.Uses[id] = v
		s.ResID = append(s.ResID, id)
	}
	in.sites[call] = s
	return s
}

// SiteOf returns the expansion record of a call, or nil if the call is not expanded.
func (e *Engine) SiteOf(call *ast.CallExpr) *InlSite { return e.inl().sites[call] }

// ---------------------------------------------------------------------------

func (f *Fn) synIdent(obj types.Object, pos token.Pos) *ast.Ident {
	id := &ast.Ident{NamePos: pos, Name: obj.Name()}
	f.Info.Uses[id] = obj
	return id
}

func (f *Fn) synAssign(lhs ast.Expr, rhs ast.Expr, pos token.Pos) ast.Node {
	as := &ast.AssignStmt{Lhs: []ast.Expr{lhs}, TokPos: pos, Tok: token.ASSIGN, Rhs: []ast.Expr{rhs}}
	f.synthetic[as] = true
	return as
}

func blankIdent(pos token.Pos) *ast.Ident { return &ast.Ident{NamePos: pos, Name: "_"} }

// adapt makes the receiver expression have the receiver parameter's type.
func (f *Fn) adapt(x ast.Expr, want types.Type, pos token.Pos) ast.Expr {
	have := f.Info.TypeOf(x)
	if have == nil || types.Identical(have, want) {
		return x
	}
	if p, ok := want.Underlying().(*types.Pointer); ok && types.Identical(p.Elem(), have) {
		u := &ast.UnaryExpr{OpPos: pos, Op: token.AND, X: x}
		f.Info.Types[u] = types.TypeAndValue{Type: want}
		if id, ok := ast.Unparen(x).(*ast.Ident); ok {
			if obj := f.Info.ObjectOf(id); obj != nil {
				f.addrTaken[obj] = true
			}
		}
		return u
	}
	if p, ok := have.Underlying().(*types.Pointer); ok && types.Identical(p.Elem(), want) {
		s := &ast.StarExpr{Star: pos, X: x}
		f.Info.Types[s] = types.TypeAndValue{Type: want}
		return s
	}
	return nil
}

// expand rewrites f.CFG, replacing every eligible call by the callee's graph.
func (f *Fn) expand(pkg *types.Package) {
	e := f.Eng
	if e.NoInline || pkg == nil {
		return
	}
	blocks := append([]*cfg.Block{}, f.CFG.Blocks...)
	for _, b := range blocks {
		f.rootBlock[b] = true
	}
	pending := map[*cfg.Block][]*ast.CallExpr{}
	hasPending := map[*cfg.Block]bool{}
	for bi := 0; bi < len(blocks); bi++ {
		b := blocks[bi]
		if !b.Live {
			continue
		}
		for j := 0; j < len(b.Nodes); j++ {
			n := b.Nodes[j]
			if f.retMarker[n] {
				continue
			}
			var calls []*ast.CallExpr
			if j == 0 && hasPending[b] {
				calls = pending[b]
			} else {
				calls = e.eligibleCalls(f.Info, pkg, n)
			}
			if len(calls) == 0 {
				continue
			}
			call := calls[0]
			site := e.site(f.Info, call)
			inserted, cont := f.splice(b, j, site)
			if cont == nil {
				// could not bind: leave the call as it is
				if len(calls) > 1 {
					// retry the remaining calls of this node by re-queuing the block position
					pending[b], hasPending[b] = nil, false
				}
				continue
			}
			pending[cont], hasPending[cont] = calls[1:], true
			// the chain of expanded calls a block belongs to (empty for the function's own blocks)
			chain := append(append([]*ast.CallExpr{}, f.blockCalls[b]...), call)
			for _, ib := range inserted {
				f.blockCalls[ib] = chain
			}
			f.blockCalls[cont] = f.blockCalls[b]
			f.inlAt[n] = appendSite(f.inlAt[n], site)
			f.inlCall[call] = true
			f.bodies = appendBody(f.bodies, site.Callee)
			if f.rootBlock[b] {
				f.rootBlock[cont] = true
			}
			// insert after b: callee blocks, then the continuation
			rest := append([]*cfg.Block{}, blocks[bi+1:]...)
			blocks = append(blocks[:bi+1], inserted...)
			blocks = append(blocks, cont)
			blocks = append(blocks, rest...)
			break // b ends at the call now
		}
	}
	for i, b := range blocks {
		b.Index = int32(i)
	}
	f.CFG.Blocks = blocks
}

func appendSite(l []*InlSite, s *InlSite) []*InlSite {
	for _, x := range l {
		if x == s {
			return l
		}
	}
	return append(l, s)
}

func appendBody(l []*load.FuncInfo, fi *load.FuncInfo) []*load.FuncInfo {
	for _, x := range l {
		if x == fi {
			return l
		}
	}
	return append(l, fi)
}

// splice expands site (a call inside node j of block b): b keeps the nodes
// before j plus the parameter bindings, the callee's blocks follow, and the
// returned continuation block starts with node j itself.
func (f *Fn) splice(b *cfg.Block, j int, site *InlSite) (inserted []*cfg.Block, cont *cfg.Block) {
	call, fi := site.Call, site.Callee
	info := f.Info
	pos := call.Pos()
	sig := fi.Obj.Type().(*types.Signature)
	var binds []ast.Node
	if sig.Recv() != nil {
		sel := ast.Unparen(call.Fun).(*ast.SelectorExpr)
		var ro types.Object
		if fi.Decl.Recv != nil && len(fi.Decl.Recv.List) == 1 && len(fi.Decl.Recv.List[0].Names) == 1 && fi.Decl.Recv.List[0].Names[0].Name != "_" {
			ro = info.Defs[fi.Decl.Recv.List[0].Names[0]]
		}
		if ro != nil {
			rx := f.adapt(sel.X, ro.Type(), pos)
			if rx == nil {
				return nil, nil
			}
			binds = append(binds, f.synAssign(f.synIdent(ro, pos), rx, pos))
			f.extraLocals[ro] = true
		} else {
			binds = append(binds, f.synAssign(blankIdent(pos), sel.X, pos))
		}
	}
	i := 0
	for _, fld := range fi.Decl.Type.Params.List {
		if len(fld.Names) == 0 {
			binds = append(binds, f.synAssign(blankIdent(pos), call.Args[i], pos))
			i++
			continue
		}
		for _, nm := range fld.Names {
			po := info.Defs[nm]
			if nm.Name == "_" || po == nil {
				binds = append(binds, f.synAssign(blankIdent(pos), call.Args[i], pos))
			} else {
				binds = append(binds, f.synAssign(f.synIdent(po, pos), call.Args[i], pos))
				f.extraLocals[po] = true
			}
			i++
		}
	}
	// named results start at their zero values
	var named []types.Object
	if fi.Decl.Type.Results != nil {
		for _, fld := range fi.Decl.Type.Results.List {
			for _, nm := range fld.Names {
				ro := info.Defs[nm]
				named = append(named, ro)
				if ro != nil && nm.Name != "_" {
					vs := &ast.ValueSpec{Names: []*ast.Ident{f.synIdent(ro, pos)}}
					f.synthetic[vs] = true
					binds = append(binds, vs)
					f.extraLocals[ro] = true
				}
			}
		}
	}
	for _, v := range site.Res {
		f.extraLocals[v] = true
	}
	g := cfg.New(fi.Decl.Body, func(c *ast.CallExpr) bool { return !NoReturn(info, c) })
	cont = &cfg.Block{Nodes: append([]ast.Node{}, b.Nodes[j:]...), Succs: b.Succs, Live: true, Kind: cfg.KindInvalid, Stmt: b.Stmt}
	// where the evaluation of node j starts now: the first binding of its first expanded call
	if _, have := f.preOf[b.Nodes[j]]; !have {
		f.preOf[b.Nodes[j]] = nodeRef{b, j}
	}
	b.Nodes = append(append([]ast.Node{}, b.Nodes[:j]...), binds...)
	for _, cb := range g.Blocks {
		inserted = append(inserted, cb)
		if !cb.Live || len(cb.Succs) != 0 {
			continue
		}
		var ret *ast.ReturnStmt
		if len(cb.Nodes) > 0 {
			ret, _ = cb.Nodes[len(cb.Nodes)-1].(*ast.ReturnStmt)
		}
		if ret == nil {
			continue // ends in a call that does not return
		}
		f.retMarker[ret] = true
		switch {
		case len(site.Res) == 0:
		case len(ret.Results) == 0:
			for k, ro := range named {
				if k < len(site.ResID) && ro != nil && ro.Name() != "_" {
					cb.Nodes = append(cb.Nodes, f.synAssign(site.ResID[k], f.synIdent(ro, pos), pos))
				}
			}
		case len(ret.Results) == len(site.Res):
			for k, r := range ret.Results {
				cb.Nodes = append(cb.Nodes, f.synAssign(site.ResID[k], r, pos))
			}
		case len(ret.Results) == 1:
			lhs := make([]ast.Expr, len(site.ResID))
			for k := range site.ResID {
				lhs[k] = site.ResID[k]
			}
			as := &ast.AssignStmt{Lhs: lhs, TokPos: pos, Tok: token.ASSIGN, Rhs: []ast.Expr{ret.Results[0]}}
			f.synthetic[as] = true
			cb.Nodes = append(cb.Nodes, as)
		}
		cb.Succs = []*cfg.Block{cont}
	}
	b.Succs = []*cfg.Block{g.Blocks[0]}
	return inserted, cont
}

// Bodies lists the function's own body followed by the bodies of the helpers
// expanded into it (each once).
func (f *Fn) Bodies() []*ast.BlockStmt {
	out := []*ast.BlockStmt{f.Body}
	for _, fi := range f.bodies {
		out = append(out, fi.Decl.Body)
	}
	return out
}

// Expanded lists the helpers expanded into this function.
func (f *Fn) Expanded() []*load.FuncInfo { return f.bodies }

// IsRootBlock reports whether b belongs to the function itself (not to an expanded helper).
func (f *Fn) IsRootBlock(b *cfg.Block) bool { return len(f.rootBlock) == 0 || f.rootBlock[b] }

// IsSynthetic reports whether n was made up by the expansion (parameter and result bindings).
func (f *Fn) IsSynthetic(n ast.Node) bool { return f.synthetic[n] }

// InlinedAt returns the calls inside CFG node n that were expanded before it.
func (f *Fn) InlinedAt(n ast.Node) []*InlSite { return f.inlAt[n] }

// Instance is one occurrence of a CFG node of an expanded helper: the facts before it and the chain of
// calls (outermost first, the first one sits in the function's own body) through which it was expanded.
type Instance struct {
	State State
	Calls []*ast.CallExpr
}

// Instances returns the occurrences of the CFG node containing n (one for a node of the function's own body).
func (a *Analysis) Instances(n ast.Node) []Instance {
	_, _, root, ok := a.Fn.Locate(n)
	if !ok {
		return nil
	}
	var out []Instance
	for _, r := range a.Fn.whereAll[root] {
		out = append(out, Instance{State: a.stateAt(r.b, r.idx), Calls: a.Fn.blockCalls[r.b]})
	}
	return out
}

// IsExpandedCall reports whether this call was expanded in place (its body is part of the function's graph).
func (f *Fn) IsExpandedCall(call *ast.CallExpr) bool { return f.inlCall[call] }

// ResultSite returns the expanded call whose k-th result the temporary obj stands for (nil, 0 if obj is no such temporary).
func (f *Fn) ResultSite(obj types.Object) (*InlSite, int) {
	for _, ss := range f.inlAt {
		for _, s := range ss {
			for k, r := range s.Res {
				if types.Object(r) == obj {
					return s, k
				}
			}
		}
	}
	return nil, 0
}
