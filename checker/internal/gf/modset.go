package gf

import (
	"go/ast"
	"go/token"
	"go/types"
	"sort"
	"strings"

	"asverif/internal/load"
)

// Summaries holds per-function write sets (mod-sets) and field read sets at
// type-and-field granularity, closed over the in-repo call graph. They decide
// which guard facts a call may invalidate.
type Summaries struct {
	Prog   *load.Prog
	Mod    map[*types.Func]map[string]bool
	Read   map[*types.Func]map[string]bool
	ByName map[string]*types.Func
	// function literals and method values by signature, for dynamic calls
	DynMod map[string]map[string]bool
	// repo interface method -> implementing methods (non-test)
	Impls map[*types.Func][]*types.Func
	// Pure: in-repo functions that write nothing and call only pure code (two calls with equal arguments agree)
	Pure     map[*types.Func]bool
	reach    map[string]map[string]bool
	curFresh map[types.Object]bool
	// hitFresh: the fresh locals an external mutator wrote through during the last ExternalWrites call
	hitFresh []types.Object
}

func sigKey(t types.Type) string {
	sig, ok := t.Underlying().(*types.Signature)
	if !ok {
		return ""
	}
	var sb strings.Builder
	sb.WriteString("func(")
	for i := 0; i < sig.Params().Len(); i++ {
		if i > 0 {
			sb.WriteString(",")
		}
		sb.WriteString(types.TypeString(sig.Params().At(i).Type(), nil))
	}
	sb.WriteString(")(")
	for i := 0; i < sig.Results().Len(); i++ {
		if i > 0 {
			sb.WriteString(",")
		}
		sb.WriteString(types.TypeString(sig.Results().At(i).Type(), nil))
	}
	sb.WriteString(")")
	return sb.String()
}

// external methods (by name) that mutate their receiver.
var mutatorNames = map[string]bool{
	"Insert": true, "Delete": true, "Add": true, "Remove": true, "Reset": true, "Store": true,
	"Swap": true, "Write": true, "WriteString": true, "DeepCopyInto": true, "Unmarshal": true,
	"Lock": true, "Unlock": true, "Do": true, "Set": true, "Pop": true, "Push": true,
}

func isAPIClientType(t types.Type) bool {
	s := types.TypeString(t, nil)
	return strings.Contains(s, "k8s.io/client-go/") || strings.Contains(s, load.ClientMod+"/client/")
}

func BuildSummaries(p *load.Prog) *Summaries {
	s := &Summaries{Prog: p, Mod: map[*types.Func]map[string]bool{}, Read: map[*types.Func]map[string]bool{},
		ByName: map[string]*types.Func{}, DynMod: map[string]map[string]bool{}, Impls: map[*types.Func][]*types.Func{},
		reach: map[string]map[string]bool{}, Pure: map[*types.Func]bool{}}
	funcs := p.Funcs()
	calls := map[*types.Func][]*types.Func{}
	dynCalls := map[*types.Func][]string{}
	// implementers of repo interfaces
	var named []*types.Named
	var ifaces []*types.Named
	for _, pk := range p.Roots {
		sc := pk.Types.Scope()
		for _, n := range sc.Names() {
			tn, ok := sc.Lookup(n).(*types.TypeName)
			if !ok || tn.IsAlias() {
				continue
			}
			nt, ok := tn.Type().(*types.Named)
			if !ok {
				continue
			}
			if _, ok := nt.Underlying().(*types.Interface); ok {
				ifaces = append(ifaces, nt)
			} else {
				named = append(named, nt)
			}
		}
	}
	for _, it := range ifaces {
		iface := it.Underlying().(*types.Interface)
		for i := 0; i < iface.NumMethods(); i++ {
			m := iface.Method(i)
			for _, nt := range named {
				for _, recv := range []types.Type{nt, types.NewPointer(nt)} {
					if !types.Implements(recv, iface) {
						continue
					}
					obj, _, _ := types.LookupFieldOrMethod(recv, true, m.Pkg(), m.Name())
					if f, ok := obj.(*types.Func); ok && p.FuncInfoOf(f) != nil {
						dup := false
						for _, g := range s.Impls[m] {
							if g == f {
								dup = true
							}
						}
						if !dup {
							s.Impls[m] = append(s.Impls[m], f)
						}
					}
					break
				}
			}
		}
	}
	for _, fi := range funcs {
		s.ByName[fi.Obj.FullName()] = fi.Obj
		mod, read := map[string]bool{}, map[string]bool{}
		s.Mod[fi.Obj], s.Read[fi.Obj] = mod, read
		info := fi.Pkg.TypesInfo
		s.scan(info, fi.Decl.Body, mod, read, func(f *types.Func) { calls[fi.Obj] = append(calls[fi.Obj], f) },
			func(sig string) { dynCalls[fi.Obj] = append(dynCalls[fi.Obj], sig) })
		// DeepCopy()/DeepCopyObject(): allocate a fresh object and fill it through DeepCopyInto; the writes go
		// to the fresh object only. Accepted when the body itself writes nothing visible and calls nothing
		// but DeepCopyInto/DeepCopy (shape of the generated code).
		if (fi.Obj.Name() == "DeepCopy" || fi.Obj.Name() == "DeepCopyObject") && fi.Decl.Type.Params.NumFields() == 0 && len(mod) == 0 && len(dynCalls[fi.Obj]) == 0 {
			only := true
			for _, g := range calls[fi.Obj] {
				if g.Name() != "DeepCopyInto" && g.Name() != "DeepCopy" {
					only = false
				}
			}
			if only {
				calls[fi.Obj] = nil
			}
		}
		// function literals, separately, by signature
		ast.Inspect(fi.Decl.Body, func(n ast.Node) bool {
			if lit, ok := n.(*ast.FuncLit); ok {
				k := sigKey(info.TypeOf(lit))
				lm, lr := map[string]bool{}, map[string]bool{}
				var lc []*types.Func
				s.scan(info, lit.Body, lm, lr, func(f *types.Func) { lc = append(lc, f) }, func(string) {})
				if s.DynMod[k] == nil {
					s.DynMod[k] = map[string]bool{}
				}
				for w := range lm {
					s.DynMod[k][w] = true
				}
				for _, f := range lc {
					s.DynMod[k]["call:"+f.FullName()] = true
				}
			}
			return true
		})
	}
	// closure over static calls and interface dispatch
	for changed := true; changed; {
		changed = false
		for _, fi := range funcs {
			for _, g := range calls[fi.Obj] {
				targets := []*types.Func{g}
				if impl, ok := s.Impls[g]; ok {
					targets = impl
				}
				for _, t := range targets {
					for w := range s.Mod[t] {
						if !s.Mod[fi.Obj][w] {
							s.Mod[fi.Obj][w] = true
							changed = true
						}
					}
					for w := range s.Read[t] {
						if !s.Read[fi.Obj][w] {
							s.Read[fi.Obj][w] = true
							changed = true
						}
					}
				}
			}
		}
	}
	// resolve call: entries of DynMod, then add dynamic-call effects to callers
	for k, m := range s.DynMod {
		for w := range m {
			if strings.HasPrefix(w, "call:") {
				if f := s.ByName[strings.TrimPrefix(w, "call:")]; f != nil {
					for x := range s.ModOf(f) {
						m[x] = true
					}
				}
				delete(m, w)
			}
		}
		s.DynMod[k] = m
	}
	for changed := true; changed; {
		changed = false
		for _, fi := range funcs {
			for _, sig := range dynCalls[fi.Obj] {
				for w := range s.DynMod[sig] {
					if !s.Mod[fi.Obj][w] {
						s.Mod[fi.Obj][w] = true
						changed = true
					}
				}
			}
			for _, g := range calls[fi.Obj] {
				targets := []*types.Func{g}
				if impl, ok := s.Impls[g]; ok {
					targets = impl
				}
				for _, t := range targets {
					for w := range s.Mod[t] {
						if !s.Mod[fi.Obj][w] {
							s.Mod[fi.Obj][w] = true
							changed = true
						}
					}
				}
			}
		}
	}
	s.computePure(funcs)
	return s
}

// PureExternal lists functions outside the repo whose result depends only on
// their arguments and that change nothing the analysed code can observe
// (logging counts as pure here: it does not influence guard facts).
func PureExternal(fn *types.Func) bool {
	if fn == nil || fn.Pkg() == nil {
		return false
	}
	path, name := fn.Pkg().Path(), fn.Name()
	sig := fn.Type().(*types.Signature)
	switch path {
	case "strconv", "strings", "bytes", "regexp", "math", "reflect", "unicode", "errors", "path", "unicode/utf8":
		return true
	case "fmt":
		return strings.HasPrefix(name, "Sprint") || name == "Errorf"
	case "k8s.io/apimachinery/pkg/api/errors", "k8s.io/apimachinery/pkg/labels", "k8s.io/apimachinery/pkg/api/equality",
		"k8s.io/apimachinery/pkg/conversion", "k8s.io/apimachinery/pkg/types", "k8s.io/apimachinery/pkg/runtime/schema",
		"k8s.io/apimachinery/third_party/forked/golang/reflect":
		return true
	case "k8s.io/klog/v2", "k8s.io/apimachinery/pkg/util/runtime":
		return !strings.HasPrefix(name, "Fatal") && !strings.HasPrefix(name, "Exit") && name != "Must"
	case "k8s.io/apimachinery/pkg/apis/meta/v1":
		if sig.Recv() == nil {
			switch name {
			case "GetControllerOf", "GetControllerOfNoCopy", "NewControllerRef", "LabelSelectorAsSelector", "IsControlledBy", "NewTime":
				return true
			}
			return false
		}
		return strings.HasPrefix(name, "Get") || name == "Equal" || name == "Before" || name == "After" || name == "IsZero" ||
			name == "DeepCopy" || name == "String"
	case "k8s.io/apimachinery/pkg/util/sets":
		switch name {
		case "Has", "Len", "List", "Union", "Equal", "HasAll", "HasAny", "UnsortedList", "Difference", "Intersection", "IsSuperset",
			"NewInt32", "NewString", "NewInt", "NewInt64", "New":
			return true
		}
		return false
	case "k8s.io/apimachinery/pkg/util/errors":
		return name == "NewAggregate"
	case "k8s.io/apimachinery/pkg/util/rand":
		return name == "SafeEncodeString"
	}
	if sig.Recv() != nil {
		switch name {
		case "DeepCopy", "String", "Error", "Len", "Equal", "Matches", "Empty", "IsZero", "GroupVersion", "WithKind", "Has", "Get":
			return !isAPIClientType(sig.Recv().Type())
		}
	}
	return false
}

func (s *Summaries) computePure(funcs []*load.FuncInfo) {
	for _, fi := range funcs {
		s.Pure[fi.Obj] = len(s.Mod[fi.Obj]) == 0
	}
	for changed := true; changed; {
		changed = false
		for _, fi := range funcs {
			if !s.Pure[fi.Obj] {
				continue
			}
			info := fi.Pkg.TypesInfo
			ok := true
			ast.Inspect(fi.Decl.Body, func(n ast.Node) bool {
				if !ok {
					return false
				}
				switch x := n.(type) {
				case *ast.GoStmt, *ast.SendStmt, *ast.SelectStmt, *ast.DeferStmt:
					ok = false
				case *ast.UnaryExpr:
					if x.Op == token.ARROW {
						ok = false
					}
				case *ast.CallExpr:
					if tv, has := info.Types[x.Fun]; has && tv.IsType() {
						return true
					}
					if id, isID := ast.Unparen(x.Fun).(*ast.Ident); isID {
						if b, isB := info.ObjectOf(id).(*types.Builtin); isB {
							switch b.Name() {
							case "delete", "copy", "clear", "close", "panic", "recover", "print", "println":
								ok = false
							}
							return true
						}
					}
					fn := StaticCallee(info, x)
					switch {
					case fn == nil:
						ok = false
					case fn.Pkg() != nil && load.IsRepo(fn.Pkg().Path()):
						if _, isIface := s.Impls[fn.Origin()]; isIface {
							ok = false
						} else if s.Prog.FuncInfoOf(fn) == nil || !s.Pure[fn.Origin()] {
							ok = false
						}
					default:
						if !PureExternal(fn) {
							ok = false
						}
					}
				}
				return true
			})
			if !ok {
				s.Pure[fi.Obj] = false
				changed = true
			}
		}
	}
}

// ModOf returns the transitive write set of a repo function or interface method.
func (s *Summaries) ModOf(f *types.Func) map[string]bool {
	if impl, ok := s.Impls[f]; ok {
		u := map[string]bool{}
		for _, g := range impl {
			for w := range s.Mod[g] {
				u[w] = true
			}
		}
		return u
	}
	return s.Mod[f.Origin()]
}

func (s *Summaries) ReadOf(f *types.Func) map[string]bool {
	if impl, ok := s.Impls[f]; ok {
		u := map[string]bool{}
		for _, g := range impl {
			for w := range s.Read[g] {
				u[w] = true
			}
		}
		return u
	}
	return s.Read[f.Origin()]
}

func typeStr(t types.Type) string {
	if t == nil {
		return "?"
	}
	return types.TypeString(t, nil)
}

// WriteTargets classifies the storage written by an assignment to lhs.
func WriteTargets(info *types.Info, lhs ast.Expr, out map[string]bool) {
	lhs = ast.Unparen(lhs)
	switch x := lhs.(type) {
	case *ast.Ident:
		if v, ok := info.ObjectOf(x).(*types.Var); ok && v.Pkg() != nil && v.Parent() == v.Pkg().Scope() {
			out["global:"+v.Pkg().Path()+"."+v.Name()] = true
		}
	case *ast.SelectorExpr:
		if sel, ok := info.Selections[x]; ok && sel.Kind() == types.FieldVal {
			cur := info.TypeOf(x.X)
			idx := sel.Index()
			for n, fi := range idx {
				st := structOf(cur)
				if st == nil {
					return
				}
				f := st.Field(fi)
				if n == len(idx)-1 {
					out[OwnerName(cur)+"."+f.Name()] = true
					if fst := structOf(f.Type()); fst != nil {
						if _, isPtr := f.Type().Underlying().(*types.Pointer); !isPtr {
							out[OwnerName(f.Type())+".*"] = true
						}
					}
				}
				cur = f.Type()
			}
		} else if v, ok := info.ObjectOf(x.Sel).(*types.Var); ok && v.Pkg() != nil {
			out["global:"+v.Pkg().Path()+"."+v.Name()] = true
		}
	case *ast.IndexExpr:
		out["elem:"+typeStr(info.TypeOf(x.X))] = true
		// the container itself, if it is a field: an element-level write ("Owner.Field[]"), which
		// invalidates facts about the container's contents but not its nil-ness
		if sel, ok := ast.Unparen(x.X).(*ast.SelectorExpr); ok {
			tmp := map[string]bool{}
			WriteTargets(info, sel, tmp)
			for k := range tmp {
				if strings.HasSuffix(k, ".*") {
					continue
				}
				out[k+"[]"] = true
			}
		}
	case *ast.StarExpr:
		pt := info.TypeOf(x.X)
		if p, ok := pt.Underlying().(*types.Pointer); ok {
			out["deref:"+typeStr(p.Elem())] = true
			if structOf(p.Elem()) != nil {
				out[OwnerName(p.Elem())+".*"] = true
			}
		}
	}
}

// freshLocals lists local variables that only ever hold storage allocated in
// this body (composite literals, new, make, DeepCopy results): writes through
// them are invisible to callers.
func freshLocals(info *types.Info, body ast.Node) map[types.Object]bool {
	cand := map[types.Object]bool{}
	bad := map[types.Object]bool{}
	isFresh := func(e ast.Expr) bool {
		e = ast.Unparen(e)
		switch x := e.(type) {
		case *ast.CompositeLit:
			return true
		case *ast.UnaryExpr:
			if x.Op == token.AND {
				_, ok := ast.Unparen(x.X).(*ast.CompositeLit)
				return ok
			}
		case *ast.CallExpr:
			if id, ok := ast.Unparen(x.Fun).(*ast.Ident); ok {
				if b, ok := info.ObjectOf(id).(*types.Builtin); ok {
					return b.Name() == "new" || b.Name() == "make"
				}
			}
			if sel, ok := ast.Unparen(x.Fun).(*ast.SelectorExpr); ok && sel.Sel.Name == "DeepCopy" && len(x.Args) == 0 {
				return true
			}
		}
		return false
	}
	ast.Inspect(body, func(n ast.Node) bool {
		switch x := n.(type) {
		case *ast.AssignStmt:
			for i, l := range x.Lhs {
				id, ok := l.(*ast.Ident)
				if !ok {
					continue
				}
				obj := info.ObjectOf(id)
				if obj == nil {
					continue
				}
				if len(x.Lhs) == len(x.Rhs) && isFresh(x.Rhs[i]) && (x.Tok == token.DEFINE && info.Defs[id] != nil || cand[obj]) {
					cand[obj] = true
				} else {
					bad[obj] = true
				}
			}
		case *ast.ValueSpec:
			for i, id := range x.Names {
				obj := info.ObjectOf(id)
				if obj == nil {
					continue
				}
				if len(x.Values) == len(x.Names) && isFresh(x.Values[i]) {
					cand[obj] = true
				} else if len(x.Values) == 0 {
					cand[obj] = true // zero value: holds no storage yet
				} else {
					bad[obj] = true
				}
			}
		case *ast.RangeStmt:
			for _, e := range []ast.Expr{x.Key, x.Value} {
				if id, ok := e.(*ast.Ident); ok && id != nil {
					if obj := info.ObjectOf(id); obj != nil {
						bad[obj] = true
					}
				}
			}
		}
		return true
	})
	for o := range bad {
		delete(cand, o)
	}
	return cand
}

// ownedFresh narrows freshLocals to the variables whose storage no other local
// term can reach: never copied to another variable, stored in a composite
// value or appended. A write through such a variable by an external mutator
// only invalidates facts rooted at the variable itself.
func ownedFresh(info *types.Info, bodies []*ast.BlockStmt) map[types.Object]bool {
	out := map[types.Object]bool{}
	for _, b := range bodies {
		for o := range freshLocals(info, b) {
			out[o] = true
		}
	}
	drop := func(e ast.Expr) {
		if id, ok := ast.Unparen(e).(*ast.Ident); ok {
			if o := info.ObjectOf(id); o != nil {
				delete(out, o)
			}
		}
	}
	for _, b := range bodies {
		ast.Inspect(b, func(n ast.Node) bool {
			switch x := n.(type) {
			case *ast.AssignStmt:
				for _, r := range x.Rhs {
					drop(r)
				}
			case *ast.ValueSpec:
				for _, r := range x.Values {
					drop(r)
				}
			case *ast.CompositeLit:
				for _, el := range x.Elts {
					if kv, ok := el.(*ast.KeyValueExpr); ok {
						drop(kv.Value)
					} else {
						drop(el)
					}
				}
			case *ast.CallExpr:
				if id, ok := ast.Unparen(x.Fun).(*ast.Ident); ok {
					if b, ok := info.ObjectOf(id).(*types.Builtin); ok && b.Name() == "append" {
						for _, a := range x.Args {
							drop(a)
						}
					}
				}
			case *ast.SendStmt:
				drop(x.Value)
			case *ast.UnaryExpr:
				if x.Op == token.AND {
					drop(x.X)
				}
			}
			return true
		})
	}
	return out
}

func rootObj(info *types.Info, e ast.Expr) types.Object {
	for {
		switch x := ast.Unparen(e).(type) {
		case *ast.Ident:
			return info.ObjectOf(x)
		case *ast.SelectorExpr:
			if _, ok := info.Selections[x]; !ok {
				return nil
			}
			e = x.X
		case *ast.IndexExpr:
			e = x.X
		case *ast.StarExpr:
			e = x.X
		case *ast.UnaryExpr:
			if x.Op != token.AND {
				return nil
			}
			e = x.X
		default:
			return nil
		}
	}
}

func (s *Summaries) scan(info *types.Info, body ast.Node, mod, read map[string]bool, onCall func(*types.Func), onDyn func(string)) {
	if body == nil {
		return
	}
	fresh := freshLocals(info, body)
	s.curFresh = fresh
	defer func() { s.curFresh = nil }()
	isLocalFresh := func(e ast.Expr) bool {
		o := rootObj(info, e)
		return o != nil && fresh[o]
	}
	ast.Inspect(body, func(n ast.Node) bool {
		switch x := n.(type) {
		case *ast.AssignStmt:
			for _, l := range x.Lhs {
				if _, isID := ast.Unparen(l).(*ast.Ident); !isID && isLocalFresh(l) {
					continue
				}
				WriteTargets(info, l, mod)
			}
		case *ast.IncDecStmt:
			if _, isID := ast.Unparen(x.X).(*ast.Ident); !isID && isLocalFresh(x.X) {
				return true
			}
			WriteTargets(info, x.X, mod)
		case *ast.RangeStmt:
			if x.Tok == token.ASSIGN {
				if x.Key != nil {
					WriteTargets(info, x.Key, mod)
				}
				if x.Value != nil {
					WriteTargets(info, x.Value, mod)
				}
			}
		case *ast.SelectorExpr:
			if sel, ok := info.Selections[x]; ok && sel.Kind() == types.FieldVal {
				cur := info.TypeOf(x.X)
				for _, fi := range sel.Index() {
					st := structOf(cur)
					if st == nil {
						break
					}
					f := st.Field(fi)
					read[OwnerName(cur)+"."+f.Name()] = true
					cur = f.Type()
				}
			}
		case *ast.CallExpr:
			s.scanCall(info, x, mod, onCall, onDyn)
		}
		return true
	})
}

func (s *Summaries) scanCall(info *types.Info, call *ast.CallExpr, mod map[string]bool, onCall func(*types.Func), onDyn func(string)) {
	for w := range s.ExternalWrites(info, call) {
		mod[w] = true
	}
	if tv, ok := info.Types[call.Fun]; ok && tv.IsType() {
		return
	}
	if id, ok := ast.Unparen(call.Fun).(*ast.Ident); ok {
		if _, ok := info.ObjectOf(id).(*types.Builtin); ok {
			return
		}
	}
	fn := StaticCallee(info, call)
	if fn == nil {
		if k := sigKey(info.TypeOf(call.Fun)); k != "" {
			onDyn(k)
		}
		return
	}
	if fn.Pkg() != nil && load.IsRepo(fn.Pkg().Path()) {
		onCall(fn.Origin())
	}
}

// ExternalWrites lists what a call to a builtin or to a function outside the
// repo writes among the caller's visible storage (trusted base T3: external
// callees do not mutate their arguments, except for the mutators known here).
func (s *Summaries) ExternalWrites(info *types.Info, call *ast.CallExpr) map[string]bool {
	out := map[string]bool{}
	ptrTarget := func(e ast.Expr) {
		e = ast.Unparen(e)
		if s.curFresh != nil {
			if o := rootObj(info, e); o != nil && s.curFresh[o] {
				s.hitFresh = append(s.hitFresh, o)
				return
			}
		}
		if u, ok := e.(*ast.UnaryExpr); ok && u.Op == token.AND {
			WriteTargets(info, u.X, out)
			t := info.TypeOf(u.X)
			out["deref:"+typeStr(t)] = true
			if structOf(t) != nil {
				out[OwnerName(t)+".*"] = true
			}
			return
		}
		t := info.TypeOf(e)
		if t == nil {
			return
		}
		switch u := t.Underlying().(type) {
		case *types.Pointer:
			out["deref:"+typeStr(u.Elem())] = true
			if structOf(u.Elem()) != nil {
				out[OwnerName(u.Elem())+".*"] = true
			}
		case *types.Map, *types.Slice:
			out["elem:"+typeStr(t)] = true
			if sel, ok := e.(*ast.SelectorExpr); ok {
				WriteTargets(info, sel, out)
			}
		}
	}
	if id, ok := ast.Unparen(call.Fun).(*ast.Ident); ok {
		if b, ok := info.ObjectOf(id).(*types.Builtin); ok {
			switch b.Name() {
			case "delete", "copy", "clear":
				if len(call.Args) > 0 {
					ptrTarget(call.Args[0])
				}
			}
			return out
		}
	}
	fn := StaticCallee(info, call)
	if fn == nil || fn.Pkg() == nil || load.IsRepo(fn.Pkg().Path()) {
		return out
	}
	full := fn.FullName()
	switch {
	case full == "encoding/json.Unmarshal" || strings.HasSuffix(full, "yaml.Unmarshal"):
		if len(call.Args) == 2 {
			ptrTarget(call.Args[1])
		}
		return out
	case full == "sort.Sort" || full == "sort.Stable" || full == "sort.Slice" || full == "sort.SliceStable" ||
		full == "sort.Strings" || full == "sort.Ints":
		if len(call.Args) > 0 {
			a := ast.Unparen(call.Args[0])
			if c, ok := a.(*ast.CallExpr); ok && len(c.Args) == 1 { // conversion to a sort.Interface type
				if tv, ok := info.Types[c.Fun]; ok && tv.IsType() {
					a = c.Args[0]
				}
			}
			ptrTarget(a)
		}
		return out
	}
	sig := fn.Type().(*types.Signature)
	if sig.Recv() == nil {
		return out
	}
	sel, ok := ast.Unparen(call.Fun).(*ast.SelectorExpr)
	if !ok {
		return out
	}
	recvT := info.TypeOf(sel.X)
	if recvT == nil || isAPIClientType(sig.Recv().Type()) || isAPIClientType(recvT) {
		return out // API verbs act on the cluster, not on local state
	}
	name := fn.Name()
	if strings.HasPrefix(name, "Set") && len(name) > 3 && strings.Contains(full, "apimachinery/pkg/apis/meta/v1") {
		out["k8s.io/apimachinery/pkg/apis/meta/v1.ObjectMeta."+name[3:]] = true
		return out
	}
	if mutatorNames[name] || (strings.HasPrefix(name, "Set") && len(name) > 3) {
		ptrTarget(sel.X)
		if name == "DeepCopyInto" && len(call.Args) == 1 {
			ptrTarget(call.Args[0])
		}
	}
	return out
}

// ownersReachable lists named struct types reachable from t through fields,
// pointers, slices, maps and arrays.
func (s *Summaries) ownersReachable(t types.Type) map[string]bool {
	k := typeStr(t)
	if r, ok := s.reach[k]; ok {
		return r
	}
	r := map[string]bool{}
	s.reach[k] = r
	seen := map[types.Type]bool{}
	var walk func(t types.Type, depth int)
	walk = func(t types.Type, depth int) {
		if t == nil || depth > 6 || seen[t] {
			return
		}
		if types.Identical(t, types.Universe.Lookup("error").Type()) {
			return // error values are immutable by convention
		}
		seen[t] = true
		switch u := t.(type) {
		case *types.Named:
			if _, ok := u.Underlying().(*types.Struct); ok {
				r[OwnerName(u)] = true
			}
			if _, ok := u.Underlying().(*types.Interface); ok {
				r["<iface>"] = true
				return
			}
			walk(u.Underlying(), depth)
		case *types.Alias:
			walk(types.Unalias(u), depth)
		case *types.Pointer:
			walk(u.Elem(), depth)
		case *types.Slice:
			walk(u.Elem(), depth)
		case *types.Array:
			walk(u.Elem(), depth)
		case *types.Map:
			walk(u.Key(), depth)
			walk(u.Elem(), depth)
		case *types.Struct:
			for i := 0; i < u.NumFields(); i++ {
				walk(u.Field(i).Type(), depth+1)
			}
		case *types.Interface:
			r["<iface>"] = true
		}
	}
	walk(t, 0)
	return r
}

func modOwners(mod map[string]bool) []string {
	var out []string
	for w := range mod {
		if strings.HasPrefix(w, "elem:") || strings.HasPrefix(w, "deref:") || strings.HasPrefix(w, "global:") {
			continue
		}
		w = strings.TrimSuffix(w, "[]")
		if i := strings.LastIndex(w, "."); i > 0 {
			out = append(out, w[:i])
		}
	}
	sort.Strings(out)
	return out
}

// AtomKilledBy decides whether a write set may invalidate an atom.
func (s *Summaries) AtomKilledBy(a *Atom, mod map[string]bool, addrTaken map[types.Object]bool) bool {
	if len(mod) == 0 {
		return false
	}
	owners := modOwners(mod)
	return a.Mentions(func(t *Term) bool {
		switch t.K {
		case 'f':
			if len(t.A) == 1 {
				o := OwnerName(t.A[0].Typ)
				if mod[o+"."+t.S] || mod[o+".*"] {
					return true
				}
				if mod[o+"."+t.S+"[]"] {
					// element-level write: the nil-ness of the container is unaffected
					if a.Op == "eq" && ((a.L == t && a.R.K == 'n') || (a.R == t && a.L.K == 'n')) {
						return false
					}
					return true
				}
			}
		case 'i':
			if len(t.A) == 2 && mod["elem:"+typeStr(t.A[0].Typ)] {
				return true
			}
		case 'd':
			if mod["deref:"+typeStr(t.Typ)] {
				return true
			}
		case 'v':
			if t.Obj != nil {
				if v, ok := t.Obj.(*types.Var); ok && v.Pkg() != nil && v.Parent() == v.Pkg().Scope() {
					if mod["global:"+v.Pkg().Path()+"."+v.Name()] {
						return true
					}
				}
				if addrTaken[t.Obj] && mod["deref:"+typeStr(t.Obj.Type())] {
					return true
				}
			}
		case 'k':
			if t.S == "len" || t.S == "cap" {
				if len(t.A) == 1 && mod["elem:"+typeStr(t.A[0].Typ)] {
					return false // element writes do not change the length
				}
				return false
			}
			name := strings.TrimSuffix(t.S, "...")
			if i := strings.Index(name, "#"); i >= 0 {
				name = name[:i] // one result of a call
			}
			if f := s.ByName[name]; f != nil {
				for r := range s.ReadOf(f) {
					if mod[r] || mod[r+"[]"] {
						return true
					}
					if i := strings.LastIndex(r, "."); i > 0 && mod[r[:i]+".*"] {
						return true
					}
				}
				// reads through maps/slices of its arguments
				for _, arg := range t.A {
					if mod["elem:"+typeStr(arg.Typ)] {
						return true
					}
				}
				return false
			}
			// external or dynamic callee: its reads are unknown; use the types it can see
			for _, arg := range t.A {
				if arg.Typ == nil {
					continue
				}
				if mod["elem:"+typeStr(arg.Typ)] || mod["deref:"+typeStr(arg.Typ)] {
					return true
				}
				reach := s.ownersReachable(arg.Typ)
				if reach["<iface>"] && len(owners) > 0 {
					return true
				}
				for _, o := range owners {
					if reach[o] {
						return true
					}
				}
			}
		}
		return false
	})
}
