package gf

import (
	"go/ast"
	"go/token"
	"go/types"

	"asverif/internal/load"
)

// subSeqFuncs: functions proven (by their shape, below) to return a sub-sequence of one of their slice
// parameters: full name -> index of that parameter among the term's arguments. For such a call the
// difference bounds know len(f(..., xs, ...)) <= len(xs).
var subSeqFuncs = map[string]int{}

// detectSubSequences registers every function of the program whose body is a filter over a slice parameter:
//
//	var out []T            (or out := []T{} / make([]T, 0, ...))
//	for i := range xs { ... out = append(out, xs[i]) ... }     (one append statement in all, directly in that loop)
//	return out
//
// with xs never assigned and out assigned nowhere else.
func detectSubSequences(p *load.Prog) {
	for _, fi := range p.Funcs() {
		if fi.Decl == nil || fi.Decl.Body == nil {
			continue
		}
		sig, ok := fi.Obj.Type().(*types.Signature)
		if !ok || sig.Results().Len() != 1 || sig.Variadic() || sig.TypeParams() != nil {
			continue
		}
		rt, ok := sig.Results().At(0).Type().Underlying().(*types.Slice)
		if !ok {
			continue
		}
		info := fi.Pkg.TypesInfo
		body := fi.Decl.Body
		// the result variable: every return returns the same local (or nil)
		var out types.Object
		good := true
		ast.Inspect(body, func(n ast.Node) bool {
			switch x := n.(type) {
			case *ast.FuncLit:
				good = false
				return false
			case *ast.ReturnStmt:
				if len(x.Results) != 1 {
					good = false
					return true
				}
				if tv, ok := info.Types[x.Results[0]]; ok && tv.IsNil() {
					return true
				}
				id, ok := ast.Unparen(x.Results[0]).(*ast.Ident)
				if !ok {
					good = false
					return true
				}
				o := info.ObjectOf(id)
				if out != nil && o != out {
					good = false
				}
				out = o
			}
			return true
		})
		if !good || out == nil {
			continue
		}
		if v, ok := out.(*types.Var); !ok || v.IsField() || v.Parent() == nil || v.Parent() == fi.Pkg.Types.Scope() {
			continue
		}
		// assignments to out, and the loop of the single append
		var loop *ast.RangeStmt
		nAppend := 0
		var walk func(n ast.Node, loops []ast.Stmt)
		emptyInit := func(e ast.Expr) bool {
			switch x := ast.Unparen(e).(type) {
			case *ast.CompositeLit:
				return len(x.Elts) == 0
			case *ast.CallExpr:
				if id, ok := x.Fun.(*ast.Ident); ok && id.Name == "make" && len(x.Args) >= 2 {
					if tv, ok := info.Types[x.Args[1]]; ok && tv.Value != nil && tv.Value.ExactString() == "0" {
						return true
					}
				}
			case *ast.Ident:
				if tv, ok := info.Types[x]; ok && tv.IsNil() {
					return true
				}
			}
			return false
		}
		var src types.Object
		walk = func(n ast.Node, loops []ast.Stmt) {
			if n == nil {
				return
			}
			switch x := n.(type) {
			case *ast.RangeStmt:
				for _, e := range []ast.Expr{x.Key, x.Value} {
					if id, ok := e.(*ast.Ident); ok && info.ObjectOf(id) == out {
						good = false
					}
				}
				walk(x.Body, append(append([]ast.Stmt{}, loops...), x))
				return
			case *ast.ForStmt:
				walk(x.Init, loops)
				walk(x.Post, loops)
				walk(x.Body, append(append([]ast.Stmt{}, loops...), x))
				return
			case *ast.AssignStmt:
				for i, l := range x.Lhs {
					id, ok := ast.Unparen(l).(*ast.Ident)
					if !ok || info.ObjectOf(id) != out {
						continue
					}
					if len(x.Lhs) != len(x.Rhs) {
						good = false
						continue
					}
					r := ast.Unparen(x.Rhs[i])
					if x.Tok == token.DEFINE && len(loops) == 0 && emptyInit(r) {
						continue
					}
					call, ok := r.(*ast.CallExpr)
					if !ok || len(call.Args) != 2 || call.Ellipsis.IsValid() {
						good = false
						continue
					}
					if fid, ok := call.Fun.(*ast.Ident); !ok || fid.Name != "append" {
						good = false
						continue
					}
					if a0, ok := ast.Unparen(call.Args[0]).(*ast.Ident); !ok || info.ObjectOf(a0) != out {
						good = false
						continue
					}
					if len(loops) != 1 {
						good = false
						continue
					}
					rs, ok := loops[0].(*ast.RangeStmt)
					if !ok {
						good = false
						continue
					}
					xs, ok := ast.Unparen(rs.X).(*ast.Ident)
					if !ok {
						good = false
						continue
					}
					// the appended value is the loop's cell
					cell := false
					switch a := ast.Unparen(call.Args[1]).(type) {
					case *ast.IndexExpr:
						b, ok1 := ast.Unparen(a.X).(*ast.Ident)
						k, ok2 := ast.Unparen(a.Index).(*ast.Ident)
						kk, ok3 := rs.Key.(*ast.Ident)
						cell = ok1 && ok2 && ok3 && info.ObjectOf(b) == info.ObjectOf(xs) && info.ObjectOf(k) == info.ObjectOf(kk)
					case *ast.Ident:
						vv, ok := rs.Value.(*ast.Ident)
						cell = ok && info.ObjectOf(a) == info.ObjectOf(vv)
					}
					if !cell {
						good = false
						continue
					}
					nAppend++
					loop = rs
					src = info.ObjectOf(xs)
				}
			case *ast.ValueSpec:
				for i, id := range x.Names {
					if info.ObjectOf(id) == out && len(x.Values) > i && !emptyInit(x.Values[i]) {
						good = false
					}
				}
			case *ast.UnaryExpr:
				if id, ok := ast.Unparen(x.X).(*ast.Ident); ok && x.Op == token.AND && info.ObjectOf(id) == out {
					good = false
				}
			}
			ast.Inspect(n, func(c ast.Node) bool {
				if c == nil || c == n {
					return true
				}
				walk(c, loops)
				return false
			})
		}
		walk(body, nil)
		if !good || nAppend != 1 || loop == nil || src == nil {
			continue
		}
		// the source is a parameter of the result's type that is never assigned
		k := -1
		for i := 0; i < sig.Params().Len(); i++ {
			if sig.Params().At(i) == src {
				k = i
			}
		}
		if k < 0 || !types.Identical(src.Type().Underlying(), rt) {
			continue
		}
		assigned := false
		ast.Inspect(body, func(n ast.Node) bool {
			switch x := n.(type) {
			case *ast.AssignStmt:
				for _, l := range x.Lhs {
					if id, ok := ast.Unparen(l).(*ast.Ident); ok && info.ObjectOf(id) == src {
						assigned = true
					}
				}
			case *ast.UnaryExpr:
				if id, ok := ast.Unparen(x.X).(*ast.Ident); ok && x.Op == token.AND && info.ObjectOf(id) == src {
					assigned = true
				}
			}
			return true
		})
		if assigned {
			continue
		}
		if sig.Recv() != nil {
			k++
		}
		subSeqFuncs[fi.Obj.FullName()] = k
	}
}

// SubSequenceFuncs lists what detectSubSequences found (for the evidence).
func SubSequenceFuncs() map[string]int { return subSeqFuncs }
