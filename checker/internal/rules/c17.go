package rules

import (
	"fmt"
	"go/ast"
	"go/types"
	"sort"
	"strings"

	"asverif/internal/eff"
	"asverif/internal/gf"
	"asverif/internal/load"
)

func init() {
	register(&Property{
		ID:    "C17",
		Title: "Upgrade from built-in StatefulSet never loses pods and survives interruption",
		Run:   runC17,
		Explanation: "Decides clauses C17.1-C17.5 of DESIGN.md on helper.Upgrade: (1) its transitive effect set is exactly {ControllerRevisions: List, Update; Advanced StatefulSets: Get, Create, Update, UpdateStatus; built-in StatefulSets: Delete}: no pod, claim or other write; " +
			"(2) order: the built-in Delete is reachable only through a successful create-or-update and a successful UpdateStatus, and after the relabel loop whose body returns on an Update error; the relabel body deletes every selector key and sets the upgrade marker to the set's name before its Update; " +
			"(3) the DeleteOptions carry PropagationPolicy = &policy whose only definition is DeletePropagationOrphan; (4) Create is issued only under IsNotFound(get error), Update only otherwise, and the built-in status is copied before UpdateStatus; (5) error discipline as C09.1 on the helper's call sites. " +
			"NOT decided: that re-running after an interruption at any call ends in the same final state.",
	})
}

func runC17(c *Ctx) {
	fi := c.Func(load.HelperPkg, "Upgrade")
	if fi == nil {
		return
	}
	fn, an := c.Analysis(fi)
	_ = fi.Pkg.TypesInfo
	// "re-run until it succeeds": a run fails only when a call it makes fails. An error Upgrade concludes by itself from
	// the state it finds (which may be the half-way state an interrupted run has left) makes every re-run fail the same way.
	{
		nRet := 0
		for _, bd := range fn.Bodies() {
			ownNodes(bd, func(x ast.Node) {
				ret, ok := x.(*ast.ReturnStmt)
				if !ok || len(ret.Results) == 0 {
					return
				}
				last := ret.Results[len(ret.Results)-1]
				if isNilExpr(fi.Pkg.TypesInfo, last) {
					return
				}
				nRet++
				c.Check(!madeUpError(fi.Pkg.TypesInfo, last), "C17.5-fails-only-when-a-call-fails", fmt.Sprintf("Upgrade: error return #%d", nRet), ret.Pos(), "returns the error of a call",
					"Upgrade gives up with an error of its own making, on a state it has found (no call has failed): if that state is what an interrupted run leaves behind, no re-run ever gets past it")
			})
		}
		c.Floor("C17.5-error-returns", nRet, 5)
	}
	// C17.1 effect whitelist
	effs := c.G.Effects(fi.Obj)
	var ks []string
	for k, s := range effs {
		if s.Class == "queue" || s.Class == "event" && false {
			continue
		}
		ks = append(ks, k)
	}
	sort.Strings(ks)
	want := []string{"controllerrevisions.List", "controllerrevisions.Update", "statefulsets.apps.Delete", "statefulsets.pingcap.Create", "statefulsets.pingcap.Get", "statefulsets.pingcap.Update", "statefulsets.pingcap.UpdateStatus"}
	c.Check(strings.Join(ks, " ") == strings.Join(want, " "), "C17.1-effect-whitelist", "Upgrade transitive effects", fi.Decl.Pos(),
		"exactly "+strings.Join(want, ", "), "the upgrade helper's effect set is {"+strings.Join(ks, ", ")+"}")
	// the sites, each with the call in Upgrade's own body that leads to it (a site may sit in a small
	// helper that the engine expands into Upgrade)
	lifted := c.sitesOf(fi)
	site := func(res, verb string) *LiftedSite {
		var out *LiftedSite
		for i := range lifted {
			s := &lifted[i]
			if s.Resource == res && s.Verb == verb {
				if out != nil {
					c.Bad("C17.1-effect-whitelist", "Upgrade: second "+res+"."+verb, s.Call.Pos(), "more than one site of this effect")
				}
				out = s
			}
		}
		if out == nil {
			c.Fail("Upgrade: no %s.%s site", res, verb)
		}
		return out
	}
	del, create, update, ustatus, get := site("statefulsets.apps", "Delete"), site("statefulsets.pingcap", "Create"), site("statefulsets.pingcap", "Update"),
		site("statefulsets.pingcap", "UpdateStatus"), site("statefulsets.pingcap", "Get")
	relabel, list := site("controllerrevisions", "Update"), site("controllerrevisions", "List")
	if del == nil || create == nil || update == nil || ustatus == nil || get == nil || relabel == nil || list == nil {
		return
	}
	entry := fi.Decl.Body.List[0]
	stmt := func(s *LiftedSite) ast.Stmt { return stmtOf(fi.Decl.Body, s.Top) }
	// C17.2 order
	mustPass := func(name string, stops ...ast.Node) {
		aU := fn.FromUntil(entry, gf.TrueState(), stops...)
		c.Check(!aU.StateAtExpr(del.Call).Reachable(), "C17.2-delete-last", "Upgrade: built-in Delete after "+name, del.Call.Pos(),
			"the Delete is unreachable without passing "+name, "the built-in StatefulSet can be deleted without "+name)
	}
	// success means done: no successful return is reachable without the built-in Delete having been issued (a re-run
	// after an interruption must end in the same state as an uninterrupted run; an "already up to date" shortcut that
	// returns before the Delete leaves the built-in set in place for good)
	{
		aD := fn.FromUntil(entry, gf.TrueState(), stmt(del))
		nR := 0
		ownNodes(fi.Decl.Body, func(x ast.Node) {
			ret, ok := x.(*ast.ReturnStmt)
			if !ok || len(ret.Results) == 0 {
				return
			}
			st := aD.StateBefore(ret)
			if !st.Reachable() {
				return
			}
			nR++
			last := ret.Results[len(ret.Results)-1]
			name := fmt.Sprintf("Upgrade: return #%d before the built-in Delete", nR)
			if isErrorCtor(fn.Info, last) {
				c.OK("C17.5-success-only-after-the-delete", name, ret.Pos(), "an error built on the spot")
				return
			}
			if g, _ := st.Implies(gf.FNotNil(fn.Term(last))); g && !isNilExpr(fn.Info, last) {
				c.OK("C17.5-success-only-after-the-delete", name, ret.Pos(), "returns a non-nil error")
			} else {
				c.Bad("C17.5-success-only-after-the-delete", name, ret.Pos(), "Upgrade can report success without having deleted the built-in StatefulSet: a re-run after an interruption ends here every time")
			}
		})
		c.Floor("C17.5-returns-before-the-delete", nR, 1)
	}
	// the object sent to Create carries no resourceVersion (the API server refuses a create that has one; the converted
	// copy of the built-in set does carry the built-in object's)
	if len(create.Call.Args) >= 2 {
		hostFn := c.E.FnOf(c.hostOf(fi, create.Call))
		if want := c.TryWantTerm(hostFn, create.Call.Pos(), "$1.ResourceVersion", create.Call.Args[1]); want != nil {
			hfn, han := c.Analysis(c.hostOf(fi, create.Call))
			_ = hfn
			c.Implies(han.StateAtExpr(create.Call), gf.FEq(want, gf.ConstStr("")), "C17.4-created-object-has-no-resource-version", "Upgrade: Create argument", create.Call.Pos())
		}
	}
	// "has relabelled every ControllerRevision of the set": every one there is, not every one a cache has heard of -- the reads
	// Upgrade decides on (the listing of the revisions, the look for the Advanced set) leave resourceVersion empty
	{
		nRead := 0
		for _, s := range c.sitesOf(fi) {
			if s.Class != "read" {
				continue
			}
			for _, a := range s.Call.Args {
				t := s.Info.TypeOf(a)
				if !isNamed(t, "k8s.io/apimachinery/pkg/apis/meta/v1", "ListOptions") && !isNamed(t, "k8s.io/apimachinery/pkg/apis/meta/v1", "GetOptions") {
					continue
				}
				nRead++
				host := c.hostOf(fi, s.Call)
				good, why := emptyResourceVersion(s.Info, defRHSOr(host, s.Info, a))
				c.Check(good, "C17.2-reads-are-quorum-reads", fmt.Sprintf("Upgrade: %s.%s options", s.Resource, s.Verb), s.Call.Pos(), "resourceVersion is left empty: the read is served from the store",
					"a read Upgrade decides on may be answered from the API server's watch cache ("+why+"): a revision created a moment ago is missing from the list, is not relabelled, and the run still reports success")
			}
		}
		c.Floor("C17.2-upgrade-reads", nRead, 2)
	}
	mustPass("create-or-update of the Advanced set", stmt(create), stmt(update))
	mustPass("UpdateStatus", stmt(ustatus))
	mustPass("the revision List", stmt(list))
	for _, s := range []*LiftedSite{create, update, ustatus, relabel, list} {
		st := stmt(s)
		errF := c.errNonNilAfter(fn, st, s.Top)
		name := fmt.Sprintf("Upgrade: built-in Delete after failed %s.%s", s.Resource, s.Verb)
		if errF == nil {
			c.Unk("C17.2-delete-only-after-success", name, s.Call.Pos(), "the call's error is not bound")
			continue
		}
		aE := fn.FromAfter(st, an.StateAfter(st).Assume(errF))
		c.Check(!aE.StateAtExpr(del.Call).Reachable(), "C17.2-delete-only-after-success", name, s.Call.Pos(), "unreachable when this call failed", "the built-in StatefulSet can be deleted although this call failed")
	}
	// the relabel loop precedes the Get (top-level order) and covers all listed items; the List and the
	// loop may both sit in one helper, which is then the host of the loop
	host, hostFn := fi, fn
	if relabel.Helper != nil {
		host, hostFn = relabel.Helper, c.E.FnOf(relabel.Helper)
	}
	loop, _ := innermostLoop(host.Decl.Body, relabel.Call).(*ast.RangeStmt)
	okLoop := false
	var item *ast.Ident
	sameHost := list.Helper == relabel.Helper
	if loop != nil && sameHost && topIndex(host.Decl.Body, loop) >= 0 && host.Decl.Body.List[topIndex(host.Decl.Body, loop)] == ast.Stmt(loop) &&
		topIndex(fi.Decl.Body, relabel.Top) >= 0 && topIndex(fi.Decl.Body, relabel.Top) < topIndex(fi.Decl.Body, get.Top) {
		// ranges over <list result>.Items
		if sel, ok := ast.Unparen(loop.X).(*ast.SelectorExpr); ok && sel.Sel.Name == "Items" {
			if as, ok := stmtOf(host.Decl.Body, list.Call).(*ast.AssignStmt); ok {
				if hostFn.Term(sel.X).Key() == hostFn.Term(as.Lhs[0]).Key() {
					okLoop = true
				}
			}
		}
		item, _ = loop.Value.(*ast.Ident)
	}
	c.Check(okLoop && item != nil, "C17.2-relabel-all-revisions", "Upgrade: relabel loop", relabel.Call.Pos(), "a top-level loop over every listed revision, before the Advanced set is read", "the relabel loop does not cover every listed ControllerRevision before the upgrade proceeds")
	if okLoop && item != nil {
		c.relabelBody(host, hostFn, loop, item, relabel.Site)
	}
	// C17.3 orphan propagation
	c.orphanPolicy(fi, fn, del.Site)
	// C17.4 create-or-update
	getStmt := stmtOf(c.hostOf(fi, get.Call).Decl.Body, get.Call)
	getErr := c.errNonNilAfter(fn, getStmt, get.Call)
	var getErrID *ast.Ident
	if as, ok := getStmt.(*ast.AssignStmt); ok {
		getErrID, _ = as.Lhs[len(as.Lhs)-1].(*ast.Ident)
	}
	if getErr == nil || getErrID == nil {
		c.Unk("C17.4-create-or-update", "Upgrade: Get error", get.Call.Pos(), "the Get error is not bound")
	} else {
		notFound := gf.FBool(gf.CallT("k8s.io/apimachinery/pkg/api/errors.IsNotFound", types.Typ[types.Bool], fn.Term(getErrID)))
		// analyse from the Get with facts about its error kept alive: use the definition `notFound := IsNotFound(err)` if present
		var nfVar *ast.Ident
		ast.Inspect(c.hostOf(fi, get.Call).Decl.Body, func(n ast.Node) bool {
			if as, ok := n.(*ast.AssignStmt); ok && len(as.Lhs) == 1 && len(as.Rhs) == 1 && as.Pos() > get.Call.Pos() {
				if fn.Formula(as.Rhs[0]).Key() == notFound.Key() {
					nfVar, _ = as.Lhs[0].(*ast.Ident)
					// (where the flag is computed relative to the error test does not matter: the paths below decide)
				}
			}
			return true
		})
		_ = nfVar
		// decided on paths from the Get: with an error that is not NotFound (or none) the Create is
		// unreachable, with a NotFound error the Update is (however the code remembers the outcome)
		after := an.StateAfter(getStmt)
		errT := fn.Term(getErrID)
		aOther := fn.FromAfter(getStmt, after.Assume(gf.Not(notFound)))
		c.Check(!aOther.StateAtExpr(create.Call).Reachable(), "C17.4-create-or-update", "Upgrade: Create", create.Call.Pos(),
			"unreachable unless the Get reported NotFound", "the Advanced set can be created although the Get did not report NotFound")
		aNF := fn.FromAfter(getStmt, after.Assume(gf.And(notFound, gf.FNotNil(errT))))
		c.Check(!aNF.StateAtExpr(update.Call).Reachable(), "C17.4-create-or-update", "Upgrade: Update", update.Call.Pos(),
			"unreachable when the Get reported NotFound", "the Advanced set can be updated although the Get reported NotFound (a nil object is sent)")
		c.Check(aNF.StateAtExpr(create.Call).Reachable(), "C17.4-create-or-update", "Upgrade: Create reachable", create.Call.Pos(),
			"reached when the Get reported NotFound", "a missing Advanced set is never created")
	}
	// status copied before UpdateStatus: X.Status = <converted>.Status where X is the object sent
	sent := ustatus.Call.Args[1]
	var copyStmt ast.Node
	conv, _ := c.P.Lookup(load.HelperPkg, "FromBuiltinStatefulSet").(*types.Func)
	uhost := c.hostOf(fi, ustatus.Call)
	ast.Inspect(uhost.Decl.Body, func(n ast.Node) bool {
		if as, ok := n.(*ast.AssignStmt); ok && len(as.Lhs) == 1 && len(as.Rhs) == 1 {
			if wt := c.TryWantTerm(fn, as.Pos(), "$1.Status", sent); wt != nil && fn.Term(as.Lhs[0]).Key() == wt.Key() {
				if rs, ok := as.Rhs[0].(*ast.SelectorExpr); ok && rs.Sel.Name == "Status" {
					if src, sh := c.originCall(uhost, rs.X, 0); src != nil && gf.StaticCallee(sh.Pkg.TypesInfo, src) == conv {
						copyStmt = as
					}
				}
			}
		}
		return true
	})
	okCopy := false
	if copyStmt != nil {
		aU := fn.FromUntil(entry, gf.TrueState(), copyStmt)
		okCopy = !aU.StateAtExpr(ustatus.Call).Reachable()
	}
	c.Check(okCopy, "C17.4-status-copied", "Upgrade: UpdateStatus", ustatus.Call.Pos(), "the built-in set's status is copied onto the object before UpdateStatus on every path", "UpdateStatus can be sent without the built-in set's status copied onto the object")
	// spec: create from the converted object, update sets Spec from it
	c.specCopied(fi, fn, conv, create.Site, update.Site)
	c.convertedUnmodified("C17.4")
	// C17.5 error discipline restricted to Upgrade
	var scopes []errScope
	helpers := map[*load.FuncInfo]bool{}
	for _, ls := range lifted {
		if ls.Helper != nil {
			helpers[ls.Helper] = true
		}
	}
	for _, sc := range c.errorDisciplineScopes() {
		if sc.fi == fi || helpers[sc.fi] {
			scopes = append(scopes, sc)
		}
	}
	n := c.errorDiscipline("C17.5", scopes)
	c.Floor("C17.5-error-returning-call-sites", n, 7)
}

// defRHS returns the right-hand side of the (last) assignment with a single
// right-hand side that assigns identifier e at any left-hand position.
func defRHS(fi *load.FuncInfo, info *types.Info, e ast.Expr) ast.Expr {
	id, ok := ast.Unparen(e).(*ast.Ident)
	if !ok {
		return nil
	}
	var out ast.Expr
	ast.Inspect(fi.Decl.Body, func(n ast.Node) bool {
		if as, ok := n.(*ast.AssignStmt); ok && len(as.Rhs) == 1 {
			for _, lx := range as.Lhs {
				if l, ok := lx.(*ast.Ident); ok && info.ObjectOf(l) == info.ObjectOf(id) {
					out = as.Rhs[0]
				}
			}
		}
		return true
	})
	return out
}

// reachingDefRHS returns the right-hand side of the last assignment to e that
// precedes site and whose enclosing block also encloses site (assignments in
// sibling branches do not reach).
func reachingDefRHS(fi *load.FuncInfo, info *types.Info, e ast.Expr, site ast.Node) ast.Expr {
	id, ok := ast.Unparen(e).(*ast.Ident)
	if !ok {
		return nil
	}
	var out ast.Expr
	ast.Inspect(fi.Decl.Body, func(n ast.Node) bool {
		as, ok := n.(*ast.AssignStmt)
		if !ok || len(as.Rhs) != 1 || as.End() > site.Pos() {
			return true
		}
		for _, lx := range as.Lhs {
			if l, ok := lx.(*ast.Ident); ok && info.ObjectOf(l) == info.ObjectOf(id) {
				// (a case clause is a block of its own: an assignment in one case does not reach another case)
				if contains(enclosingScope(fi.Decl.Body, as), site) {
					out = as.Rhs[0]
				}
			}
		}
		return true
	})
	return out
}

func assignedFromCall(fi *load.FuncInfo, info *types.Info, e ast.Expr) *ast.CallExpr {
	call, _ := defRHS(fi, info, e).(*ast.CallExpr)
	return call
}

func (c *Ctx) relabelBody(fi *load.FuncInfo, fn *gf.Fn, loop *ast.RangeStmt, item *ast.Ident, relabel *eff.Site) {
	info := fi.Pkg.TypesInfo
	marker, _ := c.P.Lookup(load.HelperPkg, "UpgradeToAdvancedStatefulSetAnn").(*types.Const)
	sts := paramsOfType(fi, "k8s.io/api/apps/v1", "StatefulSet")
	if marker == nil || len(sts) != 1 {
		c.Fail("Upgrade: marker constant or sts parameter not found")
		return
	}
	var delLoop, mark ast.Node
	for _, s := range loop.Body.List {
		switch x := s.(type) {
		case *ast.RangeStmt:
			// for key := range sts.Spec.Selector.MatchLabels { delete(item.Labels, key) }
			if fn.Term(x.X).Key() == c.WantTerm(fn, x.Pos(), "$1.Spec.Selector.MatchLabels", sts[0]).Key() && len(x.Body.List) == 1 {
				if es, ok := x.Body.List[0].(*ast.ExprStmt); ok {
					if call, ok := es.X.(*ast.CallExpr); ok {
						if id, ok := call.Fun.(*ast.Ident); ok && id.Name == "delete" && len(call.Args) == 2 {
							if fn.Term(call.Args[0]).Key() == c.WantTerm(fn, x.Body.Pos(), "$1.Labels", item).Key() && fn.Term(call.Args[1]).Key() == fn.Term(x.Key).Key() {
								delLoop = x
							}
						}
					}
				}
			}
		case *ast.AssignStmt:
			if len(x.Lhs) == 1 && len(x.Rhs) == 1 {
				if ix, ok := x.Lhs[0].(*ast.IndexExpr); ok {
					if tv, ok := info.Types[ix.Index]; ok && tv.Value != nil && tv.Value.ExactString() == marker.Val().ExactString() {
						if fn.Term(ix.X).Key() == c.WantTerm(fn, x.Pos(), "$1.Labels", item).Key() && fn.Term(x.Rhs[0]).Key() == c.WantTerm(fn, x.Pos(), "$1.Name", sts[0]).Key() {
							mark = x
						}
					}
				}
			}
		}
	}
	ust := stmtOf(fi.Decl.Body, relabel.Call)
	before := func(n ast.Node) bool { return n != nil && n.Pos() < ust.Pos() }
	c.Check(before(delLoop), "C17.2-relabel-removes-selector-labels", "Upgrade: relabel body", loop.Pos(), "every selector match-label key is deleted from the revision's labels before its Update", "the relabel body does not remove every selector label before the Update")
	c.Check(before(mark), "C17.2-relabel-sets-marker", "Upgrade: relabel body", loop.Pos(), "the upgrade marker label is set to the set's name before the Update", "the relabel body does not set the upgrade marker to the set's name")
	// the object sent is the loop item
	if len(relabel.Call.Args) >= 2 {
		c.Check(fn.Term(relabel.Call.Args[1]).Key() == c.WantTerm(fn, relabel.Call.Pos(), "&$1", item).Key(), "C17.2-relabel-sends-item", "Upgrade: ControllerRevisions.Update argument", relabel.Call.Pos(),
			"the relabelled revision is what is sent", "the Update does not send the relabelled revision")
	}
}

func (c *Ctx) orphanPolicy(fi *load.FuncInfo, fn *gf.Fn, del *eff.Site) {
	info := fi.Pkg.TypesInfo
	ok := false
	detail := "no DeleteOptions literal with PropagationPolicy"
	if len(del.Call.Args) >= 3 {
		if lit, isLit := ast.Unparen(del.Call.Args[2]).(*ast.CompositeLit); isLit {
			for _, el := range lit.Elts {
				kv, isKV := el.(*ast.KeyValueExpr)
				if !isKV {
					continue
				}
				if k, isID := kv.Key.(*ast.Ident); !isID || k.Name != "PropagationPolicy" {
					continue
				}
				u, isU := ast.Unparen(kv.Value).(*ast.UnaryExpr)
				if !isU {
					detail = "PropagationPolicy is not the address of a local variable"
					continue
				}
				id, isID := u.X.(*ast.Ident)
				if !isID {
					continue
				}
				// all definitions of that variable
				obj := info.ObjectOf(id)
				n, good := 0, 0
				ast.Inspect(c.hostOf(fi, del.Call).Decl.Body, func(m ast.Node) bool {
					if as, isAs := m.(*ast.AssignStmt); isAs && len(as.Lhs) == len(as.Rhs) {
						for i, l := range as.Lhs {
							if lid, isL := l.(*ast.Ident); isL && info.ObjectOf(lid) == obj {
								n++
								if tv, has := info.Types[as.Rhs[i]]; has && tv.Value != nil && tv.Value.ExactString() == `"Orphan"` {
									good++
								}
							}
						}
					}
					return true
				})
				// no other address-taking that could modify it
				if n == 1 && good == 1 {
					ok = true
				} else {
					detail = fmt.Sprintf("the policy variable has %d definitions, %d of them the constant Orphan", n, good)
				}
			}
		}
	}
	c.Check(ok, "C17.3-orphan-propagation", "Upgrade: built-in Delete options", del.Call.Pos(), "PropagationPolicy = &policy, policy's only definition is DeletePropagationOrphan", "the built-in StatefulSet is not deleted with orphan propagation: "+detail)
}

func (c *Ctx) specCopied(fi *load.FuncInfo, fn *gf.Fn, conv *types.Func, create, update *eff.Site) {
	// Update: X.Spec = <converted>.Spec before the call, X being the object sent (in the function holding the call)
	uh := c.hostOf(fi, update.Call)
	sent := update.Call.Args[1]
	ok := false
	ast.Inspect(uh.Decl.Body, func(n ast.Node) bool {
		if as, isAs := n.(*ast.AssignStmt); isAs && len(as.Lhs) == 1 && len(as.Rhs) == 1 && as.Pos() < update.Call.Pos() {
			if wt := c.TryWantTerm(fn, as.Pos(), "$1.Spec", sent); wt != nil && fn.Term(as.Lhs[0]).Key() == wt.Key() {
				if rs, isSel := as.Rhs[0].(*ast.SelectorExpr); isSel && rs.Sel.Name == "Spec" {
					if src, sh := c.originCall(uh, rs.X, 0); src != nil && gf.StaticCallee(sh.Pkg.TypesInfo, src) == conv {
						ok = contains(enclosingBlock(uh.Decl.Body, update.Call), as)
					}
				}
			}
		}
		return true
	})
	c.Check(ok, "C17.4-update-copies-spec", "Upgrade: Update", update.Call.Pos(), "the existing Advanced set gets the built-in set's spec before Update", "the pre-existing Advanced set is updated without the built-in set's spec")
	// Create: the object sent derives from the converted object (DeepCopy of it)
	ch := c.hostOf(fi, create.Call)
	csent := create.Call.Args[1]
	okc := false
	if src := assignedFromCallIn(enclosingBlock(ch.Decl.Body, create.Call), ch.Pkg.TypesInfo, csent); src != nil {
		if sel, isSel := src.Fun.(*ast.SelectorExpr); isSel && sel.Sel.Name == "DeepCopy" {
			if s2, sh := c.originCall(ch, sel.X, 0); s2 != nil && gf.StaticCallee(sh.Pkg.TypesInfo, s2) == conv {
				okc = true
			}
		}
	}
	c.Check(okc, "C17.4-create-from-converted", "Upgrade: Create", create.Call.Pos(), "the created object is a copy of the converted built-in set", "the created Advanced set is not derived from the built-in set")
}

func assignedFromCallIn(block *ast.BlockStmt, info *types.Info, e ast.Expr) *ast.CallExpr {
	id, ok := ast.Unparen(e).(*ast.Ident)
	if !ok {
		return nil
	}
	var out *ast.CallExpr
	for _, s := range block.List {
		if as, ok := s.(*ast.AssignStmt); ok && len(as.Rhs) == 1 && len(as.Lhs) >= 1 && out == nil {
			if l, ok := as.Lhs[0].(*ast.Ident); ok && info.ObjectOf(l) == info.ObjectOf(id) {
				if call, ok := as.Rhs[0].(*ast.CallExpr); ok {
					out = call
				}
			}
		}
	}
	return out
}

// enclosingScope returns the innermost block, case clause or comm clause of body that contains n.
func enclosingScope(body *ast.BlockStmt, n ast.Node) ast.Node {
	var best ast.Node = body
	ast.Inspect(body, func(x ast.Node) bool {
		if x == nil {
			return true
		}
		if !contains(x, n) {
			return false
		}
		switch x.(type) {
		case *ast.BlockStmt, *ast.CaseClause, *ast.CommClause:
			best = x
		}
		return true
	})
	return best
}

// convertedUnmodified: what Upgrade sends as the Advanced set's spec and status is the conversion of the built-in set
// as it is: the converted object is not written to, and neither it nor its copy is handed to an in-repo function
// that writes through that parameter (defaulting the converted set changes its pod template, and with it the
// revision data the controller computes after the migration).
func (c *Ctx) convertedUnmodified(prefix string) {
	fi := c.Func(load.HelperPkg, "Upgrade")
	if fi == nil {
		return
	}
	conv, _ := c.P.Lookup(load.HelperPkg, "FromBuiltinStatefulSet").(*types.Func)
	if conv == nil {
		c.Fail("FromBuiltinStatefulSet does not resolve")
		return
	}
	fn := c.E.FnOf(fi)
	pw := gf.BuildParamWrites(c.P, c.E.Sum)
	n := 0
	hosts := append([]*load.FuncInfo{fi}, fn.Expanded()...)
	for _, h := range hosts {
		info := h.Pkg.TypesInfo
		// the converted object and its deep copies in this function
		tracked := map[types.Object]string{}
		ast.Inspect(h.Decl.Body, func(x ast.Node) bool {
			as, ok := x.(*ast.AssignStmt)
			if !ok || len(as.Rhs) != 1 || len(as.Lhs) < 1 {
				return true
			}
			id, ok := as.Lhs[0].(*ast.Ident)
			if !ok {
				return true
			}
			if call, ok := ast.Unparen(as.Rhs[0]).(*ast.CallExpr); ok {
				if f := gf.StaticCallee(info, call); f != nil && f.Origin() == conv {
					tracked[info.ObjectOf(id)] = "the converted set"
				}
			}
			return true
		})
		if len(tracked) == 0 {
			continue
		}
		ast.Inspect(h.Decl.Body, func(x ast.Node) bool {
			as, ok := x.(*ast.AssignStmt)
			if !ok || len(as.Rhs) != 1 || len(as.Lhs) != 1 {
				return true
			}
			id, ok := as.Lhs[0].(*ast.Ident)
			if !ok {
				return true
			}
			if call, ok := ast.Unparen(as.Rhs[0]).(*ast.CallExpr); ok {
				if sel, ok := ast.Unparen(call.Fun).(*ast.SelectorExpr); ok && sel.Sel.Name == "DeepCopy" {
					if b, ok := ast.Unparen(sel.X).(*ast.Ident); ok && tracked[info.ObjectOf(b)] == "the converted set" {
						tracked[info.ObjectOf(id)] = "the copy of the converted set"
					}
				}
			}
			return true
		})
		// calls that write through it
		for _, call := range callsIn(h.Decl.Body, true) {
			f := gf.StaticCallee(info, call)
			if f == nil || f.Pkg() == nil || !load.IsRepo(f.Pkg().Path()) {
				continue
			}
			for k, a := range call.Args {
				id, ok := ast.Unparen(a).(*ast.Ident)
				if !ok || tracked[info.ObjectOf(id)] == "" {
					continue
				}
				n++
				name := fmt.Sprintf("%s: %s(%s)", h.Obj.Name(), f.Name(), id.Name)
				c.Check(!pw.Writes(c.E.Sum, f, k), prefix+"-converted-set-is-sent-unmodified", name, call.Pos(), "the callee does not write through this parameter",
					tracked[info.ObjectOf(id)]+" is handed to "+f.Name()+", which writes through it: the Advanced set no longer has the built-in set's spec (and pod template), and the revision the controller computes for it differs from the recorded one")
			}
		}
		// direct stores into the converted object itself
		ast.Inspect(h.Decl.Body, func(x ast.Node) bool {
			as, ok := x.(*ast.AssignStmt)
			if !ok {
				return true
			}
			for _, l := range as.Lhs {
				if _, isSel := ast.Unparen(l).(*ast.SelectorExpr); !isSel {
					if _, isIx := ast.Unparen(l).(*ast.IndexExpr); !isIx {
						continue
					}
				}
				if r := rootIdent(l); r != nil && tracked[info.ObjectOf(r)] == "the converted set" {
					n++
					c.Bad(prefix+"-converted-set-is-sent-unmodified", h.Obj.Name()+": "+types.ExprString(l)+" = ...", l.Pos(), "the converted set is written to before its spec and status are sent")
				}
			}
			return true
		})
	}
	c.OK(prefix+"-converted-set-is-sent-unmodified", "Upgrade: the converted set", fi.Decl.Pos(), fmt.Sprintf("%d uses looked at", n))
}
