package rules

import (
	"fmt"
	"go/ast"
	"go/token"
	"go/types"
	"os"

	"asverif/internal/gf"
	"asverif/internal/load"

	"golang.org/x/tools/go/cfg"
)

func init() {
	register(&Property{
		ID:    "C05",
		Title: "OrderedReady: one pod at a time, predecessors healthy, scale-in from the top",
		Run:   runC05,
		Explanation: "Decides clauses C05.1-C05.4 of DESIGN.md, evaluated on the CFG of the reconcile function under the assumption policy != Parallel (edges that need the burst flag are pruned by the guard-fact engine): " +
			"(1) from each pod create/delete site no other pod create/delete site is reachable (except the create of the same cell after a Failed/Succeeded delete); " +
			"(2) every path from the wanted-loop body back to the loop head carries, for the current cell, cell==nil or Running ∧ Ready ∧ not terminating ∧ created (so, by induction over iterations, a create at index i is reached only with all lower desired ordinals healthy); " +
			"(3) the condemned slice is sorted by the ordinal comparator after its last append and before the scale-down loop, the loop walks from len-1 downwards, its body cannot reach the back-edge, and the delete there has not-terminating ∧ (Running ∧ Ready ∨ target is the recorded first unhealthy pod); " +
			"(4) the update delete sits after the scale-down loop and is followed by return. NOT decided: the induction itself is a documented argument, not mechanised; snapshot consistency.",
	})
	register(&Property{
		ID:    "C14",
		Title: "Parallel policy never waits on other pods when scaling",
		Run:   runC14,
		Explanation: "Decides clauses C14.1-C14.4 of DESIGN.md under the assumption policy == Parallel: (1) every return reachable inside the wanted loop and the scale-down loop carries err != nil; " +
			"(2) from the entry of a wanted-loop iteration whose cell is not yet created, every path reaches the create primitive (no return, no skip to the next iteration before it); from the entry of a scale-down iteration whose target is not terminating every path reaches the delete primitive; " +
			"(4) rolling update is still one at a time: the update delete is followed by return on every path, with no assumption on the policy. (C14.3) the update-walk rule also holds under the Parallel assumption. NOT decided: API error sequences; counts k and m as numbers.",
	})
}

func (c *Ctx) policyAssumption(r *Reconcile, parallel bool) *gf.Formula {
	f := c.Want(r.Fn, r.Creates[0].Pos(), `$1.Spec.PodManagementPolicy == "Parallel"`, r.Set)
	if !parallel {
		return gf.Not(f)
	}
	return f
}

type podWrite struct {
	call *ast.CallExpr
	kind string // create, delete
	name string
}

func (c *Ctx) podWrites(r *Reconcile) []podWrite {
	var out []podWrite
	for i, d := range r.Deletes {
		out = append(out, podWrite{d, "delete", siteName(r.FI.Obj.Name(), "DeleteStatefulPod", i, d.Args[1])})
	}
	for i, cr := range r.Creates {
		out = append(out, podWrite{cr, "create", siteName(r.FI.Obj.Name(), "CreateStatefulPod", i, cr.Args[1])})
	}
	return out
}

// oneOrdinal: from site S no other pod create/delete is reachable under the analysis aM.
func (c *Ctx) oneOrdinal(r *Reconcile, aM *gf.Analysis, s podWrite, rule string) {
	fn := r.Fn
	stmt := stmtOf(r.FI.Decl.Body, s.call)
	before := aM.StateAtExpr(s.call)
	if !before.Reachable() {
		c.Trivial(rule, s.name, s.call.Pos(), "site unreachable under the assumption")
		return
	}
	aS := fn.FromAfter(stmt, aM.StateAfter(stmt))
	ok := true
	for _, t := range c.podWrites(r) {
		if t.call == s.call {
			if aS.Reentered(stmt) {
				ok = false
				c.Bad(rule, s.name, s.call.Pos(), "the same site can be reached again in the same reconcile (another iteration)")
			}
			continue
		}
		if !aS.StateAtExpr(t.call).Reachable() {
			continue
		}
		if s.kind == "delete" && t.kind == "create" && fn.Term(s.call.Args[1]).Key() == fn.Term(t.call.Args[1]).Key() && contains(r.WLoop, s.call) {
			// the replacement create of the same cell; it must be in the same iteration: the loop head is not re-entered before it
			aU := fn.FromAfterUntil(stmt, aM.StateAfter(stmt), t.call)
			if aU.BlockReached(loopHead(fn, r.WLoop)) {
				ok = false
				c.Bad(rule, s.name, s.call.Pos(), "the create of the same cell is reachable only via another iteration")
			}
			// and nothing else after that create: covered when the create site itself is examined
			continue
		}
		ok = false
		c.Bad(rule, s.name, s.call.Pos(), fmt.Sprintf("after this %s, the %s at %s is still reachable in the same reconcile", s.kind, t.kind, c.P.Pos(t.call.Pos())))
	}
	if ok {
		c.OK(rule, s.name, s.call.Pos(), "no other pod create/delete site is reachable after this one")
	}
}

func loopHead(fn *gf.Fn, loop ast.Stmt) *cfg.Block {
	for _, b := range fn.CFG.Blocks {
		if b.Live && b.Stmt == loop && (b.Kind == cfg.KindRangeLoop || b.Kind == cfg.KindForLoop) {
			return b
		}
	}
	return nil
}

func loopBlock(fn *gf.Fn, loop ast.Stmt, kind cfg.BlockKind) *cfg.Block {
	for _, b := range fn.CFG.Blocks {
		if b.Live && b.Stmt == loop && b.Kind == kind {
			return b
		}
	}
	return nil
}

// backEdgeStates returns the states on the edges that re-enter the loop from inside its body.
func backEdgeStates(fn *gf.Fn, a *gf.Analysis, loop ast.Stmt) []gf.State {
	var target *cfg.Block
	if _, isFor := loop.(*ast.ForStmt); isFor {
		target = loopBlock(fn, loop, cfg.KindForPost)
		if target == nil {
			target = loopHead(fn, loop)
		}
	} else {
		target = loopHead(fn, loop)
	}
	var out []gf.State
	if target == nil {
		return nil
	}
	for _, b := range fn.CFG.Blocks {
		if !b.Live {
			continue
		}
		for i, s := range b.Succs {
			if s != target {
				continue
			}
			// the edge originates inside the loop body?
			inside := false
			if len(b.Nodes) > 0 {
				inside = contains(loopBody(loop), b.Nodes[0])
			} else if b.Stmt != nil {
				inside = contains(loopBody(loop), b.Stmt) && b.Stmt != loop
			}
			if !inside {
				continue
			}
			es := a.EdgeStates(b)
			if i < len(es) && es[i].Reachable() {
				out = append(out, es[i])
			}
		}
	}
	return out
}

func loopBody(loop ast.Stmt) *ast.BlockStmt {
	switch l := loop.(type) {
	case *ast.ForStmt:
		return l.Body
	case *ast.RangeStmt:
		return l.Body
	}
	return nil
}

// loopCell builds the expression X[key] for a range loop over X with an identifier key.
func loopCell(loop *ast.RangeStmt) ast.Expr {
	if key, ok := loop.Key.(*ast.Ident); ok && key.Name != "_" {
		return &ast.IndexExpr{X: loop.X, Index: key}
	}
	// `for _, v := range X`: the value variable is the cell
	if v, ok := loop.Value.(*ast.Ident); ok && v.Name != "_" {
		return v
	}
	return nil
}

// topIndex returns the index of the top-level statement of body that contains n.
func topIndex(body *ast.BlockStmt, n ast.Node) int {
	for i, s := range body.List {
		if contains(s, n) {
			return i
		}
	}
	return -1
}

// walkShape checks a descending walk `for t := len(X)-1; t >= lo; t--`.
func (c *Ctx) walkShape(r *Reconcile, loop *ast.ForStmt, slice types.Object, rule, name string) (idx *ast.Ident, ok bool) {
	fn := r.Fn
	info := r.FI.Pkg.TypesInfo
	init, isAs := loop.Init.(*ast.AssignStmt)
	if !isAs || len(init.Lhs) != 1 || len(init.Rhs) != 1 {
		c.Bad(rule, name, loop.Pos(), "loop has no single initialiser")
		return nil, false
	}
	idx, _ = init.Lhs[0].(*ast.Ident)
	if idx == nil {
		c.Bad(rule, name, loop.Pos(), "loop index is not an identifier")
		return nil, false
	}
	want := c.WantTerm(fn, loop.Pos(), "len($1) - 1", &ast.Ident{Name: slice.Name(), NamePos: loop.Pos()})
	start := fn.Term(init.Rhs[0])
	post, isDec := loop.Post.(*ast.IncDecStmt)
	down := isDec && post.Tok == token.DEC && fn.Term(post.X).Key() == fn.Term(idx).Key()
	// no other assignment to the index inside the loop
	other := false
	ast.Inspect(loop.Body, func(n ast.Node) bool {
		switch x := n.(type) {
		case *ast.AssignStmt:
			for _, l := range x.Lhs {
				if id, ok := l.(*ast.Ident); ok && info.ObjectOf(id) == info.ObjectOf(idx) {
					other = true
				}
			}
		case *ast.IncDecStmt:
			if id, ok := x.X.(*ast.Ident); ok && info.ObjectOf(id) == info.ObjectOf(idx) {
				other = true
			}
		}
		return true
	})
	good := want != nil && start.Key() == want.Key() && down && !other
	c.Check(good, rule, name, loop.Pos(), "walk starts at len-1 of the slice and only decreases", "the walk does not start at the top of the slice or does not strictly decrease")
	return idx, good
}

func runC05(c *Ctx) {
	r := c.ReconcileRoles()
	if r == nil {
		return
	}
	if r.WLoop == nil || r.KLoop == nil || r.ULoop == nil {
		c.Fail("wanted loop / scale-down loop / update walk not resolved")
		return
	}
	fn := r.Fn
	info := r.FI.Pkg.TypesInfo
	aM := fn.Analyze(c.policyAssumption(r, false))
	c.Check(r.FreshOK, "C05.0-fresh-pod-is-uncreated", r.Ctor.Name()+" result", r.Creates[0].Pos(),
		"allocation summary: the constructor returns a new pod with empty phase and no deletion timestamp", "the constructor's result is not provably an uncreated pod")

	// C05.1 one ordinal per reconcile
	ws := c.podWrites(r)
	c.Floor("C05.1-pod-write-sites", len(ws), 4)
	for _, s := range ws {
		c.oneOrdinal(r, aM, s, "C05.1-one-ordinal")
	}

	// C05.2 predecessors healthy on every way back to the wanted-loop head
	cell := loopCell(r.WLoop)
	if cell == nil {
		c.Fail("wanted loop has no identifier key")
		return
	}
	healthy := gf.Or(c.Want(fn, r.WLoop.Body.Pos(), "$1 == nil", cell),
		gf.And(c.Want(fn, r.WLoop.Body.Pos(), `$1.Status.Phase != ""`, cell), c.podHealthy(fn, r.WLoop.Body.Pos(), cell)))
	bes := backEdgeStates(fn, aM, r.WLoop)
	for i, st := range bes {
		c.Implies(st, healthy, "C05.2-predecessors-healthy", fmt.Sprintf("%s: wanted-loop back-edge[%d]", r.FI.Obj.Name(), i), r.WLoop.Pos())
	}
	c.Floor("C05.2-back-edges", len(bes), 2)

	// C05.3 scale-in from the top
	c.sortedBeforeScaleDown(r)
	kidx, _ := c.walkShape(r, r.KLoop, r.K, "C05.3-walk-from-top", r.FI.Obj.Name()+": scale-down loop")
	if post := loopBlock(fn, r.KLoop, cfg.KindForPost); post != nil {
		c.Check(!aM.BlockReached(post), "C05.3-one-per-reconcile", r.FI.Obj.Name()+": scale-down loop back-edge", r.KLoop.Pos(),
			"under OrderedReady the loop body has no path to the next iteration (it waits or deletes and returns)",
			"under OrderedReady the scale-down loop can continue to a second condemned pod")
	}
	for i, d := range r.Deletes {
		if !contains(r.KLoop, d) {
			continue
		}
		name := siteName(r.FI.Obj.Name(), "DeleteStatefulPod", i, d.Args[1])
		arg := d.Args[1]
		st := aM.StateAtExpr(d)
		c.Implies(st, c.Want(fn, d.Pos(), "$1.DeletionTimestamp == nil", arg), "C05.3-delete-not-terminating", name, d.Pos())
		// Running∧Ready, or the target is the recorded first unhealthy pod
		var fu *ast.Ident
		ast.Inspect(r.KLoop.Body, func(n ast.Node) bool {
			be, ok := n.(*ast.BinaryExpr)
			if !ok || (be.Op != token.NEQ && be.Op != token.EQL) {
				return true
			}
			// one side is the deleted pod (as written, or a local the engine knows equal to it at the call)
			same := fn.Term(be.X).Key() == fn.Term(arg).Key()
			if !same {
				same, _ = st.Implies(gf.FEq(fn.Term(be.X), fn.Term(arg)))
			}
			if same {
				if id, ok := ast.Unparen(be.Y).(*ast.Ident); ok && types.TypeString(info.TypeOf(id), nil) == "*k8s.io/api/core/v1.Pod" {
					fu = id
				}
			}
			return true
		})
		alt := c.podReady(fn, d.Pos(), arg)
		if fu != nil {
			alt = gf.Or(alt, c.Want(fn, d.Pos(), "$1 == $2", arg, fu))
		}
		c.Implies(st, alt, "C05.3-delete-target-healthy-or-first-unhealthy", name, d.Pos())
		if fu != nil {
			c.firstUnhealthyAssignments(r, fu)
		}
		if kidx != nil {
			ix, _ := ast.Unparen(arg).(*ast.IndexExpr)
			c.Check(ix != nil && fn.Term(ix.Index).Key() == fn.Term(kidx).Key(), "C05.3-delete-is-walk-target", name, d.Pos(),
				"the deleted pod is the walk's current target", "the deleted pod is not indexed by the walk variable")
		}
	}
	// order of the phases: wanted loop, then scale-down loop, then update walk (top-level statements)
	iw, ik, iu := topIndex(r.FI.Decl.Body, r.WLoop), topIndex(r.FI.Decl.Body, r.KLoop), topIndex(r.FI.Decl.Body, r.ULoop)
	top := func(s ast.Stmt) bool { i := topIndex(r.FI.Decl.Body, s); return i >= 0 && r.FI.Decl.Body.List[i] == s }
	c.Check(iw >= 0 && iw < ik && ik < iu && top(r.WLoop) && top(r.KLoop) && top(r.ULoop), "C05.4-phase-order", r.FI.Obj.Name()+": wanted loop < scale-down loop < update walk", r.ULoop.Pos(),
		"the three phases are consecutive top-level statements in this order, so the update walk is reached only through the scale-down loop's exit",
		"the update walk is not ordered after the scale-down loop (or a phase is nested)")
	// under OrderedReady a pod is taken down for an update only when nothing is left to scale in: the scale-down loop
	// never completes an iteration (C05.3-one-per-reconcile), so its exit is its very first test and the condemned
	// slice is empty where the update walk deletes
	nU := 0
	fn.KeepDead = true // (the condemned slice is not read again after its loop: facts about it are kept for this question)
	aK := fn.Analyze(c.policyAssumption(r, false))
	fn.KeepDead = false
	for i, d := range r.Deletes {
		if !contains(r.ULoop, d) {
			continue
		}
		nU++
		name := siteName(r.FI.Obj.Name(), "DeleteStatefulPod", i, d.Args[1])
		c.Implies(aK.StateAtExpr(d), gf.FEq(gf.LenOf(gf.Var(r.K)), gf.ConstInt(0)), "C05.4-update-only-when-nothing-to-scale-in", name, d.Pos())
	}
	c.Floor("C05.4-update-walk-deletes", nU, 1)
	// C05.4 continuing the update walk requires the current pod updated and healthy
	c.updateWalkContinue(r, r.An, "C05.4-walk-continue")
}

// sortedBeforeScaleDown: sort.Sort(<ordinal comparator>(K)) after the last append and before the loop.
func (c *Ctx) sortedBeforeScaleDown(r *Reconcile) {
	info := r.FI.Pkg.TypesInfo
	body := r.FI.Decl.Body
	var sortStmt ast.Stmt
	var cmpType *types.Named
	for _, s := range body.List {
		es, ok := s.(*ast.ExprStmt)
		if !ok {
			continue
		}
		call, ok := es.X.(*ast.CallExpr)
		if !ok {
			continue
		}
		f := gf.StaticCallee(info, call)
		if f == nil || (f.FullName() != "sort.Sort" && f.FullName() != "sort.Stable") || len(call.Args) != 1 {
			continue
		}
		conv, ok := ast.Unparen(call.Args[0]).(*ast.CallExpr)
		if !ok || len(conv.Args) != 1 {
			continue
		}
		if id := rootIdent(conv.Args[0]); id == nil || info.ObjectOf(id) != r.K {
			continue
		}
		if tv, ok := info.Types[conv.Fun]; ok && tv.IsType() {
			cmpType, _ = types.Unalias(tv.Type).(*types.Named)
			sortStmt = s
		}
	}
	name := r.FI.Obj.Name() + ": sort of " + r.K.Name()
	if sortStmt == nil || cmpType == nil {
		c.Bad("C05.3-sorted", name, r.KLoop.Pos(), "the condemned slice is not sorted by a top-level sort.Sort(<comparator>(K)) statement")
		return
	}
	is := topIndex(body, sortStmt)
	lastAppend := -1
	ast.Inspect(body, func(n ast.Node) bool {
		if as, ok := n.(*ast.AssignStmt); ok && len(as.Lhs) == 1 {
			if id, ok := as.Lhs[0].(*ast.Ident); ok && info.ObjectOf(id) == r.K {
				if i := topIndex(body, as); i > lastAppend {
					lastAppend = i
				}
			}
		}
		return true
	})
	c.Check(lastAppend < is && is < topIndex(body, r.KLoop), "C05.3-sorted", name, sortStmt.Pos(),
		"sorted after the last append to the condemned slice and before the scale-down loop", "the sort does not sit between the last append and the scale-down loop")
	// comparator shape: Less(i,j) = getOrdinal(x[i]) < getOrdinal(x[j])
	var less *load.FuncInfo
	for i := 0; i < cmpType.NumMethods(); i++ {
		if cmpType.Method(i).Name() == "Less" {
			less = c.P.FuncInfoOf(cmpType.Method(i))
		}
	}
	if less == nil {
		c.Bad("C05.3-comparator", cmpType.Obj().Name()+".Less", sortStmt.Pos(), "comparator has no Less method in the repo")
		return
	}
	lfn := c.E.FnOf(less)
	var got *gf.Formula
	if len(less.Decl.Body.List) == 1 {
		if ret, ok := less.Decl.Body.List[0].(*ast.ReturnStmt); ok && len(ret.Results) == 1 {
			got = lfn.Formula(ret.Results[0])
		}
	}
	recv := less.Decl.Recv.List[0].Names[0]
	pi, pj := less.Decl.Type.Params.List[0].Names[0], less.Decl.Type.Params.List[0].Names[1]
	want := c.Want(lfn, less.Decl.Body.Pos(), "getOrdinal($1[$2]) < getOrdinal($1[$3])", recv, pi, pj)
	c.Check(got != nil && got.Key() == want.Key(), "C05.3-comparator", cmpType.Obj().Name()+".Less", less.Decl.Pos(),
		"comparator orders by pod ordinal, ascending", "comparator is not `getOrdinal(x[i]) < getOrdinal(x[j])`")
}

// firstUnhealthyAssignments: the recorded pod is only ever assigned an unhealthy pod.
// Decided on the state after each statement that assigns the variable (directly, or as
// one of the results of a helper the engine expands): it is nil or not healthy there.
func (c *Ctx) firstUnhealthyAssignments(r *Reconcile, fu *ast.Ident) {
	info := r.FI.Pkg.TypesInfo
	obj := info.ObjectOf(fu)
	n := 0
	ast.Inspect(r.FI.Decl.Body, func(x ast.Node) bool {
		as, ok := x.(*ast.AssignStmt)
		if !ok {
			return true
		}
		var lhs *ast.Ident
		for _, l := range as.Lhs {
			if id, ok := l.(*ast.Ident); ok && info.ObjectOf(id) == obj {
				lhs = id
			}
		}
		if lhs == nil {
			return true
		}
		n++
		rhs := types.ExprString(as.Rhs[0])
		if len(as.Rhs) == len(as.Lhs) {
			for i, l := range as.Lhs {
				if l == ast.Expr(lhs) {
					rhs = types.ExprString(as.Rhs[i])
				}
			}
		}
		name := fmt.Sprintf("%s: %s = %s", r.FI.Obj.Name(), obj.Name(), rhs)
		want := gf.Or(c.Want(r.Fn, as.End(), "$1 == nil", lhs), gf.Not(c.podHealthy(r.Fn, as.End(), lhs)))
		c.Implies(r.An.StateAfter(as), want, "C05.3-first-unhealthy-is-unhealthy", name, as.Pos())
		return true
	})
	c.Floor("C05.3-first-unhealthy-assignments", n, 1)
}

// updateWalkContinue: the update walk moves to a lower index only past an
// empty cell or a pod at the update revision that is healthy.
func (c *Ctx) updateWalkContinue(r *Reconcile, a *gf.Analysis, rule string) {
	fn := r.Fn
	idx, ok := c.walkShape(r, r.ULoop, r.W, rule+"-shape", r.FI.Obj.Name()+": update walk")
	if !ok {
		return
	}
	cell := &ast.IndexExpr{X: &ast.Ident{Name: r.W.Name()}, Index: idx}
	pos := r.ULoop.Body.Pos()
	allowed := gf.Or(c.Want(fn, pos, "$1 == nil", cell),
		gf.And(c.Want(fn, pos, "getPodRevision($1) == $2.Name", cell, r.UpdRev), c.podHealthy(fn, pos, cell)))
	bes := backEdgeStates(fn, a, r.ULoop)
	for i, st := range bes {
		c.Implies(st, allowed, rule, fmt.Sprintf("%s: update-walk back-edge[%d]", r.FI.Obj.Name(), i), r.ULoop.Pos())
	}
	c.Floor(rule+"-back-edges", len(bes), 2)
}

func runC14(c *Ctx) {
	r := c.ReconcileRoles()
	if r == nil {
		return
	}
	if r.WLoop == nil || r.KLoop == nil || r.ULoop == nil {
		c.Fail("wanted loop / scale-down loop / update walk not resolved")
		return
	}
	fn := r.Fn
	info := r.FI.Pkg.TypesInfo
	aP := fn.Analyze(c.policyAssumption(r, true))
	// Parallel changes scaling only: the update walk still moves on past a cell only when it is empty or
	// holds a healthy pod at the update revision (one pod down at a time)
	c.updateWalkContinue(r, aP, "C14.3-update-walk-one-at-a-time")
	c.Check(r.FreshOK, "C14.0-fresh-pod-is-uncreated", r.Ctor.Name()+" result", r.Creates[0].Pos(),
		"allocation summary: the constructor returns a new pod with empty phase and no deletion timestamp", "the constructor's result is not provably an uncreated pod")
	// "absent API errors": the create and the delete of a pod fail only when a call they make fails -- an error the pod
	// control concludes by itself from what it sees (a claim on its way out, say) ends the pass just the same, and under
	// Parallel every other vacant ordinal and every pod to remove then waits for that one
	{
		nCtor := 0
		scope := map[*types.Func]bool{}
		for _, m := range []string{"realStatefulPodControl.CreateStatefulPod", "realStatefulPodControl.DeleteStatefulPod"} {
			if fi := c.Func(load.CtrlPkg, m); fi != nil {
				scope[fi.Obj] = true
				for f := range c.G.ReachDirect(fi.Obj) {
					scope[f] = true
				}
			}
		}
		for f := range scope {
			fi := c.P.FuncInfoOf(f)
			if fi == nil || fi.Pkg.PkgPath != load.CtrlPkg {
				continue
			}
			for _, call := range callsIn(fi.Decl.Body, true) {
				if !isErrorCtor(fi.Pkg.TypesInfo, call) {
					continue
				}
				nCtor++
				c.Check(!madeUpError(fi.Pkg.TypesInfo, call), "C14.1-pod-control-fails-only-when-a-call-fails", fmt.Sprintf("%s: %s", tableShort(c, fi), clip(types.ExprString(call), 60)), call.Pos(),
					"wraps the error of a call", "the pod control reports an error of its own making (no call has failed): the pass ends there, and under Parallel the other vacant ordinals are not created and the pods outside the desired set are not deleted in this reconcile")
			}
		}
		c.Floor("C14.1-pod-control-error-constructions", nCtor, 2)
	}
	// "all m deletions": every pod the census put on the condemned list is still on it when the scale-down loop runs: the
	// list is appended to in the census loop and, apart from being sorted, left alone (a count of pods says nothing about
	// which ordinals they sit at)
	{
		var census *ast.RangeStmt
		ast.Inspect(r.FI.Decl.Body, func(n ast.Node) bool {
			if rs, ok := n.(*ast.RangeStmt); ok && census == nil {
				if id, ok := ast.Unparen(rs.X).(*ast.Ident); ok && info.ObjectOf(id) == info.ObjectOf(r.Pods) {
					census = rs
				}
			}
			return true
		})
		nK := 0
		for _, bd := range fn.Bodies() {
			ast.Inspect(bd, func(n ast.Node) bool {
				as, ok := n.(*ast.AssignStmt)
				if !ok {
					return true
				}
				for i, l := range as.Lhs {
					id, ok := ast.Unparen(l).(*ast.Ident)
					if !ok || info.ObjectOf(id) != r.K {
						continue
					}
					nK++
					name := fmt.Sprintf("%s: %s = %s", r.FI.Obj.Name(), id.Name, clip(types.ExprString(as.Rhs[min(i, len(as.Rhs)-1)]), 50))
					inCensus := census != nil && contains(census, as)
					isAppend := false
					if call, ok := ast.Unparen(as.Rhs[min(i, len(as.Rhs)-1)]).(*ast.CallExpr); ok {
						if f, ok := call.Fun.(*ast.Ident); ok && f.Name == "append" && len(call.Args) >= 1 {
							if a0, ok := ast.Unparen(call.Args[0]).(*ast.Ident); ok && info.ObjectOf(a0) == r.K {
								isAppend = true
							}
						}
					}
					first := as.Tok == token.DEFINE || (census != nil && as.Pos() < census.Pos())
					c.Check((inCensus && isAppend) || first, "C14.2-condemned-list-is-complete", name, as.Pos(), "the list is set up before the census and appended to inside it",
						"the list of pods outside the desired set is given another value after the census: pods the census put there are not deleted in this reconcile")
				}
				return true
			})
		}
		c.Floor("C14.2-condemned-list-writes", nK, 1)
	}
	// C14.1 only API errors end the pass inside the two loops
	nRet := 0
	for _, loop := range []ast.Stmt{r.WLoop, r.KLoop} {
		ast.Inspect(loop, func(n ast.Node) bool {
			ret, ok := n.(*ast.ReturnStmt)
			if !ok {
				return true
			}
			st := aP.StateBefore(ret)
			name := fmt.Sprintf("%s: return[%d] in scaling loops", r.FI.Obj.Name(), nRet)
			nRet++
			if !st.Reachable() {
				c.Trivial("C14.1-only-errors-end-the-pass", name, ret.Pos(), "unreachable under Parallel")
				return true
			}
			last := ret.Results[len(ret.Results)-1]
			if isNilExpr(info, last) {
				c.Bad("C14.1-only-errors-end-the-pass", name, ret.Pos(), "under Parallel a success return inside a scaling loop is reachable: the reconcile stops before handling the remaining pods")
				return true
			}
			c.Implies(st, gf.FNotNil(fn.Term(last)), "C14.1-only-errors-end-the-pass", name, ret.Pos())
			return true
		})
	}
	c.Floor("C14.1-returns", nRet, 8)
	// and outside them: up to the end of the scale-down loop, the only success return reachable under Parallel is the
	// one for a set that is being deleted (a wait placed between the phases stops the scaling just as one inside a loop)
	nOut := 0
	ownNodes(r.FI.Decl.Body, func(n ast.Node) {
		ret, ok := n.(*ast.ReturnStmt)
		if !ok || ret.Pos() > r.KLoop.End() || contains(r.WLoop, ret) || contains(r.KLoop, ret) || len(ret.Results) == 0 {
			return
		}
		st := aP.StateBefore(ret)
		if !st.Reachable() {
			return
		}
		nOut++
		name := fmt.Sprintf("%s: return[%d] before the end of scaling", r.FI.Obj.Name(), nOut)
		last := ret.Results[len(ret.Results)-1]
		deleting := c.Want(fn, ret.Pos(), "$1.DeletionTimestamp != nil", r.Set)
		if g, _ := st.Implies(gf.Or(gf.FNotNil(fn.Term(last)), deleting)); g && !isNilExpr(info, last) {
			c.OK("C14.1-only-errors-end-the-pass", name, ret.Pos(), "an error return")
		} else if g2, _ := st.Implies(deleting); g2 {
			c.OK("C14.1-only-errors-end-the-pass", name, ret.Pos(), "the set is being deleted")
		} else {
			c.Bad("C14.1-only-errors-end-the-pass", name, ret.Pos(), "under Parallel a success return is reachable before the scaling is done, for a set that is not being deleted: vacant ordinals are not created or pods outside the desired set not deleted in this reconcile")
		}
	})
	c.Floor("C14.1-returns-outside-the-loops", nOut, 1)

	c.everyVacancyIsFilled(r, "C14.2-every-vacancy-is-filled")
	// C14.2 every uncreated cell reaches the create; every live condemned pod reaches the delete
	cell := loopCell(r.WLoop)
	wbody := loopBlock(fn, r.WLoop, cfg.KindRangeBody)
	var create *ast.CallExpr
	for _, cr := range r.Creates {
		if contains(r.WLoop, cr) {
			create = cr
		}
	}
	if cell == nil || wbody == nil || create == nil || len(wbody.Nodes) == 0 {
		c.Fail("wanted loop body / create site not resolved")
		return
	}
	start := aP.In[wbody.Index].Assume(c.Want(fn, r.WLoop.Body.Pos(), `$1 != nil && $1.Status.Phase == ""`, cell))
	aU := fn.FromUntil(wbody.Nodes[0], start, create)
	c.mustReach(r, aU, r.WLoop, create, "C14.2-vacancy-reaches-create", r.FI.Obj.Name()+": wanted-loop iteration with an uncreated pod")

	kbody := loopBlock(fn, r.KLoop, cfg.KindForBody)
	var kdel *ast.CallExpr
	for _, d := range r.Deletes {
		if contains(r.KLoop, d) {
			kdel = d
		}
	}
	if kbody == nil || kdel == nil || len(kbody.Nodes) == 0 {
		c.Fail("scale-down loop body / delete site not resolved")
		return
	}
	kstart := aP.In[kbody.Index].Assume(c.Want(fn, r.KLoop.Body.Pos(), `$1.DeletionTimestamp == nil`, kdel.Args[1]))
	aK := fn.FromUntil(kbody.Nodes[0], kstart, kdel)
	if os.Getenv("ASV_DEBUG") != "" {
		fmt.Println("DEBUG kstart:", kstart.String())
		for _, n := range kbody.Nodes {
			fmt.Println("DEBUG before", fmt.Sprintf("%T", n), ":", aK.StateBefore(n).String())
		}
		for i, e := range aK.EdgeStates(kbody) {
			fmt.Println("DEBUG edge", i, ":", e.String())
		}
	}
	c.mustReach(r, aK, r.KLoop, kdel, "C14.2-condemned-reaches-delete", r.FI.Obj.Name()+": scale-down iteration with a live condemned pod")
	// the scale-down loop visits every condemned pod: walk from the top down to 0
	if _, ok := c.walkShape(r, r.KLoop, r.K, "C14.2-all-condemned-visited", r.FI.Obj.Name()+": scale-down loop"); ok {
		cond := fn.Formula(r.KLoop.Cond)
		idx := r.KLoop.Init.(*ast.AssignStmt).Lhs[0]
		want := c.Want(fn, r.KLoop.Body.Pos(), "$1 >= 0", idx)
		c.Check(cond.Key() == want.Key(), "C14.2-all-condemned-visited", r.FI.Obj.Name()+": scale-down loop condition", r.KLoop.Pos(),
			"the walk runs down to index 0", "the scale-down walk stops before index 0")
	}
	// the wanted loop ranges over the whole wanted slice
	c.Check(rootIdent(r.WLoop.X) != nil && info.ObjectOf(rootIdent(r.WLoop.X)) == r.W && ast.Unparen(r.WLoop.X) == ast.Expr(rootIdent(r.WLoop.X)),
		"C14.2-all-wanted-visited", r.FI.Obj.Name()+": wanted loop range operand", r.WLoop.Pos(), "ranges over the entire wanted slice", "the wanted loop ranges over a sub-slice")

	// C14.2 no early exit: under Parallel the loops end only through their heads
	for _, lp := range []struct {
		loop ast.Stmt
		done cfg.BlockKind
		name string
	}{{r.WLoop, cfg.KindRangeDone, "wanted loop"}, {r.KLoop, cfg.KindForDone, "scale-down loop"}} {
		done := loopBlock(fn, lp.loop, lp.done)
		head := loopHead(fn, lp.loop)
		if done == nil || head == nil {
			c.Fail("loop blocks of the %s not found", lp.name)
			continue
		}
		early := false
		for _, b := range fn.CFG.Blocks {
			if !b.Live || b == head {
				continue
			}
			for i, sx := range b.Succs {
				if sx != done {
					continue
				}
				if es := aP.EdgeStates(b); i < len(es) && es[i].Reachable() {
					early = true
				}
			}
		}
		c.Check(!early, "C14.2-no-early-exit", r.FI.Obj.Name()+": "+lp.name, lp.loop.Pos(),
			"under Parallel the loop is left only when its range/condition is exhausted", "under Parallel the loop can be left early (break) with pods still unhandled")
	}

	// C14.4 rolling update one at a time, without any assumption
	for _, s := range c.podWrites(r) {
		if s.kind == "delete" && contains(r.ULoop, s.call) {
			c.oneOrdinal(r, r.An, s, "C14.4-update-one-at-a-time")
		}
	}
}

// mustReach: in the truncated analysis a (which stops at target), no return is
// reached and the loop is not continued or left: every path hits target.
func (c *Ctx) mustReach(r *Reconcile, a *gf.Analysis, loop ast.Stmt, target *ast.CallExpr, rule, name string) {
	fn := r.Fn
	ok := true
	ast.Inspect(r.FI.Decl.Body, func(n ast.Node) bool {
		switch x := n.(type) {
		case *ast.FuncLit:
			return false
		case *ast.ReturnStmt:
			if a.StateBefore(x).Reachable() {
				ok = false
				_, wit := a.StateBefore(x).Implies(gf.False)
				c.Bad(rule, name, x.Pos(), "a return is reachable before the "+calleeShort(r.FI.Pkg.TypesInfo, target)+" call; facts on one such path: "+clip(wit, 600))
			}
		}
		return true
	})
	for _, b := range fn.CFG.Blocks {
		if !b.Live || b.Stmt != loop {
			continue
		}
		switch b.Kind {
		case cfg.KindRangeLoop, cfg.KindForPost, cfg.KindForDone, cfg.KindRangeDone:
			if a.BlockReached(b) {
				ok = false
				c.Bad(rule, name, loop.Pos(), "the iteration can end ("+b.Kind.String()+") without the "+calleeShort(r.FI.Pkg.TypesInfo, target)+" call")
			}
		}
	}
	if ok {
		reached := a.StateAtExpr(target).Reachable()
		c.Check(reached, rule, name, target.Pos(), "every path of such an iteration reaches the call", "the call is unreachable from the iteration entry")
	}
}
