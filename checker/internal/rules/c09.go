package rules

import (
	"fmt"
	"go/ast"
	"go/token"
	"go/types"
	"sort"
	"strings"

	"asverif/internal/gf"
	"asverif/internal/load"
)

func init() {
	register(&Property{
		ID:    "C09",
		Title: "A failure or crash at any API call is reported, harmless, and recoverable",
		Run:   runC09,
		Explanation: "Decides clauses C09.1-C09.5 of DESIGN.md: (1) error discipline: for every call returning an error in every function (and closure) reachable from sync, the worker and the upgrade helper, on the err != nil side the error reaches a return of the enclosing function on every CFG path - directly, wrapped, appended to a slice that is aggregated into a return, or as a retry closure's result - or matches one tabled, reviewed idiom (NotFound on reads of objects that may be gone, AlreadyExists on revision create, refresh reads in retry closures, event-handler lookups); dropped, overwritten and logged-only errors are violations naming the call site; " +
			"(2) failed reconciles are re-queued with backoff (worker wiring, shared with C16.3); (3) the reconcile is stateless: no function reachable from sync stores to a package-level variable or to a field of the controller/control/pod-control/status-updater structs; (4) the one precondition rejection reachable from sync (adopting a revision that already has a controller) is never triggered by its callers (they pass orphans only); (5) the status write retries from a fresh deep copy. " +
			"(5) in the pod-update primitive the pod write follows a successful claim creation once the storage repair has run. NOT decided: harmlessness of partial work and equality of the recovered final state over all fault sequences.",
	})
}

// idiom table for C09.1: function | callee | how the error is handled -> reason
var errorIdioms = []struct{ fn, callee, pred, reason string }{
	{"StatefulSetController.sync", "Get", "IsNotFound", "the set read from the lister is gone: nothing to reconcile"},
	{"StatefulSetController.sync", "LabelSelectorAsSelector", "", "an unparsable selector is not transient: logged, not retried (upstream behaviour)"},
	{"BaseControllerRefManager.ClaimObject", "dyn:release", "IsNotFound", "the pod no longer exists"},
	{"BaseControllerRefManager.ClaimObject", "dyn:adopt", "IsNotFound", "the pod no longer exists"},
	{"PodControllerRefManager.ReleasePod", "PatchPod", "IsNotFound", "the pod no longer exists"},
	{"PodControllerRefManager.ReleasePod", "PatchPod", "IsInvalid", "the pod has no such owner reference or was recreated"},
	{"realStatefulPodControl.createPersistentVolumeClaims", "Get", "IsNotFound", "the claim does not exist yet: it is created"},
	{"defaultStatefulSetControl.createControllerRevision", "Create", "IsAlreadyExists", "name collision: compared with the existing revision, then retried with a new name"},
	{"Upgrade", "Get", "IsNotFound", "the Advanced set does not exist yet: create branch"},
	{"Upgrade", "Delete", "IsNotFound", "the built-in set is already deleted"},
	{"realStatefulPodControl.UpdateStatefulPod$lit", "Get", "", "refresh read inside the retry closure: the update error is what is returned"},
	{"realStatefulSetStatusUpdater.UpdateStatefulSetStatus$lit", "Get", "", "refresh read inside the retry closure: the update error is what is returned"},
	{"defaultStatefulSetControl.updateControllerRevision$lit", "Get", "", "refresh read inside the retry closure: the update error is what is returned"},
	{"RealPodControl.createPods", "Accessor", "", "unused upstream helper: event target lookup after a successful create"},
	{"BaseControllerRefManager.CanAdopt$lit", "dyn:CanAdoptFunc", "", "stored in canAdoptErr, which is what CanAdopt returns (C10.3-CanAdopt-shape)"},
}

// calls whose error result is irrelevant to the property (never API calls), each with a reason
var errorIgnorable = map[string]string{
	"(hash.Hash32).Write": "hash.Hash.Write never returns an error",
	"(io.Writer).Write":   "hash writer",
	"fmt.Fprintf":         "printing into a hash writer",
	"(*k8s.io/apimachinery/pkg/util/sets.Int32).UnmarshalJSON": "not an API call",
}

func carriesErrors(t types.Type) bool {
	if types.Identical(t, errType()) {
		return true
	}
	if sl, ok := t.Underlying().(*types.Slice); ok {
		return types.Identical(sl.Elem(), errType())
	}
	return false
}

func errType() types.Type { return types.Universe.Lookup("error").Type() }

func returnsError(t types.Type) bool {
	sig, ok := t.Underlying().(*types.Signature)
	if !ok || sig.Results().Len() == 0 {
		return false
	}
	return types.Identical(sig.Results().At(sig.Results().Len()-1).Type(), errType())
}

type errScope struct {
	fi   *load.FuncInfo
	lit  *ast.FuncLit // nil for the declaration body
	name string
	body *ast.BlockStmt
	typ  *ast.FuncType
}

func (c *Ctx) errorDisciplineScopes() []errScope {
	var roots []*types.Func
	for _, n := range []string{"StatefulSetController.sync", "StatefulSetController.processNextWorkItem"} {
		if fi := c.Func(load.CtrlPkg, n); fi != nil {
			roots = append(roots, fi.Obj)
		}
	}
	if fi := c.Func(load.HelperPkg, "Upgrade"); fi != nil {
		roots = append(roots, fi.Obj)
	}
	reach := c.G.ReachDirect(roots...)
	var fis []*load.FuncInfo
	for f := range reach {
		fi := c.P.FuncInfoOf(f)
		if fi == nil {
			continue
		}
		pp := fi.Pkg.PkgPath
		if pp != load.CtrlPkg && pp != load.K8sPkg && pp != load.HelperPkg {
			continue
		}
		fis = append(fis, fi)
	}
	sort.Slice(fis, func(i, j int) bool { return fis[i].Obj.FullName() < fis[j].Obj.FullName() })
	var out []errScope
	for _, fi := range fis {
		// (the name the function had at the pinned commit, if it was renamed since: the idiom tables are keyed by it)
		short := c.tableName(fi)
		out = append(out, errScope{fi, nil, short, fi.Decl.Body, fi.Decl.Type})
		ast.Inspect(fi.Decl.Body, func(n ast.Node) bool {
			if l, ok := n.(*ast.FuncLit); ok {
				out = append(out, errScope{fi, l, short + "$lit", l.Body, l.Type})
			}
			return true
		})
	}
	return out
}

func scopeShortName(fi *load.FuncInfo) string {
	short := fi.Obj.Name()
	if sig := fi.Obj.Type().(*types.Signature); sig.Recv() != nil {
		if n, ok := derefNamedT(sig.Recv().Type()); ok {
			short = n + "." + short
		}
	}
	return short
}

func derefNamedT(t types.Type) (string, bool) {
	if p, ok := t.(*types.Pointer); ok {
		t = p.Elem()
	}
	if n, ok := types.Unalias(t).(*types.Named); ok {
		return n.Obj().Name(), true
	}
	return "", false
}

func runC09(c *Ctx) {
	// the partial work a failed reconcile leaves behind must not include a modified cache object: the retry would then
	// see its own unfinished edit as done (C10.7)
	c.cacheObjectsUnmodified()
	c.claimsBeforePodUpdate("C09.5-claims-before-pod-update")
	n := c.errorDiscipline("C09.1", c.errorDisciplineScopes())
	c.Floor("C09.1-error-returning-call-sites", n, 40)
	c.workerWiring("C09.2")
	c.stateless("C09.3")
	c.adoptOnlyOrphans("C09.4")
	// "recoverable": of two writes that are both started by one condition, the one that makes the condition false comes
	// last -- the adoption of an orphan revision ends what makes the sync look at that revision at all, so the label sync
	// it is to get comes before it; a failure in between is then met again by the retry (the order rule of C18.4, as a clause)
	c.withOnly(map[string]string{"C18.4-sync-before-adopt": "C09.3-the-write-that-ends-the-trigger-comes-last"}, nil, "C09.3-adoption-order", 1, func() { runC18(c) })
	// what an interrupted label sync leaves half done is found again only if the listing by the upgrade label is made
	// whatever the listing by selector returned (the listing rule of C18.4, as a clause)
	c.withOnly(map[string]string{"C18.4-both-listings-on-every-call": "C09.3-half-done-work-is-found-again"}, nil, "C09.3-history-listings", 1, func() { runC18(c) })
	// "the next reconcile from the stored state completes the work": the trimming of the history is not conditional on
	// anything an earlier, failed pass has already stored -- a pass that ends well has gone through the truncation, so a
	// revision delete that failed (or a crash after the status write) is made up for by the retry (C13.2, as a clause)
	c.withOnly(map[string]string{"C13.2-success-only-after-the-truncation": "C09.3-a-failed-trim-is-retried"}, nil, "C09.3-truncation-on-every-good-pass", 1, func() { runC13(c) })
	c.preconditionRejections("C09.4")
	c.statusRetryShape("C09.5")
}

// ownCalls lists the calls lexically in body but not inside nested literals.
func ownCalls(body *ast.BlockStmt) []*ast.CallExpr {
	var out []*ast.CallExpr
	ast.Inspect(body, func(n ast.Node) bool {
		switch x := n.(type) {
		case *ast.FuncLit:
			return false
		case *ast.CallExpr:
			out = append(out, x)
		}
		return true
	})
	return out
}

func (c *Ctx) errorDiscipline(prefix string, scopes []errScope) int {
	total := 0
	for _, sc := range scopes {
		info := sc.fi.Pkg.TypesInfo
		var fn *gf.Fn
		var an *gf.Analysis
		if sc.lit == nil {
			fn, an = c.Analysis(sc.fi)
		} else {
			fn, an = c.LitAnalysis(info, sc.lit, sc.name)
		}
		scopeReturnsErr := false
		if sc.typ.Results != nil && len(sc.typ.Results.List) > 0 {
			last := sc.typ.Results.List[len(sc.typ.Results.List)-1]
			scopeReturnsErr = types.Identical(info.TypeOf(last.Type), errType())
		}
		idx := map[string]int{}
		for _, call := range ownCalls(sc.body) {
			ft := info.TypeOf(call.Fun)
			if ft == nil || !returnsError(ft) {
				continue
			}
			if tv, ok := info.Types[call.Fun]; ok && tv.IsType() {
				continue
			}
			callee := calleeLabel(info, call)
			full := calleeName(info, call)
			if why, ok := errorIgnorable[full]; ok {
				_ = why
				continue
			}
			if !c.errorSubject(info, call) {
				continue
			}
			total++
			idx[callee]++
			name := fmt.Sprintf("%s#%s[%d]", sc.name, callee, idx[callee]-1)
			c.oneErrorSite(prefix, sc, fn, an, call, callee, name, scopeReturnsErr)
		}
	}
	return total
}

// errorSubject: the call can fail because of an API call: an effect site, an
// in-repo callee that transitively performs one, a dynamic call, or a retry wrapper.
func (c *Ctx) errorSubject(info *types.Info, call *ast.CallExpr) bool {
	for _, s := range c.G.Sites {
		if s.Call == call {
			return s.Class != "queue"
		}
	}
	f := gf.StaticCallee(info, call)
	if f == nil {
		return true
	}
	if strings.HasPrefix(f.FullName(), "k8s.io/client-go/util/retry.") || strings.HasPrefix(f.FullName(), "k8s.io/apimachinery/pkg/util/wait.") {
		return true
	}
	for _, t := range c.G.CallTargets(info, call) {
		if c.G.HasEffects(t) {
			return true
		}
	}
	return false
}

func calleeLabel(info *types.Info, call *ast.CallExpr) string {
	if f := gf.StaticCallee(info, call); f != nil {
		return f.Name()
	}
	if id, ok := ast.Unparen(call.Fun).(*ast.Ident); ok {
		return "dyn:" + id.Name
	}
	if sel, ok := ast.Unparen(call.Fun).(*ast.SelectorExpr); ok {
		return "dyn:" + sel.Sel.Name
	}
	return "dyn"
}

func idiomFor(scope, callee string) []struct{ fn, callee, pred, reason string } {
	var out []struct{ fn, callee, pred, reason string }
	for _, it := range errorIdioms {
		if it.fn == scope && it.callee == callee {
			out = append(out, it)
		}
	}
	return out
}

func mentionsObj(info *types.Info, n ast.Node, objs map[types.Object]bool) bool {
	found := false
	ast.Inspect(n, func(x ast.Node) bool {
		if id, ok := x.(*ast.Ident); ok && objs[info.ObjectOf(id)] {
			found = true
		}
		return !found
	})
	return found
}

func (c *Ctx) oneErrorSite(prefix string, sc errScope, fn *gf.Fn, an *gf.Analysis, call *ast.CallExpr, callee, name string, scopeReturnsErr bool) {
	info := sc.fi.Pkg.TypesInfo
	rule := prefix + "-error-reaches-return"
	path := pathTo(sc.body, call)
	if len(path) < 2 {
		c.Unk(rule, name, call.Pos(), "call not found in its scope")
		return
	}
	parent := path[len(path)-2]
	// a function value handed down to a helper is called under the helper's name for it: the idioms are tabled under the
	// name it has in the function that was handed it first
	if strings.HasPrefix(callee, "dyn:") && sc.lit == nil && c.liftedAway(sc.fi) {
		callee = "dyn:" + c.originalParamName(sc.fi, strings.TrimPrefix(callee, "dyn:"), 0)
	}
	idioms := idiomFor(sc.name, callee)
	// a helper expanded into its callers inherits the idioms tabled for them (the handling was moved, not changed)
	// (only what is tabled for every one of its callers: a tolerance reviewed for one caller is not one for another)
	if len(idioms) == 0 && sc.lit == nil && c.liftedAway(sc.fi) {
		first := true
		var common []struct{ fn, callee, pred, reason string }
		for _, g := range c.P.Funcs() {
			if g.Pkg != sc.fi.Pkg {
				continue
			}
			calls := false
			for _, cc := range callsIn(g.Decl.Body, true) {
				if f := gf.StaticCallee(g.Pkg.TypesInfo, cc); f != nil && f.Origin() == sc.fi.Obj {
					calls = true
				}
			}
			if !calls {
				continue
			}
			theirs := idiomFor(scopeShortName(g), callee)
			if first {
				common, first = theirs, false
				continue
			}
			var keep []struct{ fn, callee, pred, reason string }
			for _, it := range common {
				for _, th := range theirs {
					if th.pred == it.pred {
						keep = append(keep, it)
						break
					}
				}
			}
			common = keep
		}
		idioms = common
	}
	wholeIdiom := func() (string, bool) {
		for _, it := range idioms {
			if it.pred == "" {
				return it.reason, true
			}
		}
		return "", false
	}
	switch p := parent.(type) {
	case *ast.ReturnStmt:
		c.OK(rule, name, call.Pos(), "returned directly")
		return
	case *ast.ExprStmt:
		if why, ok := wholeIdiom(); ok {
			c.OK(rule, name, call.Pos(), "tabled idiom: "+why)
			return
		}
		c.Bad(rule, name, call.Pos(), "the error result of this call is discarded (call used as a statement)")
		return
	case *ast.AssignStmt, *ast.ValueSpec:
		_ = p
	case *ast.CallExpr:
		// result passed on as an argument (e.g. a constructor wrapping): treat the outer call as the site
		c.OK(rule, name, call.Pos(), "result handed to "+types.ExprString(p.Fun))
		return
	case *ast.GoStmt, *ast.DeferStmt:
		if why, ok := wholeIdiom(); ok {
			c.OK(rule, name, call.Pos(), "tabled idiom: "+why)
			return
		}
		c.Bad(rule, name, call.Pos(), "the error result of a go/defer call is discarded")
		return
	default:
		c.Unk(rule, name, call.Pos(), fmt.Sprintf("unrecognised use of an error-returning call (%T)", parent))
		return
	}
	var lhs []ast.Expr
	var stmt ast.Node = parent
	switch p := parent.(type) {
	case *ast.AssignStmt:
		if len(p.Rhs) != 1 {
			c.Unk(rule, name, call.Pos(), "multi-value assignment with several right-hand sides")
			return
		}
		lhs = p.Lhs
	case *ast.ValueSpec:
		for _, n := range p.Names {
			lhs = append(lhs, n)
		}
	}
	eid, ok := lhs[len(lhs)-1].(*ast.Ident)
	if !ok {
		if why, ok := wholeIdiom(); ok {
			c.OK(rule, name, call.Pos(), "tabled idiom: "+why)
			return
		}
		c.Unk(rule, name, call.Pos(), "the error is stored into something other than a local variable")
		return
	}
	if eid.Name == "_" {
		if why, ok := wholeIdiom(); ok {
			c.OK(rule, name, call.Pos(), "tabled idiom: "+why)
			return
		}
		c.Bad(rule, name, call.Pos(), "the error result is assigned to the blank identifier")
		return
	}
	eobj := info.ObjectOf(eid)
	if !scopeReturnsErr {
		if why, ok := wholeIdiom(); ok {
			c.OK(rule, name, call.Pos(), "tabled idiom: "+why)
			return
		}
		// a function that cannot report errors: every such site must be tabled
		if why, ok := handlerIdioms[sc.name+"|"+callee]; ok {
			c.OK(rule, name, call.Pos(), "tabled idiom: "+why)
			return
		}
		c.Bad(rule, name, call.Pos(), "an error-returning call in a function that cannot report errors, and the site is not in the reviewed table")
		return
	}
	after := an.StateAfter(stmt)
	if !after.Reachable() {
		c.Trivial(rule, name, call.Pos(), "site unreachable")
		return
	}
	errTerm := gf.Var(eobj)
	st := after.Assume(gf.FNotNil(errTerm))
	// tabled predicate idioms: errors of that kind from this callee are handled in this function
	var whole []struct{ fn, callee, pred, reason string }
	used := ""
	for _, it := range idioms {
		if it.pred == "" {
			whole = append(whole, it)
			continue
		}
		st = st.Assume(gf.Not(gf.FBool(gf.CallT("k8s.io/apimachinery/pkg/api/errors."+it.pred, types.Typ[types.Bool], errTerm))))
		used += it.pred + " (" + it.reason + "); "
	}
	if used != "" {
		c.Notes = append(c.Notes, name+": tabled idioms "+used)
	}
	c.followError(rule, sc, fn, an, stmt, st, map[types.Object]bool{eobj: true}, call, name, whole, 0)
}

// handlerIdioms: error-returning calls in functions without an error result (reviewed).
var handlerIdioms = map[string]string{
	"StatefulSetController.resolveControllerRef|Get":                 "event-handler lookup: an unresolvable owner enqueues nothing; the periodic resync re-delivers",
	"StatefulSetController.getStatefulSetsForPod|GetPodStatefulSets": "event-handler lookup: no matching set for an orphan enqueues nothing",
	"StatefulSetController.enqueueStatefulSet|dyn:keyFunc":           "an object without a key cannot be enqueued; logged",
	"StatefulSetController.processNextWorkItem|sync":                 "the worker is the top of the error chain: checked by the worker-wiring rule",
}

// followError explores forward from `from` (just after it) with the carrier
// set non-nil, and requires every exit to carry the error.
func (c *Ctx) followError(rule string, sc errScope, fn *gf.Fn, an *gf.Analysis, from ast.Node, st gf.State, carriers map[types.Object]bool, call *ast.CallExpr, name string,
	idioms []struct{ fn, callee, pred, reason string }, depth int) {
	info := sc.fi.Pkg.TypesInfo
	if depth > 3 {
		c.Unk(rule, name, call.Pos(), "carrier chain too long")
		return
	}
	// statements that move the error into another variable (carriers) or overwrite it
	var transfers, overwrites []ast.Node
	newCarrier := map[ast.Node]types.Object{}
	ast.Inspect(sc.body, func(n ast.Node) bool {
		switch x := n.(type) {
		case *ast.FuncLit:
			return false
		case *ast.AssignStmt:
			if x == from {
				return true
			}
			rhsMentions := false
			for _, r := range x.Rhs {
				if mentionsObj(info, r, carriers) {
					rhsMentions = true
				}
			}
			for _, l := range x.Lhs {
				id, ok := l.(*ast.Ident)
				if !ok {
					continue
				}
				o := info.ObjectOf(id)
				if o == nil {
					continue
				}
				if carriers[o] {
					if !rhsMentions {
						overwrites = append(overwrites, x)
					}
				} else if rhsMentions && id.Name != "_" && carriesErrors(o.Type()) {
					transfers = append(transfers, x)
					newCarrier[x] = o
				}
			}
		}
		return true
	})
	var stops []ast.Node
	stops = append(stops, transfers...)
	a := fn.FromAfterUntil(from, st, stops...)
	bad := false
	report := func(detail string, pos token.Pos) {
		bad = true
		c.Bad(rule, name, call.Pos(), detail+" (at "+c.P.Pos(pos)+")")
	}
	idiomOK := func(s gf.State) (string, bool) {
		for _, it := range idioms {
			if it.pred == "" {
				return it.reason, true
			}
			for o := range carriers {
				pred := gf.FBool(gf.CallT("k8s.io/apimachinery/pkg/api/errors."+it.pred, types.Typ[types.Bool], gf.Var(o)))
				if good, _ := s.Implies(pred); good {
					return it.reason, true
				}
			}
		}
		return "", false
	}
	usedIdiom := ""
	// returns
	ast.Inspect(sc.body, func(n ast.Node) bool {
		switch x := n.(type) {
		case *ast.FuncLit:
			return false
		case *ast.ReturnStmt:
			s := a.StateBefore(x)
			if !s.Reachable() {
				return true
			}
			for _, r := range x.Results {
				if mentionsObj(info, r, carriers) {
					return true
				}
			}
			if why, ok := idiomOK(s); ok {
				usedIdiom = why
				return true
			}
			report("a return is reachable with the error still non-nil and the returned values do not carry it", x.Pos())
		}
		return true
	})
	// overwrites reached while the error may still be non-nil
	for _, o := range overwrites {
		s := a.StateBefore(o)
		if !s.Reachable() {
			continue
		}
		if why, ok := idiomOK(s); ok {
			usedIdiom = why
			continue
		}
		report("the error variable is overwritten while it may still hold this error", o.Pos())
	}
	// falling off the end of the function / re-entering the defining statement (next loop iteration)
	if depth == 0 && a.Reentered(from) {
		if s := a.StateBefore(from); s.Reachable() {
			if why, ok := idiomOK(a.In[fn.BlockOf(from).Index]); ok {
				usedIdiom = why
			} else {
				report("the next loop iteration redefines the error variable while it may still hold this error", from.Pos())
			}
		}
	}
	for _, b := range fn.CFG.Blocks {
		if !b.Live || len(b.Succs) != 0 || !a.BlockReached(b) {
			continue
		}
		endsInReturn := false
		if len(b.Nodes) > 0 {
			_, endsInReturn = b.Nodes[len(b.Nodes)-1].(*ast.ReturnStmt)
			if es, ok := b.Nodes[len(b.Nodes)-1].(*ast.ExprStmt); ok {
				if ce, ok := es.X.(*ast.CallExpr); ok && gf.NoReturn(info, ce) {
					endsInReturn = true
				}
			}
		}
		if !endsInReturn {
			s := a.In[b.Index]
			if why, ok := idiomOK(s); ok {
				usedIdiom = why
			} else {
				report("control falls off the end of the function with the error unreported", b.Stmt.End())
			}
		}
	}
	// carriers: continue with the new variable
	for _, t := range transfers {
		s := a.StateBefore(t)
		if !s.Reachable() {
			continue
		}
		nc := map[types.Object]bool{newCarrier[t]: true}
		c.followError(rule, sc, fn, an, t, fn.From(t, s).StateAfter(t), nc, call, name+" via "+newCarrier[t].Name(), nil, depth+1)
	}
	if !bad {
		d := "on the error side every path returns a value carrying the error"
		if usedIdiom != "" {
			d += "; tabled idiom: " + usedIdiom
		}
		c.OK(rule, name, call.Pos(), d)
	}
}

// workerWiring: C09.2 / C16.3
func (c *Ctx) workerWiring(prefix string) {
	fi := c.Func(load.CtrlPkg, "StatefulSetController.processNextWorkItem")
	if fi == nil {
		return
	}
	fn, an := c.Analysis(fi)
	info := fi.Pkg.TypesInfo
	var get, done, addRL, forget, syncCall *ast.CallExpr
	var doneDeferred bool
	for _, s := range c.G.Sites {
		if s.Fn != fi.Obj || s.Class != "queue" {
			continue
		}
		switch s.Verb {
		case "Get":
			get = s.Call
		case "Done":
			done = s.Call
		case "AddRateLimited":
			addRL = s.Call
		case "Forget":
			forget = s.Call
		}
	}
	syncFI := c.Func(load.CtrlPkg, "StatefulSetController.sync")
	for _, call := range callsIn(fi.Decl.Body, false) {
		if f := gf.StaticCallee(info, call); f != nil && syncFI != nil && f.Origin() == syncFI.Obj {
			syncCall = call
		}
	}
	if get == nil || done == nil || addRL == nil || forget == nil || syncCall == nil {
		c.Bad(prefix+"-worker-wiring", "processNextWorkItem", fi.Decl.Pos(), "the worker does not call queue.Get, Done, AddRateLimited, Forget and sync")
		return
	}
	// key variable
	getStmt, _ := stmtOf(fi.Decl.Body, get).(*ast.AssignStmt)
	if getStmt == nil || len(getStmt.Lhs) != 2 {
		c.Bad(prefix+"-worker-wiring", "processNextWorkItem: queue.Get", get.Pos(), "queue.Get result is not bound")
		return
	}
	key := getStmt.Lhs[0]
	sameKey := func(call *ast.CallExpr) bool { return fn.Term(call.Args[0]).Key() == fn.Term(key).Key() }
	// Done deferred, as a top-level statement after Get (and after the quit test)
	for _, s := range fi.Decl.Body.List {
		if d, ok := s.(*ast.DeferStmt); ok && d.Call == done {
			doneDeferred = true
		}
	}
	// every return after the defer... the defer must dominate sync
	okDone := doneDeferred && sameKey(done) && done.Pos() < syncCall.Pos()
	// between Get and the defer only the quit return
	c.Check(okDone, prefix+"-worker-done", "processNextWorkItem: defer queue.Done(key)", done.Pos(), "Done(key) is deferred at top level before the reconcile, for the key just dequeued",
		"Done(key) is not deferred for the dequeued key before the reconcile runs")
	// err := sync(key); err != nil -> AddRateLimited(key), not Forget; else Forget(key), not AddRateLimited
	syncStmt, _ := stmtOf(fi.Decl.Body, syncCall).(*ast.AssignStmt)
	if syncStmt == nil {
		c.Bad(prefix+"-worker-wiring", "processNextWorkItem: sync result", syncCall.Pos(), "the reconcile's error is not bound to a variable")
		return
	}
	errID := syncStmt.Lhs[len(syncStmt.Lhs)-1]
	errT := fn.Term(errID)
	after := an.StateAfter(syncStmt)
	aErr := fn.FromAfter(syncStmt, after.Assume(gf.FNotNil(errT)))
	aOK := fn.FromAfter(syncStmt, after.Assume(gf.FNil(errT)))
	c.Check(aErr.StateAtExpr(addRL).Reachable() && !aErr.StateAtExpr(forget).Reachable() && sameKey(addRL), prefix+"-worker-requeue-on-failure", "processNextWorkItem: err != nil", addRL.Pos(),
		"a failed reconcile reaches AddRateLimited(key) and not Forget", "a failed reconcile is not re-queued with backoff (or its backoff is cleared)")
	c.Check(aOK.StateAtExpr(forget).Reachable() && !aOK.StateAtExpr(addRL).Reachable() && sameKey(forget), prefix+"-worker-forget-on-success", "processNextWorkItem: err == nil", forget.Pos(),
		"a successful reconcile reaches Forget(key) and not AddRateLimited", "a successful reconcile does not clear its backoff (or is re-queued)")
	// on the failure side AddRateLimited is reached on every path: stop at it, no return reachable
	aU := fn.FromAfterUntil(syncStmt, after.Assume(gf.FNotNil(errT)), addRL)
	must := true
	ast.Inspect(fi.Decl.Body, func(n ast.Node) bool {
		if r, ok := n.(*ast.ReturnStmt); ok && aU.StateBefore(r).Reachable() {
			must = false
		}
		return true
	})
	c.Check(must, prefix+"-worker-requeue-on-every-failure-path", "processNextWorkItem: err != nil", addRL.Pos(), "no return is reachable on the failure side before AddRateLimited", "some failure path returns without re-queueing")
	// the sync argument is the dequeued key
	c.Check(strings.Contains(types.ExprString(syncCall.Args[0]), types.ExprString(key)), prefix+"-worker-reconciles-dequeued-key", "processNextWorkItem: sync(key)", syncCall.Pos(),
		"the reconcile runs for the dequeued key", "the reconcile runs for something other than the dequeued key")
	// worker loop: `for processNextWorkItem() {}`
	if w := c.Func(load.CtrlPkg, "StatefulSetController.worker"); w != nil {
		okLoop := false
		ast.Inspect(w.Decl.Body, func(n ast.Node) bool {
			if fs, ok := n.(*ast.ForStmt); ok && fs.Cond != nil {
				if call, ok := fs.Cond.(*ast.CallExpr); ok {
					if f := gf.StaticCallee(w.Pkg.TypesInfo, call); f != nil && f.Origin() == fi.Obj {
						okLoop = true
					}
				}
			}
			return true
		})
		if !okLoop {
			// `for { if more := processNextWorkItem(); !more { return } }`: with a true result bound to a variable, the
			// call is reached again and no return before it
			winfo := w.Pkg.TypesInfo
			wfn, wan := c.Analysis(w)
			for _, call := range callsIn(w.Decl.Body, false) {
				if f := gf.StaticCallee(winfo, call); f == nil || f.Origin() != fi.Obj {
					continue
				}
				as, isAs := stmtOf(w.Decl.Body, call).(*ast.AssignStmt)
				if !isAs || len(as.Lhs) != 1 || innermostLoop(w.Decl.Body, call) == nil {
					continue
				}
				aT := wfn.FromAfterUntil(as, wan.StateAfter(as).Assume(gf.FBool(wfn.Term(as.Lhs[0]))), as) // (one round)
				again := aT.Reentered(as)
				ownNodes(w.Decl.Body, func(x ast.Node) {
					if r, ok := x.(*ast.ReturnStmt); ok && aT.StateBefore(r).Reachable() {
						again = false
					}
				})
				if ir := wfn.ImplicitReturn(); ir != nil && aT.StateBefore(ir).Reachable() {
					again = false
				}
				if again {
					okLoop = true
				}
			}
		}
		c.Check(okLoop, prefix+"-worker-loop", "worker", w.Decl.Pos(), "the worker keeps processing until the queue shuts down", "the worker does not loop over processNextWorkItem")
	}
}

// stateless: C09.3 / C02.3
func (c *Ctx) stateless(prefix string) {
	sy := c.Func(load.CtrlPkg, "StatefulSetController.sync")
	if sy == nil {
		return
	}
	reach := c.G.ReachDirect(sy.Obj)
	stateTypes := map[string]bool{
		load.CtrlPkg + ".StatefulSetController": true, load.CtrlPkg + ".defaultStatefulSetControl": true,
		load.CtrlPkg + ".realStatefulPodControl": true, load.CtrlPkg + ".realStatefulSetStatusUpdater": true,
		load.K8sPkg + ".RealPodControl": true,
	}
	n := 0
	for f := range reach {
		fi := c.P.FuncInfoOf(f)
		if fi == nil || !(fi.Pkg.PkgPath == load.CtrlPkg || fi.Pkg.PkgPath == load.K8sPkg || fi.Pkg.PkgPath == load.HelperPkg) {
			continue
		}
		n++
		info := fi.Pkg.TypesInfo
		ast.Inspect(fi.Decl.Body, func(x ast.Node) bool {
			var lhss []ast.Expr
			switch s := x.(type) {
			case *ast.AssignStmt:
				if s.Tok == token.DEFINE {
					return true
				}
				lhss = s.Lhs
			case *ast.IncDecStmt:
				lhss = []ast.Expr{s.X}
			}
			// a package-level container used as memory: a method of a sync.Map / sync.Pool / list, a map entry set or deleted
			if call, ok := x.(*ast.CallExpr); ok {
				pkgVar := func(e ast.Expr) *types.Var {
					e = ast.Unparen(e)
					if u, ok := e.(*ast.UnaryExpr); ok && u.Op == token.AND {
						e = ast.Unparen(u.X)
					}
					var id *ast.Ident
					switch y := e.(type) {
					case *ast.Ident:
						id = y
					case *ast.SelectorExpr:
						if _, isPkg := info.Uses[rootIdentOrNil(y.X)].(*types.PkgName); isPkg {
							id = y.Sel
						}
					}
					if id == nil {
						return nil
					}
					v, _ := info.Uses[id].(*types.Var)
					if v == nil || v.Pkg() == nil || v.Parent() != v.Pkg().Scope() || !inRepoPkg(v.Pkg().Path()) {
						return nil
					}
					return v
				}
				if sel, ok := call.Fun.(*ast.SelectorExpr); ok {
					if v := pkgVar(sel.X); v != nil {
						t := v.Type()
						if pt, ok := t.Underlying().(*types.Pointer); ok {
							t = pt.Elem()
						}
						if nt, ok := types.Unalias(t).(*types.Named); ok && nt.Obj().Pkg() != nil {
							switch nt.Obj().Pkg().Path() {
							case "sync", "sync/atomic", "container/list", "container/ring", "container/heap", "k8s.io/client-go/tools/cache", "k8s.io/apimachinery/pkg/util/cache":
								c.Bad(prefix+"-stateless", fi.Obj.Name()+": "+types.ExprString(call.Fun), call.Pos(), "a package-level "+nt.Obj().Pkg().Name()+"."+nt.Obj().Name()+" is used during a reconcile: what one reconcile puts there another one finds (state survives between reconciles, and what was true of the set then need not be true now)")
							}
						}
					}
				}
				if id, ok := call.Fun.(*ast.Ident); ok && id.Name == "delete" && len(call.Args) == 2 {
					if v := pkgVar(call.Args[0]); v != nil {
						c.Bad(prefix+"-stateless", fi.Obj.Name()+": "+types.ExprString(call), call.Pos(), "an entry of a package-level map is deleted during a reconcile: the map is memory that survives between reconciles")
					}
				}
			}
			for _, l := range lhss {
				if ix, ok := ast.Unparen(l).(*ast.IndexExpr); ok {
					if id, ok := ast.Unparen(ix.X).(*ast.Ident); ok {
						if v, _ := info.Uses[id].(*types.Var); v != nil && v.Pkg() != nil && v.Parent() == v.Pkg().Scope() && inRepoPkg(v.Pkg().Path()) {
							c.Bad(prefix+"-stateless", fi.Obj.Name()+": "+types.ExprString(l), l.Pos(), "an entry of a package-level map or slice is written during a reconcile: state survives between reconciles")
						}
					}
				}
				w := map[string]bool{}
				gf.WriteTargets(info, l, w)
				for t := range w {
					if strings.HasPrefix(t, "global:") {
						c.Bad(prefix+"-stateless", fi.Obj.Name()+": "+types.ExprString(l), l.Pos(), "a package-level variable is written during a reconcile: state survives between reconciles")
					}
					if i := strings.LastIndex(t, "."); i > 0 && stateTypes[t[:i]] {
						c.Bad(prefix+"-stateless", fi.Obj.Name()+": "+types.ExprString(l), l.Pos(), "a field of a long-lived controller struct is written during a reconcile: state survives between reconciles")
					}
				}
			}
			return true
		})
	}
	// and the long-lived structs have nowhere to keep state: every field is an interface or a function value (clients,
	// listers, recorder, queue, informer-synced functions). A map, slice, channel, counter or struct-typed field
	// (sync.Map, a mutex-guarded cache) is memory that outlives a reconcile, whichever way it is written.
	nFields := 0
	var stNames []string
	for t := range stateTypes {
		stNames = append(stNames, t)
	}
	sort.Strings(stNames)
	for _, full := range stNames {
		i := strings.LastIndex(full, ".")
		obj, _ := c.P.Lookup(full[:i], full[i+1:]).(*types.TypeName)
		if obj == nil {
			continue
		}
		st, ok := obj.Type().Underlying().(*types.Struct)
		if !ok {
			continue
		}
		for k := 0; k < st.NumFields(); k++ {
			f := st.Field(k)
			nFields++
			name := full[i+1:] + "." + f.Name()
			switch u := f.Type().Underlying().(type) {
			case *types.Interface, *types.Signature:
				c.OK(prefix+"-stateless-fields", name, f.Pos(), "an interface or function value")
			case *types.Pointer:
				if _, isIface := u.Elem().Underlying().(*types.Interface); isIface {
					c.OK(prefix+"-stateless-fields", name, f.Pos(), "a pointer to an interface")
				} else {
					c.Bad(prefix+"-stateless-fields", name, f.Pos(), "a long-lived controller struct has a field of type "+types.TypeString(f.Type(), nil)+": memory of its own that survives between reconciles (a reconcile must decide from the cluster state it reads, not from what an earlier reconcile remembered)")
				}
			default:
				c.Bad(prefix+"-stateless-fields", name, f.Pos(), "a long-lived controller struct has a field of type "+types.TypeString(f.Type(), nil)+": memory of its own that survives between reconciles (a reconcile must decide from the cluster state it reads, not from what an earlier reconcile remembered)")
			}
		}
	}
	c.Floor(prefix+"-stateless-struct-fields", nFields, 10)
	c.Floor(prefix+"-stateless-functions-scanned", n, 30)
	c.OK(prefix+"-stateless", fmt.Sprintf("%d functions reachable from sync", n), sy.Decl.Pos(), "no store to package-level variables or to fields of the controller, control, pod-control or status-updater structs")
}

// preconditionRejections: every return of a freshly built error guarded only by
// facts about parameters, in functions reachable from sync, must be in the reviewed list.
func (c *Ctx) preconditionRejections(prefix string) {
	sy := c.Func(load.CtrlPkg, "StatefulSetController.sync")
	if sy == nil {
		return
	}
	reviewed := map[string]string{
		"adoptControllerRevision":  "callers pass orphans only (C09.4-adopter-gets-orphans-only)",
		"createControllerRevision": "the only caller passes &collisionCount, never nil",
		"validateControllerRef":    "unused upstream helper (RealPodControl.CreatePods* are unreachable from the controller)",
		"createPods":               "unused upstream helper",
		"DeletePod":                "unused upstream helper",
	}
	reach := c.G.ReachDirect(sy.Obj)
	n := 0
	for f := range reach {
		fi := c.P.FuncInfoOf(f)
		if fi == nil || !(fi.Pkg.PkgPath == load.CtrlPkg || fi.Pkg.PkgPath == load.K8sPkg) {
			continue
		}
		info := fi.Pkg.TypesInfo
		params := map[types.Object]bool{}
		for _, pf := range fi.Decl.Type.Params.List {
			for _, pn := range pf.Names {
				params[info.ObjectOf(pn)] = true
			}
		}
		// only direct statements of the function (not closures)
		for _, s := range fi.Decl.Body.List {
			ifs, ok := s.(*ast.IfStmt)
			if !ok || len(ifs.Body.List) != 1 {
				continue
			}
			ret, ok := ifs.Body.List[0].(*ast.ReturnStmt)
			if !ok || len(ret.Results) == 0 {
				continue
			}
			last, ok := ret.Results[len(ret.Results)-1].(*ast.CallExpr)
			if !ok || calleeName(info, last) != "fmt.Errorf" {
				continue
			}
			// the condition (and an init) mention only parameters and pure getters
			onlyParams := true
			ast.Inspect(ifs.Cond, func(x ast.Node) bool {
				if id, ok := x.(*ast.Ident); ok {
					if v, ok := info.ObjectOf(id).(*types.Var); ok && !v.IsField() && !params[v] {
						// a variable bound in the if's init from a pure call on parameters is fine
						if as, ok := ifs.Init.(*ast.AssignStmt); ok && len(as.Lhs) == 1 && len(as.Rhs) == 1 {
							if l, ok := as.Lhs[0].(*ast.Ident); ok && info.ObjectOf(l) == v && c.E.Canon.PureTerm(c.E.Canon.Term(info, as.Rhs[0])) {
								return true
							}
						}
						onlyParams = false
					}
				}
				return true
			})
			if !onlyParams {
				continue
			}
			// the condition must not depend on a call with effects (API reads)
			n++
			name := fi.Obj.Name() + ": " + clip(types.ExprString(ifs.Cond), 60)
			why, ok := reviewed[pinnedName(fi.Obj)]
			c.Check(ok, prefix+"-precondition-rejection-reviewed", name, ifs.Pos(), "reviewed: "+why,
				"a function reachable from sync rejects an argument with a permanent error and no caller-side filter is recorded for it: a retry can never clear it")
		}
	}
	c.Floor(prefix+"-precondition-rejections", n, 1)
}

// statusRetryShape: C09.5
func (c *Ctx) statusRetryShape(prefix string) {
	fi := c.Func(load.CtrlPkg, "realStatefulSetStatusUpdater.UpdateStatefulSetStatus")
	if fi == nil {
		return
	}
	info := fi.Pkg.TypesInfo
	var retry *ast.CallExpr
	for _, call := range callsIn(fi.Decl.Body, false) {
		if calleeName(info, call) == "k8s.io/client-go/util/retry.RetryOnConflict" {
			retry = call
		}
	}
	if retry == nil {
		c.Bad(prefix+"-status-write-retries", "UpdateStatefulSetStatus", fi.Decl.Pos(), "the status write is not wrapped in RetryOnConflict")
		return
	}
	lit, _ := retry.Args[1].(*ast.FuncLit)
	inLit := false
	refreshed := false
	if lit != nil {
		for _, s := range c.G.Sites {
			if s.InLit == lit && s.Class == "write" && s.Verb == "UpdateStatus" {
				inLit = true
			}
		}
		// on failure the local set is replaced by a deep copy of a re-read object
		ast.Inspect(lit.Body, func(n ast.Node) bool {
			if as, ok := n.(*ast.AssignStmt); ok && len(as.Lhs) == 1 && len(as.Rhs) == 1 {
				if call, ok := as.Rhs[0].(*ast.CallExpr); ok {
					if sel, ok := call.Fun.(*ast.SelectorExpr); ok && sel.Sel.Name == "DeepCopy" {
						if id, ok := as.Lhs[0].(*ast.Ident); ok && isNamed(info.TypeOf(id), load.APIPkg, "StatefulSet") {
							refreshed = true
						}
					}
				}
			}
			return true
		})
	}
	c.Check(inLit && refreshed, prefix+"-status-write-retries", "UpdateStatefulSetStatus", retry.Pos(), "UpdateStatus sits in the RetryOnConflict closure and a failed attempt continues from a deep copy of the re-read set",
		"the status write does not retry from a fresh copy")
	// every attempt applies the computed status to the object it sends: inside the closure, the write is
	// reachable only through `X.Status = *status` for the object X that is sent
	if lit != nil {
		lfn, _ := c.LitAnalysis(info, lit, "UpdateStatefulSetStatus$lit")
		var statusParam *ast.Ident
		for _, pf := range fi.Decl.Type.Params.List {
			for _, pn := range pf.Names {
				if isNamed(info.TypeOf(pn), load.APIPkg, "StatefulSetStatus") {
					statusParam = pn
				}
			}
		}
		for _, s := range c.G.Sites {
			if s.InLit != lit || s.Class != "write" {
				continue
			}
			sent := s.Call.Args[1]
			var apply ast.Node
			ast.Inspect(lit.Body, func(n ast.Node) bool {
				if as, ok := n.(*ast.AssignStmt); ok && len(as.Lhs) == 1 && len(as.Rhs) == 1 && statusParam != nil {
					if lfn.Term(as.Lhs[0]).Key() == c.WantTerm(lfn, as.Pos(), "$1.Status", sent).Key() && lfn.Term(as.Rhs[0]).Key() == c.WantTerm(lfn, as.Pos(), "*$1", statusParam).Key() {
						apply = as
					}
				}
				return true
			})
			okApply := false
			if apply != nil {
				aU := lfn.FromUntil(lit.Body.List[0], gf.TrueState(), apply)
				okApply = !aU.StateAtExpr(s.Call).Reachable()
			}
			c.Check(okApply, prefix+"-status-payload-applied-on-every-attempt", "UpdateStatefulSetStatus$lit: "+s.Resource+"."+s.Verb, s.Call.Pos(),
				"each attempt (also after a refresh) assigns the computed status to the object it sends", "a retry can send an object whose status was not set from the computed status (the write becomes a no-op and the stale status stays)")
		}
	}
	// the updater's effect set: the status write and a cached refresh only (no uncached read that could defeat the
	// optimistic-concurrency check the retry relies on)
	effs := c.G.Effects(fi.Obj)
	var ks []string
	for k, st := range effs {
		if st.Class == "queue" {
			continue
		}
		ks = append(ks, st.Class+":"+k)
	}
	sort.Strings(ks)
	c.Check(strings.Join(ks, " ") == "cached-read:statefulsets.Get write:statefulsets.pingcap.UpdateStatus", prefix+"-status-updater-effects", "UpdateStatefulSetStatus transitive effects", fi.Decl.Pos(),
		"exactly {UpdateStatus, cached Get}", "the status updater's effect set is {"+strings.Join(ks, " ")+"}: a status computed from an older view can be forced onto a newer object")
	// the closure's result is what the function returns
	ret := false
	if p := pathTo(fi.Decl.Body, retry); len(p) >= 2 {
		_, ret = p[len(p)-2].(*ast.ReturnStmt)
	}
	c.Check(ret, prefix+"-status-write-error-returned", "UpdateStatefulSetStatus", retry.Pos(), "the retry's result is returned", "the retry's result is not returned")
}

// originalParamName: the parameter `name` of the helper h is bound, at h's only call site in its package, to a plain
// identifier: that identifier's name (followed further up while the caller is such a helper too).
func (c *Ctx) originalParamName(h *load.FuncInfo, name string, depth int) string {
	if depth > 3 {
		return name
	}
	k := -1
	i := 0
	for _, pf := range h.Decl.Type.Params.List {
		for _, pn := range pf.Names {
			if pn.Name == name {
				k = i
			}
			i++
		}
	}
	if k < 0 {
		return name
	}
	var site *ast.CallExpr
	var caller *load.FuncInfo
	n := 0
	for _, g := range c.P.Funcs() {
		if g.Pkg != h.Pkg {
			continue
		}
		for _, cc := range callsIn(g.Decl.Body, true) {
			if f := gf.StaticCallee(g.Pkg.TypesInfo, cc); f != nil && f.Origin() == h.Obj {
				site, caller = cc, g
				n++
			}
		}
	}
	if n != 1 || k >= len(site.Args) {
		return name
	}
	id, ok := ast.Unparen(site.Args[k]).(*ast.Ident)
	if !ok {
		return name
	}
	if c.liftedAway(caller) {
		return c.originalParamName(caller, id.Name, depth+1)
	}
	return id.Name
}

func rootIdentOrNil(e ast.Expr) *ast.Ident {
	id, _ := ast.Unparen(e).(*ast.Ident)
	return id
}
