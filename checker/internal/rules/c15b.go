package rules

import (
	"fmt"
	"go/ast"
	"go/token"
	"go/types"
	"os"
	"sort"
	"strings"

	"asverif/internal/gf"
	"asverif/internal/load"
)

// C15.5: a result that may be nil is read only where it cannot be.
//
// Sources (a local variable every assignment of which is one of these):
//
//	S1  v, err := f(...)        v is valid when err == nil (the Go convention; for an in-repo f the
//	                            convention is checked on f's own returns, not assumed)
//	S2  v := f(...)             f may return nil by contract (the table below, or an in-repo f with a
//	                            `return nil`)
//	S3  v, ok := x.(*T)         v is nil when !ok
//
// Sinks: a dereference of v, a method call on an interface-typed v, and v handed to a callee that
// reads it without a test (an in-repo callee is looked into, any other callee is taken to read it).
// Obligation: the facts at the sink imply v != nil.
var mayReturnNil = map[string]string{
	"k8s.io/apimachinery/pkg/apis/meta/v1.GetControllerOf":       "nil when the object has no controlling owner reference",
	"k8s.io/apimachinery/pkg/apis/meta/v1.GetControllerOfNoCopy": "nil when the object has no controlling owner reference",
}

// callees that accept a nil argument (printing and error classification)
func nilTolerant(f *types.Func) bool {
	if f == nil || f.Pkg() == nil {
		return false
	}
	switch f.Pkg().Path() {
	case "fmt", "k8s.io/klog", "k8s.io/klog/v2", "k8s.io/apimachinery/pkg/api/errors", "k8s.io/apimachinery/pkg/util/runtime", "errors", "reflect":
		return true
	}
	return false
}

// reviewed sources: "caller|callee" -> the fact taken for granted after the call, with the reason
var reviewedSources = map[string]struct{ fact, why string }{
	"UpdateStatefulSet|getStatefulSetRevisions": {"convention", "its error returns give nil revisions with the error; its final return gives the revisions it took from newRevision / updateControllerRevision / createControllerRevision after testing their error nil, or from the non-empty history (same review as the C15.1 exception for getStatefulSetRevisions)"},
	"newStatefulSetPod|GetPodFromTemplate":      {"non-nil", "the only error of GetPodFromTemplate is meta.Accessor failing on the parent object, which cannot happen for a *StatefulSet; every other path returns the pod it allocated"},
}

// reviewed reads: "function|variable what" -> reason
var reviewedReads = map[string]string{
	"sync: set .Name": "the log line sits between the NotFound test and the general error test; a lister backed by the informer's indexer returns no error other than NotFound (GetByKey of the thread-safe store never fails), so set is non-nil here on every error-free or non-NotFound path that exists",
}

type nilSrc struct {
	v    types.Object
	kind string
	what string
	node ast.Node
	fact *gf.Formula
}

func nilable(t types.Type) bool {
	if t == nil {
		return false
	}
	switch t.Underlying().(type) {
	case *types.Pointer, *types.Interface:
		return true
	}
	return false
}

func isErrorType(t types.Type) bool { return t != nil && types.TypeString(t, nil) == "error" }

func inRepoPkg(pp string) bool {
	return pp == load.CtrlPkg || pp == load.K8sPkg || pp == load.HelperPkg
}

type validCtx struct {
	c          *Ctx
	summary    map[*types.Func]int // 0 unknown, 1 in progress, 2 proven, 3 not proven
	needs      map[string]int      // callee|param -> 0 unknown, 1 in progress, 2 needs non-nil, 3 tolerant
	returnsNil map[*types.Func]int
	weak       map[*types.Func]bool
}

// sourcesOf collects the judged variables of one function body with the fact that holds after each source.
func (vc *validCtx) sourcesOf(fi *load.FuncInfo) (map[types.Object][]nilSrc, map[types.Object]bool) {
	return vc.sourcesIn(fi, fi.Decl.Body)
}

// sourcesIn: the same for one body of fi (the function's own, or that of a function literal inside it).
func (vc *validCtx) sourcesIn(fi *load.FuncInfo, body *ast.BlockStmt) (map[types.Object][]nilSrc, map[types.Object]bool) {
	info := fi.Pkg.TypesInfo
	srcs := map[types.Object][]nilSrc{}
	other := map[types.Object]bool{}
	inLit := map[types.Object]bool{}
	ast.Inspect(body, func(n ast.Node) bool {
		if l, ok := n.(*ast.FuncLit); ok && l.Body != body {
			ast.Inspect(l.Body, func(m ast.Node) bool {
				if id, ok := m.(*ast.Ident); ok {
					if o := info.ObjectOf(id); o != nil {
						inLit[o] = true
					}
				}
				return true
			})
			return false
		}
		return true
	})
	local := func(e ast.Expr) types.Object {
		id, ok := ast.Unparen(e).(*ast.Ident)
		if !ok || id.Name == "_" {
			return nil
		}
		v, ok := info.ObjectOf(id).(*types.Var)
		if !ok || v.IsField() || v.Pkg() == nil || v.Parent() == v.Pkg().Scope() || !nilable(v.Type()) || isErrorType(v.Type()) {
			return nil
		}
		return v
	}
	ownNodes(body, func(n ast.Node) {
		switch x := n.(type) {
		case *ast.AssignStmt:
			handled := map[int]bool{}
			if ta := commaOkOf(x); ta != nil {
				if v := local(x.Lhs[0]); v != nil {
					if _, isPtr := v.Type().Underlying().(*types.Pointer); isPtr {
						var fact *gf.Formula
						if okv, isID := ast.Unparen(x.Lhs[1]).(*ast.Ident); isID && okv.Name != "_" && info.ObjectOf(okv) != nil {
							fact = gf.Or(gf.Not(gf.FBool(gf.Var(info.ObjectOf(okv)))), gf.FNotNil(gf.Var(v)))
						}
						srcs[v] = append(srcs[v], nilSrc{v, "S3", "comma-ok assertion to " + types.ExprString(ta.Type), x, fact})
						handled[0] = true
					}
				}
			} else if len(x.Rhs) == 1 {
				if call, ok := ast.Unparen(x.Rhs[0]).(*ast.CallExpr); ok {
					if tv, ok := info.Types[call.Fun]; !ok || !tv.IsType() {
						f := gf.StaticCallee(info, call)
						var sig *types.Signature
						if t := info.TypeOf(call.Fun); t != nil {
							sig, _ = t.Underlying().(*types.Signature)
						}
						if sig != nil && sig.Results().Len() == len(x.Lhs) && len(x.Lhs) >= 2 && isErrorType(sig.Results().At(len(x.Lhs)-1).Type()) {
							if v := local(x.Lhs[0]); v != nil {
								var fact *gf.Formula
								eid, _ := ast.Unparen(x.Lhs[len(x.Lhs)-1]).(*ast.Ident)
								conv := true
								name := types.ExprString(call.Fun)
								if f != nil && f.Pkg() != nil && inRepoPkg(f.Pkg().Path()) {
									conv = vc.convention(f.Origin())
								}
								rev, reviewed := reviewedSources[vc.short(fi)+"|"+srcCalleeName(f, call)]
								if reviewed && rev.fact == "convention" {
									// the part of the convention that is mechanical is still decided: wherever the producer
									// returns a nil literal as its first result, its error is non-nil
									conv = f != nil && vc.nilReturnsCarryError(f.Origin())
								}
								if reviewed && rev.fact == "non-nil" {
									fact = gf.FNotNil(gf.Var(v))
								} else if conv && eid != nil && eid.Name != "_" && info.ObjectOf(eid) != nil {
									fact = gf.Or(gf.FNotNil(gf.Var(v)), gf.FNotNil(gf.Var(info.ObjectOf(eid))))
								}
								if reviewed {
									name += " [reviewed: " + rev.why + "]"
								}
								srcs[v] = append(srcs[v], nilSrc{v, "S1", "result of " + name + " returned with an error", x, fact})
								handled[0] = true
							}
						} else if sig != nil && sig.Results().Len() == 1 && len(x.Lhs) == 1 && f != nil {
							if v := local(x.Lhs[0]); v != nil {
								why, may := mayReturnNil[f.FullName()]
								if !may && f.Pkg() != nil && inRepoPkg(f.Pkg().Path()) && vc.mayReturnNilLiteral(f.Origin()) {
									why, may = "has a `return nil`", true
								}
								if may {
									srcs[v] = append(srcs[v], nilSrc{v, "S2", "result of " + types.ExprString(call.Fun) + " (" + why + ")", x, nil})
									handled[0] = true
								}
							}
						}
					}
				}
			}
			if len(x.Rhs) == len(x.Lhs) && len(x.Rhs) > 1 {
				// a, b := f(x), g(y): each pair on its own
				for i := range x.Rhs {
					call, ok := ast.Unparen(x.Rhs[i]).(*ast.CallExpr)
					if !ok {
						continue
					}
					if tv, ok := info.Types[call.Fun]; ok && tv.IsType() {
						continue
					}
					f := gf.StaticCallee(info, call)
					sig, _ := info.TypeOf(call.Fun).Underlying().(*types.Signature)
					if sig == nil || sig.Results().Len() != 1 || f == nil {
						continue
					}
					if v := local(x.Lhs[i]); v != nil {
						why, may := mayReturnNil[f.FullName()]
						if !may && f.Pkg() != nil && inRepoPkg(f.Pkg().Path()) && vc.mayReturnNilLiteral(f.Origin()) {
							why, may = "has a `return nil`", true
						}
						if may {
							srcs[v] = append(srcs[v], nilSrc{v, "S2", "result of " + types.ExprString(call.Fun) + " (" + why + ")", x, nil})
							handled[i] = true
						}
					}
				}
			}
			for i, l := range x.Lhs {
				if handled[i] {
					continue
				}
				if v := local(l); v != nil {
					if len(x.Rhs) == len(x.Lhs) && nonNilExpr(info, x.Rhs[i]) {
						continue
					}
					other[v] = true
				}
			}
		case *ast.ValueSpec:
			for i, id := range x.Names {
				if v := local(id); v != nil {
					if len(x.Values) == len(x.Names) && nonNilExpr(info, x.Values[i]) {
						continue
					}
					other[v] = true
				}
			}
		case *ast.RangeStmt:
			for _, e := range []ast.Expr{x.Key, x.Value} {
				if e != nil {
					if v := local(e); v != nil {
						other[v] = true
					}
				}
			}
		case *ast.UnaryExpr:
			if x.Op == token.AND {
				if v := local(x.X); v != nil {
					other[v] = true
				}
			}
		}
	})
	for v := range srcs {
		if other[v] || inLit[v] {
			delete(srcs, v)
		}
	}
	return srcs, other
}

func srcCalleeName(f *types.Func, call *ast.CallExpr) string {
	if f != nil {
		return f.Name()
	}
	if sel, ok := ast.Unparen(call.Fun).(*ast.SelectorExpr); ok {
		return sel.Sel.Name
	}
	return types.ExprString(call.Fun)
}

func (vc *validCtx) short(fi *load.FuncInfo) string {
	t := vc.c.tableName(fi)
	if i := strings.LastIndex(t, "."); i >= 0 {
		t = t[i+1:]
	}
	return t
}

func commaOkOf(x *ast.AssignStmt) *ast.TypeAssertExpr {
	if len(x.Lhs) != 2 || len(x.Rhs) != 1 {
		return nil
	}
	ta, ok := ast.Unparen(x.Rhs[0]).(*ast.TypeAssertExpr)
	if !ok || ta.Type == nil {
		return nil
	}
	return ta
}

func nonNilExpr(info *types.Info, e ast.Expr) bool {
	switch x := ast.Unparen(e).(type) {
	case *ast.UnaryExpr:
		return x.Op == token.AND
	case *ast.CallExpr:
		if id, ok := x.Fun.(*ast.Ident); ok {
			if b, ok := info.ObjectOf(id).(*types.Builtin); ok && b.Name() == "new" {
				return true
			}
		}
	}
	return false
}

func (vc *validCtx) mayReturnNilLiteral(f *types.Func) bool {
	if r, ok := vc.returnsNil[f]; ok {
		return r == 2
	}
	vc.returnsNil[f] = 3
	fi := vc.c.P.FuncInfoOf(f)
	if fi == nil || fi.Decl.Body == nil {
		return false
	}
	info := fi.Pkg.TypesInfo
	ast.Inspect(fi.Decl.Body, func(n ast.Node) bool {
		switch x := n.(type) {
		case *ast.FuncLit:
			return false
		case *ast.ReturnStmt:
			if len(x.Results) == 1 && isNilExpr(info, x.Results[0]) {
				vc.returnsNil[f] = 2
			}
		}
		return true
	})
	return vc.returnsNil[f] == 2
}

// withFacts analyses fi with the source facts installed.
func (vc *validCtx) withFacts(fi *load.FuncInfo, srcs map[types.Object][]nilSrc) (*gf.Fn, *gf.Analysis) {
	c := vc.c
	fn := c.E.FnOf(fi)
	n := 0
	saved := fn.PostFacts
	pf := map[ast.Node]*gf.Formula{}
	for k, v := range saved {
		pf[k] = v
	}
	for _, ss := range srcs {
		for _, s := range ss {
			if s.fact != nil {
				if old, ok := pf[s.node]; ok {
					pf[s.node] = gf.And(old, s.fact)
				} else {
					pf[s.node] = s.fact
				}
				n++
			}
		}
	}
	if n == 0 {
		return c.Analysis(fi)
	}
	fn.PostFacts = pf
	an := fn.Analyze(nil)
	fn.PostFacts = saved
	return fn, an
}

// withFactsLit is withFacts for a function literal of fi.
func (vc *validCtx) withFactsLit(fi *load.FuncInfo, lit *ast.FuncLit, name string, srcs map[types.Object][]nilSrc) (*gf.Fn, *gf.Analysis) {
	c := vc.c
	fn := c.E.FnOfLit(fi.Pkg.TypesInfo, lit, name)
	saved := fn.PostFacts
	pf := map[ast.Node]*gf.Formula{}
	for k, v := range saved {
		pf[k] = v
	}
	n := 0
	for _, ss := range srcs {
		for _, s := range ss {
			if s.fact != nil {
				if old, ok := pf[s.node]; ok {
					pf[s.node] = gf.And(old, s.fact)
				} else {
					pf[s.node] = s.fact
				}
				n++
			}
		}
	}
	if n == 0 {
		return c.LitAnalysis(fi.Pkg.TypesInfo, lit, name)
	}
	fn.PostFacts = pf
	an := fn.Analyze(nil)
	fn.PostFacts = saved
	return fn, an
}

// nilReturnsCarryError: at every return of f whose first result is the nil literal, the facts give a non-nil error
// (or the error is built on the spot). One obligation per such return.
func (vc *validCtx) nilReturnsCarryError(f *types.Func) bool {
	if r, ok := vc.weak[f]; ok {
		return r
	}
	c := vc.c
	fi := c.P.FuncInfoOf(f)
	if fi == nil || fi.Decl.Body == nil {
		return false
	}
	info := fi.Pkg.TypesInfo
	fn, an := c.Analysis(fi)
	all := true
	n := 0
	ownNodes(fi.Decl.Body, func(nd ast.Node) {
		r, ok := nd.(*ast.ReturnStmt)
		if !ok || len(r.Results) < 2 || !isNilExpr(info, r.Results[0]) {
			return
		}
		st := an.StateBefore(r)
		if !st.Reachable() {
			return
		}
		n++
		name := fmt.Sprintf("%s: return #%d with a nil first result", vc.short(fi), n)
		last := ast.Unparen(r.Results[len(r.Results)-1])
		if ec, isCall := last.(*ast.CallExpr); isCall {
			if ef := gf.StaticCallee(info, ec); ef != nil && (ef.FullName() == "fmt.Errorf" || ef.FullName() == "errors.New") {
				c.OK("C15.5-nil-result-comes-with-an-error", name, r.Pos(), "the error is built on the spot")
				return
			}
		}
		if g, wit := st.Implies(gf.FNotNil(fn.Term(last))); g {
			c.OK("C15.5-nil-result-comes-with-an-error", name, r.Pos(), "facts give a non-nil error")
		} else {
			all = false
			c.Bad("C15.5-nil-result-comes-with-an-error", name, r.Pos(), "a nil result is returned without a non-nil error: the caller takes the call for successful and reads the result; facts: "+clip(wit, 300))
		}
	})
	vc.weak[f] = all
	return all
}

// convention: every return of the in-repo function f gives "first result != nil or error != nil".
func (vc *validCtx) convention(f *types.Func) bool {
	switch vc.summary[f] {
	case 1, 3:
		return false
	case 2:
		return true
	}
	vc.summary[f] = 1
	res := vc.convention0(f)
	if res {
		vc.summary[f] = 2
	} else {
		vc.summary[f] = 3
	}
	return res
}

func (vc *validCtx) convention0(f *types.Func) bool {
	fi := vc.c.P.FuncInfoOf(f)
	if fi == nil || fi.Decl.Body == nil {
		return false
	}
	sig := f.Type().(*types.Signature)
	srcs, _ := vc.sourcesOf(fi)
	fn, an := vc.withFacts(fi, srcs)
	info := fi.Pkg.TypesInfo
	ok, n := true, 0
	ownNodes(fi.Decl.Body, func(nd ast.Node) {
		r, isRet := nd.(*ast.ReturnStmt)
		if !isRet {
			return
		}
		n++
		if len(r.Results) != sig.Results().Len() {
			// a call returning the tuple: the callee's own convention
			if len(r.Results) == 1 {
				if call, isCall := ast.Unparen(r.Results[0]).(*ast.CallExpr); isCall {
					g := gf.StaticCallee(info, call)
					if g == nil || g.Pkg() == nil || !inRepoPkg(g.Pkg().Path()) || vc.convention(g.Origin()) {
						return
					}
				}
			}
			ok = false
			return
		}
		st := an.StateBefore(r)
		if !st.Reachable() {
			return
		}
		first := ast.Unparen(r.Results[0])
		if nonNilExpr(info, first) {
			return
		}
		// a freshly built error
		if ec, isCall := ast.Unparen(r.Results[len(r.Results)-1]).(*ast.CallExpr); isCall {
			if ef := gf.StaticCallee(info, ec); ef != nil && (ef.FullName() == "fmt.Errorf" || ef.FullName() == "errors.New") {
				return
			}
		}
		// the variable of a type switch in a clause for one pointer type: as for a comma-ok assertion, a value of
		// that dynamic type is taken to be a non-nil pointer (nothing in the program stores typed nil pointers in
		// the interfaces it asserts on: informer objects, watch events)
		if id, isID := first.(*ast.Ident); isID {
			if v, isVar := info.Uses[id].(*types.Var); isVar {
				for cl, obj := range info.Implicits {
					if cc, isCC := cl.(*ast.CaseClause); isCC && obj == types.Object(v) && len(cc.List) == 1 {
						if _, isPtr := v.Type().Underlying().(*types.Pointer); isPtr {
							return
						}
					}
				}
			}
		}
		if call, isCall := first.(*ast.CallExpr); isCall {
			// a fresh copy of a value proven non-nil: x.DeepCopy() and the like are not judged → not proven
			_ = call
		}
		want := gf.Or(gf.FNotNil(fn.Term(first)), gf.FNotNil(fn.Term(r.Results[len(r.Results)-1])))
		if g, _ := st.Implies(want); !g {
			ok = false
		}
	})
	return ok && n > 0
}

type nilSink struct {
	base   ast.Expr
	at     ast.Expr
	kind   string
	what   string
	callee *types.Func // for kind "arg?": an in-repo callee, judged when the source is known
	idx    int
}

// sinksIn lists the reads in body that need their base non-nil.
func (vc *validCtx) sinksIn(fn *gf.Fn, info *types.Info, body *ast.BlockStmt, depth int) []nilSink {
	var out []nilSink
	ownNodes(body, func(nd ast.Node) {
		switch x := nd.(type) {
		case *ast.StarExpr:
			if tv, ok := info.Types[x]; ok && tv.IsType() {
				return
			}
			out = append(out, nilSink{x.X, x, "deref", "*" + types.ExprString(x.X), nil, 0})
		case *ast.SelectorExpr:
			if sel, ok := info.Selections[x]; ok {
				if _, isPtr := info.TypeOf(x.X).Underlying().(*types.Pointer); isPtr && sel.Indirect() {
					out = append(out, nilSink{x.X, x, "deref", "." + x.Sel.Name, nil, 0})
				} else if _, isIface := info.TypeOf(x.X).Underlying().(*types.Interface); isIface && sel.Kind() == types.MethodVal {
					out = append(out, nilSink{x.X, x, "method", "." + x.Sel.Name + "()", nil, 0})
				} else if _, isPtr := info.TypeOf(x.X).Underlying().(*types.Pointer); isPtr && sel.Kind() == types.MethodVal {
					// a method called on the pointer itself (DeepCopy of a nil pointer is nil, and the nil travels on): a use
					// of a value that is only valid without an error
					out = append(out, nilSink{x.X, x, "recv", "." + x.Sel.Name + "()", nil, 0})
				}
			}
		case *ast.KeyValueExpr:
			if _, isID := ast.Unparen(x.Value).(*ast.Ident); isID && nilable(info.TypeOf(x.Value)) && !isErrorType(info.TypeOf(x.Value)) {
				out = append(out, nilSink{x.Value, x.Value, "store", "stored in a composite literal", nil, 0})
			}
		case *ast.AssignStmt:
			if len(x.Lhs) == len(x.Rhs) {
				for i, l := range x.Lhs {
					if _, isSel := ast.Unparen(l).(*ast.SelectorExpr); !isSel {
						continue
					}
					if _, isID := ast.Unparen(x.Rhs[i]).(*ast.Ident); isID && nilable(info.TypeOf(x.Rhs[i])) && !isErrorType(info.TypeOf(x.Rhs[i])) {
						out = append(out, nilSink{x.Rhs[i], x.Rhs[i], "store", "stored in " + types.ExprString(l), nil, 0})
					}
				}
			}
		case *ast.CallExpr:
			if tv, ok := info.Types[x.Fun]; ok && tv.IsType() {
				return
			}
			if id, ok := ast.Unparen(x.Fun).(*ast.Ident); ok {
				if _, isB := info.ObjectOf(id).(*types.Builtin); isB {
					return
				}
			}
			if fn.IsExpandedCall(x) {
				return // its body is part of the graph: the reads inside it are sinks themselves
			}
			f := gf.StaticCallee(info, x)
			if nilTolerant(f) {
				return
			}
			for i, a := range x.Args {
				if !nilable(info.TypeOf(a)) || isErrorType(info.TypeOf(a)) {
					continue
				}
				if _, isID := ast.Unparen(a).(*ast.Ident); !isID {
					if _, isIx := ast.Unparen(a).(*ast.IndexExpr); !isIx {
						continue
					}
				}
				name := types.ExprString(x.Fun)
				if f != nil && f.Pkg() != nil && inRepoPkg(f.Pkg().Path()) {
					out = append(out, nilSink{a, a, "arg?", "handed to " + name, f.Origin(), i})
				} else {
					out = append(out, nilSink{a, a, "arg", "handed to " + name, nil, 0})
				}
			}
		}
	})
	return out
}

// needsNonNil: the in-repo callee reads its i-th parameter at a point where its own facts do not exclude nil.
func (vc *validCtx) needsNonNil(f *types.Func, i int, depth int, strict bool) bool {
	key := fmt.Sprintf("%s|%d|%v", f.FullName(), i, strict)
	switch vc.needs[key] {
	case 1:
		return false
	case 2:
		return true
	case 3:
		return false
	}
	vc.needs[key] = 1
	res := vc.needsNonNil0(f, i, depth, strict)
	if res {
		vc.needs[key] = 2
	} else {
		vc.needs[key] = 3
	}
	return res
}

func (vc *validCtx) needsNonNil0(f *types.Func, i int, depth int, strict bool) bool {
	fi := vc.c.P.FuncInfoOf(f)
	if fi == nil || fi.Decl.Body == nil {
		return true
	}
	if depth > 3 {
		return false
	}
	sig := f.Type().(*types.Signature)
	if i >= sig.Params().Len() {
		return false // variadic tail
	}
	p := sig.Params().At(i)
	if sig.Variadic() && i == sig.Params().Len()-1 {
		return false
	}
	fn, an := vc.c.Analysis(fi)
	info := fi.Pkg.TypesInfo
	pk := gf.Var(p).Key()
	for _, body := range fn.Bodies() {
		for _, s := range vc.sinksIn(fn, info, body, depth+1) {
			id, ok := ast.Unparen(s.base).(*ast.Ident)
			if !ok {
				continue
			}
			bt := fn.Term(id)
			for _, st := range an.StatesAtExpr(s.at) {
				if !st.Reachable() {
					continue
				}
				hit := bt.Key() == pk
				if !hit {
					for _, d := range st.D {
						for _, o := range d.EqualTerms(bt) {
							if o.Key() == pk {
								hit = true
							}
						}
					}
				}
				if !hit {
					continue
				}
				if (s.kind == "store" || s.kind == "recv") && !strict {
					continue // keeping a pointer that may legitimately be nil is not a read
				}
				if s.kind == "arg?" && !vc.needsNonNil(s.callee, s.idx, depth+1, strict) {
					continue
				}
				if g, _ := st.Implies(gf.FNotNil(bt)); !g {
					return true
				}
			}
		}
	}
	return false
}

func (c *Ctx) validResults(scope []*load.FuncInfo) {
	vc := &validCtx{c: c, summary: map[*types.Func]int{}, needs: map[string]int{}, returnsNil: map[*types.Func]int{}, weak: map[*types.Func]bool{}}
	nSrc, nSink, nVars := 0, 0, 0
	judge := func(fi *load.FuncInfo, tname string, fn *gf.Fn, an *gf.Analysis, srcs map[types.Object][]nilSrc) {
		info := fi.Pkg.TypesInfo
		if os.Getenv("ASV_DEBUG_C155") != "" {
			for v, ss := range srcs {
				for _, s := range ss {
					fmt.Printf("C155 %s %s %s fact=%v after=%s\n", tname, v.Name(), s.kind, s.fact, clip(an.StateAfter(s.node).String(), 300))
				}
			}
		}
		var vars []types.Object
		for v := range srcs {
			vars = append(vars, v)
		}
		sort.Slice(vars, func(i, j int) bool { return vars[i].Pos() < vars[j].Pos() })
		nVars += len(vars)
		for _, v := range vars {
			nSrc += len(srcs[v])
		}
		occ := map[string]int{}
		for _, body := range fn.Bodies() {
			for _, s := range vc.sinksIn(fn, info, body, 0) {
				id, ok := ast.Unparen(s.base).(*ast.Ident)
				if !ok {
					continue
				}
				bt := fn.Term(id)
				for _, st := range an.StatesAtExpr(s.at) {
					if !st.Reachable() {
						continue
					}
					var src types.Object
					for _, v := range vars {
						vk := gf.Var(v).Key()
						if bt.Key() == vk {
							src = v
							break
						}
						for _, d := range st.D {
							for _, o := range d.EqualTerms(bt) {
								if o.Key() == vk {
									src = v
								}
							}
						}
						if src != nil {
							break
						}
					}
					if src == nil {
						continue
					}
					// a value that is only valid without an error must not be kept or handed on either;
					// a pointer that is nil by contract may be
					strict := srcs[src][0].kind == "S1"
					if (s.kind == "store" || s.kind == "recv") && !strict {
						continue
					}
					if s.kind == "arg?" {
						if !vc.needsNonNil(s.callee, s.idx, 0, strict) {
							continue
						}
						s.what += ", which reads or keeps it without a test"
					}
					nSink++
					k := fmt.Sprintf("%s: %s %s", tname, src.Name(), s.what)
					occ[k]++
					name := k
					if occ[k] > 1 {
						name = fmt.Sprintf("%s #%d", k, occ[k])
					}
					if why, ok := reviewedReads[k]; ok {
						c.OK("C15.5-result-read-only-when-valid", name, s.at.Pos(), "reviewed exception: "+why)
					} else if ok, wit := st.Implies(gf.FNotNil(bt)); ok {
						c.OK("C15.5-result-read-only-when-valid", name, s.at.Pos(), srcs[src][0].what+": facts exclude nil here")
					} else {
						c.Bad("C15.5-result-read-only-when-valid", name, s.at.Pos(), src.Name()+" ("+srcs[src][0].what+") may be nil here and is read: the reconcile or the handler panics; facts: "+clip(wit, 400))
					}
				}
			}
		}
	}
	for _, fi := range scope {
		tname := c.tableName(fi)
		if i := strings.LastIndex(tname, "."); i >= 0 {
			tname = tname[i+1:]
		}
		if srcs, _ := vc.sourcesOf(fi); len(srcs) > 0 {
			fn, an := vc.withFacts(fi, srcs)
			judge(fi, tname, fn, an, srcs)
		}
		// and its function literals (retry closures), each a body of its own
		k := 0
		ast.Inspect(fi.Decl.Body, func(n ast.Node) bool {
			lit, ok := n.(*ast.FuncLit)
			if !ok {
				return true
			}
			k++
			if srcs, _ := vc.sourcesIn(fi, lit.Body); len(srcs) > 0 {
				lname := fmt.Sprintf("%s$lit%d", tname, k)
				fn, an := vc.withFactsLit(fi, lit, lname, srcs)
				judge(fi, lname, fn, an, srcs)
			}
			return true
		})
	}
	// the cells of the wanted slice: made with make([]*Pod, bound), so every cell starts nil and the cells at delete
	// slots stay nil. A cell is dereferenced, or handed to a callee that reads it, only where the facts exclude nil.
	if r := c.ReconcileRoles(); r != nil && r.W != nil {
		info := r.FI.Pkg.TypesInfo
		fn, an := r.Fn, r.An
		tname := vc.short(r.FI)
		occ := map[string]int{}
		nCell := 0
		for _, s := range vc.sinksIn(fn, info, r.FI.Decl.Body, 0) {
			ix, ok := ast.Unparen(s.base).(*ast.IndexExpr)
			if !ok {
				continue
			}
			if id := rootIdent(ix.X); id == nil || info.ObjectOf(id) != r.W {
				continue
			}
			if s.kind == "store" || s.kind == "recv" {
				continue
			}
			if s.kind == "arg?" {
				if !vc.needsNonNil(s.callee, s.idx, 0, false) {
					continue
				}
				s.what += ", which reads it without a test"
			}
			bt := fn.Term(ix)
			for _, st := range an.StatesAtExpr(s.at) {
				if !st.Reachable() {
					continue
				}
				nCell++
				k := fmt.Sprintf("%s: %s %s", tname, types.ExprString(ix), s.what)
				occ[k]++
				name := k
				if occ[k] > 1 {
					name = fmt.Sprintf("%s #%d", k, occ[k])
				}
				if g, wit := st.Implies(gf.FNotNil(bt)); g {
					c.OK("C15.5-wanted-cell-read-only-when-filled", name, s.at.Pos(), "facts exclude nil here")
				} else {
					c.Bad("C15.5-wanted-cell-read-only-when-filled", name, s.at.Pos(), "a cell of the wanted slice may be nil here (a delete slot, or not yet filled) and is read: the reconcile panics; facts: "+clip(wit, 400))
				}
			}
		}
		c.Floor("C15.5-wanted-cell-reads", nCell, 10)
	}
	c.Notes = append(c.Notes, fmt.Sprintf("C15.5: %d variables with %d nil-able sources, %d reads judged", nVars, nSrc, nSink))
	c.Floor("C15.5-nilable-sources", nSrc, 10)
	c.Floor("C15.5-reads-judged", nSink, 15)
}

// clonedMapsAreNotWrittenWhenNil: maps.Clone (like the other copy helpers that preserve nil) hands back nil for a nil map;
// an entry stored into its result panics unless the result, or the map it was cloned from, is known not to be nil there.
// (The hand-written copy loop these replace starts from make(...) and has no such case.) No instance on the pinned tree.
func (c *Ctx) clonedMapsAreNotWrittenWhenNil(scope []*load.FuncInfo) {
	const rule = "C15.5-nil-preserving-copy-is-not-written-to"
	preserving := map[string]bool{"maps.Clone": true, "golang.org/x/exp/maps.Clone": true}
	n := 0
	for _, fi := range scope {
		info := fi.Pkg.TypesInfo
		type src struct {
			v     types.Object
			field string // "" for the variable itself, else the field of the literal the copy was put in
			from  ast.Expr
		}
		var srcs []src
		isClone := func(e ast.Expr) ast.Expr {
			call, ok := ast.Unparen(e).(*ast.CallExpr)
			if !ok || len(call.Args) != 1 {
				return nil
			}
			if f := gf.StaticCallee(info, call); f != nil && preserving[f.Origin().FullName()] {
				return call.Args[0]
			}
			return nil
		}
		ast.Inspect(fi.Decl.Body, func(x ast.Node) bool {
			as, ok := x.(*ast.AssignStmt)
			if !ok || len(as.Lhs) != len(as.Rhs) {
				return true
			}
			for i, r := range as.Rhs {
				id, ok := ast.Unparen(as.Lhs[i]).(*ast.Ident)
				if !ok || info.ObjectOf(id) == nil {
					continue
				}
				if from := isClone(r); from != nil {
					srcs = append(srcs, src{info.ObjectOf(id), "", from})
					continue
				}
				// a literal (possibly behind &) one of whose fields, at any depth, is such a copy
				ast.Inspect(r, func(y ast.Node) bool {
					if kv, ok := y.(*ast.KeyValueExpr); ok {
						if k, ok := kv.Key.(*ast.Ident); ok {
							if from := isClone(kv.Value); from != nil {
								srcs = append(srcs, src{info.ObjectOf(id), k.Name, from})
							}
						}
					}
					return true
				})
			}
			return true
		})
		if len(srcs) == 0 {
			continue
		}
		fn, an := c.Analysis(fi)
		for _, s := range srcs {
			ast.Inspect(fi.Decl.Body, func(x ast.Node) bool {
				as, ok := x.(*ast.AssignStmt)
				if !ok {
					return true
				}
				for _, l := range as.Lhs {
					ix, ok := ast.Unparen(l).(*ast.IndexExpr)
					if !ok {
						continue
					}
					base := ast.Unparen(ix.X)
					match := false
					if id, ok := base.(*ast.Ident); ok && s.field == "" && info.ObjectOf(id) == s.v {
						match = true
					}
					if sel, ok := base.(*ast.SelectorExpr); ok && s.field != "" && sel.Sel.Name == s.field {
						if r := rootIdent(sel.X); r != nil && info.ObjectOf(r) == s.v {
							match = true
						}
					}
					if !match {
						continue
					}
					n++
					st := an.StateBefore(as)
					g1, _ := st.Implies(gf.FNotNil(fn.Term(base)))
					g2, _ := st.Implies(gf.FNotNil(fn.Term(s.from)))
					c.Check(g1 || g2, rule, fmt.Sprintf("%s: %s", tableShort(c, fi), types.ExprString(l)), as.Pos(), "the map (or the one it was cloned from) is known not to be nil here",
						types.ExprString(base)+" is the nil-preserving copy of "+types.ExprString(s.from)+", which may be nil (an omitted optional field): storing an entry into it panics, in every reconcile of such a set")
				}
				return true
			})
		}
	}
	c.Notes = append(c.Notes, fmt.Sprintf("%s: %d stores into nil-preserving copies", rule, n))
}
