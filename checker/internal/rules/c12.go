package rules

import (
	"fmt"
	"go/ast"
	"go/token"
	"go/types"
	"sort"
	"strings"

	"asverif/internal/gf"
	"asverif/internal/load"
)

func init() {
	register(&Property{
		ID:    "C12",
		Title: "Status tells the truth",
		Run:   runC12,
		Explanation: "Decides clauses C12.1-C12.4 of DESIGN.md: (1) sibling agreement of counter adjustments in the reconcile function: every CurrentReplicas++/-- has the fact revision(p) == current revision name for a pod p of that iteration, every UpdatedReplicas++/-- the fact revision(p) == update revision name; adjustments after a pod write are unreachable on that write's error edge; " +
			"(2) the census loop counts Replicas unconditionally per observed pod, ReadyReplicas under Running ∧ Ready, the revision counters under created ∧ not terminating; (3) ObservedGeneration is assigned only from the reconciled set's Generation; Status.CurrentRevision is assigned only from the current-revision parameter's name and, in the completion rule, from UpdateRevision under type RollingUpdate ∧ UpdatedReplicas == Replicas ∧ ReadyReplicas == Replicas; the current revision is chosen by name equality with the stored status (falling back to the update revision only when none is found); " +
			"(4) the status write is guarded by the change predicate, which contains the four counters, both revision names and `new generation > stored generation`. (6) no status write is reachable when the reconcile function returned an error. NOT decided: counter bounds and the census as numbers over all states.",
	})
}

func isStatusField(info *types.Info, e ast.Expr, field string) bool {
	sel, ok := ast.Unparen(e).(*ast.SelectorExpr)
	if !ok || sel.Sel.Name != field {
		return false
	}
	return isNamed(info.TypeOf(sel.X), load.APIPkg, "StatefulSetStatus")
}

func runC12(c *Ctx) {
	r := c.ReconcileRoles()
	if r == nil {
		return
	}
	fn, an := r.Fn, r.An
	info := r.FI.Pkg.TypesInfo
	body := r.FI.Decl.Body

	// candidate pods: every argument of a revision-label read in the function
	type cand struct {
		e    ast.Expr
		loop ast.Stmt
	}
	var allCands []cand
	ast.Inspect(body, func(n ast.Node) bool {
		if call, ok := n.(*ast.CallExpr); ok && gf.StaticCallee(info, call) == r.GetPodRevision && len(call.Args) == 1 {
			allCands = append(allCands, cand{call.Args[0], innermostLoop(body, call)})
		}
		return true
	})
	// the census loop: the range over the observed pods parameter
	var census *ast.RangeStmt
	ast.Inspect(body, func(n ast.Node) bool {
		if rs, ok := n.(*ast.RangeStmt); ok && census == nil {
			if id, ok := ast.Unparen(rs.X).(*ast.Ident); ok && info.ObjectOf(id) == info.ObjectOf(r.Pods) {
				census = rs
			}
		}
		return true
	})
	if census == nil {
		c.Fail("census loop over the observed pods not found")
		return
	}
	censusCell := loopCell(census)

	nAdj := 0
	// adjustments: status.F++ / -- / += d / -= d, in the reconcile function or in a helper expanded into it; in a helper
	// each occurrence (one per call of the helper) is judged on its own facts, anchored at the call in the function's body
	type adjustment struct {
		stmt  ast.Node // the adjusting statement
		x     ast.Expr // status.F
		field string
		body  *ast.BlockStmt // the body it stands in
		at    ast.Node       // anchor in the reconcile function's own body (the statement itself, or the call of the helper)
		st    gf.State
		op    string
		calls []*ast.CallExpr // chain of expanded calls (outermost first) when the statement stands in a helper
	}
	var adjs []adjustment
	for _, bd := range fn.Bodies() {
		bd := bd
		ast.Inspect(bd, func(n ast.Node) bool {
			var x ast.Expr
			var tok token.Token
			var delta ast.Expr
			switch y := n.(type) {
			case *ast.FuncLit:
				return false
			case *ast.IncDecStmt:
				x, tok = y.X, y.Tok
			case *ast.AssignStmt:
				if len(y.Lhs) == 1 && len(y.Rhs) == 1 && (y.Tok == token.ADD_ASSIGN || y.Tok == token.SUB_ASSIGN) {
					x, tok, delta = y.Lhs[0], y.Tok, y.Rhs[0]
				}
			}
			if x == nil {
				return true
			}
			var field string
			for _, f := range []string{"CurrentReplicas", "UpdatedReplicas", "Replicas", "ReadyReplicas"} {
				if isStatusField(info, x, f) {
					field = f
				}
			}
			if field == "" {
				return true
			}
			for _, ins := range an.Instances(n) {
				at := n
				if len(ins.Calls) > 0 {
					if stt := stmtOf(body, ins.Calls[0]); stt != nil {
						at = stt
					}
				}
				op := ""
				switch tok {
				case token.INC:
					op = "++"
				case token.DEC:
					op = "--"
				default:
					// the sign of the step from the facts of this occurrence
					dt := fn.Term(delta)
					pos, _ := ins.State.Implies(gf.FLt(gf.ConstInt(0), dt))
					neg, _ := ins.State.Implies(gf.FLt(dt, gf.ConstInt(0)))
					switch {
					case pos && tok == token.ADD_ASSIGN, neg && tok == token.SUB_ASSIGN:
						op = "++"
					case neg && tok == token.ADD_ASSIGN, pos && tok == token.SUB_ASSIGN:
						op = "--"
					}
				}
				adjs = append(adjs, adjustment{n, x, field, bd, at, ins.State, op, ins.Calls})
			}
			return true
		})
	}
	sort.SliceStable(adjs, func(i, j int) bool { return adjs[i].at.Pos() < adjs[j].at.Pos() })
	for _, ad := range adjs {
		field, op, st, at := ad.field, ad.op, ad.st, ad.at
		nAdj++
		where := "after a pod write"
		if contains(census, at) {
			where = "census"
		}
		name := fmt.Sprintf("%s: status.%s%s [%s, #%d]", r.FI.Obj.Name(), field, op, where, nAdj)
		if op == "" {
			c.Bad("C12.1-counter-matches-revision", name, ad.stmt.Pos(), "the direction of this adjustment is not determined by the facts (neither +1 nor -1)")
			continue
		}
		switch field {
		case "CurrentReplicas", "UpdatedReplicas":
			revT := c.WantTerm(fn, body.Lbrace+1, "$1.Name", r.CurRev)
			if field == "UpdatedReplicas" {
				revT = c.WantTerm(fn, body.Lbrace+1, "$1.Name", r.UpdRev)
			}
			okAny := false
			var tried string
			var cands []ast.Expr
			seen := map[string]bool{}
			for _, bd2 := range fn.Bodies() {
				if bd2 != ad.body {
					continue
				}
				ast.Inspect(bd2, func(m ast.Node) bool {
					if call, ok := m.(*ast.CallExpr); ok && gf.StaticCallee(info, call) == r.GetPodRevision && len(call.Args) == 1 {
						if innermostLoop(bd2, call) == innermostLoop(bd2, ad.stmt) && !seen[types.ExprString(call.Args[0])] {
							seen[types.ExprString(call.Args[0])] = true
							cands = append(cands, call.Args[0])
						}
					}
					return true
				})
			}
			// in a helper: also the pods the helper was handed (its parameter may already have been replaced by the argument in the facts)
			argCand := map[ast.Expr]bool{}
			if len(ad.calls) > 0 {
				for _, a := range ad.calls[0].Args {
					if types.TypeString(info.TypeOf(a), nil) == "*k8s.io/api/core/v1.Pod" {
						cands = append(cands, a)
						argCand[a] = true
					}
				}
			}
			for _, p := range cands {
				where := ad.stmt
				if argCand[p] {
					where = ad.calls[0]
				}
				f := c.revisionOf(fn, p, revT, where)
				if good, _ := st.Implies(f); good {
					okAny = true
					c.OK("C12.1-counter-matches-revision", name, ad.stmt.Pos(), "facts imply "+f.String())
					break
				}
				tried += types.ExprString(p) + " "
			}
			if !okAny {
				_, wit := st.Implies(gf.False)
				c.Bad("C12.1-counter-matches-revision", name, ad.stmt.Pos(), fmt.Sprintf("status.%s is adjusted without the fact that the pod concerned carries the %s revision (tried pods: %s); facts on one path: %s", field, map[string]string{"CurrentReplicas": "current", "UpdatedReplicas": "update"}[field], tried, clip(wit, 500)))
			}
			if contains(census, at) && censusCell != nil {
				c.Implies(st, c.Want(fn, census.Body.Pos(), `$1.Status.Phase != "" && $1.DeletionTimestamp == nil`, censusCell), "C12.2-census-live-pods-only", name, ad.stmt.Pos())
			}
		case "ReadyReplicas":
			if contains(census, at) && censusCell != nil {
				c.Implies(st, c.podReady(fn, census.Body.Pos(), censusCell), "C12.2-census-ready", name, ad.stmt.Pos())
			} else {
				c.Bad("C12.2-census-ready", name, ad.stmt.Pos(), "ReadyReplicas is adjusted outside the census")
			}
		case "Replicas":
			if contains(census, at) {
				direct := false
				for _, s := range census.Body.List {
					if ast.Node(s) == at {
						direct = true
					}
				}
				c.Check(direct && op == "++", "C12.2-census-total", name, ad.stmt.Pos(), "every observed pod is counted, unconditionally", "the total is not counted unconditionally per observed pod")
			} else if op == "--" {
				// the total is the bound of the ready counter, and the ready counter is never taken back outside the
				// census: the total may come down only for a pod the census cannot have counted as ready
				c.totalLoweredForUnreadyPodOnly(r, ad.stmt, at, st, name)
			}
		}
		// a census counts up
		if contains(census, at) {
			c.Check(op == "++", "C12.2-census-counts-up", name, ad.stmt.Pos(), "an observed pod adds one", "the census takes one off the counter for a pod that has the counted property")
		}
		// adjustments outside the census follow a successful pod write
		if !contains(census, at) {
			c.afterSuccessfulWrite(r, at, field, op, name)
		}
	}
	c.Floor("C12.1-counter-adjustments", nAdj, 13)

	// C12.3 assignment whitelist over the controller package
	nGen, nCur := 0, 0
	for _, fi := range c.P.Funcs() {
		if fi.Pkg.PkgPath != load.CtrlPkg {
			continue
		}
		finfo := fi.Pkg.TypesInfo
		// a helper expanded into the reconcile function (e.g. a constructor of the initial status) is judged
		// like the reconcile function itself, its parameters related to the caller's values by the engine
		inReconcile := false
		for _, h := range r.Fn.Expanded() {
			if h == fi && c.liftedAway(fi) {
				inReconcile = true
			}
		}
		for _, fs := range fieldStores(finfo, fi.Decl.Body) {
			if !isNamed(fs.Owner, load.APIPkg, "StatefulSetStatus") {
				continue
			}
			as := fs.Node
			lhsText := types.ExprString(fs.Base) + "." + fs.Field
			if inReconcile && (fs.Field == "ObservedGeneration" || fs.Field == "CurrentRevision") {
				name := fmt.Sprintf("%s: %s = %s", fi.Obj.Name(), lhsText, types.ExprString(fs.Rhs))
				var want *gf.Term
				rule := "C12.3-observed-generation-source"
				if fs.Field == "ObservedGeneration" {
					nGen++
					want = c.WantTerm(r.Fn, r.FI.Decl.Body.Lbrace+1, "$1.Generation", r.Set)
				} else {
					nCur++
					rule = "C12.3-current-revision-source"
					want = c.WantTerm(r.Fn, r.FI.Decl.Body.Lbrace+1, "$1.Name", r.CurRev)
				}
				c.Implies(r.An.StateBefore(as), gf.FEq(r.Fn.Term(fs.Rhs), want), rule, name, as.Pos())
				continue
			}
			switch fs.Field {
			case "ObservedGeneration":
				nGen++
				name := fmt.Sprintf("%s: %s = %s", fi.Obj.Name(), lhsText, types.ExprString(fs.Rhs))
				sel, ok := ast.Unparen(fs.Rhs).(*ast.SelectorExpr)
				good := ok && sel.Sel.Name == "Generation" && isNamed(finfo.TypeOf(sel.X), load.APIPkg, "StatefulSet")
				if good && fi == r.FI {
					id, isID := sel.X.(*ast.Ident)
					good = isID && finfo.ObjectOf(id) == finfo.ObjectOf(r.Set)
				}
				c.Check(good, "C12.3-observed-generation-source", name, as.Pos(), "assigned from the reconciled set's metadata.generation", "observedGeneration is taken from something other than the reconciled set's generation")
			case "CurrentRevision":
				nCur++
				name := fmt.Sprintf("%s: %s = %s", fi.Obj.Name(), lhsText, types.ExprString(fs.Rhs))
				if fi == r.FI {
					c.Check(r.Fn.Term(fs.Rhs).Key() == c.WantTerm(r.Fn, as.Pos(), "$1.Name", r.CurRev).Key(), "C12.3-current-revision-source", name, as.Pos(),
						"assigned from the current-revision parameter's name", "status.currentRevision is assigned from something else")
					continue
				}
				// completion rule
				f2, a2 := c.Analysis(fi)
				lselX := fs.Base
				var setParam *ast.Ident
				for _, pf := range fi.Decl.Type.Params.List {
					for _, pn := range pf.Names {
						if isNamed(finfo.TypeOf(pn), load.APIPkg, "StatefulSet") {
							setParam = pn
						}
					}
				}
				if setParam == nil {
					c.Bad("C12.3-current-revision-source", name, as.Pos(), "status.currentRevision is assigned in a function without the set at hand")
					continue
				}
				c.Check(f2.Term(fs.Rhs).Key() == c.WantTerm(f2, as.Pos(), "$1.UpdateRevision", lselX).Key(), "C12.3-current-revision-source", name, as.Pos(),
					"completion rule assigns the update revision", "the completion rule assigns something other than status.updateRevision")
				want := c.Want(f2, as.Pos(), `$1.Spec.UpdateStrategy.Type == "RollingUpdate" && $2.UpdatedReplicas == $2.Replicas && $2.ReadyReplicas == $2.Replicas`, setParam, lselX)
				c.Implies(a2.StateBefore(as), want, "C12.3-completion-rule-guard", name, as.Pos())
				// the counter moves with the name: where the completion rule ran, every exit of the function has
				// currentReplicas == updatedReplicas (the pods counted as updated are now the pods at the current revision)
				same := c.Want(f2, fi.Decl.Body.Rbrace, "$1.CurrentReplicas == $1.UpdatedReplicas", lselX)
				aC := f2.FromAfter(as, a2.StateAfter(as))
				okCount, nExit := true, 0
				exits := func(st gf.State) {
					if !st.Reachable() {
						return
					}
					nExit++
					if g, _ := st.Implies(same); !g {
						okCount = false
					}
				}
				ownNodes(fi.Decl.Body, func(x ast.Node) {
					if ret, isRet := x.(*ast.ReturnStmt); isRet {
						exits(aC.StateBefore(ret))
					}
				})
				if ir := f2.ImplicitReturn(); ir != nil {
					exits(aC.StateBefore(ir))
				}
				// (the counter may be set before the name: then the fact is already there at the store)
				if !okCount || nExit == 0 {
					if g, _ := a2.StateAfter(as).Implies(same); g {
						okCount, nExit = true, 1
					}
				}
				c.Check(okCount && nExit > 0, "C12.3-completion-moves-the-counter", name, as.Pos(), "currentReplicas == updatedReplicas wherever the completion rule has run",
					"the completion rule renames the current revision without moving currentReplicas to updatedReplicas: the status then counts the pods of the old current revision under the new name")
			}
		}
	}
	c.Floor("C12.3-observed-generation-assignments", nGen, 1)
	c.Floor("C12.3-current-revision-assignments", nCur, 2)
	// status.currentRevision is assigned from the current-revision parameter (above): that only says what it should if the
	// parameter still holds what the caller chose -- neither revision parameter is given another value in the function
	for _, p := range []*ast.Ident{r.CurRev, r.UpdRev} {
		reassigned := false
		for _, bd := range r.Fn.Bodies() {
			if assignedIn(info, bd, info.ObjectOf(p)) {
				reassigned = true
			}
		}
		c.Check(!reassigned, "C12.3-revision-parameters-are-not-reassigned", r.FI.Obj.Name()+": "+p.Name, p.Pos(), "the parameter keeps the revision the caller chose",
			"the parameter "+p.Name+" is given another value inside the reconcile function: status.currentRevision / the revision counters then follow a revision other than the one chosen for this pass (the current revision can move although not every pod was seen updated and ready)")
	}
	c.currentRevisionChoice()
	c.statusWriteGuard()
	c.statusRetryShape("C12.5")
	c.statusOnlyAfterCompletePass(r)
	// where the total was lowered for a finished pod, the replacement is created (and counted back) before the pass can
	// end well: otherwise the status written has the finished pod's ordinal missing from replicas, and the completion
	// rule can fire for a pass that saw a pod that was neither updated nor ready (the replacement rule of C03, as a clause)
	c.withOnly(map[string]string{"C03.2-class-b-replaced": "C12.1-lowered-total-is-counted-back"}, nil, "C12.1-replacements", 1, func() { runC03(c) })
	// "a status write is issued whenever the computed status differs from the stored one": the comparison is against what
	// is stored only while nothing writes the computed status into the cached object -- a status assigned into the cache
	// copy before a write that then fails makes the retry see "no change" and the stored status stays stale for good
	// (the copy rules of C10.7, as a clause of this property)
	c.withOnly(map[string]string{"C10.7-cache-objects-unmodified": "C12.5-stored-status-is-compared-not-a-written-through-cache-copy", "C10.7-control-gets-copy": "C12.5-the-control-works-on-a-copy-of-the-cached-set"}, func(s string) bool { return !strings.Contains(s, "Pod") && !strings.Contains(s, "pod") }, "C12.5-cache-copy", 2, c.cacheObjectsUnmodified)
}

// statusOnlyAfterCompletePass: the counters are a census of the pods only once the pass has run to its
// end; where the reconcile function reported an error they are half adjusted (a delete counted, its
// replacement not yet). The status write is therefore unreachable from a failed pass.
func (c *Ctx) statusOnlyAfterCompletePass(r *Reconcile) {
	n := 0
	for _, fi := range c.P.Funcs() {
		if fi.Pkg.PkgPath != load.CtrlPkg {
			continue
		}
		info := fi.Pkg.TypesInfo
		for _, call := range callsIn(fi.Decl.Body, false) {
			if f := gf.StaticCallee(info, call); f == nil || f.Origin() != r.FI.Obj {
				continue
			}
			n++
			fn, an := c.Analysis(fi)
			st := stmtOf(fi.Decl.Body, call)
			name := fmt.Sprintf("%s: status write after a failed %s", fi.Obj.Name(), r.FI.Obj.Name())
			errF := c.errNonNilAfter(fn, st, call)
			if errF == nil {
				c.Bad("C12.6-status-only-after-a-complete-pass", name, call.Pos(), "the error of the reconcile function is not bound")
				continue
			}
			aE := fn.FromAfter(st, an.StateAfter(st).Assume(errF))
			reached := false
			for _, c2 := range callsIn(fi.Decl.Body, false) {
				writes := false
				for _, t := range c.G.CallTargets(info, c2) {
					for k := range c.G.Effects(t, "write") {
						if k == "statefulsets.pingcap.UpdateStatus" {
							writes = true
						}
					}
				}
				if writes && c2 != call && aE.StateAtExpr(c2).Reachable() {
					reached = true
				}
			}
			c.Check(!reached, "C12.6-status-only-after-a-complete-pass", name, call.Pos(), "no status write is reachable when the pass ended in an error",
				"the status computed by a pass that ended in an error is written: counters adjusted half way (a delete counted, the re-create not) reach the API, and the completion rule can fire on them")
		}
	}
	c.Floor("C12.6-reconcile-call-sites", n, 1)
}

// revisionOf builds getPodRevision(p) == rev as the canoniser would for the source expression.
func (c *Ctx) revisionOf(fn *gf.Fn, p ast.Expr, rev *gf.Term, at ast.Node) *gf.Formula {
	lhs := c.TryWantTerm(fn, at.Pos(), "getPodRevision($1)", p)
	if lhs == nil || rev == nil {
		return gf.False
	}
	return gf.FEq(lhs, rev)
}

// afterSuccessfulWrite: the adjustment is unreachable on the error edge of the
// nearest preceding pod write in the same loop body.
func (c *Ctx) afterSuccessfulWrite(r *Reconcile, inc ast.Node, field, op, name string) {
	fn, an := r.Fn, r.An
	var prev *ast.CallExpr
	for _, w := range c.podWrites(r) {
		if w.call.Pos() < inc.Pos() && (prev == nil || w.call.Pos() > prev.Pos()) {
			// same innermost loop
			if innermostLoop(r.FI.Decl.Body, w.call) == innermostLoop(r.FI.Decl.Body, inc) {
				prev = w.call
			}
		}
	}
	if prev == nil {
		c.Bad("C12.1-adjustment-follows-write", name, inc.Pos(), "a counter is adjusted outside the census with no pod write before it in the same loop")
		return
	}
	wantKind := map[string]string{"++": "CreateStatefulPod", "--": "DeleteStatefulPod"}[op]
	if got := calleeShort(r.FI.Pkg.TypesInfo, prev); got != wantKind {
		c.Bad("C12.1-adjustment-follows-write", name, inc.Pos(), fmt.Sprintf("status.%s%s follows a %s, expected a %s", field, op, got, wantKind))
		return
	}
	stmt := stmtOf(r.FI.Decl.Body, prev)
	errF := c.errNonNilAfter(fn, stmt, prev)
	if errF == nil {
		c.Unk("C12.1-adjustment-follows-write", name, inc.Pos(), "the write's error is not bound to a variable")
		return
	}
	aE := fn.FromAfter(stmt, an.StateAfter(stmt).Assume(errF))
	if as, ok := stmt.(*ast.AssignStmt); ok && as.Tok == token.DEFINE && !isIfInit(r.FI.Decl.Body, as) {
		// `err := write(); adjust; return status, err`: the adjustment runs even when the write failed
		// (this is the update walk's shape: the status of a failed reconcile is discarded by the caller, which returns the error)
		ret := c.nextReturnReturnsErr(r, inc, as)
		c.Check(ret, "C12.1-adjustment-follows-write", name, inc.Pos(), "the adjusted status is returned together with the write's error, and the caller discards the status of a failed reconcile",
			"the adjustment runs on the write's error path and the error is not returned with it")
		return
	}
	c.Check(!aE.StateBefore(inc).Reachable(), "C12.1-adjustment-follows-write", name, inc.Pos(), "unreachable when the preceding "+wantKind+" failed",
		"the counter is adjusted even when the preceding "+wantKind+" returned an error")
}

// totalLoweredForUnreadyPodOnly: status.replicas-- outside the census stands after the delete of a pod that the
// facts show not to be Running, so the census has not counted it as ready and readyReplicas <= replicas survives.
func (c *Ctx) totalLoweredForUnreadyPodOnly(r *Reconcile, stmt, at ast.Node, st gf.State, name string) {
	const rule = "C12.1-total-lowered-for-an-unready-pod-only"
	var prev *ast.CallExpr
	for _, w := range c.podWrites(r) {
		if w.kind == "delete" && w.call.Pos() < at.Pos() && (prev == nil || w.call.Pos() > prev.Pos()) &&
			innermostLoop(r.FI.Decl.Body, w.call) == innermostLoop(r.FI.Decl.Body, at) {
			prev = w.call
		}
	}
	if prev == nil {
		c.Bad(rule, name, stmt.Pos(), "the total is lowered with no pod delete before it in the same loop")
		return
	}
	f := c.Want(r.Fn, prev.Pos(), `$1.Status.Phase != "Running"`, prev.Args[1])
	if good, wit := st.Implies(f); good {
		c.OK(rule, name, stmt.Pos(), "facts imply "+f.String()+": the census did not count this pod as ready")
	} else {
		c.Bad(rule, name, stmt.Pos(), "status.replicas is lowered for "+types.ExprString(prev.Args[1])+", which may be Running and Ready: the census counted it in readyReplicas, nothing takes it out again, and the status written has readyReplicas > replicas (and the completion rule may fire for a pass that saw an old or unready pod); facts on one path: "+clip(wit, 400))
	}
}

func isIfInit(body *ast.BlockStmt, as *ast.AssignStmt) bool {
	found := false
	ast.Inspect(body, func(n ast.Node) bool {
		if ifs, ok := n.(*ast.IfStmt); ok && ifs.Init == ast.Stmt(as) {
			found = true
		}
		return true
	})
	return found
}

// nextReturnReturnsErr: every return reachable right after inc returns the error variable defined by as.
func (c *Ctx) nextReturnReturnsErr(r *Reconcile, inc ast.Node, as *ast.AssignStmt) bool {
	fn, an := r.Fn, r.An
	errID, _ := as.Lhs[len(as.Lhs)-1].(*ast.Ident)
	if errID == nil {
		return false
	}
	// stop at returns: which returns are reached from inc without passing another return
	aF := fn.FromAfter(inc, an.StateAfter(inc))
	ok := true
	seen := 0
	ast.Inspect(r.FI.Decl.Body, func(n ast.Node) bool {
		ret, isRet := n.(*ast.ReturnStmt)
		if !isRet || !aF.StateBefore(ret).Reachable() {
			return true
		}
		seen++
		last := ret.Results[len(ret.Results)-1]
		if fn.Term(last).Key() != fn.Term(errID).Key() {
			ok = false
		}
		return true
	})
	return ok && seen > 0
}

func innermostLoop(body *ast.BlockStmt, n ast.Node) ast.Stmt {
	var best ast.Stmt
	ast.Inspect(body, func(x ast.Node) bool {
		if x == nil {
			return true
		}
		if !contains(x, n) {
			return false
		}
		switch l := x.(type) {
		case *ast.ForStmt:
			best = l
		case *ast.RangeStmt:
			best = l
		}
		return true
	})
	return best
}

// currentRevisionChoice: in the function that picks the revisions, the current
// revision is the listed revision whose name equals the stored status, else
// (only when none was found) the update revision.
func (c *Ctx) currentRevisionChoice() {
	fi := c.Func(load.CtrlPkg, "defaultStatefulSetControl.getStatefulSetRevisions")
	if fi == nil {
		return
	}
	fn, anPlain := c.Analysis(fi)
	fn.KeepDead = true
	an := fn.Analyze(nil)
	fn.KeepDead = false
	info := fi.Pkg.TypesInfo
	var setParam *ast.Ident
	for _, pf := range fi.Decl.Type.Params.List {
		for _, pn := range pf.Names {
			if isNamed(info.TypeOf(pn), load.APIPkg, "StatefulSet") {
				setParam = pn
			}
		}
	}
	if setParam == nil || len(fi.Decl.Type.Params.List) < 2 {
		c.Fail("getStatefulSetRevisions: parameters not resolved")
		return
	}
	revs := fi.Decl.Type.Params.List[1].Names[0]
	revsKey := gf.Var(info.ObjectOf(revs)).Key()
	stored := c.WantTerm(fn, fi.Decl.Body.Lbrace+1, "$1.Status.CurrentRevision", setParam)
	// Decided on what is returned, path by path at every successful return (first result: current revision,
	// second: update revision): the current revision is a listed revision named by the stored
	// status.currentRevision, or it is the update revision (nothing found); and once a listed revision with that
	// name has been seen, the fall-back to the update revision is no longer reachable.
	type okRet struct {
		ret      *ast.ReturnStmt
		curE     ast.Expr
		cur, upd *gf.Term
	}
	shape := c.chooser()
	var rets []okRet
	ast.Inspect(fi.Decl.Body, func(n ast.Node) bool {
		if _, isLit := n.(*ast.FuncLit); isLit {
			return false
		}
		ret, ok := n.(*ast.ReturnStmt)
		if !ok || shape == nil {
			return true
		}
		curE, updE := shape.results(info, ret)
		if curE == nil {
			return true
		}
		rets = append(rets, okRet{ret, curE, fn.Term(curE), fn.Term(updE)})
		return true
	})
	c.Floor("C12.3-current-revision-choice", len(rets), 1)
	named := func(t *gf.Term) *gf.Formula {
		return gf.FEq(gf.Field(gf.Field(t, "ObjectMeta", nil), "Name", nil), stored)
	}
	// the places where the returned current revision gets its value: a return of an expression, or the
	// assignments of the returned variable. Each is judged where it happens (later calls may forget field facts).
	type valueSite struct {
		node  ast.Node
		val   *gf.Term
		after bool
		upd   *gf.Term
		name  string
	}
	var sites []valueSite
	var fallbacks []ast.Node
	seenVar := map[types.Object]bool{}
	for i, r := range rets {
		id, isID := ast.Unparen(r.curE).(*ast.Ident)
		if r.cur.Key() == r.upd.Key() {
			fallbacks = append(fallbacks, r.ret)
			c.OK("C12.3-current-revision-choice", fmt.Sprintf("%s: return[%d] %s", fi.Obj.Name(), i, types.ExprString(r.curE)), r.ret.Pos(), "the update revision (nothing found)")
			continue
		}
		if !isID {
			sites = append(sites, valueSite{r.ret, r.cur, false, r.upd, fmt.Sprintf("%s: return[%d] %s", fi.Obj.Name(), i, types.ExprString(r.curE))})
			continue
		}
		v := info.ObjectOf(id)
		if seenVar[v] {
			continue
		}
		seenVar[v] = true
		nAs := 0
		ast.Inspect(fi.Decl.Body, func(x ast.Node) bool {
			as, ok := x.(*ast.AssignStmt)
			if !ok || len(as.Lhs) != 1 || len(as.Rhs) != 1 {
				return true
			}
			lid, ok := as.Lhs[0].(*ast.Ident)
			if !ok || info.ObjectOf(lid) != v {
				return true
			}
			nAs++
			nm := fmt.Sprintf("%s: %s = %s", fi.Obj.Name(), v.Name(), clip(types.ExprString(as.Rhs[0]), 60))
			if fn.Term(as.Rhs[0]).Key() == r.upd.Key() {
				fallbacks = append(fallbacks, as)
				c.Implies(an.StateBefore(as), gf.FNil(gf.Var(v)), "C12.3-current-revision-choice", nm, as.Pos())
				return true
			}
			sites = append(sites, valueSite{as, gf.Var(v), true, r.upd, nm})
			return true
		})
		if nAs == 0 {
			sites = append(sites, valueSite{r.ret, r.cur, false, r.upd, fmt.Sprintf("%s: return[%d] %s", fi.Obj.Name(), i, id.Name)})
		}
	}
	for _, vs := range sites {
		st := an.StateBefore(vs.node)
		if vs.after {
			st = anPlain.StateAfter(vs.node)
		}
		okAll, okListed := st.Reachable(), true
		var wit string
		for _, d := range st.D {
			one := gf.State{D: []*gf.Disj{d}}
			if z, _ := one.Implies(gf.FNil(vs.val)); z {
				continue
			}
			if same, _ := one.Implies(gf.FEq(vs.val, vs.upd)); same {
				continue
			}
			if g, _ := one.Implies(named(vs.val)); !g {
				okAll, wit = false, d.String()
			}
			cell := cellTermOf(one, vs.val)
			if cell == nil || cell.A[0].Key() != revsKey {
				okListed = false
			}
		}
		if okAll {
			c.OK("C12.3-current-revision-choice", vs.name, vs.node.Pos(), "on every path the value is nil, the update revision, or a revision named by the stored status.currentRevision")
		} else {
			c.Bad("C12.3-current-revision-choice", vs.name, vs.node.Pos(), "a path gives the current revision a value that is neither the update revision nor named by the stored status.currentRevision: "+clip(wit, 600))
		}
		c.Check(okListed, "C12.3-current-revision-choice-listed", vs.name, vs.node.Pos(), "chosen from the listed revisions", "the current revision is not one of the listed revisions")
	}
	// found means used: from a test `<listed revision>.Name == set.Status.CurrentRevision` that holds, the fall-back to
	// the update revision is not reachable any more
	nTests := 0
	for _, b := range fn.CFG.Blocks {
		if !b.Live {
			continue
		}
		cond := fn.Cond(b)
		if cond == nil {
			continue
		}
		be, ok := ast.Unparen(cond).(*ast.BinaryExpr)
		if !ok || be.Op != token.EQL {
			continue
		}
		es := an.EdgeStates(b)
		if len(es) == 0 || !es[0].Reachable() {
			continue
		}
		isTest := false
		for _, pair := range [][2]ast.Expr{{be.X, be.Y}, {be.Y, be.X}} {
			lt, rt := fn.Term(pair[0]), fn.Term(pair[1])
			if lt.K == 'f' && lt.S == "Name" && fieldBase(lt, "Name") != nil && isNamed(info.TypeOf(pair[0]), "", "") == false {
				// the other side is the stored name (as written, or a helper's parameter bound to it)
				if rt.Key() == stored.Key() {
					isTest = true
				} else if same, _ := es[0].Implies(gf.FEq(rt, stored)); same {
					isTest = true
				}
			}
		}
		if !isTest {
			continue
		}
		nTests++
		aT := fn.FromBlock(b.Succs[0], es[0])
		for _, fb := range fallbacks {
			c.Check(!aT.StateBefore(fb).Reachable(), "C12.3-found-means-used", fmt.Sprintf("%s: fall-back at %s after a listed revision with the stored name was found", fi.Obj.Name(), c.P.Pos(fb.Pos())), fb.Pos(),
				"unreachable once a listed revision named by status.currentRevision has been found", "the current revision can fall back to the update revision although a listed revision carries the stored name")
		}
	}
	c.Floor("C12.3-current-revision-name-tests", nTests, 1)
}

// statusWriteGuard: C12.4
func (c *Ctx) statusWriteGuard() {
	m := ifaceMethod(c.P, load.CtrlPkg, "StatefulSetStatusUpdaterInterface", "UpdateStatefulSetStatus")
	if m == nil {
		c.Fail("StatefulSetStatusUpdaterInterface.UpdateStatefulSetStatus does not resolve")
		return
	}
	n := 0
	for _, fi := range c.P.Funcs() {
		if fi.Pkg.PkgPath != load.CtrlPkg {
			continue
		}
		info := fi.Pkg.TypesInfo
		for _, call := range callsIn(fi.Decl.Body, true) {
			if gf.StaticCallee(info, call) != m {
				continue
			}
			n++
			fn, an := c.Analysis(fi)
			name := siteName(fi.Obj.Name(), "UpdateStatefulSetStatus", n-1, nil)
			// the set whose stored status is compared: the function's StatefulSet parameter; the new status: argument 1
			var setParam *ast.Ident
			for _, pf := range fi.Decl.Type.Params.List {
				for _, pn := range pf.Names {
					if isNamed(info.TypeOf(pn), load.APIPkg, "StatefulSet") {
						setParam = pn
					}
				}
			}
			if setParam == nil {
				c.Bad("C12.4-write-only-when-changed", name, call.Pos(), "status write in a function without the set at hand")
				continue
			}
			status := call.Args[1]
			slots := []string{
				`$2.ObservedGeneration > $1.Status.ObservedGeneration`,
				`$2.Replicas != $1.Status.Replicas`,
				`$2.CurrentReplicas != $1.Status.CurrentReplicas`,
				`$2.ReadyReplicas != $1.Status.ReadyReplicas`,
				`$2.UpdatedReplicas != $1.Status.UpdatedReplicas`,
				`$2.CurrentRevision != $1.Status.CurrentRevision`,
				`$2.UpdateRevision != $1.Status.UpdateRevision`,
			}
			// the guard in force at the write. `set` may have been replaced by a deep copy just before the call:
			// take the facts before the statement that re-assigns it, if any.
			at := ast.Node(call)
			ast.Inspect(fi.Decl.Body, func(x ast.Node) bool {
				if as, ok := x.(*ast.AssignStmt); ok && len(as.Lhs) == 1 && as.Pos() < call.Pos() {
					if id, ok := as.Lhs[0].(*ast.Ident); ok && info.ObjectOf(id) == info.ObjectOf(setParam) {
						at = as
					}
				}
				return true
			})
			st := an.StateBefore(at)
			var all []*gf.Formula
			for _, sl := range slots {
				all = append(all, c.Want(fn, at.Pos(), sl, setParam, status))
			}
			c.Implies(st, gf.Or(all...), "C12.4-write-only-when-changed", name, call.Pos())
			// every slot alone must be enough to pass the guard: the negation of the guard must exclude each slot
			guardFalse := c.guardFalseStates(fi, fn, an, at)
			for i, sl := range all {
				okSlot := true
				for _, gs := range guardFalse {
					if gs.ConsistentWith(sl) {
						okSlot = false
					}
				}
				c.Check(okSlot && len(guardFalse) > 0, "C12.4-change-predicate-slot", fmt.Sprintf("%s slot[%d] %s", name, i, sl.String()), call.Pos(),
					"a change of this field alone reaches the status write", "a change of this field alone does not reach the status write (the no-op return is still possible)")
			}
		}
	}
	c.Floor("C12.4-status-write-sites", n, 1)
}

// guardFalseStates: the states of the success returns that skip the write (returns before `at`).
func (c *Ctx) guardFalseStates(fi *load.FuncInfo, fn *gf.Fn, an *gf.Analysis, at ast.Node) []gf.State {
	// the no-op exits: returns of a nil error that are reachable without passing the status write
	// (wherever they stand in the text)
	var out []gf.State
	info := fi.Pkg.TypesInfo
	if len(fi.Decl.Body.List) == 0 {
		return nil
	}
	aU := fn.FromUntil(fi.Decl.Body.List[0], gf.TrueState(), at)
	ast.Inspect(fi.Decl.Body, func(n ast.Node) bool {
		ret, ok := n.(*ast.ReturnStmt)
		if !ok || len(ret.Results) == 0 || contains(ret, at) {
			return true
		}
		if isNilExpr(info, ret.Results[len(ret.Results)-1]) {
			if st := aU.StateBefore(ret); st.Reachable() {
				out = append(out, st)
			}
		}
		return true
	})
	return out
}
