package rules

import (
	"fmt"
	"go/ast"
	"go/types"
	yaml "gopkg.in/yaml.v3"
	"os"
	"path/filepath"
	"reflect"
	"sort"
	"strings"

	"asverif/internal/gf"
	"asverif/internal/load"
)

func init() {
	register(&Property{
		ID:    "C18",
		Title: "Migration keeps pods running: revision identity equals the built-in controller's",
		Run:   runC18,
		Explanation: "Decides the necessary conditions C18.1-C18.4 of DESIGN.md: (1) spec.template has the identical Go type (core/v1 PodTemplateSpec) under the identical JSON path spec.template, without omitempty on template, in the Advanced and the built-in type, and the whole spec agrees field by field (C19.1), so the encoded sub-tree the patch is cut from is produced by the same marshaller; " +
			"(2) the revision data is a projection of spec.template plus the constant \"$patch\":\"replace\" (C08.1) and revision equality is byte equality of the data; (3) the upgrade marker written by the upgrade helper, selected by the revision lister and tested by the label-sync predicate is one constant, with the set's name as value on both sides; " +
			"(4) the lister contains the marker-selector List, the label sync precedes the adoption call, copies the template labels and issues ControllerRevisions.Update. (5) the CRD stores spec.template unpruned (the node and every node below it that declares properties preserve unknown fields); a candidate that clashes by name with an equal revision is that revision, never a collision (C08.4). NOT decided: byte identity with the upstream controller's encoder for all templates (the upstream source is not in this sandbox).",
	})
}

func runC18(c *Ctx) {
	// (1) template type and path
	for _, pkg := range []string{load.APIPkg, "k8s.io/api/apps/v1"} {
		tn, _ := c.P.Lookup(pkg, "StatefulSet").(*types.TypeName)
		if tn == nil {
			c.Fail("StatefulSet does not resolve in %s", pkg)
			return
		}
		st := tn.Type().Underlying().(*types.Struct)
		okSpec, okTmpl := false, false
		for i := 0; i < st.NumFields(); i++ {
			if st.Field(i).Name() != "Spec" {
				continue
			}
			tag := reflect.StructTag(st.Tag(i)).Get("json")
			okSpec = strings.Split(tag, ",")[0] == "spec"
			sst := st.Field(i).Type().Underlying().(*types.Struct)
			for j := 0; j < sst.NumFields(); j++ {
				if sst.Field(j).Name() != "Template" {
					continue
				}
				t2 := reflect.StructTag(sst.Tag(j)).Get("json")
				okTmpl = t2 == "template" && types.TypeString(sst.Field(j).Type(), nil) == "k8s.io/api/core/v1.PodTemplateSpec"
			}
		}
		c.Check(okSpec && okTmpl, "C18.1-template-type-and-path", pkg+".StatefulSet.Spec.Template", 0, "core/v1.PodTemplateSpec at JSON path spec.template, template without omitempty",
			"the pod template is not core/v1.PodTemplateSpec at spec.template (or may be omitted): the encoded template differs from the built-in controller's")
	}
	n := len(c.Obs)
	tc := c.typeAgreement("C18.1")
	_ = tc
	// keep only the Spec sub-tree obligations
	var keep []*Ob
	for _, o := range c.Obs[n:] {
		if strings.HasPrefix(o.Construct, "StatefulSet.Spec") {
			keep = append(keep, o)
		}
	}
	c.Obs = append(c.Obs[:n], keep...)
	c.templateStoredUnpruned()
	// (2) patch shape and equality
	c.patchProjection("C18.2")
	c.equalityReadsDataOnly("C18.2")
	// a candidate revision that clashes by name with an existing revision of equal data is that revision
	// (returned, never counted as a collision): this is what re-uses the built-in revisions before their
	// owner references are rewritten
	c.createLoop()
	// (3) marker agreement
	marker, _ := c.P.Lookup(load.HelperPkg, "UpgradeToAdvancedStatefulSetAnn").(*types.Const)
	if marker == nil {
		c.Fail("upgrade marker constant does not resolve")
		return
	}
	uses := map[string][]string{}
	for _, fi := range c.P.Funcs() {
		info := fi.Pkg.TypesInfo
		// the function's own body and the bodies of the helpers expanded into it
		for _, bd := range c.E.FnOf(fi).Bodies() {
			ast.Inspect(bd, func(x ast.Node) bool {
				if id, ok := x.(*ast.Ident); ok && info.Uses[id] == marker {
					uses[fi.Obj.Name()] = append(uses[fi.Obj.Name()], c.P.Pos(id.Pos()))
				}
				return true
			})
		}
	}
	for _, want := range []string{"Upgrade", "ListRevisions", "shouldSyncLabels"} {
		c.Check(len(uses[want]) > 0, "C18.3-marker-agreement", want+": uses helper.UpgradeToAdvancedStatefulSetAnn", 0, "refers to the one marker constant", want+" does not use the shared upgrade-marker constant: writer and reader can disagree")
	}
	// values: Upgrade writes sts.Name (C17.2-relabel-sets-marker), ListRevisions selects set.Name
	if lr := c.Func(load.CtrlPkg, "defaultStatefulSetControl.ListRevisions"); lr != nil {
		fn := c.E.FnOf(lr)
		info := lr.Pkg.TypesInfo
		sets := paramsOfType(lr, load.APIPkg, "StatefulSet")
		ok := false
		ast.Inspect(lr.Decl.Body, func(x ast.Node) bool {
			if kv, isKV := x.(*ast.KeyValueExpr); isKV {
				if id := identOfSel(kv.Key); id != nil && info.Uses[id] == marker && len(sets) == 1 {
					if fn.Term(kv.Value).Key() == c.WantTerm(fn, kv.Pos(), "$1.Name", sets[0]).Key() {
						ok = true
					}
				}
			}
			return true
		})
		c.Check(ok, "C18.3-marker-value", "ListRevisions: marker selector value", lr.Decl.Pos(), "selects marker == set.Name, the value the upgrade helper writes", "the lister does not select the marker by the set's name")
		// the selector feeds a List call
		nList := 0
		for _, s := range c.sitesOf(lr) {
			if s.Resource == "controllerrevisions" && s.Verb == "List" {
				nList++
			}
		}
		c.Check(nList >= 2, "C18.4-marked-revisions-listed", "ListRevisions: List calls", lr.Decl.Pos(), "selector List and marker List", "the revisions carrying the upgrade marker are not listed")
	}
	// (4) sync before adopt, sync copies template labels and updates
	if ao := c.Func(load.CtrlPkg, "StatefulSetController.adoptOrphanRevisions"); ao != nil {
		fn, _ := c.Analysis(ao)
		info := ao.Pkg.TypesInfo
		var syncCall, adoptCall *ast.CallExpr
		m := ifaceMethod(c.P, load.CtrlPkg, "StatefulSetControlInterface", "AdoptOrphanRevisions")
		sl := c.Func(load.CtrlPkg, "syncLabels")
		ssl := c.Func(load.CtrlPkg, "shouldSyncLabels")
		for _, call := range callsIn(ao.Decl.Body, false) {
			f := gf.StaticCallee(info, call)
			if f == m {
				adoptCall = call
			}
			if sl != nil && f != nil && f.Origin() == sl.Obj {
				syncCall = call
			}
		}
		ok := false
		if syncCall != nil && adoptCall != nil {
			// the sync loop is a statement of the same block before the adoption
			blk := enclosingBlock(ao.Decl.Body, adoptCall)
			is, ia := -1, -1
			for i, s := range blk.List {
				if contains(s, syncCall) {
					is = i
				}
				if contains(s, adoptCall) {
					ia = i
				}
			}
			ok = is >= 0 && is < ia
			// the sync is applied to every revision with the marker: range over all listed revisions, guarded only by shouldSyncLabels
			if loop, isR := innermostLoop(ao.Decl.Body, syncCall).(*ast.RangeStmt); isR && ssl != nil {
				cell := loopCell(loop)
				_, an := c.Analysis(ao)
				if cell != nil {
					start := loop.Body.List[0]
					want := gf.FBool(gf.CallT(ssl.Obj.FullName(), types.Typ[types.Bool], fn.Term(cell)))
					_ = want
					pred := c.E.Canon.Formula(info, &ast.CallExpr{Fun: &ast.Ident{Name: "shouldSyncLabels"}, Args: []ast.Expr{cell}})
					_ = pred
					aU := fn.FromUntil(start, an.StateBefore(start).Assume(c.Want(fn, loop.Body.Pos(), "shouldSyncLabels($1)", cell)), syncCall)
					if head := loopHead(fn, loop); head != nil && aU.BlockReached(head) {
						ok = false
					}
				} else {
					ok = false
				}
			} else {
				ok = false
			}
		}
		c.Check(ok, "C18.4-sync-before-adopt", "adoptOrphanRevisions", ao.Decl.Pos(), "every marked revision is label-synced before the adoption call", "marked revisions are not all label-synced before adoption")
	}
	if sl := c.Func(load.CtrlPkg, "syncLabels"); sl != nil {
		fn, _ := c.Analysis(sl)
		info := sl.Pkg.TypesInfo
		sets := paramsOfType(sl, load.APIPkg, "StatefulSet")
		revs := paramsOfType(sl, "k8s.io/api/apps/v1", "ControllerRevision")
		copied, updated := false, false
		if len(sets) == 1 && len(revs) == 1 {
			ast.Inspect(sl.Decl.Body, func(x ast.Node) bool {
				if rs, ok := x.(*ast.RangeStmt); ok && fn.Term(rs.X).Key() == c.WantTerm(fn, rs.Pos(), "$1.Spec.Template.Labels", sets[0]).Key() {
					for _, s := range rs.Body.List {
						if as, ok := s.(*ast.AssignStmt); ok && len(as.Lhs) == 1 {
							if ix, ok := as.Lhs[0].(*ast.IndexExpr); ok && fn.Term(ix.Index).Key() == fn.Term(rs.Key).Key() && fn.Term(as.Rhs[0]).Key() == fn.Term(rs.Value).Key() {
								copied = true
							}
						}
					}
				}
				return true
			})
			for _, s := range c.G.Sites {
				if s.Fn == sl.Obj && s.Resource == "controllerrevisions" && s.Verb == "Update" && fn.Term(s.Call.Args[1]).Key() == fn.Term(revs[0]).Key() {
					updated = true
				}
			}
		}
		_ = info
		c.Check(copied && updated, "C18.4-sync-copies-template-labels", "syncLabels", sl.Decl.Pos(), "copies every template label onto the revision and issues ControllerRevisions.Update for it", "the label sync does not copy the template labels or does not write the revision")
	}
	if ssl := c.Func(load.CtrlPkg, "shouldSyncLabels"); ssl != nil {
		// true exactly when the marker key is present
		fn := c.E.FnOf(ssl)
		fn.KeepDead = true
		an := fn.Analyze(nil)
		fn.KeepDead = false
		info := ssl.Pkg.TypesInfo
		ok := true
		nTrue := 0
		ast.Inspect(ssl.Decl.Body, func(x ast.Node) bool {
			ret, isRet := x.(*ast.ReturnStmt)
			if !isRet || len(ret.Results) != 1 || fn.Formula(ret.Results[0]) != gf.True {
				return true
			}
			nTrue++
			// dominated by `_, ok := labels[marker]; ok`
			found := false
			p := pathTo(ssl.Decl.Body, ret)
			for j := len(p) - 1; j >= 0; j-- {
				if ifs, isIf := p[j].(*ast.IfStmt); isIf && ifs.Init != nil {
					if ias, isAs := ifs.Init.(*ast.AssignStmt); isAs && len(ias.Lhs) == 2 {
						if ix, isIx := ias.Rhs[0].(*ast.IndexExpr); isIx {
							if id := identOfSel(ix.Index); id != nil && info.Uses[id] == marker {
								if good, _ := an.StateBefore(ret).Implies(gf.FBool(fn.Term(ias.Lhs[1]))); good {
									found = true
								}
							}
						}
					}
				}
			}
			if !found {
				ok = false
			}
			return true
		})
		c.Check(ok && nTrue == 1, "C18.3-sync-predicate", "shouldSyncLabels", ssl.Decl.Pos(), "true exactly when the revision carries the upgrade marker label", "the label-sync predicate does not test the upgrade marker")
	}
	_ = fmt.Sprint
}

func identOfSel(e ast.Expr) *ast.Ident {
	switch x := ast.Unparen(e).(type) {
	case *ast.Ident:
		return x
	case *ast.SelectorExpr:
		return x.Sel
	}
	return nil
}

// templateStoredUnpruned: the API server stores spec.template exactly as submitted. In a structural
// schema a node that declares properties prunes every field it does not list unless it carries
// x-kubernetes-preserve-unknown-fields: true, so the template node and every node below it that
// declares properties must carry the marker; otherwise the stored template differs from the built-in
// one and the revision data no longer compares equal after a migration.
func (c *Ctx) templateStoredUnpruned() {
	b, err := os.ReadFile(filepath.Join(c.P.Repo, "manifests", "crd.v1.yaml"))
	if err != nil {
		c.Fail("cannot read the CRD: %v", err)
		return
	}
	var doc map[string]interface{}
	if err := yaml.Unmarshal(b, &doc); err != nil {
		c.Fail("cannot parse the CRD: %v", err)
		return
	}
	get := func(m interface{}, path ...string) interface{} {
		cur := m
		for _, p := range path {
			mm, ok := cur.(map[string]interface{})
			if !ok {
				return nil
			}
			cur = mm[p]
		}
		return cur
	}
	versions, _ := get(doc, "spec", "versions").([]interface{})
	n := 0
	for _, v := range versions {
		vm, _ := v.(map[string]interface{})
		if served, _ := vm["served"].(bool); !served {
			continue
		}
		vname, _ := vm["name"].(string)
		for _, field := range []string{"template"} {
			node, _ := get(vm, "schema", "openAPIV3Schema", "properties", "spec", "properties", field).(map[string]interface{})
			name := fmt.Sprintf("manifests/crd.v1.yaml: version %s spec.%s", vname, field)
			if node == nil {
				c.Bad("C18.1-template-stored-unpruned", name, 0, "the schema has no spec."+field+" node")
				continue
			}
			n++
			var bad []string
			var walk func(path string, s map[string]interface{})
			walk = func(path string, s map[string]interface{}) {
				keep, _ := s["x-kubernetes-preserve-unknown-fields"].(bool)
				props, hasProps := s["properties"].(map[string]interface{})
				if (path == "" || hasProps) && !keep {
					bad = append(bad, "spec."+field+path)
				}
				for k, p := range props {
					if pm, ok := p.(map[string]interface{}); ok {
						walk(path+"."+k, pm)
					}
				}
				if items, ok := s["items"].(map[string]interface{}); ok {
					walk(path+"[]", items)
				}
			}
			walk("", node)
			sort.Strings(bad)
			c.Check(len(bad) == 0, "C18.1-template-stored-unpruned", name, 0, "the node and every node below it that declares properties preserve unknown fields: nothing of the pod template is pruned",
				"the API server prunes fields of the pod template at "+strings.Join(bad, ", ")+": the stored template (and the revision data computed from it) differs from the submitted one")
		}
	}
	c.Floor("C18.1-template-schema-nodes", n, 1)
}
