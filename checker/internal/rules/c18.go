package rules

import (
	"fmt"
	"go/ast"
	"go/token"
	"go/types"
	yaml "gopkg.in/yaml.v3"
	"os"
	"path/filepath"
	"reflect"
	"sort"
	"strings"

	"asverif/internal/gf"
	"asverif/internal/load"
)

func init() {
	register(&Property{
		ID:    "C18",
		Title: "Migration keeps pods running: revision identity equals the built-in controller's",
		Run:   runC18,
		Explanation: "Decides the necessary conditions C18.1-C18.4 of DESIGN.md: (1) spec.template has the identical Go type (core/v1 PodTemplateSpec) under the identical JSON path spec.template, without omitempty on template, in the Advanced and the built-in type, and the whole spec agrees field by field (C19.1), so the encoded sub-tree the patch is cut from is produced by the same marshaller; " +
			"(2) the revision data is a projection of spec.template plus the constant \"$patch\":\"replace\" (C08.1) and revision equality is byte equality of the data; (3) the upgrade marker written by the upgrade helper, selected by the revision lister and tested by the label-sync predicate is one constant, with the set's name as value on both sides; " +
			"(4) the lister contains the marker-selector List, the label sync precedes the adoption call, copies the template labels and issues ControllerRevisions.Update. (5) the CRD stores spec.template unpruned (the node and every node below it that declares properties preserve unknown fields); a candidate that clashes by name with an equal revision is that revision, never a collision (C08.4). NOT decided: byte identity with the upstream controller's encoder for all templates (the upstream source is not in this sandbox).",
	})
}

func runC18(c *Ctx) {
	// (1) template type and path
	for _, pkg := range []string{load.APIPkg, "k8s.io/api/apps/v1"} {
		tn, _ := c.P.Lookup(pkg, "StatefulSet").(*types.TypeName)
		if tn == nil {
			c.Fail("StatefulSet does not resolve in %s", pkg)
			return
		}
		st := tn.Type().Underlying().(*types.Struct)
		okSpec, okTmpl := false, false
		for i := 0; i < st.NumFields(); i++ {
			if st.Field(i).Name() != "Spec" {
				continue
			}
			tag := reflect.StructTag(st.Tag(i)).Get("json")
			okSpec = strings.Split(tag, ",")[0] == "spec"
			sst := st.Field(i).Type().Underlying().(*types.Struct)
			for j := 0; j < sst.NumFields(); j++ {
				if sst.Field(j).Name() != "Template" {
					continue
				}
				t2 := reflect.StructTag(sst.Tag(j)).Get("json")
				okTmpl = t2 == "template" && types.TypeString(sst.Field(j).Type(), nil) == "k8s.io/api/core/v1.PodTemplateSpec"
			}
		}
		c.Check(okSpec && okTmpl, "C18.1-template-type-and-path", pkg+".StatefulSet.Spec.Template", 0, "core/v1.PodTemplateSpec at JSON path spec.template, template without omitempty",
			"the pod template is not core/v1.PodTemplateSpec at spec.template (or may be omitted): the encoded template differs from the built-in controller's")
	}
	n := len(c.Obs)
	tc := c.typeAgreement("C18.1")
	_ = tc
	// keep only the Spec sub-tree obligations
	var keep []*Ob
	for _, o := range c.Obs[n:] {
		if strings.HasPrefix(o.Construct, "StatefulSet.Spec") {
			keep = append(keep, o)
		}
	}
	c.Obs = append(c.Obs[:n], keep...)
	c.templateStoredUnpruned()
	// (2) patch shape and equality
	c.patchProjection("C18.2")
	c.equalityReadsDataOnly("C18.2")
	// a candidate revision that clashes by name with an existing revision of equal data is that revision
	// (returned, never counted as a collision): this is what re-uses the built-in revisions before their
	// owner references are rewritten
	c.createLoop()
	// (3) marker agreement
	marker, _ := c.P.Lookup(load.HelperPkg, "UpgradeToAdvancedStatefulSetAnn").(*types.Const)
	if marker == nil {
		c.Fail("upgrade marker constant does not resolve")
		return
	}
	uses := map[string][]string{}
	for _, fi := range c.P.Funcs() {
		info := fi.Pkg.TypesInfo
		// the function's own body and the bodies of the helpers expanded into it
		for _, bd := range c.E.FnOf(fi).Bodies() {
			ast.Inspect(bd, func(x ast.Node) bool {
				if id, ok := x.(*ast.Ident); ok && info.Uses[id] == marker {
					uses[fi.Obj.Name()] = append(uses[fi.Obj.Name()], c.P.Pos(id.Pos()))
				}
				return true
			})
		}
	}
	gateFn := "shouldSyncLabels"
	if c.P.Func(load.CtrlPkg, gateFn) == nil && c.renames()[load.CtrlPkg+"|"+gateFn] == nil {
		gateFn = "adoptOrphanRevisions" // the marker test is written out where the labels are synced
	}
	for _, want := range []string{"Upgrade", "ListRevisions", gateFn} {
		c.Check(len(uses[want]) > 0, "C18.3-marker-agreement", want+": uses helper.UpgradeToAdvancedStatefulSetAnn", 0, "refers to the one marker constant", want+" does not use the shared upgrade-marker constant: writer and reader can disagree")
	}
	// values: Upgrade writes sts.Name (C17.2-relabel-sets-marker), ListRevisions selects set.Name
	if lr := c.Func(load.CtrlPkg, "defaultStatefulSetControl.ListRevisions"); lr != nil {
		fn := c.E.FnOf(lr)
		info := lr.Pkg.TypesInfo
		sets := paramsOfType(lr, load.APIPkg, "StatefulSet")
		ok := false
		ast.Inspect(lr.Decl.Body, func(x ast.Node) bool {
			if kv, isKV := x.(*ast.KeyValueExpr); isKV {
				if id := identOfSel(kv.Key); id != nil && info.Uses[id] == marker && len(sets) == 1 {
					if fn.Term(kv.Value).Key() == c.WantTerm(fn, kv.Pos(), "$1.Name", sets[0]).Key() {
						ok = true
					}
				}
			}
			return true
		})
		c.Check(ok, "C18.3-marker-value", "ListRevisions: marker selector value", lr.Decl.Pos(), "selects marker == set.Name, the value the upgrade helper writes", "the lister does not select the marker by the set's name")
		// the selector feeds a List call
		nList := 0
		for _, s := range c.sitesOf(lr) {
			if s.Resource == "controllerrevisions" && s.Verb == "List" {
				nList++
			}
		}
		c.Check(nList >= 2, "C18.4-marked-revisions-listed", "ListRevisions: List calls", lr.Decl.Pos(), "selector List and marker List", "the revisions carrying the upgrade marker are not listed")
		// both listings happen on every successful call: a return reached without one of them carries an error. (A marker
		// listing that is made only when the selector listing is empty misses the marked revisions that are left after
		// an interrupted label sync, or beside a foreign revision that matches the selector.)
		if len(lr.Decl.Body.List) > 0 {
			k := 0
			for _, s := range c.sitesOf(lr) {
				if s.Resource != "controllerrevisions" || s.Verb != "List" {
					continue
				}
				k++
				aU := fn.FromUntil(lr.Decl.Body.List[0], gf.TrueState(), s.Top)
				good := true
				ownNodes(lr.Decl.Body, func(x ast.Node) {
					ret, ok := x.(*ast.ReturnStmt)
					if !ok || len(ret.Results) == 0 {
						return
					}
					st := aU.StateBefore(ret)
					if !st.Reachable() {
						return
					}
					if g, _ := st.Implies(gf.FNotNil(fn.Term(ret.Results[len(ret.Results)-1]))); !g {
						good = false
					}
				})
				c.Check(good, "C18.4-both-listings-on-every-call", fmt.Sprintf("ListRevisions: List #%d", k), s.Call.Pos(), "no successful return is reachable without this listing", "a successful return is reachable without this listing having been made: revisions only it would find are missing from the history")
			}
		}
	}
	// (4) sync before adopt, sync copies template labels and updates
	if ao := c.Func(load.CtrlPkg, "StatefulSetController.adoptOrphanRevisions"); ao != nil {
		fn, _ := c.Analysis(ao)
		info := ao.Pkg.TypesInfo
		var syncCall, adoptCall *ast.CallExpr
		m := ifaceMethod(c.P, load.CtrlPkg, "StatefulSetControlInterface", "AdoptOrphanRevisions")
		sl := c.Func(load.CtrlPkg, "syncLabels")
		var ssl *load.FuncInfo
		if gateFn == "shouldSyncLabels" {
			ssl = c.Func(load.CtrlPkg, "shouldSyncLabels")
		}
		// the adoption may sit in a helper the engine expands into adoptOrphanRevisions: hostBody is the body holding it
		hostBody := ao.Decl.Body
		for _, bd := range fn.Bodies() {
			for _, call := range callsIn(bd, false) {
				f := gf.StaticCallee(info, call)
				if f == m {
					adoptCall = call
					hostBody = bd
				}
				if sl != nil && f != nil && f.Origin() == sl.Obj {
					syncCall = call
				}
			}
		}
		ok := false
		if syncCall != nil && adoptCall != nil && contains(hostBody, syncCall) {
			// the sync loop is a statement of the same block before the adoption
			blk := enclosingBlock(hostBody, adoptCall)
			is, ia := -1, -1
			for i, s := range blk.List {
				if contains(s, syncCall) {
					is = i
				}
				if contains(s, adoptCall) {
					ia = i
				}
			}
			ok = is >= 0 && is < ia
			// the sync is applied to every revision with the marker: range over all listed revisions, guarded only by shouldSyncLabels
			if loop, isR := innermostLoop(hostBody, syncCall).(*ast.RangeStmt); isR {
				cell := loopCell(loop)
				_, an := c.Analysis(ao)
				head := loopHead(fn, loop)
				switch {
				case cell == nil || head == nil:
					ok = false
				case ssl != nil:
					start := loop.Body.List[0]
					aU := fn.FromUntil(start, an.StateBefore(start).Assume(c.Want(fn, loop.Body.Pos(), "shouldSyncLabels($1)", cell)), syncCall)
					if aU.BlockReached(head) {
						ok = false
					}
				default:
					// no predicate helper: the marker is looked up in the cell's labels in the loop itself. The lookup is
					// passed on every iteration, and with the marker found the iteration does not end without the sync
					var lookup *ast.AssignStmt
					var found ast.Expr
					ownNodes(loop.Body, func(x ast.Node) {
						as, isAs := x.(*ast.AssignStmt)
						if !isAs || len(as.Lhs) != 2 || len(as.Rhs) != 1 {
							return
						}
						if ix, isIx := ast.Unparen(as.Rhs[0]).(*ast.IndexExpr); isIx {
							if id := identOfSel(ix.Index); id != nil && info.Uses[id] == marker {
								if lt := c.TryWantTerm(fn, as.Pos(), "$1.Labels", cell); lt != nil && fn.Term(ix.X).Key() == lt.Key() {
									lookup, found = as, as.Lhs[1]
								}
							}
						}
					})
					if lookup == nil {
						ok = false
						break
					}
					start := loop.Body.List[0]
					if aB := fn.FromUntil(start, an.StateBefore(start), lookup); aB.BlockReached(head) {
						ok = false
					}
					aU := fn.FromAfterUntil(lookup, an.StateAfter(lookup).Assume(gf.FBool(fn.Term(found))), syncCall)
					if aU.BlockReached(head) {
						ok = false
					}
				}
			} else {
				ok = false
			}
		}
		c.Check(ok, "C18.4-sync-before-adopt", "adoptOrphanRevisions", ao.Decl.Pos(), "every marked revision is label-synced before the adoption call", "marked revisions are not all label-synced before adoption")
		if adoptCall != nil {
			c.orphansAllAdopted(ao, hostBody, adoptCall, syncCall)
		}
	}
	c.listingKeepsEveryRevision()
	c.adoptionOnEveryReconcile()
	// "are found": the revisions of a migrated set have no controller until they are adopted; the history lister keeps them
	c.withOnly(map[string]string{"C18.4h-unowned-revisions-are-kept": "C18.4-orphan-revisions-stay-in-the-history"}, nil, "C18.4-history-lister", 1, func() { c.listerFilters("C18.4h", "C18.4h-dedup") })
	c.convertedUnmodified("C18.1")
	// the control's adoption patches every revision it is handed: its loop is left early only with an error
	if m := ifaceMethod(c.P, load.CtrlPkg, "StatefulSetControlInterface", "AdoptOrphanRevisions"); m != nil {
		nA := 0
		for _, impl := range c.E.Sum.Impls[m] {
			ifi := c.P.FuncInfoOf(impl)
			if ifi == nil || ifi.Pkg.PkgPath != load.CtrlPkg {
				continue
			}
			ifn, ian := c.Analysis(ifi)
			for _, bd := range ifn.Bodies()[:1] {
				for _, s := range bd.List {
					switch s.(type) {
					case *ast.RangeStmt, *ast.ForStmt:
						nA++
						c.loopLeftOnlyWithError(ifn, ian, s, "C18.4-every-handed-in-orphan-is-patched", ifi.Obj.Name()+": adoption loop")
					}
				}
			}
		}
		c.Floor("C18.4-adoption-loops", nA, 1)
	}
	if sl := c.Func(load.CtrlPkg, "syncLabels"); sl != nil {
		fn, _ := c.Analysis(sl)
		info := sl.Pkg.TypesInfo
		sets := paramsOfType(sl, load.APIPkg, "StatefulSet")
		revs := paramsOfType(sl, "k8s.io/api/apps/v1", "ControllerRevision")
		copied, updated := false, false
		if len(sets) == 1 && len(revs) == 1 {
			ast.Inspect(sl.Decl.Body, func(x ast.Node) bool {
				if rs, ok := x.(*ast.RangeStmt); ok && fn.Term(rs.X).Key() == c.WantTerm(fn, rs.Pos(), "$1.Spec.Template.Labels", sets[0]).Key() {
					for _, s := range rs.Body.List {
						if as, ok := s.(*ast.AssignStmt); ok && len(as.Lhs) == 1 {
							if ix, ok := as.Lhs[0].(*ast.IndexExpr); ok && fn.Term(ix.Index).Key() == fn.Term(rs.Key).Key() && fn.Term(as.Rhs[0]).Key() == fn.Term(rs.Value).Key() {
								copied = true
							}
						}
					}
				}
				return true
			})
			for _, s := range c.G.Sites {
				if s.Fn == sl.Obj && s.Resource == "controllerrevisions" && s.Verb == "Update" && fn.Term(s.Call.Args[1]).Key() == fn.Term(revs[0]).Key() {
					updated = true
				}
			}
		}
		_ = info
		c.Check(copied && updated, "C18.4-sync-copies-template-labels", "syncLabels", sl.Decl.Pos(), "copies every template label onto the revision and issues ControllerRevisions.Update for it", "the label sync does not copy the template labels or does not write the revision")
	}
	if ssl := c.P.Func(load.CtrlPkg, "shouldSyncLabels"); gateFn == "shouldSyncLabels" && (ssl != nil || c.Func(load.CtrlPkg, "shouldSyncLabels") != nil) {
		if ssl == nil {
			ssl = c.Func(load.CtrlPkg, "shouldSyncLabels")
		}
		// the result is true exactly when the marker key is present in the revision's labels: at every return,
		// "result" implies the comma-ok flag of the lookup, and "not result" implies the flag is false or the map is nil
		fn := c.E.FnOf(ssl)
		fn.KeepDead = true
		an := fn.Analyze(nil)
		fn.KeepDead = false
		info := ssl.Pkg.TypesInfo
		var okVar, mapExpr ast.Expr
		for _, bd := range fn.Bodies() {
			ast.Inspect(bd, func(x ast.Node) bool {
				if as, isAs := x.(*ast.AssignStmt); isAs && len(as.Lhs) == 2 && len(as.Rhs) == 1 {
					if ix, isIx := ast.Unparen(as.Rhs[0]).(*ast.IndexExpr); isIx {
						if id := identOfSel(ix.Index); id != nil && info.Uses[id] == marker {
							okVar, mapExpr = as.Lhs[1], ix.X
						}
					}
				}
				return true
			})
		}
		ok := okVar != nil
		nRet := 0
		why := "the predicate has no comma-ok lookup of the upgrade marker"
		if ok {
			present := gf.FBool(fn.Term(okVar))
			absent := gf.Or(gf.Not(present), gf.FNil(fn.Term(mapExpr)))
			ownNodes(ssl.Decl.Body, func(x ast.Node) {
				ret, isRet := x.(*ast.ReturnStmt)
				if !isRet || len(ret.Results) != 1 {
					return
				}
				nRet++
				st := an.StateBefore(ret)
				if !st.Reachable() {
					return
				}
				r := fn.Formula(ret.Results[0])
				if yes := st.Assume(r); yes.Reachable() {
					if g, _ := yes.Implies(present); !g {
						ok = false
						why = "returns true at " + c.P.Pos(ret.Pos()) + " without the marker lookup having succeeded"
					}
				}
				if no := st.Assume(gf.Not(r)); no.Reachable() {
					if g, _ := no.Implies(absent); !g {
						ok = false
						why = "returns false at " + c.P.Pos(ret.Pos()) + " for a revision that may carry the marker: it is never label-synced, so the selector never finds it"
					}
				}
			})
		}
		c.Check(ok && nRet >= 1, "C18.3-sync-predicate", "shouldSyncLabels", ssl.Decl.Pos(), "true exactly when the revision carries the upgrade marker label", "the label-sync predicate is not \"the marker is present\": "+why)
	}
	_ = fmt.Sprint
}

func identOfSel(e ast.Expr) *ast.Ident {
	switch x := ast.Unparen(e).(type) {
	case *ast.Ident:
		return x
	case *ast.SelectorExpr:
		return x.Sel
	}
	return nil
}

// templateStoredUnpruned: the API server stores spec.template exactly as submitted. In a structural
// schema a node that declares properties prunes every field it does not list unless it carries
// x-kubernetes-preserve-unknown-fields: true, so the template node and every node below it that
// declares properties must carry the marker; otherwise the stored template differs from the built-in
// one and the revision data no longer compares equal after a migration.
func (c *Ctx) templateStoredUnpruned() {
	b, err := os.ReadFile(filepath.Join(c.P.Repo, "manifests", "crd.v1.yaml"))
	if err != nil {
		c.Fail("cannot read the CRD: %v", err)
		return
	}
	var doc map[string]interface{}
	if err := yaml.Unmarshal(b, &doc); err != nil {
		c.Fail("cannot parse the CRD: %v", err)
		return
	}
	get := func(m interface{}, path ...string) interface{} {
		cur := m
		for _, p := range path {
			mm, ok := cur.(map[string]interface{})
			if !ok {
				return nil
			}
			cur = mm[p]
		}
		return cur
	}
	versions, _ := get(doc, "spec", "versions").([]interface{})
	n := 0
	for _, v := range versions {
		vm, _ := v.(map[string]interface{})
		if served, _ := vm["served"].(bool); !served {
			continue
		}
		vname, _ := vm["name"].(string)
		for _, field := range []string{"template"} {
			node, _ := get(vm, "schema", "openAPIV3Schema", "properties", "spec", "properties", field).(map[string]interface{})
			name := fmt.Sprintf("manifests/crd.v1.yaml: version %s spec.%s", vname, field)
			if node == nil {
				c.Bad("C18.1-template-stored-unpruned", name, 0, "the schema has no spec."+field+" node")
				continue
			}
			n++
			var bad []string
			var walk func(path string, s map[string]interface{})
			walk = func(path string, s map[string]interface{}) {
				keep, _ := s["x-kubernetes-preserve-unknown-fields"].(bool)
				props, hasProps := s["properties"].(map[string]interface{})
				if (path == "" || hasProps) && !keep {
					bad = append(bad, "spec."+field+path)
				}
				for k, p := range props {
					if pm, ok := p.(map[string]interface{}); ok {
						walk(path+"."+k, pm)
					}
				}
				if items, ok := s["items"].(map[string]interface{}); ok {
					walk(path+"[]", items)
				}
			}
			walk("", node)
			sort.Strings(bad)
			c.Check(len(bad) == 0, "C18.1-template-stored-unpruned", name, 0, "the node and every node below it that declares properties preserve unknown fields: nothing of the pod template is pruned",
				"the API server prunes fields of the pod template at "+strings.Join(bad, ", ")+": the stored template (and the revision data computed from it) differs from the submitted one")
		}
	}
	c.Floor("C18.1-template-schema-nodes", n, 1)
}

// orphansAllAdopted: (a) the slice handed to the adoption holds every listed revision without a controller: it is the
// listing itself, or it is filled by a loop over the listing no iteration of which can end for an orphan without the
// append; (b) once the label sync has started, the function ends in the adoption or in a non-nil error.
func (c *Ctx) orphansAllAdopted(ao *load.FuncInfo, hostBody *ast.BlockStmt, adoptCall, syncCall *ast.CallExpr) {
	fn, an := c.Analysis(ao)
	info := ao.Pkg.TypesInfo
	if len(adoptCall.Args) < 2 {
		c.Unk("C18.4-every-orphan-adopted", "adoptOrphanRevisions", adoptCall.Pos(), "the adoption call has no revisions argument")
		return
	}
	arg := ast.Unparen(adoptCall.Args[1])
	// the listing variable (assigned from ListRevisions in the function or in an expanded helper)
	var listing types.Object
	for _, bd := range fn.Bodies() {
		ownNodes(bd, func(x ast.Node) {
			as, ok := x.(*ast.AssignStmt)
			if !ok || len(as.Rhs) != 1 || len(as.Lhs) != 2 {
				return
			}
			if call, ok := ast.Unparen(as.Rhs[0]).(*ast.CallExpr); ok {
				if f := gf.StaticCallee(info, call); f != nil && f.Name() == "ListRevisions" {
					if id, ok := as.Lhs[0].(*ast.Ident); ok {
						listing = info.ObjectOf(id)
					}
				}
			}
		})
	}
	isListing := func(at ast.Node, e ast.Expr) bool {
		if listing == nil {
			return false
		}
		g, _ := an.StateBefore(at).Implies(gf.FEq(fn.Term(e), gf.Var(listing)))
		return g
	}
	argID, _ := arg.(*ast.Ident)
	name := "adoptOrphanRevisions: " + types.ExprString(arg)
	// collecting: one loop over the source that appends every element without a controller
	collect := func(cfn *gf.Fn, can *gf.Analysis, cinfo *types.Info, body *ast.BlockStmt, res types.Object, overSource func(loop *ast.RangeStmt) bool) (bool, string) {
		nApp := 0
		good := true
		why := ""
		ownNodes(body, func(x ast.Node) {
			as, ok := x.(*ast.AssignStmt)
			if !ok || len(as.Lhs) != 1 || len(as.Rhs) != 1 {
				return
			}
			l, _ := ast.Unparen(as.Lhs[0]).(*ast.Ident)
			call, _ := ast.Unparen(as.Rhs[0]).(*ast.CallExpr)
			if l == nil || call == nil || cinfo.ObjectOf(l) != res || len(call.Args) != 2 {
				return
			}
			if id, ok := call.Fun.(*ast.Ident); !ok || id.Name != "append" {
				return
			}
			loop, isR := innermostLoop(body, as).(*ast.RangeStmt)
			if !isR {
				return
			}
			cell := loopCell(loop)
			if cell == nil {
				return
			}
			if same, _ := can.StateBefore(as).Implies(gf.FEq(cfn.Term(call.Args[1]), cfn.Term(cell))); cfn.Term(call.Args[1]).Key() != cfn.Term(cell).Key() && !same {
				// `for _, rev := range xs`: the value variable is the cell
				if v, isID := loop.Value.(*ast.Ident); !isID || cfn.Term(call.Args[1]).Key() != cfn.Term(v).Key() {
					return
				}
				cell = loop.Value
			}
			if !overSource(loop) {
				good, why = false, "the collecting loop does not range over the listing"
				return
			}
			nApp++
			start := loop.Body.List[0]
			orphan := gf.And(c.Want(cfn, loop.Body.Pos(), "metav1.GetControllerOf($1) == nil", cell), c.Want(cfn, loop.Body.Pos(), "metav1.GetControllerOfNoCopy($1) == nil", cell))
			aU := cfn.FromUntil(start, can.StateBefore(start).Assume(orphan), as)
			if head := loopHead(cfn, loop); head == nil || aU.BlockReached(head) {
				good, why = false, "an iteration for a revision without a controller can end without appending it: that orphan is never adopted, and its pods' revision is re-created"
			}
			ownNodes(loop.Body, func(y ast.Node) {
				switch b := y.(type) {
				case *ast.BranchStmt:
					if b.Tok == token.BREAK && innermostLoop(body, b) == ast.Stmt(loop) {
						good, why = false, "the collecting loop can stop early"
					}
				case *ast.ReturnStmt:
					good, why = false, "the collecting loop can return early"
				}
			})
		})
		if nApp == 0 && good {
			good, why = false, "no loop over the listing fills the slice handed to the adoption"
		}
		return good, why
	}
	hostFI := c.hostOf(ao, adoptCall)
	cfi, res, src := c.collectorOf(hostFI, arg)
	switch {
	case argID != nil && isListing(stmtOf(hostBody, adoptCall), argID):
		c.OK("C18.4-every-orphan-adopted", name, adoptCall.Pos(), "the adoption receives the listing itself")
	case cfi == nil || res == nil:
		c.Unk("C18.4-every-orphan-adopted", name, adoptCall.Pos(), "the revisions handed to the adoption are neither a variable filled here nor the result of a filter function")
	case cfi != hostFI:
		// a filter function: its loop ranges over its source parameter, which is bound to the listing where it is called
		ffn, fan := c.Analysis(cfi)
		k := gf.SubSequenceFuncs()[cfi.Obj.FullName()]
		if cfi.Obj.Type().(*types.Signature).Recv() != nil {
			k--
		}
		var srcParam types.Object
		if ps := cfi.Obj.Type().(*types.Signature).Params(); k >= 0 && k < ps.Len() {
			srcParam = ps.At(k)
		}
		good, why := collect(ffn, fan, cfi.Pkg.TypesInfo, cfi.Decl.Body, res, func(loop *ast.RangeStmt) bool {
			id, ok := ast.Unparen(loop.X).(*ast.Ident)
			return ok && srcParam != nil && cfi.Pkg.TypesInfo.ObjectOf(id) == srcParam
		})
		if good && !isListing(stmtOf(hostBody, adoptCall), src) {
			good, why = false, "the filter is not applied to the listing"
		}
		c.Check(good, "C18.4-every-orphan-adopted", name, adoptCall.Pos(), "a filter over the whole listing that keeps every revision without a controller", why)
	default:
		good, why := collect(fn, an, info, hostBody, res, func(loop *ast.RangeStmt) bool { return isListing(loop, loop.X) })
		c.Check(good, "C18.4-every-orphan-adopted", name, adoptCall.Pos(), "filled by a loop over the whole listing that appends every revision without a controller", why)
	}
	// (b) no early success between the start of the label sync and the adoption
	blk := enclosingBlock(hostBody, adoptCall)
	var start ast.Stmt
	if blk != nil {
		// the label sync if there is one, else the loop that collects the orphans
		for _, s := range blk.List {
			if syncCall != nil && contains(s, syncCall) {
				start = s
				break
			}
		}
		if start == nil {
			for _, s := range blk.List {
				if _, isLoop := s.(*ast.RangeStmt); isLoop && s.Pos() < adoptCall.Pos() {
					start = s // (the last loop before the adoption)
				}
			}
		}
	}
	if start == nil {
		c.Unk("C18.4-adoption-not-skipped", "adoptOrphanRevisions", adoptCall.Pos(), "no label-sync or collecting loop before the adoption in its block")
		return
	}
	var adoptStmt ast.Node
	for _, s := range blk.List {
		if contains(s, adoptCall) {
			adoptStmt = s
		}
	}
	first := start
	if rs, ok := start.(*ast.RangeStmt); ok && len(rs.Body.List) > 0 {
		_ = rs
	}
	aU := fn.FromUntil(first, an.StateBefore(first), adoptStmt)
	n := 0
	ownNodes(hostBody, func(x ast.Node) {
		ret, ok := x.(*ast.ReturnStmt)
		if !ok || contains(ret, adoptCall) || len(ret.Results) == 0 {
			return
		}
		st := aU.StateBefore(ret)
		if !st.Reachable() {
			return
		}
		n++
		nm := fmt.Sprintf("adoptOrphanRevisions: return #%d after the label sync started", n)
		res := ret.Results[len(ret.Results)-1]
		if g, _ := st.Implies(gf.FNotNil(fn.Term(res))); g {
			c.OK("C18.4-adoption-not-skipped", nm, ret.Pos(), "returns a non-nil error")
		} else {
			c.Bad("C18.4-adoption-not-skipped", nm, ret.Pos(), "can report success before the adoption call: the orphaned revisions stay unadopted and nothing re-queues the set")
		}
	})
	if n == 0 {
		c.OK("C18.4-adoption-not-skipped", "adoptOrphanRevisions: no return between the label sync and the adoption", adoptCall.Pos(), "straight line")
	}
}

// listingKeepsEveryRevision: the loop that filters the listed revisions looks at every one of them (no early exit).
func (c *Ctx) listingKeepsEveryRevision() {
	lr := c.Func(load.CtrlPkg, "defaultStatefulSetControl.ListRevisions")
	if lr == nil {
		return
	}
	n := 0
	for _, bd := range c.E.FnOf(lr).Bodies() {
		ast.Inspect(bd, func(x ast.Node) bool {
			loop, ok := x.(*ast.RangeStmt)
			if !ok {
				return true
			}
			n++
			good, why := true, ""
			ownNodes(loop.Body, func(y ast.Node) {
				switch b := y.(type) {
				case *ast.BranchStmt:
					if (b.Tok == token.BREAK && innermostBreakTarget(loop.Body, b) == nil) || b.Tok == token.GOTO {
						good, why = false, "stops at "+c.P.Pos(b.Pos())+" before the remaining listed revisions are looked at: revisions of this set behind a foreign or duplicate one are lost, the update revision is then re-created"
					}
				case *ast.ReturnStmt:
					if len(b.Results) > 0 && !isNilExpr(lr.Pkg.TypesInfo, b.Results[len(b.Results)-1]) {
						return // an error return
					}
					good, why = false, "returns at "+c.P.Pos(b.Pos())+" before the remaining listed revisions are looked at"
				}
			})
			c.Check(good, "C18.4-listing-looks-at-every-revision", fmt.Sprintf("ListRevisions: loop #%d", n), loop.Pos(), "no early exit from the filter loop", why)
			return true
		})
	}
	c.Floor("C18.4-listing-loops", n, 1)
}

// innermostBreakTarget: the for/switch/select inside body that a `break` at b leaves (nil: it leaves the enclosing loop).
func innermostBreakTarget(body *ast.BlockStmt, b *ast.BranchStmt) ast.Node {
	if b.Label != nil {
		return nil
	}
	p := pathTo(body, b)
	for j := len(p) - 1; j >= 0; j-- {
		switch p[j].(type) {
		case *ast.ForStmt, *ast.RangeStmt, *ast.SwitchStmt, *ast.TypeSwitchStmt, *ast.SelectStmt:
			return p[j]
		}
	}
	return nil
}

// adoptionOnEveryReconcile: "revisions carrying the upgrade marker are found, label-synced and adopted": a migrated set
// arrives with the built-in set's status (currentRevision and all), so nothing in the set says whether its revisions
// have been taken over yet: in sync no path reaches the reconcile proper without having passed the adoption of orphan
// revisions (the paused and the not-found exits come before both).
func (c *Ctx) adoptionOnEveryReconcile() {
	const rule = "C18.4-adoption-is-attempted-on-every-reconcile"
	sy := c.Func(load.CtrlPkg, "StatefulSetController.sync")
	adopt := c.Func(load.CtrlPkg, "StatefulSetController.adoptOrphanRevisions")
	if sy == nil || adopt == nil {
		return
	}
	fn, _ := c.Analysis(sy)
	info := sy.Pkg.TypesInfo
	var stops []ast.Node
	var targets []*ast.CallExpr
	for _, bd := range fn.Bodies() {
		for _, call := range callsIn(bd, true) {
			f := gf.StaticCallee(info, call)
			if f == nil {
				continue
			}
			if f.Origin() == adopt.Obj {
				if st := stmtOf(bd, call); st != nil {
					stops = append(stops, st)
				}
			}
			if f.Name() == "syncStatefulSet" || f.Name() == "getPodsForStatefulSet" {
				targets = append(targets, call)
			}
		}
	}
	if len(stops) == 0 || len(targets) == 0 {
		c.Bad(rule, "sync", sy.Decl.Pos(), "sync does not call the adoption of orphan revisions, or the reconcile proper, directly")
		return
	}
	aU := fn.FromUntil(sy.Decl.Body.List[0], gf.TrueState(), stops...)
	for i, t := range targets {
		c.Check(!aU.StateAtExpr(t).Reachable(), rule, fmt.Sprintf("sync: %s [%d]", types.ExprString(t.Fun), i), t.Pos(), "unreachable without having passed adoptOrphanRevisions",
			"the reconcile can go ahead without the adoption of orphan revisions having been attempted: the revisions of a migrated set (whose status already names a current revision) are never label-synced nor adopted")
	}
}
