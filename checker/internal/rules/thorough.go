package rules

// Thorough adds the thorough-tier work on top of the quick rule evaluation.
// (Filled in by thorough_impl.go.)
func Thorough(c *Ctx, prop *Property, findings []Finding, repo string, quick *Result) ([]string, int) {
	return thoroughImpl(c, prop, findings, repo, quick)
}
