// Package rules holds the repository-specific rule tables, one file per property.
package rules

import (
	"encoding/json"
	"fmt"
	"go/ast"
	"go/token"
	"go/types"
	"os"
	"path/filepath"
	"sort"
	"strings"
	"time"

	"asverif/internal/eff"
	"asverif/internal/gf"
	"asverif/internal/load"
)

type Status string

const (
	Discharged Status = "discharged"
	Violated   Status = "violated"
	Undecided  Status = "undecided"
	Known      Status = "known-finding"
)

// Ob is one obligation: a rule instance keyed by rule id and construct, never by line.
type Ob struct {
	Rule       string `json:"rule"`
	Construct  string `json:"construct"`
	Pos        string `json:"pos"`
	Status     Status `json:"status"`
	Detail     string `json:"detail,omitempty"`
	NonTrivial bool   `json:"nontrivial"`
}

func (o *Ob) Key() string { return o.Rule + " @ " + o.Construct }

type Ctx struct {
	renamed     map[string]*load.FuncInfo
	renamedBack map[*load.FuncInfo]string
	// skipWrap: the helper rules are run as a clause of another property, without the int32 overflow rule (a C01/C15 matter)
	skipWrap bool
	// only: the rules of another property are run for some of their clauses only, recorded under this property's names
	only          map[string]string
	onlyConstruct func(construct string) bool
	P        *load.Prog
	E        *gf.Engine
	G        *eff.Graph
	Tier     string
	Prop     string
	Obs      []*Ob
	Notes    []string
	Fatal    []string // checker could not analyse (unresolved anchor, floor not met)
	start    time.Time
	an       map[*gf.Fn]*gf.Analysis
}

func NewCtx(p *load.Prog, tier string) *Ctx {
	e := gf.NewEngine(p)
	c := &Ctx{P: p, E: e, G: eff.Build(p, e.Sum), Tier: tier, an: map[*gf.Fn]*gf.Analysis{}}
	// which functions existed at the pinned commit (anchors.json): new single-caller functions are expanded whatever their size
	known := pinnedNames()
	e.IsPinned = func(f *types.Func) bool {
		fi := p.FuncInfoOf(f)
		if fi == nil {
			return true
		}
		return known[fi.Pkg.PkgPath+"|"+scopeShortName(fi)]
	}
	return c
}

func (c *Ctx) add(rule, construct string, pos token.Pos, st Status, nontrivial bool, detail string) {
	if c.only != nil {
		as, ok := c.only[rule]
		if !ok || (c.onlyConstruct != nil && !c.onlyConstruct(construct)) {
			return
		}
		rule = as
	}
	c.Obs = append(c.Obs, &Ob{Rule: rule, Construct: construct, Pos: c.P.Pos(pos), Status: st, Detail: detail, NonTrivial: nontrivial})
}

// withOnly runs another property's rule function and keeps only the named rules, under this property's names.
// (Nested uses are skipped: what an inner one would record is dropped by the outer one anyway.)
func (c *Ctx) withOnly(rules map[string]string, construct func(string) bool, floorRule string, floor int, run func()) {
	if c.only != nil {
		return
	}
	n0, f0 := len(c.Obs), len(c.Fatal)
	c.only, c.onlyConstruct = rules, construct
	run()
	c.only, c.onlyConstruct = nil, nil
	// what the other property's rules could not resolve is that property's to report; here only the floor counts
	c.Fatal = c.Fatal[:f0]
	c.Floor(floorRule, len(c.Obs)-n0, floor)
}

// OK records a discharged obligation whose discharge needed a fact or a resolved site.
func (c *Ctx) OK(rule, construct string, pos token.Pos, detail string) {
	c.add(rule, construct, pos, Discharged, true, detail)
}

// Trivial records a discharged obligation that needed no fact (kept apart in the counts).
func (c *Ctx) Trivial(rule, construct string, pos token.Pos, detail string) {
	c.add(rule, construct, pos, Discharged, false, detail)
}

func (c *Ctx) Bad(rule, construct string, pos token.Pos, detail string) {
	c.add(rule, construct, pos, Violated, true, detail)
}

func (c *Ctx) Unk(rule, construct string, pos token.Pos, detail string) {
	c.add(rule, construct, pos, Undecided, true, detail)
}

// Check records discharged or violated by cond.
func (c *Ctx) Check(cond bool, rule, construct string, pos token.Pos, okDetail, badDetail string) bool {
	if cond {
		c.OK(rule, construct, pos, okDetail)
	} else {
		c.Bad(rule, construct, pos, badDetail)
	}
	return cond
}

// Implies records an obligation "the facts at this point imply f".
func (c *Ctx) Implies(st gf.State, f *gf.Formula, rule, construct string, pos token.Pos) bool {
	if !st.Reachable() {
		c.Trivial(rule, construct, pos, "site unreachable in the analysed context")
		return true
	}
	ok, wit := st.Implies(f)
	if ok {
		c.OK(rule, construct, pos, "facts imply "+f.String())
		return true
	}
	c.Bad(rule, construct, pos, "required: "+f.String()+"; a path reaches this point with only "+clip(wit, 600))
	return false
}

func clip(s string, n int) string {
	if len(s) > n {
		return s[:n] + "…"
	}
	return s
}

// Floor fails the check (no verdict) if a rule matched fewer instances than confirmed by hand.
func (c *Ctx) Floor(rule string, got, want int) {
	if c.only != nil {
		return
	}
	if got < want {
		c.Fatal = append(c.Fatal, fmt.Sprintf("rule %s matched %d instances, hand-confirmed floor is %d (the rule no longer sees the code it was written for)", rule, got, want))
	} else {
		c.Notes = append(c.Notes, fmt.Sprintf("%s: %d instances (floor %d)", rule, got, want))
	}
}

func (c *Ctx) Fail(format string, args ...any) {
	c.Fatal = append(c.Fatal, fmt.Sprintf(format, args...))
}

// Func resolves an anchor or records a checker failure.
func (c *Ctx) Func(pkg, name string) *load.FuncInfo {
	fi := c.P.Func(pkg, name)
	if fi == nil {
		// an unexported function renamed since the pinned commit (anchors.go)
		if r := c.renames()[pkg+"|"+name]; r != nil {
			c.Notes = append(c.Notes, "anchor "+name+" resolved to the renamed function "+scopeShortName(r))
			return r
		}
	}
	if fi == nil {
		// an unexported function turned into a method (or back): the one declaration of that name in the package
		base := name
		if i := strings.LastIndex(base, "."); i >= 0 {
			base = base[i+1:]
		}
		if base != "" && !ast.IsExported(base) {
			var found []*load.FuncInfo
			for _, g := range c.P.Funcs() {
				if g.Pkg.PkgPath == pkg && g.Obj.Name() == base {
					found = append(found, g)
				}
			}
			if len(found) == 1 {
				c.Notes = append(c.Notes, "anchor "+name+" resolved to "+scopeShortName(found[0])+" (same name, receiver changed)")
				return found[0]
			}
		}
	}
	if fi == nil {
		c.Fail("anchor %s.%s does not resolve", pkg, name)
	}
	return fi
}

// Analysis returns the cached whole-function analysis without assumption.
func (c *Ctx) Analysis(fi *load.FuncInfo) (*gf.Fn, *gf.Analysis) {
	fn := c.E.FnOf(fi)
	if a, ok := c.an[fn]; ok {
		return fn, a
	}
	a := fn.Analyze(nil)
	c.an[fn] = a
	return fn, a
}

func (c *Ctx) LitAnalysis(info *types.Info, lit *ast.FuncLit, name string) (*gf.Fn, *gf.Analysis) {
	fn := c.E.FnOfLit(info, lit, name)
	if a, ok := c.an[fn]; ok {
		return fn, a
	}
	a := fn.Analyze(nil)
	c.an[fn] = a
	return fn, a
}

// ---------------------------------------------------------------------------
// known findings

type Finding struct {
	Status   string `json:"status"` // "known" or "fixed"
	Property string `json:"property"`
	Key      string `json:"key,omitempty"`
	What     string `json:"what"`
	Commit   string `json:"commit,omitempty"`
}

func LoadFindings(path string) ([]Finding, error) {
	b, err := os.ReadFile(path)
	if err != nil {
		if os.IsNotExist(err) {
			return nil, nil
		}
		return nil, err
	}
	var fs []Finding
	if err := json.Unmarshal(b, &fs); err != nil {
		return nil, err
	}
	return fs, nil
}

// ---------------------------------------------------------------------------
// registry

type Property struct {
	ID          string
	Title       string
	Run         func(c *Ctx)
	Explanation string   // clauses decided / not decided
	Assumptions []string // beyond the common trusted base
}

var Registry = map[string]*Property{}

func register(p *Property) { Registry[p.ID] = p }

var TrustedBase = []string{
	"T1 go/packages, go/types, go/cfg of golang.org/x/tools v0.29.0 and the Go type checker",
	"T2 the effect catalogue's verb lists for client-go typed interfaces, listers, the event recorder and the work queue",
	"T3 code outside the repository does not mutate objects passed to it (except the mutators tabled in gf/modset.go) and calls back into the repository only through registered handlers and retry/wait closures",
	"T4 Kubernetes API contracts the controller itself relies on (informer handlers receive the registered type; stored pods have a non-empty phase; apiextensions/v1 structural-schema defaulting and required)",
	"T5 the hand-written rule tables in checker/internal/rules (allowed guard formulas, accepted idioms, reviewed exceptions)",
}

// Evidence is the JSON written to /verif/evidence/<id>.json.
type Evidence struct {
	PropertyID  string         `json:"property_id"`
	Tier        string         `json:"tier"`
	Seed        int            `json:"seed"`
	Level       string         `json:"level"`
	Coverage    map[string]any `json:"coverage"`
	Assumptions []string       `json:"assumptions"`
	WallS       float64        `json:"wall_s"`
	Violations  int            `json:"violations"`
}

type Result struct {
	Exit     int
	Lines    []string
	Evidence *Evidence
}

// RunProperty evaluates one property and prepares output, evidence and exit code.
func RunProperty(c *Ctx, prop *Property, findings []Finding, seed int, evidenceDir string, extra map[string]any) *Result {
	t0 := time.Now()
	c.Prop = prop.ID
	activeCtx = c
	func() {
		defer func() {
			if r := recover(); r != nil {
				if os.Getenv("ASV_PANIC") != "" {
					panic(r)
				}
				c.Fail("checker panic: %v", r)
			}
		}()
		prop.Run(c)
	}()
	res := &Result{}
	known := map[string]Finding{}
	for _, f := range findings {
		if f.Property == prop.ID && f.Status == "known" {
			known[f.Key] = f
		}
	}
	var viol []*Ob
	nKnown := 0
	seen := map[string]int{}
	for _, o := range c.Obs {
		seen[o.Key()]++
		if seen[o.Key()] > 1 {
			o.Construct += fmt.Sprintf("#%d", seen[o.Key()])
		}
	}
	for _, o := range c.Obs {
		if o.Status == Violated || o.Status == Undecided {
			if f, ok := known[o.Key()]; ok {
				o.Status = Known
				nKnown++
				res.Lines = append(res.Lines, fmt.Sprintf("KNOWN-FINDING: property=%s %s [%s at %s]", prop.ID, f.What, o.Key(), o.Pos))
				continue
			}
			viol = append(viol, o)
		}
	}
	total, disc, nontriv := len(c.Obs), 0, 0
	distinct := map[string]bool{}
	for _, o := range c.Obs {
		if o.Status == Discharged {
			disc++
		}
		if o.NonTrivial && !distinct[o.Key()] {
			distinct[o.Key()] = true
			nontriv++
		}
	}
	var samples []any
	for i, o := range c.Obs {
		if i%maxInt(1, len(c.Obs)/12) == 0 && len(samples) < 14 {
			samples = append(samples, o)
		}
	}
	for _, o := range viol {
		if len(samples) < 24 {
			samples = append(samples, o)
		}
	}
	byRule := map[string]int{}
	for _, o := range c.Obs {
		byRule[o.Rule]++
	}
	cov := map[string]any{
		"explanation":           prop.Explanation,
		"evaluations":           total,
		"distinct_nontrivial":   nontriv,
		"rule":                  "one obligation per rule instance (rule id + resolved construct); non-trivial = its discharge needed a guard fact, a resolved call site or a type comparison (not a vacuous or unreachable instance); distinct by rule+construct key",
		"samples":               samples,
		"obligations":           total,
		"discharged":            disc,
		"known_findings":        nKnown,
		"violated_or_undecided": len(viol),
		"obligations_by_rule":   byRule,
		"checker_cmd":           "bin/asverif check " + prop.ID + " --tier " + c.Tier,
		"trusted_base":          TrustedBase,
		"analysed": map[string]any{
			"repo":          c.P.Repo,
			"packages":      len(c.P.Roots),
			"functions":     len(c.P.Funcs()),
			"files":         len(c.P.Files),
			"file_sha256_8": c.P.Files,
			"effect_sites":  len(c.G.Sites),
			"goos_goarch":   c.P.GOOS + "/" + c.P.GOARCH,
		},
		"notes":      c.Notes,
		"exhaustive": true,
	}
	for k, v := range extra {
		cov[k] = v
	}
	ev := &Evidence{PropertyID: prop.ID, Tier: c.Tier, Seed: seed, Level: "other", Coverage: cov,
		Assumptions: append(append([]string{}, TrustedBase...), prop.Assumptions...), Violations: len(viol)}
	res.Evidence = ev
	if len(c.Fatal) > 0 {
		// an anchor that no longer resolves or a rule that matches fewer instances than confirmed by hand
		// means the guard is no longer visible in the code where the rule expects it: reported as a
		// violation (DESIGN.md section 3, "undecided"), never silently passed
		for i, f := range c.Fatal {
			path := filepath.Join(evidenceDir, fmt.Sprintf("%s.violation-u%d.json", prop.ID, i+1))
			b, _ := json.MarshalIndent(map[string]any{"property": prop.ID, "undecided": f, "tier": c.Tier,
				"how_to_read": "the rule could not find the construct it is written for (anchor unresolved or instance floor not met); the clause 'the guard is visible in the code' fails"}, "", " ")
			os.WriteFile(path, b, 0o644)
			res.Lines = append(res.Lines, fmt.Sprintf("VIOLATION property=%s replay=%s", prop.ID, path))
			res.Lines = append(res.Lines, "  undecided: "+f)
		}
		cov["undecided_anchors_or_floors"] = c.Fatal
		ev.Violations += len(c.Fatal)
		res.Exit = 1
	}
	if len(viol) > 0 {
		sort.Slice(viol, func(i, j int) bool { return viol[i].Key() < viol[j].Key() })
		for i, o := range viol {
			path := filepath.Join(evidenceDir, fmt.Sprintf("%s.violation-%d.json", prop.ID, i+1))
			b, _ := json.MarshalIndent(map[string]any{"property": prop.ID, "obligation": o, "tier": c.Tier,
				"how_to_read": "rule = clause of DESIGN.md section 4; construct = resolved program entity; pos = file:line in /repo; detail = required fact and the path facts that fail it"}, "", " ")
			os.WriteFile(path, b, 0o644)
			res.Lines = append(res.Lines, fmt.Sprintf("VIOLATION property=%s replay=%s", prop.ID, path))
			res.Lines = append(res.Lines, fmt.Sprintf("  %s [%s] %s at %s: %s", o.Status, o.Rule, o.Construct, o.Pos, clip(o.Detail, 900)))
		}
		res.Exit = 1
	}
	ev.WallS = time.Since(t0).Seconds() + time.Since(c.start).Seconds()*0
	res.Lines = append(res.Lines, fmt.Sprintf("%s: %d obligations, %d discharged, %d known findings, %d violated/undecided (%s tier)",
		prop.ID, total, disc, nKnown, len(viol), c.Tier))
	return res
}

func maxInt(a, b int) int {
	if a > b {
		return a
	}
	return b
}

// ---------------------------------------------------------------------------
// small AST helpers shared by the rule files

// callsIn lists call expressions inside n (not descending into function literals unless deep).
func callsIn(n ast.Node, deep bool) []*ast.CallExpr {
	var out []*ast.CallExpr
	if n == nil {
		return nil
	}
	ast.Inspect(n, func(x ast.Node) bool {
		switch y := x.(type) {
		case *ast.FuncLit:
			return deep
		case *ast.CallExpr:
			out = append(out, y)
		}
		return true
	})
	return out
}

func calleeName(info *types.Info, call *ast.CallExpr) string {
	if fn := gf.StaticCallee(info, call); fn != nil {
		return pinnedFullName(fn)
	}
	return ""
}

// activeCtx is the context of the property being evaluated (rules run one at a time); the name helpers
// use it to report a renamed unexported function under the name it had at the pinned commit, which is
// the name the rules and their tables know.
var activeCtx *Ctx

func pinnedName(fn *types.Func) string {
	if activeCtx != nil {
		if fi := activeCtx.P.FuncInfoOf(fn); fi != nil {
			activeCtx.renames()
			if old, ok := activeCtx.renamedBack[fi]; ok {
				if i := strings.LastIndex(old, "."); i >= 0 {
					return old[i+1:]
				}
				return old
			}
		}
	}
	return fn.Name()
}

func pinnedFullName(fn *types.Func) string {
	full := fn.FullName()
	if n := pinnedName(fn); n != fn.Name() {
		return strings.TrimSuffix(full, fn.Name()) + n
	}
	return full
}

func exprString(fset *token.FileSet, e ast.Node) string {
	var sb strings.Builder
	_ = fset
	sb.WriteString(types.ExprString(e.(ast.Expr)))
	return sb.String()
}

// enclosing returns the chain of nodes from root to the node at pos range of target.
func pathTo(root ast.Node, target ast.Node) []ast.Node {
	var path []ast.Node
	var found []ast.Node
	ast.Inspect(root, func(n ast.Node) bool {
		if found != nil {
			return false
		}
		if n == nil {
			path = path[:len(path)-1]
			return true
		}
		path = append(path, n)
		if n == target {
			found = append([]ast.Node{}, path...)
			return false
		}
		return true
	})
	return found
}

// LiftedSite is an API effect site seen from a function: the site itself when it sits in
// the function's own body, or a site inside a helper that the engine expands into the
// function, together with the call in the function's own body that leads to it.
type LiftedSite struct {
	*eff.Site
	Top    *ast.CallExpr  // call in the function's own body (== Site.Call when direct)
	Helper *load.FuncInfo // nil when direct
}

// sitesOf lists the effect sites of fi including those of expanded helpers (up to two levels).
func (c *Ctx) sitesOf(fi *load.FuncInfo) []LiftedSite { return c.sitesUnder(fi, nil) }

// sitesUnder restricts sitesOf to a function literal of fi (nil: the whole function, literals included).
func (c *Ctx) sitesUnder(fi *load.FuncInfo, lit *ast.FuncLit) []LiftedSite {
	var out []LiftedSite
	for _, s := range c.G.Sites {
		if s.Fn == fi.Obj && (lit == nil || s.InLit == lit) {
			out = append(out, LiftedSite{Site: s, Top: s.Call})
		}
	}
	info := fi.Pkg.TypesInfo
	var body ast.Node = fi.Decl.Body
	if lit != nil {
		body = lit.Body
	}
	for _, call := range callsIn(body, true) {
		h := gf.StaticCallee(info, call)
		if h == nil || h == fi.Obj {
			continue
		}
		if ok, _, _ := c.E.InlineDecision(h); !ok {
			continue
		}
		hfi := c.P.FuncInfoOf(h)
		if hfi == nil || hfi.Pkg != fi.Pkg || !c.liftedAway(hfi) {
			continue
		}
		for _, s := range c.G.Sites {
			if s.Fn == h.Origin() {
				out = append(out, LiftedSite{Site: s, Top: call, Helper: hfi})
			}
		}
		// second level
		for _, call2 := range callsIn(hfi.Decl.Body, true) {
			h2 := gf.StaticCallee(info, call2)
			if h2 == nil || h2 == h || h2 == fi.Obj {
				continue
			}
			if ok, _, _ := c.E.InlineDecision(h2); !ok {
				continue
			}
			h2fi := c.P.FuncInfoOf(h2)
			if h2fi == nil || h2fi.Pkg != fi.Pkg || !c.liftedAway(h2fi) {
				continue
			}
			for _, s := range c.G.Sites {
				if s.Fn == h2.Origin() {
					out = append(out, LiftedSite{Site: s, Top: call, Helper: h2fi})
				}
			}
		}
	}
	return out
}

// resultIndexOf: the helper returns the value that site's call assigns (result position `of` of the
// site's call) as its result number k on every return that does not return a nil/zero there; -1 if not.
func (c *Ctx) resultIndexOf(h *load.FuncInfo, site *ast.CallExpr, of int) int {
	info := h.Pkg.TypesInfo
	// the variable the site's result is bound to, or the site being returned directly
	var v types.Object
	direct := -1
	ast.Inspect(h.Decl.Body, func(n ast.Node) bool {
		switch x := n.(type) {
		case *ast.AssignStmt:
			if len(x.Rhs) == 1 && ast.Unparen(x.Rhs[0]) == ast.Expr(site) && of < len(x.Lhs) {
				if id, ok := x.Lhs[of].(*ast.Ident); ok {
					v = info.ObjectOf(id)
				}
			}
		case *ast.ReturnStmt:
			if len(x.Results) == 1 && ast.Unparen(x.Results[0]) == ast.Expr(site) {
				direct = of // `return site(...)`: results map one to one
			}
		}
		return true
	})
	if direct >= 0 {
		return direct
	}
	if v == nil {
		return -1
	}
	k := -1
	ok := true
	ast.Inspect(h.Decl.Body, func(n ast.Node) bool {
		if _, isLit := n.(*ast.FuncLit); isLit {
			return false
		}
		ret, isRet := n.(*ast.ReturnStmt)
		if !isRet {
			return true
		}
		found := false
		for i, r := range ret.Results {
			if id, isID := ast.Unparen(r).(*ast.Ident); isID && info.ObjectOf(id) == v {
				if k >= 0 && k != i {
					ok = false
				}
				k = i
				found = true
			}
		}
		if !found && k >= 0 && k < len(ret.Results) && !isNilExpr(info, ret.Results[k]) {
			ok = false
		}
		return true
	})
	if !ok {
		return -1
	}
	// returns seen before k was known
	ast.Inspect(h.Decl.Body, func(n ast.Node) bool {
		if ret, isRet := n.(*ast.ReturnStmt); isRet && k >= 0 && k < len(ret.Results) {
			r := ast.Unparen(ret.Results[k])
			if id, isID := r.(*ast.Ident); isID && info.ObjectOf(id) == v {
				return true
			}
			if !isNilExpr(info, r) {
				ok = false
			}
		}
		return true
	})
	if !ok {
		return -1
	}
	return k
}

// liftedAway: fi is a helper the engine expands into its callers and every use of it is a
// static call from its own package; rules that attribute effect sites to the calling
// function then look at the callers, not at the helper.
func (c *Ctx) liftedAway(fi *load.FuncInfo) bool {
	if v, ok := liftedCache[c][fi]; ok {
		return v
	}
	v := c.liftedAway0(fi)
	if liftedCache[c] == nil {
		liftedCache[c] = map[*load.FuncInfo]bool{}
	}
	liftedCache[c][fi] = v
	return v
}

var liftedCache = map[*Ctx]map[*load.FuncInfo]bool{}

func (c *Ctx) liftedAway0(fi *load.FuncInfo) bool {
	if ok, _, _ := c.E.InlineDecision(fi.Obj); !ok {
		return false
	}
	if fi.Obj.Exported() {
		return false
	}
	n := 0
	for _, g := range c.P.Funcs() {
		if g == fi {
			continue
		}
		for _, call := range callsIn(g.Decl.Body, true) {
			if f := gf.StaticCallee(g.Pkg.TypesInfo, call); f != nil && f.Origin() == fi.Obj {
				if g.Pkg != fi.Pkg {
					return false
				}
				n++
			}
		}
	}
	return n > 0
}

// hostOf returns the function whose body holds n: fi itself or one of the helpers the engine expanded into it.
func (c *Ctx) hostOf(fi *load.FuncInfo, n ast.Node) *load.FuncInfo {
	if contains(fi.Decl.Body, n) {
		return fi
	}
	for _, h := range c.E.FnOf(fi).Expanded() {
		if contains(h.Decl.Body, n) {
			return h
		}
	}
	return fi
}

// originCall follows e (an identifier of host with one defining assignment) to the call that produced its value,
// looking through in-repo helpers: for `a, b, err := helper(...)` the k-th result is followed into the helper's
// returns (all of its non-nil k-th results must come from the same callee), a helper's parameter to the argument.
func (c *Ctx) originCall(host *load.FuncInfo, e ast.Expr, depth int) (*ast.CallExpr, *load.FuncInfo) {
	info := host.Pkg.TypesInfo
	id, ok := ast.Unparen(e).(*ast.Ident)
	if !ok || depth > 4 {
		if call, isCall := ast.Unparen(e).(*ast.CallExpr); isCall {
			return call, host
		}
		return nil, host
	}
	obj := info.ObjectOf(id)
	var def *ast.AssignStmt
	k := -1
	nDef := 0
	ast.Inspect(host.Decl.Body, func(n ast.Node) bool {
		as, ok := n.(*ast.AssignStmt)
		if !ok {
			return true
		}
		for i, l := range as.Lhs {
			if lid, ok := l.(*ast.Ident); ok && info.ObjectOf(lid) == obj {
				nDef++
				def, k = as, i
			}
		}
		return true
	})
	if nDef != 1 || def == nil || len(def.Rhs) != 1 {
		return nil, host
	}
	call, ok := ast.Unparen(def.Rhs[0]).(*ast.CallExpr)
	if !ok {
		if len(def.Lhs) == 1 {
			return c.originCall(host, def.Rhs[0], depth+1)
		}
		return nil, host
	}
	f := gf.StaticCallee(info, call)
	if f == nil {
		return call, host
	}
	h := c.P.FuncInfoOf(f)
	if h == nil || h.Decl.Body == nil || h.Pkg != host.Pkg || len(def.Lhs) < 2 {
		return call, host
	}
	sig := f.Type().(*types.Signature)
	if sig.Results().Len() != len(def.Lhs) {
		return call, host
	}
	// the helper's returns
	var origin *ast.CallExpr
	var oh *load.FuncInfo
	agree := true
	ownNodes(h.Decl.Body, func(n ast.Node) {
		ret, ok := n.(*ast.ReturnStmt)
		if !ok || len(ret.Results) != len(def.Lhs) || isNilExpr(h.Pkg.TypesInfo, ret.Results[k]) {
			return
		}
		oc, ohh := c.originCall(h, ret.Results[k], depth+1)
		if oc == nil {
			agree = false
			return
		}
		if origin != nil && gf.StaticCallee(ohh.Pkg.TypesInfo, oc) != gf.StaticCallee(oh.Pkg.TypesInfo, origin) {
			agree = false
		}
		origin, oh = oc, ohh
	})
	if agree && origin != nil {
		return origin, oh
	}
	return call, host
}

// collectorOf: where the slice `arg` (an argument of a call in host) is put together. Either in host itself (arg is a
// local variable filled by appends), or in a same-package filter function called for it (directly in the argument, or
// assigned to the variable first): then the function is returned with its result variable and the expression, at the
// call in host, that its source parameter is bound to.
func (c *Ctx) collectorOf(host *load.FuncInfo, arg ast.Expr) (cfi *load.FuncInfo, res types.Object, src ast.Expr) {
	info := host.Pkg.TypesInfo
	e := ast.Unparen(arg)
	if id, ok := e.(*ast.Ident); ok {
		if d, isCall := ast.Unparen(defRHS(host, info, id)).(*ast.CallExpr); isCall {
			if f := gf.StaticCallee(info, d); f != nil && c.P.FuncInfoOf(f) != nil {
				e = d
			}
		}
		if _, stillID := e.(*ast.Ident); stillID {
			return host, info.ObjectOf(id), nil
		}
	}
	call, ok := e.(*ast.CallExpr)
	if !ok {
		return nil, nil, nil
	}
	f := gf.StaticCallee(info, call)
	if f == nil {
		return nil, nil, nil
	}
	k, isFilter := gf.SubSequenceFuncs()[f.FullName()]
	hfi := c.P.FuncInfoOf(f)
	if !isFilter || hfi == nil || hfi.Pkg != host.Pkg {
		return nil, nil, nil
	}
	if f.Type().(*types.Signature).Recv() != nil {
		k--
	}
	if k < 0 || k >= len(call.Args) {
		return nil, nil, nil
	}
	// the result variable: what the filter returns
	hinfo := hfi.Pkg.TypesInfo
	ownNodes(hfi.Decl.Body, func(n ast.Node) {
		if ret, ok := n.(*ast.ReturnStmt); ok && len(ret.Results) == 1 {
			if id, ok := ast.Unparen(ret.Results[0]).(*ast.Ident); ok && !isNilExpr(hinfo, id) {
				res = hinfo.ObjectOf(id)
			}
		}
	})
	if res == nil {
		return nil, nil, nil
	}
	return hfi, res, call.Args[k]
}

// madeUpError: an error built on the spot (fmt.Errorf, errors.New) that wraps no error value: it reports something the
// code has concluded by itself, not the failure of a call.
func madeUpError(info *types.Info, e ast.Expr) bool {
	if !isErrorCtor(info, e) {
		return false
	}
	for _, a := range ast.Unparen(e).(*ast.CallExpr).Args {
		if t := info.TypeOf(a); t != nil && (isErrorType(t) || types.Implements(t, errType().Underlying().(*types.Interface))) {
			return false
		}
	}
	return true
}
