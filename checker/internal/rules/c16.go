package rules

import (
	"fmt"
	"go/ast"
	"go/types"
	"strings"

	"asverif/internal/gf"
	"asverif/internal/load"
)

func init() {
	register(&Property{
		ID:    "C16",
		Title: "No lost wake-ups: every relevant event gets the right set reconciled",
		Run:   runC16,
		Explanation: "Decides clauses C16.1-C16.3 of DESIGN.md: (1) both informers get handler literals with AddFunc, UpdateFunc and DeleteFunc set; the pod handlers are the controller's addPod/updatePod/deletePod, the set handlers enqueue unconditionally; " +
			"(2) skip discipline: every exit of a pod handler that is reachable without passing an enqueue carries one of the enumerated skip facts (owner resolved to nil; no matching set for an orphan; equal resource versions; orphan deleted; undecodable tombstone; orphan update with neither labels nor owner changed; add of a terminating pod forwarded to the delete handler); the three enqueue classes exist (old owner on owner change, current owner, every matching set for an orphan) and each is reached whenever its enabling condition holds (its path condition is implied by that condition: no extra guard); resolveControllerRef returns non-nil only for equal Kind and UID; " +
			"(3) worker wiring: Done deferred, failure -> AddRateLimited and not Forget, success -> Forget (shared with C09.2). Set handlers: no exit of the handler literal is reachable without passing enqueueStatefulSet; skips are stated over the dynamic type of the delivered object. NOT decided: informer delivery itself and schedules.",
	})
}

type handlerRoles struct {
	fi        *load.FuncInfo
	fn        *gf.Fn
	an        *gf.Analysis
	enqueues  []*ast.CallExpr
	resolved  map[types.Object]*ast.CallExpr // var := resolveControllerRef(...)
	matched   map[types.Object]bool          // var := getStatefulSetsForPod(...)
	forwardTo []*ast.CallExpr                // calls of deletePod (delegation)
	// enqueue calls that sit in a helper expanded into the handler: the helper and the handler's call of it
	viaHelper map[*ast.CallExpr]helperUse
}

type helperUse struct {
	hfi *load.FuncInfo
	top *ast.CallExpr
}

func (c *Ctx) handler(name string) *handlerRoles {
	fi := c.Func(load.CtrlPkg, "StatefulSetController."+name)
	if fi == nil {
		return nil
	}
	h := &handlerRoles{fi: fi, resolved: map[types.Object]*ast.CallExpr{}, matched: map[types.Object]bool{}, viaHelper: map[*ast.CallExpr]helperUse{}}
	h.fn, h.an = c.Analysis(fi)
	info := fi.Pkg.TypesInfo
	enq := c.Func(load.CtrlPkg, "StatefulSetController.enqueueStatefulSet")
	res := c.Func(load.CtrlPkg, "StatefulSetController.resolveControllerRef")
	gs := c.Func(load.CtrlPkg, "StatefulSetController.getStatefulSetsForPod")
	del := c.Func(load.CtrlPkg, "StatefulSetController.deletePod")
	if enq == nil || res == nil || gs == nil || del == nil {
		return nil
	}
	for _, call := range callsIn(fi.Decl.Body, false) {
		f := gf.StaticCallee(info, call)
		if f == nil {
			continue
		}
		// a small helper expanded into the handler that enqueues (e.g. one that enqueues every set of a slice)
		if hfi := c.P.FuncInfoOf(f); hfi != nil && hfi != enq && hfi != del && hfi != res && hfi != gs && hfi.Pkg == fi.Pkg && c.liftedAway(hfi) {
			for _, c2 := range callsIn(hfi.Decl.Body, false) {
				if f2 := gf.StaticCallee(info, c2); f2 != nil && f2.Origin() == enq.Obj {
					h.enqueues = append(h.enqueues, c2)
					h.viaHelper[c2] = helperUse{hfi, call}
				}
			}
		}
		switch f.Origin() {
		case enq.Obj:
			h.enqueues = append(h.enqueues, call)
		case del.Obj:
			if fi.Obj != del.Obj {
				h.forwardTo = append(h.forwardTo, call)
			}
		case res.Obj, gs.Obj:
			if as, ok := stmtOf(fi.Decl.Body, call).(*ast.AssignStmt); ok && len(as.Lhs) == 1 {
				if id, ok := as.Lhs[0].(*ast.Ident); ok {
					if f.Origin() == res.Obj {
						h.resolved[info.ObjectOf(id)] = call
					} else {
						h.matched[info.ObjectOf(id)] = true
					}
				}
			}
		}
	}
	return h
}

func runC16(c *Ctx) {
	c.registration()
	c.enqueueAlwaysAdds()
	nExit := 0
	for _, name := range []string{"addPod", "updatePod", "deletePod"} {
		h := c.handler(name)
		if h == nil {
			c.Fail("handler %s does not resolve", name)
			continue
		}
		nExit += c.skipDiscipline(h)
	}
	c.Floor("C16.2-handler-exits-without-enqueue", nExit, 9)
	c.enqueueClasses()
	c.resolveRef()
	c.orphanMatching()
	c.workerWiring("C16.3")
}

// orphanMatching: the sets an unowned pod wakes up are those whose *whole* selector matches its labels: in the lister's
// GetPodStatefulSets a set is appended to the result exactly under Matches(pod labels) of the selector built by
// LabelSelectorAsSelector from that set's spec.selector (matchLabels and matchExpressions), in the pod's namespace.
func (c *Ctx) orphanMatching() {
	fi := c.Func(load.ListerPkg, "statefulSetLister.GetPodStatefulSets")
	if fi == nil {
		return
	}
	fn := c.E.FnOf(fi)
	fn.KeepDead = true // (a predicate helper's locals are dead where the set is appended: what was learned through them is kept)
	an := fn.Analyze(nil)
	fn.KeepDead = false
	info := fi.Pkg.TypesInfo
	pods := paramsOfType(fi, "k8s.io/api/core/v1", "Pod")
	var app *ast.AssignStmt
	var appended ast.Expr
	ownNodes(fi.Decl.Body, func(n ast.Node) {
		as, ok := n.(*ast.AssignStmt)
		if !ok || len(as.Lhs) != 1 || len(as.Rhs) != 1 {
			return
		}
		call, ok := ast.Unparen(as.Rhs[0]).(*ast.CallExpr)
		if !ok || len(call.Args) != 2 {
			return
		}
		if id, ok := call.Fun.(*ast.Ident); ok && id.Name == "append" && isNamed(info.TypeOf(call.Args[1]), load.APIPkg, "StatefulSet") {
			app, appended = as, call.Args[1]
		}
	})
	name := "GetPodStatefulSets: matching sets"
	if app == nil || len(pods) != 1 {
		c.Unk("C16.2-orphan-matching-uses-the-whole-selector", name, fi.Decl.Pos(), "no append of a StatefulSet to the result, or no single pod parameter")
		return
	}
	loop := innermostLoop(fi.Decl.Body, app)
	if loop == nil {
		c.Unk("C16.2-orphan-matching-uses-the-whole-selector", name, app.Pos(), "the result is not filled in a loop")
		return
	}
	// the Matches calls of the loop whose result holds at the append
	st := an.StateBefore(app)
	good := false
	why := "the set is appended without the pod's labels having matched a selector"
	// (the test may sit in a predicate helper the engine expands into the loop)
	var matchCalls []*ast.CallExpr
	matchCalls = append(matchCalls, callsIn(loopBody(loop), false)...)
	for _, h := range fn.Expanded() {
		matchCalls = append(matchCalls, callsIn(h.Decl.Body, false)...)
	}
	for _, call := range matchCalls {
		sel, ok := ast.Unparen(call.Fun).(*ast.SelectorExpr)
		if !ok || sel.Sel.Name != "Matches" || len(call.Args) != 1 {
			continue
		}
		if g, _ := st.Implies(fn.Formula(call)); !g {
			continue
		}
		// matched against the pod's labels
		if want := c.TryWantTerm(fn, fi.Decl.Body.Lbrace+1, "$1.Labels", pods[0]); want == nil {
			continue
		} else if sameL, _ := an.StateAtExpr(call).Implies(gf.FEq(fn.Term(call.Args[0]), want)); fn.Term(call.Args[0]).Key() != want.Key() && !sameL {
			why = "the selector is not matched against the pod's labels"
			continue
		}
		// the selector: the conversion of the appended set's whole spec.selector
		src, _ := reachingDefRHS(c.hostOf(fi, call), info, sel.X, call).(*ast.CallExpr)
		if src == nil || calleeName(info, src) != "k8s.io/apimachinery/pkg/apis/meta/v1.LabelSelectorAsSelector" || len(src.Args) != 1 {
			why = "the selector matched is not LabelSelectorAsSelector(<set>.Spec.Selector): match expressions (or the whole selector) are ignored when deciding which sets an orphan wakes up"
			continue
		}
		want := c.TryWantTerm(fn, app.Pos(), "$1.Spec.Selector", appended)
		if same, _ := an.StateAtExpr(src).Implies(gf.FEq(fn.Term(src.Args[0]), want)); want != nil && (fn.Term(src.Args[0]).Key() == want.Key() || same) {
			good = true
		} else {
			why = "the selector matched is not the appended set's own spec.selector"
		}
	}
	c.Check(good, "C16.2-orphan-matching-uses-the-whole-selector", name, app.Pos(), "appended under Matches(pod labels) of LabelSelectorAsSelector(set.Spec.Selector)", why)
}

// skipDiscipline: exits reachable without an enqueue must carry a skip fact.
func (c *Ctx) skipDiscipline(h *handlerRoles) int {
	fn, fi := h.fn, h.fi
	info := fi.Pkg.TypesInfo
	var stops []ast.Node
	for _, e := range h.enqueues {
		stops = append(stops, e)
	}
	for _, e := range h.forwardTo {
		stops = append(stops, e)
	}
	entry := fi.Decl.Body.List[0]
	fn.KeepDead = true
	a := fn.FromUntil(entry, gf.TrueState(), stops...)
	fn.KeepDead = false
	// skip formulas instantiated over the resolved roles
	var skips []*gf.Formula
	var desc []string
	// skips tied to a variable apply only where that variable is in scope
	type scoped struct {
		obj types.Object
		f   *gf.Formula
	}
	var scopedSkips []scoped
	for obj := range h.resolved {
		scopedSkips = append(scopedSkips, scoped{obj, gf.FNil(gf.Var(obj))})
		desc = append(desc, obj.Name()+" == nil (owner not resolved)")
	}
	for obj := range h.matched {
		scopedSkips = append(scopedSkips, scoped{obj, gf.FEq(gf.LenOf(gf.Var(obj)), gf.ConstInt(0))})
		desc = append(desc, "len("+obj.Name()+") == 0 (no matching set)")
	}
	// pods of the handler: variables of type *v1.Pod
	var pods []*ast.Ident
	seen := map[types.Object]bool{}
	ast.Inspect(fi.Decl.Body, func(n ast.Node) bool {
		if id, ok := n.(*ast.Ident); ok {
			if o := info.Defs[id]; o != nil && types.TypeString(o.Type(), nil) == "*k8s.io/api/core/v1.Pod" && !seen[o] {
				seen[o] = true
				pods = append(pods, id)
			}
		}
		return true
	})
	pos := fi.Decl.Body.End() - 1
	ctrlNil := func(p *ast.Ident) *gf.Formula {
		var alts []*gf.Formula
		for _, g := range []string{"GetControllerOf", "GetControllerOfNoCopy"} {
			alts = append(alts, gf.FNil(gf.CallT("k8s.io/apimachinery/pkg/apis/meta/v1."+g, nil, gf.Var(info.ObjectOf(p)))))
		}
		return gf.Or(alts...)
	}
	switch fi.Obj.Name() {
	case "deletePod":
		for _, p := range pods {
			skips = append(skips, ctrlNil(p))
			desc = append(desc, "orphan deleted")
		}
	case "updatePod":
		if len(pods) == 2 {
			skips = append(skips, c.Want(fn, pos, "$1.ResourceVersion == $2.ResourceVersion", pods[0], pods[1]))
			desc = append(desc, "equal resource versions")
			// orphan, nothing changed
			for _, cur := range pods {
				for _, old := range pods {
					if cur == old {
						continue
					}
					same := gf.And(ctrlNil(cur),
						gf.FBool(gf.CallT("reflect.DeepEqual", nil, c.WantTerm(fn, pos, "$1.Labels", cur), c.WantTerm(fn, pos, "$1.Labels", old))),
						gf.FBool(gf.CallT("reflect.DeepEqual", nil, gf.CallT("k8s.io/apimachinery/pkg/apis/meta/v1.GetControllerOf", nil, gf.Var(info.ObjectOf(cur))),
							gf.CallT("k8s.io/apimachinery/pkg/apis/meta/v1.GetControllerOf", nil, gf.Var(info.ObjectOf(old))))))
					skips = append(skips, same)
				}
			}
			desc = append(desc, "orphan update with neither labels nor owner changed")
		}
	}
	// the delivered object is neither a pod nor a tombstone holding a pod (stated over the handler's
	// parameter, whatever form the type tests take: comma-ok assertions, a type switch, a helper)
	for _, pf := range fi.Decl.Type.Params.List {
		for _, pn := range pf.Names {
			it, isIface := info.TypeOf(pn).Underlying().(*types.Interface)
			if !isIface || it.NumMethods() != 0 {
				continue
			}
			ot := fn.Term(pn)
			podT := types.NewPointer(c.P.Lookup("k8s.io/api/core/v1", "Pod").Type())
			var tombT types.Type
			if tn := c.P.Lookup("k8s.io/client-go/tools/cache", "DeletedFinalStateUnknown"); tn != nil {
				tombT = tn.Type()
			}
			notPod := gf.Not(gf.FBool(gf.TypeIs(ot, podT)))
			if tombT == nil {
				skips = append(skips, notPod)
				continue
			}
			tomb := gf.CastT(ot, tombT)
			inner := gf.Field(tomb, "Obj", nil)
			skips = append(skips, gf.And(notPod, gf.Or(gf.Not(gf.FBool(gf.TypeIs(ot, tombT))), gf.Not(gf.FBool(gf.TypeIs(inner, podT))))))
			desc = append(desc, "the object is not a pod and not a tombstone of a pod")
		}
	}
	// comma-ok assertion failures (tombstones)
	ast.Inspect(fi.Decl.Body, func(n ast.Node) bool {
		if as, ok := n.(*ast.AssignStmt); ok && len(as.Lhs) == 2 && len(as.Rhs) == 1 {
			if _, isTA := ast.Unparen(as.Rhs[0]).(*ast.TypeAssertExpr); isTA {
				if okID, ok := as.Lhs[1].(*ast.Ident); ok {
					if o := info.ObjectOf(okID); o != nil {
						skips = append(skips, gf.Not(gf.FBool(gf.Var(o))))
					}
				}
			}
		}
		return true
	})
	n := 0
	check := func(st gf.State, where string, at ast.Node) {
		if !st.Reachable() {
			return
		}
		n++
		all := append([]*gf.Formula{}, skips...)
		pos := at.Pos()
		if at == ast.Node(fi.Decl.Body) {
			pos = fi.Decl.Body.End() - 1
		}
		for _, sk := range scopedSkips {
			if sc := sk.obj.Parent(); sc != nil && sc.Contains(pos) && sk.obj.Pos() < pos {
				all = append(all, sk.f)
				continue
			}
			// out of its scope here (`if set := resolve(..); set != nil {..}; return`): the fact still speaks about
			// this exit if the lookup that defined the variable lies on every path to it
			if def := h.resolved[sk.obj]; def != nil {
				a2 := fn.FromUntil(entry, gf.TrueState(), append(append([]ast.Node{}, stops...), def)...)
				if !a2.StateBefore(at).Reachable() && at != ast.Node(fi.Decl.Body) {
					all = append(all, sk.f)
				}
			}
		}
		c.Implies(st, gf.Or(all...), "C16.2-skip-discipline", fmt.Sprintf("%s: exit without enqueue [%s]", fi.Obj.Name(), where), at.Pos())
	}
	ast.Inspect(fi.Decl.Body, func(x ast.Node) bool {
		switch r := x.(type) {
		case *ast.FuncLit:
			return false
		case *ast.ReturnStmt:
			check(a.StateBefore(r), "return at "+c.P.Pos(r.Pos()), r)
		}
		return true
	})
	// falling off the end (go/cfg models it as a synthetic return)
	if ir := fn.ImplicitReturn(); ir != nil {
		if b := fn.BlockOf(ir); b != nil {
			st := a.StateBefore(ir)
			check(st, "end of function", fi.Decl.Body)
		}
	}
	// delegation to the delete handler only for terminating pods
	for _, f := range h.forwardTo {
		c.Implies(h.an.StateAtExpr(f), c.Want(fn, f.Pos(), "$1.DeletionTimestamp != nil", f.Args[0]), "C16.2-forward-terminating-add", fi.Obj.Name()+": deletePod("+types.ExprString(f.Args[0])+")", f.Pos())
	}
	_ = desc
	return n
}

// registration: C16.1
func (c *Ctx) registration() {
	ctor := c.Func(load.CtrlPkg, "NewStatefulSetController")
	if ctor == nil {
		return
	}
	info := ctor.Pkg.TypesInfo
	n := 0
	for _, call := range callsIn(ctor.Decl.Body, false) {
		if f := gf.StaticCallee(info, call); f == nil || f.Name() != "AddEventHandler" || len(call.Args) != 1 {
			continue
		}
		n++
		lit, _ := ast.Unparen(call.Args[0]).(*ast.CompositeLit)
		// which informer
		which := clip(types.ExprString(call.Fun), 60)
		name := "NewStatefulSetController: " + which
		if lit == nil {
			c.Bad("C16.1-registration", name, call.Pos(), "handler is not a ResourceEventHandlerFuncs literal")
			continue
		}
		got := map[string]ast.Expr{}
		for _, el := range lit.Elts {
			if kv, ok := el.(*ast.KeyValueExpr); ok {
				if k, ok := kv.Key.(*ast.Ident); ok {
					got[k.Name] = kv.Value
				}
			}
		}
		c.Check(got["AddFunc"] != nil && got["UpdateFunc"] != nil && got["DeleteFunc"] != nil, "C16.1-registration", name, call.Pos(), "AddFunc, UpdateFunc and DeleteFunc are all set", "an event handler function is missing")
		isPod := strings.Contains(types.TypeString(info.TypeOf(recvOf(call)), nil), "core/v1")
		_ = isPod
		wantPod := map[string]string{"AddFunc": "addPod", "UpdateFunc": "updatePod", "DeleteFunc": "deletePod"}
		podInformer := strings.Contains(strings.ToLower(which), "pod")
		for k, v := range got {
			var target string
			switch x := ast.Unparen(v).(type) {
			case *ast.SelectorExpr:
				if f, ok := info.Uses[x.Sel].(*types.Func); ok {
					target = f.Name()
				}
			case *ast.FuncLit:
				// must call enqueueStatefulSet on every path: no exit of the literal is reachable without passing a call of it
				var enq []ast.Node
				for _, ce := range callsIn(x.Body, false) {
					if f := gf.StaticCallee(info, ce); f != nil && f.Name() == "enqueueStatefulSet" {
						enq = append(enq, ce)
					}
				}
				if len(enq) > 0 && len(x.Body.List) > 0 {
					lfn, _ := c.LitAnalysis(info, x, name+" "+k)
					aU := lfn.FromUntil(x.Body.List[0], gf.TrueState(), enq...)
					escapes := false
					ast.Inspect(x.Body, func(n ast.Node) bool {
						if r, ok := n.(*ast.ReturnStmt); ok && aU.StateBefore(r).Reachable() {
							escapes = true
						}
						return true
					})
					if ir := lfn.ImplicitReturn(); ir != nil && aU.StateBefore(ir).Reachable() {
						escapes = true
					}
					if !escapes {
						target = "enqueueStatefulSet"
					}
				}
			}
			if podInformer {
				c.Check(target == wantPod[k], "C16.1-registration-target", name+" "+k, v.Pos(), "bound to "+wantPod[k], k+" of the pod informer is not bound to "+wantPod[k])
			} else {
				c.Check(target == "enqueueStatefulSet", "C16.1-registration-target", name+" "+k, v.Pos(), "enqueues the set unconditionally", k+" of the set informer does not enqueue the set unconditionally")
			}
		}
	}
	c.Floor("C16.1-registrations", n, 2)
}

func recvOf(call *ast.CallExpr) ast.Expr {
	if sel, ok := ast.Unparen(call.Fun).(*ast.SelectorExpr); ok {
		return sel.X
	}
	return call.Fun
}

// enqueueClasses: the three enqueue classes of updatePod and the two of addPod
// exist and are not over-guarded.
func (c *Ctx) enqueueClasses() {
	for _, name := range []string{"addPod", "updatePod", "deletePod"} {
		h := c.handler(name)
		if h == nil {
			continue
		}
		fn, fi := h.fn, h.fi
		info := fi.Pkg.TypesInfo
		var pods []*ast.Ident
		seen := map[types.Object]bool{}
		ast.Inspect(fi.Decl.Body, func(n ast.Node) bool {
			if id, ok := n.(*ast.Ident); ok {
				if o := info.Defs[id]; o != nil && types.TypeString(o.Type(), nil) == "*k8s.io/api/core/v1.Pod" && !seen[o] {
					seen[o] = true
					pods = append(pods, id)
				}
			}
			return true
		})
		classes := map[string]int{}
		for i, e := range h.enqueues {
			arg, _ := ast.Unparen(e.Args[0]).(*ast.Ident)
			// `for i := range xs { enqueue(xs[i]) }`: the cell of the loop stands for the value variable
			var cellOf *ast.Ident
			if ix, isIx := ast.Unparen(e.Args[0]).(*ast.IndexExpr); isIx && arg == nil {
				if xs, ok := ast.Unparen(ix.X).(*ast.Ident); ok {
					if k, ok := ast.Unparen(ix.Index).(*ast.Ident); ok {
						cellOf, arg = xs, k
					}
				}
			}
			if arg == nil {
				c.Bad("C16.2-enqueue-class", fmt.Sprintf("%s: enqueue[%d]", fi.Obj.Name(), i), e.Pos(), "enqueue argument is not a variable")
				continue
			}
			obj := info.ObjectOf(arg)
			ename := fmt.Sprintf("%s: enqueue(%s)[%d]", fi.Obj.Name(), types.ExprString(e.Args[0]), i)
			st := h.an.StateAtExpr(e)
			switch {
			case h.resolved[obj] != nil:
				// owner enqueue: which owner reference was resolved
				rc := h.resolved[obj]
				refArg := rc.Args[1]
				// the enabling condition: ref != nil (and, for the old owner, the owner changed) and resolved != nil
				enable := gf.And(gf.FNotNil(fn.Term(refArg)), gf.FNotNil(gf.Var(obj)))
				class := "owner"
				if fi.Obj.Name() == "updatePod" {
					// old or current?
					if isOldRef(fi, info, refArg) {
						class = "old-owner"
						// owner changed
						var changed *gf.Formula
						ast.Inspect(fi.Decl.Body, func(n ast.Node) bool {
							if call, ok := n.(*ast.CallExpr); ok && calleeName(info, call) == "reflect.DeepEqual" && len(call.Args) == 2 {
								if fn.Term(call.Args[0]).Key() == fn.Term(refArg).Key() || fn.Term(call.Args[1]).Key() == fn.Term(refArg).Key() {
									changed = gf.Not(fn.Formula(call))
								}
							}
							return true
						})
						if changed == nil {
							c.Bad("C16.2-enqueue-class", ename, e.Pos(), "no owner-changed comparison found for the old owner")
							continue
						}
						enable = gf.And(enable, changed)
					} else {
						class = "current-owner"
					}
					if len(pods) == 2 {
						enable = gf.And(enable, gf.Not(c.Want(fn, e.Pos(), "$1.ResourceVersion == $2.ResourceVersion", pods[0], pods[1])))
					}
				}
				if fi.Obj.Name() == "addPod" && len(pods) >= 1 {
					enable = gf.And(enable, c.Want(fn, e.Pos(), "$1.DeletionTimestamp == nil", pods[0]))
				}
				classes[class]++
				_ = st
				c.mustReachOrSkip(h, e, enable, gf.FNil(gf.Var(obj)), "C16.2-enqueue-not-over-guarded", ename+" ["+class+"]")
			default:
				// orphan loop: range over the matched sets (in the handler, or in a helper that is handed the matched sets)
				loopHost := fi.Decl.Body
				via, inHelper := h.viaHelper[e]
				if inHelper {
					loopHost = via.hfi.Decl.Body
				}
				loop, _ := innermostLoop(loopHost, e).(*ast.RangeStmt)
				okLoop := false
				if loop != nil {
					if id, ok := ast.Unparen(loop.X).(*ast.Ident); ok {
						ranged := info.ObjectOf(id)
						if inHelper {
							// the helper's slice parameter -> the handler's argument
							k := 0
							var mapped types.Object
							for _, pf := range via.hfi.Decl.Type.Params.List {
								for _, pn := range pf.Names {
									if info.ObjectOf(pn) == ranged && k < len(via.top.Args) {
										if aid, ok := ast.Unparen(via.top.Args[k]).(*ast.Ident); ok {
											mapped = info.ObjectOf(aid)
										}
									}
									k++
								}
							}
							ranged = mapped
						}
						if ranged != nil && h.matched[ranged] {
							if v, ok := loop.Value.(*ast.Ident); ok && cellOf == nil && info.ObjectOf(v) == obj {
								okLoop = true
							}
							if k, ok := loop.Key.(*ast.Ident); ok && cellOf != nil && info.ObjectOf(k) == obj && info.ObjectOf(cellOf) == info.ObjectOf(id) {
								okLoop = true
							}
						}
					}
				}
				classes["orphan"]++
				c.Check(okLoop, "C16.2-enqueue-class", ename+" [orphan]", e.Pos(), "every matching set is enqueued (range over the result of getStatefulSetsForPod)", "the orphan enqueue does not cover every matching set")
			}
		}
		want := map[string][]string{"addPod": {"owner", "orphan"}, "updatePod": {"old-owner", "current-owner", "orphan"}, "deletePod": {"owner"}}[name]
		for _, w := range want {
			c.Check(classes[w] >= 1, "C16.2-enqueue-class-present", name+": "+w+" enqueue", fi.Decl.Pos(), "present", "the "+w+" enqueue is missing from "+name)
		}
	}
}

func isOldRef(fi *load.FuncInfo, info *types.Info, ref ast.Expr) bool {
	// ref := GetControllerOf(P) where P := old.(*v1.Pod) and old is the first parameter
	id, ok := ast.Unparen(ref).(*ast.Ident)
	if !ok {
		return false
	}
	rhs := assignedFrom(fi, info, id)
	call, ok := rhs.(*ast.CallExpr)
	if !ok || len(call.Args) != 1 {
		return false
	}
	p := assignedFrom(fi, info, call.Args[0])
	ta, ok := p.(*ast.TypeAssertExpr)
	if !ok {
		return false
	}
	src, ok := ta.X.(*ast.Ident)
	if !ok {
		return false
	}
	first := fi.Decl.Type.Params.List[0].Names[0]
	return info.ObjectOf(src) == info.ObjectOf(first)
}

// notOverGuarded: whenever `enable` holds the site is reached: every disjunct
// of enable (together with the naming equalities at the site) entails some
// disjunct of the site's path condition, restricted to non-definitional literals.
func (c *Ctx) notOverGuarded(site gf.State, enable *gf.Formula, rule, name string, at ast.Node) {
	if !site.Reachable() {
		c.Bad(rule, name, at.Pos(), "the enqueue is unreachable")
		return
	}
	// naming equalities common to all disjuncts (x == pure term)
	var naming []*gf.Formula
	if len(site.D) > 0 {
		for _, l := range site.D[0].L {
			if l.A.Op != "eq" || l.Neg {
				continue
			}
			if !(l.A.L.K == 'v' || l.A.R.K == 'v') || l.A.L.K == 'c' || l.A.R.K == 'c' || l.A.L.K == 'n' || l.A.R.K == 'n' {
				continue
			}
			common := true
			for _, d := range site.D[1:] {
				if m, ok := d.L[l.A.Key()]; !ok || m.Neg {
					common = false
				}
			}
			if common {
				naming = append(naming, gf.FAtom(l.A))
			}
		}
	}
	assumed := gf.TrueState().Assume(gf.And(append([]*gf.Formula{enable}, naming...)...))
	if !assumed.Reachable() {
		c.Unk(rule, name, at.Pos(), "the enabling condition is inconsistent with the naming equalities")
		return
	}
	for _, e := range assumed.D {
		covered := false
		for _, d := range site.D {
			all := true
			for _, l := range d.L {
				if ok, _ := (gf.State{D: []*gf.Disj{e}}).Implies(l.Formula()); !ok {
					all = false
					break
				}
			}
			if all {
				covered = true
				break
			}
		}
		if !covered {
			c.Bad(rule, name, at.Pos(), "an extra guard stands before this enqueue: under the enabling condition "+clip(e.String(), 300)+" the path condition "+clip(site.String(), 500)+" is not implied (possible lost wake-up)")
			return
		}
	}
	c.OK(rule, name, at.Pos(), "the path condition is implied by the enabling condition "+clip(enable.String(), 200))
}

// resolveRef: non-nil only for equal Kind and UID.
func (c *Ctx) resolveRef() {
	fi := c.Func(load.CtrlPkg, "StatefulSetController.resolveControllerRef")
	if fi == nil {
		return
	}
	fn, an := c.Analysis(fi)
	info := fi.Pkg.TypesInfo
	ref := fi.Decl.Type.Params.List[1].Names[0]
	n := 0
	ast.Inspect(fi.Decl.Body, func(x ast.Node) bool {
		ret, ok := x.(*ast.ReturnStmt)
		if !ok || len(ret.Results) != 1 || isNilExpr(info, ret.Results[0]) {
			return true
		}
		n++
		want := c.Want(fn, ret.Pos(), "$1.Kind == controllerKind.Kind && $2.UID == $1.UID", ref, ret.Results[0])
		c.Implies(an.StateBefore(ret), want, "C16.2-resolve-kind-and-uid", "resolveControllerRef: return "+types.ExprString(ret.Results[0]), ret.Pos())
		return true
	})
	c.Floor("C16.2-resolve-non-nil-returns", n, 1)
	// and nil only for a reason: the reference is of another kind, the set is not in the cache, or its UID differs.
	// Any further condition (an exact API version, a name pattern) makes pods of a live set enqueue nothing.
	var lookup *ast.AssignStmt
	for _, s := range c.G.Sites {
		if s.Fn == fi.Obj && s.Verb == "Get" && (s.Class == "cached-read" || s.Class == "read") {
			if as, ok := stmtOf(fi.Decl.Body, s.Call).(*ast.AssignStmt); ok && len(as.Lhs) == 2 {
				lookup = as
			}
		}
	}
	nNil := 0
	fn.KeepDead = true // (the lookup's error is not read again after its test)
	anK := fn.Analyze(nil)
	fn.KeepDead = false
	ownNodes(fi.Decl.Body, func(x ast.Node) {
		ret, ok := x.(*ast.ReturnStmt)
		if !ok || len(ret.Results) != 1 || !isNilExpr(info, ret.Results[0]) {
			return
		}
		st := anK.StateBefore(ret)
		if !st.Reachable() {
			return
		}
		nNil++
		alts := []*gf.Formula{c.Want(fn, ret.Pos(), "$1.Kind != controllerKind.Kind", ref)}
		if lookup != nil && lookup.End() <= ret.Pos() {
			if e, isID := lookup.Lhs[1].(*ast.Ident); isID && e.Name != "_" {
				alts = append(alts, gf.FNotNil(fn.Term(e)))
			}
			if sv, isID := lookup.Lhs[0].(*ast.Ident); isID && sv.Name != "_" {
				if f := c.TryWantTerm(fn, ret.Pos(), "$1.UID", sv); f != nil {
					if g := c.TryWantTerm(fn, ret.Pos(), "$1.UID", ref); g != nil {
						alts = append(alts, gf.FNe(f, g))
					}
				}
			}
		}
		c.Implies(st, gf.Or(alts...), "C16.2-resolve-nil-only-for-a-reason", fmt.Sprintf("resolveControllerRef: return nil #%d", nNil), ret.Pos())
	})
	c.Floor("C16.2-resolve-nil-returns", nNil, 2)
}

// mustReachOrSkip: started right after the last definition of a local that
// `enable` mentions (the resolved variable excluded), with `enable` assumed,
// every way of leaving the enclosing top-level statement (or the function)
// without passing the site carries the skip fact.
func (c *Ctx) mustReachOrSkip(h *handlerRoles, site *ast.CallExpr, enable, skip *gf.Formula, rule, name string) {
	fn, fi := h.fn, h.fi
	info := fi.Pkg.TypesInfo
	body := fi.Decl.Body
	skipVars := map[types.Object]bool{}
	var walkF func(f *gf.Formula, fn func(*gf.Term))
	walkF = func(f *gf.Formula, cb func(*gf.Term)) {
		if f.Op == 'A' {
			for _, t := range f.Atom.Terms() {
				t.Mentions(func(s *gf.Term) bool { cb(s); return false })
			}
		}
		for _, s := range f.Sub {
			walkF(s, cb)
		}
	}
	walkF(skip, func(t *gf.Term) {
		if t.K == 'v' && t.Obj != nil {
			skipVars[t.Obj] = true
		}
	})
	var last types.Object
	walkF(enable, func(t *gf.Term) {
		if t.K == 'v' && t.Obj != nil && !skipVars[t.Obj] && t.Obj.Pos() > body.Lbrace && t.Obj.Pos() < body.End() {
			if last == nil || t.Obj.Pos() > last.Pos() {
				last = t.Obj
			}
		}
	})
	// the part of enable that does not mention the skip variables
	var parts []*gf.Formula
	var split func(f *gf.Formula)
	split = func(f *gf.Formula) {
		if f.Op == '&' {
			for _, s := range f.Sub {
				split(s)
			}
			return
		}
		bad := false
		walkF(f, func(t *gf.Term) {
			if t.K == 'v' && t.Obj != nil && skipVars[t.Obj] {
				bad = true
			}
		})
		if !bad {
			parts = append(parts, f)
		}
	}
	split(enable)
	ti := topIndex(body, site)
	if ti < 0 {
		c.Unk(rule, name, site.Pos(), "site is not inside a top-level statement")
		return
	}
	fn.KeepDead = true
	defer func() { fn.KeepDead = false }()
	whole := fn.Analyze(nil)
	var a *gf.Analysis
	if last == nil {
		a = fn.FromUntil(body.List[0], gf.TrueState().Assume(gf.And(parts...)), site)
	} else {
		var def ast.Node
		ast.Inspect(body, func(n ast.Node) bool {
			switch x := n.(type) {
			case *ast.AssignStmt:
				for _, l := range x.Lhs {
					if id, ok := l.(*ast.Ident); ok && info.Defs[id] == last {
						def = x
					}
				}
			case *ast.ValueSpec:
				for _, id := range x.Names {
					if info.Defs[id] == last {
						def = x
					}
				}
			}
			return true
		})
		if def == nil {
			c.Unk(rule, name, site.Pos(), "definition of "+last.Name()+" not found")
			return
		}
		st := whole.StateAfter(def).Assume(gf.And(parts...))
		if !st.Reachable() {
			c.Unk(rule, name, site.Pos(), "the enabling condition is infeasible right after the definition of "+last.Name())
			return
		}
		a = fn.FromAfterUntil(def, st, site)
	}
	ok := true
	fail := func(where string, s gf.State) {
		if !s.Reachable() {
			return
		}
		if good, wit := s.Implies(skip); !good {
			ok = false
			c.Bad(rule, name, site.Pos(), "with the enabling condition "+clip(gf.And(parts...).String(), 200)+" in force, "+where+" is reachable without this enqueue and without "+skip.String()+" (an extra guard: possible lost wake-up); facts: "+clip(wit, 300))
		}
	}
	ast.Inspect(body, func(x ast.Node) bool {
		switch r := x.(type) {
		case *ast.FuncLit:
			return false
		case *ast.ReturnStmt:
			fail("the return at "+c.P.Pos(r.Pos()), a.StateBefore(r))
		}
		return true
	})
	if ti+1 < len(body.List) {
		// the first CFG node of the next top-level statement
		var first ast.Node
		ast.Inspect(body.List[ti+1], func(n ast.Node) bool {
			if first != nil || n == nil {
				return false
			}
			if b := fn.BlockOf(n); b != nil {
				if _, _, root, ok := fn.Locate(n); ok && root.Pos() >= body.List[ti+1].Pos() {
					first = root
					return false
				}
			}
			return true
		})
		if first != nil {
			fail("the statement after the enclosing block ("+c.P.Pos(first.Pos())+")", a.StateBefore(first))
		}
	} else if ir := fn.ImplicitReturn(); ir != nil {
		fail("the end of the function", a.StateBefore(ir))
	}
	if ok {
		reach := a.StateAtExpr(site).Reachable()
		c.Check(reach, rule, name, site.Pos(), "under its enabling condition every path reaches the enqueue or carries "+skip.String(), "the enqueue is unreachable under its enabling condition")
	}
}

// enqueueAlwaysAdds: every handler ends in enqueueStatefulSet; whatever reaches it is put on the queue. The only exit
// without the Add is the one for an object no key can be made of (the key function's error). In particular the Add does
// not depend on what the queue remembers about the key: an event that arrives while a retry is pending or running is
// the only notice of a change the retry may not have seen.
func (c *Ctx) enqueueAlwaysAdds() {
	const rule = "C16.1-enqueue-always-adds"
	fi := c.Func(load.CtrlPkg, "StatefulSetController.enqueueStatefulSet")
	if fi == nil {
		return
	}
	fn, an := c.Analysis(fi)
	info := fi.Pkg.TypesInfo
	var adds []ast.Node
	var keyErr *gf.Formula
	for _, bd := range fn.Bodies() {
		for _, call := range callsIn(bd, true) {
			for _, s := range c.G.Sites {
				if s.Call == call && s.Class == "queue" && (s.Verb == "Add" || s.Verb == "AddRateLimited" || s.Verb == "AddAfter") {
					if st := stmtOf(bd, call); st != nil {
						adds = append(adds, st)
					}
				}
			}
		}
	}
	// the key function's error: the last result of the first assignment from a call in the body
	ownNodes(fi.Decl.Body, func(x ast.Node) {
		if as, ok := x.(*ast.AssignStmt); ok && keyErr == nil && len(as.Rhs) == 1 && len(as.Lhs) == 2 {
			if _, isCall := as.Rhs[0].(*ast.CallExpr); isCall && isErrorType(info.TypeOf(as.Lhs[1])) {
				keyErr = gf.FNotNil(fn.Term(as.Lhs[1]))
			}
		}
	})
	if len(adds) == 0 {
		c.Bad(rule, "enqueueStatefulSet", fi.Decl.Pos(), "no queue Add found")
		return
	}
	aU := fn.FromUntil(fi.Decl.Body.List[0], gf.TrueState(), adds...)
	n := 0
	judge := func(ret ast.Node) {
		st := aU.StateBefore(ret)
		if !st.Reachable() {
			return
		}
		n++
		good := false
		if keyErr != nil {
			good, _ = st.Implies(keyErr)
		}
		c.Check(good, rule, fmt.Sprintf("enqueueStatefulSet: exit #%d without the Add", n), ret.Pos(), "only when no key could be made of the object",
			"the set is not put on the queue although a key was made: the event is dropped (if a retry of this key is pending or running and then succeeds, nothing reconciles the change the event stood for)")
	}
	ownNodes(fi.Decl.Body, func(x ast.Node) {
		if r, ok := x.(*ast.ReturnStmt); ok {
			judge(r)
		}
	})
	if ir := fn.ImplicitReturn(); ir != nil {
		judge(ir)
	}
	_ = an
	c.Floor(rule+"-exits", n, 1)
}
