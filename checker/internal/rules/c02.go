package rules

import (
	"fmt"
	"go/ast"
	"go/types"
	"sort"
	"strings"

	"asverif/internal/gf"

	"asverif/internal/load"
	"golang.org/x/tools/go/cfg"
)

func init() {
	register(&Property{
		ID:    "C02",
		Title: "Reconciliation converges to exactly the desired pods and then goes quiet",
		Run:   runC02,
		Explanation: "Convergence is a liveness claim over histories and schedules and is (6) the update walk reaches down to the partition, (7) with a strategy other than OnDelete no return is reachable between scaling and the update walk, (8) the gate of the revision-adoption work (uncached read, revision writes) is raised only where a listed revision was seen without a controller. NOT decided. Decided necessary conditions (clauses C02.1-C02.5 of DESIGN.md): (1) quiescence is possible: from the entry of sync there is a CFG path to a successful return on which no API write and no event is issued, following calls into in-repo callees (a callee is write-avoidable iff it has such a path itself); and every function with an effect site is write-avoidable, i.e. no write post-dominates a reconcile on its success path; " +
			"(2) the status write is skipped when nothing changed (C12.4) and revision writes are conditional (C08.3); (3) the reconcile is stateless (no store to long-lived controller state, shared with C09.3); (4) failed reconciles are re-queued with backoff and successful ones forgotten (worker wiring, shared with C09.2); " +
			"(5) predicate/repair agreement: every pod field read by the identity and storage predicates that trigger a pod update is written by the repair functions applied under them, so a pod that the repair cannot fix is never re-written on every reconcile. NOT decided: that the fixed point is reached from every state under the fairness premise.",
	})
}

func runC02(c *Ctx) {
	// "each at the revision its ordinal calls for": without a partition the revision of a pod that is created again is
	// chosen by the stored status.currentReplicas, so that counter has to leave out what is on its way out -- a pod
	// the update walk has just deleted and that is still terminating must not be counted back in, or its replacement
	// is built from the old revision again and the roll-out never ends (the census rule of C12, as a clause of this property)
	c.withOnly(map[string]string{"C12.2-census-live-pods-only": "C02.8-revision-counters-leave-out-terminating-pods"}, nil, "C02.8-census-revision-counters", 2, func() { runC12(c) })
	// "failed or succeeded pods inside the desired set": the reconcile can replace them only if it is handed them, so the
	// claim keeps every pod that is a member by name, whatever its phase (the filter rule of C10.1, as a clause of this property)
	// "from then on a reconcile issues no write": the revisions this pass has chosen are not what it then trims away -- a
	// chosen revision that is deleted at the end of the pass is made again by the next one, and so on for ever (the
	// live-set rule of C13, as a clause of this property)
	c.withOnly(map[string]string{"C13.1-live-current-and-update": "C02.10-chosen-revisions-survive-the-truncation"}, nil, "C02.10-live-set", 2, func() { runC13(c) })
	c.withOnly(map[string]string{"C10.1-membership-filter": "C02.9-every-member-is-claimed"}, nil, "C02.9-claim-filter", 1, c.claimConstruction)
	// "goes quiet": the probe revision a converged reconcile builds is recognised as the stored update revision whatever
	// the collision count has become -- equality is decided on the data, and the hash label (which has the collision
	// count mixed in) may only short-cut it when it parses as a number; otherwise every reconcile after one name
	// collision issues a create that is answered AlreadyExists (the equality rule of C08.2, as a clause of this property)
	c.withOnly(map[string]string{"C08.2-hash-label-only-when-numeric": "C02.11-equal-revisions-are-recognised-whatever-the-collision-count"}, nil, "C02.11-revision-equality", 1, func() { c.equalityReadsDataOnly("C08.2") })
	c.quiescencePossible()
	c.statusWriteGuard()
	c.stateless("C02.3")
	c.workerWiring("C02.4")
	c.predicateRepairAgreement()
	if r := c.ReconcileRoles(); r != nil {
		c.walkCoversPartition(r, "C02.6-update-walk-reaches-down-to-partition")
		c.updateWalkReached(r)
		c.everyVacancyIsFilled(r, "C02.7-every-vacancy-is-filled")
	}
	c.adoptionTrigger()
	// "exactly the desired ordinals": the ordinals the reconcile converges to are the helper's (C01.3)
	c.skipWrap = true
	c.helperChain()
	c.boundComputation()
	c.skipWrap = false
}

// updateWalkReached: once scaling is done, the update walk is entered unless the strategy is
// OnDelete (or the set is being deleted): a reconcile that returns before the walk for any other
// reason leaves outdated pods in place and goes quiet with them.
func (c *Ctx) updateWalkReached(r *Reconcile) {
	if r.KLoop == nil || r.ULoop == nil {
		c.Fail("scale-down loop / update walk not resolved")
		return
	}
	fn, an := r.Fn, r.An
	done := loopBlock(fn, r.KLoop, cfg.KindForDone)
	if done == nil || len(done.Nodes) == 0 {
		c.Fail("block after the scale-down loop not found")
		return
	}
	start := an.In[done.Index].Assume(c.Want(fn, r.KLoop.End(), `$1.Spec.UpdateStrategy.Type != "OnDelete"`, r.Set))
	aU := fn.FromUntil(done.Nodes[0], start, r.ULoop)
	n := 0
	ast.Inspect(r.FI.Decl.Body, func(x ast.Node) bool {
		switch y := x.(type) {
		case *ast.FuncLit:
			return false
		case *ast.ReturnStmt:
			if y.Pos() < r.KLoop.End() || y.Pos() > r.ULoop.Pos() {
				return true
			}
			n++
			st := aU.StateBefore(y)
			name := fmt.Sprintf("%s: return[%s] between scaling and the update walk", r.FI.Obj.Name(), c.P.Pos(y.Pos()))
			if !st.Reachable() {
				c.OK("C02.7-update-walk-reached", name, y.Pos(), "unreachable unless the strategy is OnDelete")
				return true
			}
			_, wit := st.Implies(gf.False)
			c.Bad("C02.7-update-walk-reached", name, y.Pos(), "with a strategy other than OnDelete the reconcile can return before the update walk: outdated pods are left in place and the controller goes quiet; facts on one such path: "+clip(wit, 500))
		}
		return true
	})
	c.Floor("C02.7-returns-before-the-walk", n, 1)
}

// adoptionTrigger: the revision-adoption work (an uncached read of the set and revision writes) is
// started only when some listed revision has no controller; a trigger that also fires for revisions
// that stay as they are makes every reconcile write.
func (c *Ctx) adoptionTrigger() {
	fi := c.Func(load.CtrlPkg, "StatefulSetController.adoptOrphanRevisions")
	if fi == nil {
		return
	}
	// (facts about the gate are kept although the gate variable is not read again)
	kfn := c.E.FnOf(fi)
	kfn.KeepDead = true
	an := kfn.Analyze(nil)
	kfn.KeepDead = false
	info := fi.Pkg.TypesInfo
	// the writes and the uncached read of this function
	var gated []ast.Node
	for _, s := range c.sitesOf(fi) {
		if s.Class == "read" && s.Resource == "statefulsets.pingcap" {
			gated = append(gated, s.Top)
		}
	}
	for _, call := range callsIn(fi.Decl.Body, false) {
		for _, t := range c.G.CallTargets(info, call) {
			if len(c.G.Effects(t, "write")) > 0 {
				gated = append(gated, call)
			}
		}
	}
	c.Floor("C02.8-gated-adoption-work", len(gated), 2)
	// the gate: a boolean (a local flag, or the result of a helper the engine expands) that holds at every
	// gated site; it is only ever set to something other than false where some listed revision has just
	// been seen without a controller
	fn := c.E.FnOf(fi)
	cands := map[types.Object]int{}
	n := 0
	for _, g := range gated {
		st := an.StateAtExpr(g.(*ast.CallExpr))
		if !st.Reachable() {
			continue
		}
		n++
		here := map[types.Object]bool{}
		for i, d := range st.D {
			cur := map[types.Object]bool{}
			for _, l := range d.L {
				if !l.Neg && l.A.Op == "b" && l.A.L.K == 'v' && l.A.L.Obj != nil {
					cur[l.A.L.Obj] = true
				}
			}
			if i == 0 {
				here = cur
			} else {
				for o := range here {
					if !cur[o] {
						delete(here, o)
					}
				}
			}
		}
		for o := range here {
			cands[o]++
		}
	}
	orphanSeen := func(st gf.State) (bool, string) {
		for _, d := range st.D {
			found := false
			for _, l := range d.L {
				if l.Neg || l.A.Op != "eq" {
					continue
				}
				for _, pair := range [][2]*gf.Term{{l.A.L, l.A.R}, {l.A.R, l.A.L}} {
					if pair[1].K == 'n' && pair[0].K == 'k' && (strings.HasSuffix(pair[0].S, "v1.GetControllerOf") || strings.HasSuffix(pair[0].S, "v1.GetControllerOfNoCopy")) {
						found = true
					}
				}
			}
			if !found {
				return false, d.String()
			}
		}
		return st.Reachable(), ""
	}
	good := false
	var why string
	var flags []types.Object
	for o, k := range cands {
		if k == n {
			flags = append(flags, o)
		}
	}
	sort.Slice(flags, func(i, j int) bool { return flags[i].Name() < flags[j].Name() })
	if len(flags) == 0 {
		why = "no boolean gate holds at all of the adoption work"
	}
	for _, flag := range flags {
		okFlag, sets := true, 0
		for _, b := range fn.CFG.Blocks {
			if !b.Live {
				continue
			}
			for _, nd := range b.Nodes {
				as, ok := nd.(*ast.AssignStmt)
				if !ok || len(as.Lhs) != 1 || len(as.Rhs) != 1 {
					continue
				}
				id, ok := as.Lhs[0].(*ast.Ident)
				if !ok || info.ObjectOf(id) != flag {
					continue
				}
				if fn.Formula(as.Rhs[0]) == gf.False {
					continue
				}
				sets++
				if ok2, wit := orphanSeen(an.StateBefore(as)); !ok2 {
					okFlag = false
					why = fmt.Sprintf("the gate %s is raised at %s without a revision having been seen without a controller; facts on one such path: %s", flag.Name(), c.P.Pos(as.Pos()), clip(wit, 400))
				}
			}
		}
		if okFlag && sets > 0 {
			good = true
		}
	}
	if !good {
		// no flag: the witness itself. The uncached read is reached only where, on every path, some revision has just
		// been seen without a controller, and no write is reachable from the entry without passing that read.
		var reads, writes []*ast.CallExpr
		for _, g := range gated {
			call := g.(*ast.CallExpr)
			isRead := false
			for _, s := range c.G.Sites {
				if s.Call == call && s.Class == "read" {
					isRead = true
				}
			}
			for _, s := range c.sitesOf(fi) {
				if s.Top == call && s.Class == "read" && s.Resource == "statefulsets.pingcap" {
					isRead = true
				}
			}
			if isRead {
				reads = append(reads, call)
			} else {
				writes = append(writes, call)
			}
		}
		if len(reads) > 0 {
			direct := true
			for _, r := range reads {
				st := an.StateAtExpr(r)
				if !st.Reachable() {
					continue
				}
				if ok2, wit := orphanSeen(st); !ok2 {
					direct = false
					why = fmt.Sprintf("the uncached read at %s is reached without a revision having been seen without a controller; facts on one such path: %s", c.P.Pos(r.Pos()), clip(wit, 400))
				}
			}
			if direct {
				var stops []ast.Node
				for _, r := range reads {
					stops = append(stops, r)
				}
				if len(fi.Decl.Body.List) > 0 {
					first := fi.Decl.Body.List[0]
					aU := fn.FromUntil(first, gf.TrueState(), stops...)
					for _, w := range writes {
						if aU.StateAtExpr(w).Reachable() {
							direct = false
							why = fmt.Sprintf("the write at %s is reachable without passing the uncached read that is gated by an orphan", c.P.Pos(w.Pos()))
						}
					}
				}
			}
			good = direct
		}
	}
	c.Check(good, "C02.8-adoption-only-with-an-orphan", fi.Obj.Name()+": gate of the adoption work", fi.Decl.Pos(),
		"the uncached read and the revision writes are reached only after some listed revision was seen without a controller",
		"revision adoption work runs (and writes) on reconciles that have nothing to adopt: "+why)
	c.Floor("C02.8-adoption-sites-reached", n, 2)
}

// writeAvoidable computes, for every in-repo function, whether it has a
// success path without an API write or event (path-insensitive over the CFG).
func (c *Ctx) writeAvoidable() map[*types.Func]bool {
	funcs := c.P.Funcs()
	avoid := map[*types.Func]bool{}
	for _, fi := range funcs {
		avoid[fi.Obj] = true
	}
	siteAt := map[*ast.CallExpr]string{}
	for _, s := range c.G.Sites {
		if s.Class == "write" || s.Class == "event" {
			siteAt[s.Call] = s.Resource + "." + s.Verb
		}
	}
	blocking := func(fi *load.FuncInfo, n ast.Node) bool {
		blocked := false
		ast.Inspect(n, func(x ast.Node) bool {
			if blocked {
				return false
			}
			switch y := x.(type) {
			case *ast.FuncLit:
				return false // closures run when called; a deferred/dynamic call is not followed
			case *ast.CallExpr:
				if _, ok := siteAt[y]; ok {
					blocked = true
					return false
				}
				for _, t := range c.G.CallTargets(fi.Pkg.TypesInfo, y) {
					if !avoid[t] {
						blocked = true
					}
				}
				// retry.RetryOnConflict(backoff, closure): the closure's sites count
				if calleeName(fi.Pkg.TypesInfo, y) == "k8s.io/client-go/util/retry.RetryOnConflict" && len(y.Args) == 2 {
					if lit, ok := y.Args[1].(*ast.FuncLit); ok {
						// avoidable if the closure has a nil return before any site (position-insensitive approximation: some return nil precedes the first site)
						first := lit.End()
						ast.Inspect(lit.Body, func(z ast.Node) bool {
							if ce, ok := z.(*ast.CallExpr); ok {
								if _, isSite := siteAt[ce]; isSite && ce.Pos() < first {
									first = ce.Pos()
								}
							}
							return true
						})
						early := false
						ast.Inspect(lit.Body, func(z ast.Node) bool {
							if r, ok := z.(*ast.ReturnStmt); ok && r.Pos() < first && len(r.Results) == 1 && isNilExpr(fi.Pkg.TypesInfo, r.Results[0]) {
								early = true
							}
							return true
						})
						if !early && first != lit.End() {
							blocked = true
						}
					}
				}
			}
			return true
		})
		return blocked
	}
	for changed := true; changed; {
		changed = false
		for _, fi := range funcs {
			if !avoid[fi.Obj] {
				continue
			}
			fn := c.E.FnOf(fi)
			info := fi.Pkg.TypesInfo
			// functions that are handed the set: decided with the guard-fact engine under the assumption that the set
			// is not being deleted (the state in which the fixed point is reached), so that the deletion early-exit
			// does not count as the write-free path
			if sets := paramsOfType(fi, load.APIPkg, "StatefulSet"); len(sets) == 1 && len(fi.Decl.Body.List) > 0 {
				var stops []ast.Node
				for _, b := range fn.CFG.Blocks {
					if !b.Live {
						continue
					}
					for _, n := range b.Nodes {
						if blocking(fi, n) {
							stops = append(stops, n)
						}
					}
				}
				init := gf.TrueState().Assume(c.Want(fn, fi.Decl.Body.Lbrace+1, "$1.DeletionTimestamp == nil", sets[0]))
				aU := fn.FromUntil(fi.Decl.Body.List[0], init, stops...)
				okE := false
				ast.Inspect(fi.Decl.Body, func(x ast.Node) bool {
					if _, isLit := x.(*ast.FuncLit); isLit {
						return false
					}
					r, isRet := x.(*ast.ReturnStmt)
					if !isRet || !aU.StateBefore(r).Reachable() {
						return true
					}
					if len(r.Results) == 0 || !returnsError(fi.Obj.Type()) {
						okE = true
						return true
					}
					l := r.Results[len(r.Results)-1]
					if isNilExpr(info, l) {
						okE = true
					} else if ce, isCall := ast.Unparen(l).(*ast.CallExpr); isCall {
						if nm := calleeName(info, ce); nm != "fmt.Errorf" && nm != "errors.New" && !blocking(fi, r) {
							okE = true
						}
					} else if cons := aU.StateBefore(r).ConsistentWith(gf.FNil(fn.Term(l))); cons {
						okE = true
					}
					return true
				})
				if ir := fn.ImplicitReturn(); ir != nil && aU.StateBefore(ir).Reachable() {
					okE = true
				}
				if !okE {
					avoid[fi.Obj] = false
					changed = true
				}
				continue
			}
			// blocks passable: no blocking node
			reach := map[int32]bool{}
			var work []int32
			pass := func(i int32) bool {
				b := fn.CFG.Blocks[i]
				for _, n := range b.Nodes {
					if blocking(fi, n) {
						return false
					}
				}
				return true
			}
			if pass(0) {
				reach[0] = true
				work = append(work, 0)
			}
			ok := false
			for len(work) > 0 {
				i := work[len(work)-1]
				work = work[:len(work)-1]
				b := fn.CFG.Blocks[i]
				if len(b.Succs) == 0 {
					// a successful exit: return with nil error / no results / not a panic
					if len(b.Nodes) > 0 {
						switch last := b.Nodes[len(b.Nodes)-1].(type) {
						case *ast.ReturnStmt:
							if len(last.Results) == 0 {
								ok = true
							} else {
								l := last.Results[len(last.Results)-1]
								if returnsError(fi.Obj.Type()) {
									if isNilExpr(info, l) {
										ok = true
									} else if id, isID := ast.Unparen(l).(*ast.Ident); isID && id.Name == "err" {
										ok = true // `return err` after the last call: err may be nil (path-insensitive)
									} else if ce, isCall := ast.Unparen(l).(*ast.CallExpr); isCall {
										switch calleeName(info, ce) {
										case "fmt.Errorf", "errors.New":
											// a freshly built error: a failure exit
										default:
											ok = true // return f(): covered by f's own avoidability through blocking()
										}
									}
								} else {
									ok = true
								}
							}
						default:
							if es, isES := b.Nodes[len(b.Nodes)-1].(*ast.ExprStmt); isES {
								if ce, isCE := es.X.(*ast.CallExpr); isCE && gf.NoReturn(info, ce) {
									continue
								}
							}
							ok = true
						}
					} else {
						ok = true
					}
				}
				for _, s := range b.Succs {
					if !reach[s.Index] && s.Live && pass(s.Index) {
						reach[s.Index] = true
						work = append(work, s.Index)
					}
				}
			}
			if !ok {
				avoid[fi.Obj] = false
				changed = true
			}
		}
	}
	return avoid
}

func (c *Ctx) quiescencePossible() {
	sy := c.Func(load.CtrlPkg, "StatefulSetController.sync")
	if sy == nil {
		return
	}
	avoid := c.writeAvoidable()
	c.Check(avoid[sy.Obj], "C02.1-quiescence-possible", "sync", sy.Decl.Pos(), "there is a path from the entry of sync to a successful return that issues no API write and no event (callees followed)",
		"every successful reconcile issues at least one write or event: the controller can never go quiet")
	// diagnosis: which functions in the reconcile's reach cannot avoid a write (wrappers around a write are expected here)
	reach := c.G.ReachDirect(sy.Obj)
	var non []string
	n := 0
	for f := range reach {
		fi := c.P.FuncInfoOf(f)
		if fi == nil || !(fi.Pkg.PkgPath == load.CtrlPkg || fi.Pkg.PkgPath == load.K8sPkg) {
			continue
		}
		n++
		if !avoid[f] {
			non = append(non, f.Name())
		}
	}
	sort.Strings(non)
	c.Notes = append(c.Notes, fmt.Sprintf("C02.1: %d functions in the reach of sync; not write-avoidable (write wrappers): %s", n, strings.Join(non, ", ")))
	// the orchestrating functions must each be avoidable (localises a violation of the clause above)
	for _, name := range []string{"StatefulSetController.syncStatefulSet", "StatefulSetController.adoptOrphanRevisions", "StatefulSetController.getPodsForStatefulSet",
		"defaultStatefulSetControl.UpdateStatefulSet", "defaultStatefulSetControl.updateStatefulSet", "defaultStatefulSetControl.updateStatefulSetStatus",
		"defaultStatefulSetControl.getStatefulSetRevisions", "defaultStatefulSetControl.truncateHistory", "defaultStatefulSetControl.AdoptOrphanRevisions",
		"realStatefulPodControl.UpdateStatefulPod", "realStatefulPodControl.createPersistentVolumeClaims"} {
		fi := c.Func(load.CtrlPkg, name)
		if fi == nil {
			continue
		}
		c.Check(avoid[fi.Obj], "C02.1-writes-are-avoidable", fi.Obj.Name(), fi.Decl.Pos(), "has a success path that issues no write and no event", fi.Obj.Name()+" issues a write or event on every success path: an unconditional write per reconcile")
	}
	for _, name := range []string{"PodControllerRefManager.ClaimPods", "BaseControllerRefManager.ClaimObject"} {
		if fi := c.Func(load.K8sPkg, name); fi != nil {
			c.Check(avoid[fi.Obj], "C02.1-writes-are-avoidable", fi.Obj.Name(), fi.Decl.Pos(), "has a success path that issues no write and no event", fi.Obj.Name()+" issues a write on every success path")
		}
	}
}

// predicateRepairAgreement: C02.5
func (c *Ctx) predicateRepairAgreement() {
	up := c.Func(load.CtrlPkg, "realStatefulPodControl.UpdateStatefulPod")
	if up == nil {
		return
	}
	info := up.Pkg.TypesInfo
	type pair struct{ pred, repair *types.Func }
	var pairs []pair
	ast.Inspect(up.Decl.Body, func(n ast.Node) bool {
		ifs, ok := n.(*ast.IfStmt)
		if !ok {
			return true
		}
		u, ok := ast.Unparen(ifs.Cond).(*ast.UnaryExpr)
		if !ok || u.Op.String() != "!" {
			return true
		}
		pc, ok := ast.Unparen(u.X).(*ast.CallExpr)
		if !ok {
			return true
		}
		p := gf.StaticCallee(info, pc)
		if p == nil || !load.IsRepo(p.Pkg().Path()) {
			return true
		}
		for _, s := range ifs.Body.List {
			if es, ok := s.(*ast.ExprStmt); ok {
				if rc, ok := es.X.(*ast.CallExpr); ok {
					if r := gf.StaticCallee(info, rc); r != nil && load.IsRepo(r.Pkg().Path()) && len(rc.Args) == len(pc.Args) && c.P.FuncInfoOf(r) != nil {
						if _, isSite := map[bool]bool{}[false]; !isSite && len(c.E.Sum.ModOf(r)) > 0 {
							pairs = append(pairs, pair{p, r})
						}
						break
					}
				}
			}
		}
		return true
	})
	c.Floor("C02.5-predicate-repair-pairs", len(pairs), 2)
	if len(pairs) == 0 {
		return
	}
	// and the reconcile function asks for the repair whenever one of the predicates fails: from the test of the
	// predicates in the wanted loop, with one of them false, the iteration does not end without the pod update
	if r := c.ReconcileRoles(); r != nil && r.WLoop != nil && len(r.Updates) > 0 {
		preds := map[*types.Func]bool{}
		for _, pr := range pairs {
			preds[pr.pred] = true
		}
		rinfo := r.FI.Pkg.TypesInfo
		fn, an := r.Fn, r.An
		var upd *ast.CallExpr
		for _, u := range r.Updates {
			if contains(r.WLoop, u) {
				upd = u
			}
		}
		var test *ast.IfStmt
		var calls []*ast.CallExpr
		if upd != nil {
			ownNodes(r.WLoop.Body, func(x ast.Node) {
				ifs, ok := x.(*ast.IfStmt)
				if !ok || ifs.Pos() > upd.Pos() {
					return
				}
				var here []*ast.CallExpr
				for _, call := range callsIn(ifs.Cond, false) {
					if f := gf.StaticCallee(rinfo, call); f != nil && preds[f.Origin()] {
						here = append(here, call)
					}
				}
				if len(here) > 0 {
					test, calls = ifs, here
				}
			})
		}
		name := r.FI.Obj.Name() + ": repair of identity and storage"
		if test == nil || upd == nil {
			c.Unk("C02.5-repair-asked-for-when-a-predicate-fails", name, r.WLoop.Pos(), "no test of the identity/storage predicates before the pod update in the wanted loop")
		} else {
			seenPred := map[*types.Func]bool{}
			var fails []*gf.Formula
			for _, call := range calls {
				seenPred[gf.StaticCallee(rinfo, call).Origin()] = true
				fails = append(fails, gf.Not(fn.Formula(call)))
			}
			allSeen := true
			for p := range preds {
				if !seenPred[p] {
					allSeen = false
				}
			}
			aU := fn.FromUntil(test, an.StateBefore(test).Assume(gf.Or(fails...)), upd)
			head := loopHead(fn, r.WLoop)
			c.Check(allSeen && head != nil && !aU.BlockReached(head), "C02.5-repair-asked-for-when-a-predicate-fails", name, test.Pos(),
				"with a failing predicate the iteration reaches UpdateStatefulPod", "a pod whose identity or storage does not match can be passed over without the repair: it keeps the wrong name, labels or volumes for good")
		}
	}
	podOwner := func(o string) bool {
		return strings.HasPrefix(o, "k8s.io/api/core/v1.") || strings.HasPrefix(o, "k8s.io/apimachinery/pkg/apis/meta/v1.ObjectMeta")
	}
	written := map[string]bool{}
	var writtenTypes []types.Type
	for _, pr := range pairs {
		for w := range c.E.Sum.ModOf(pr.repair) {
			w = strings.TrimSuffix(w, "[]")
			written[w] = true
		}
	}
	// types of the written fields, for coverage of nested reads
	for w := range written {
		i := strings.LastIndex(w, ".")
		if i < 0 || strings.HasPrefix(w, "elem:") || strings.HasPrefix(w, "deref:") {
			continue
		}
		owner, field := w[:i], w[i+1:]
		j := strings.LastIndex(owner, ".")
		if j < 0 {
			continue
		}
		if tn, ok := c.P.Lookup(owner[:j], owner[j+1:]).(*types.TypeName); ok {
			if st, ok := tn.Type().Underlying().(*types.Struct); ok {
				for k := 0; k < st.NumFields(); k++ {
					if st.Field(k).Name() == field {
						writtenTypes = append(writtenTypes, st.Field(k).Type())
					}
				}
			}
		}
	}
	covered := func(read string) bool {
		if written[read] {
			return true
		}
		i := strings.LastIndex(read, ".")
		owner := read[:i]
		for _, t := range writtenTypes {
			if ownersUnder(t)[owner] {
				return true
			}
		}
		return false
	}
	for _, pr := range pairs {
		var reads []string
		for r := range c.E.Sum.ReadOf(pr.pred) {
			i := strings.LastIndex(r, ".")
			if i > 0 && podOwner(r[:i]) && c.leafField(r[:i], r[i+1:]) {
				reads = append(reads, r)
			}
		}
		sort.Strings(reads)
		var missing []string
		for _, r := range reads {
			if !covered(r) {
				missing = append(missing, r)
			}
		}
		// the other way round, where the predicate is one expression: every field the repair assigns at its top level is
		// a term of that expression, else a pod that is wrong only there is never repaired (the predicate holds)
		if pfi, rfi := c.P.FuncInfoOf(pr.pred), c.P.FuncInfoOf(pr.repair); pfi != nil && rfi != nil && len(pfi.Decl.Body.List) >= 1 {
			nRet := 0
			ownNodes(pfi.Decl.Body, func(x ast.Node) {
				if _, isRet := x.(*ast.ReturnStmt); isRet {
					nRet++
				}
			})
			if ret, ok := pfi.Decl.Body.List[len(pfi.Decl.Body.List)-1].(*ast.ReturnStmt); ok && len(ret.Results) == 1 && nRet == 1 {
				pfn := c.E.FnOf(pfi)
				pf := pfn.Formula(ret.Results[0])
				var pps, rps []*ast.Ident
				for _, f := range pfi.Decl.Type.Params.List {
					pps = append(pps, f.Names...)
				}
				for _, f := range rfi.Decl.Type.Params.List {
					rps = append(rps, f.Names...)
				}
				if len(pps) == len(rps) {
					rinfo := rfi.Pkg.TypesInfo
					var unread []string
					for _, st := range rfi.Decl.Body.List {
						as, ok := st.(*ast.AssignStmt)
						if !ok || len(as.Lhs) != 1 {
							continue
						}
						root := rootIdent(as.Lhs[0])
						k := -1
						for i, rp := range rps {
							if root != nil && rinfo.ObjectOf(root) == rinfo.ObjectOf(rp) {
								k = i
							}
						}
						if k < 0 || ast.Unparen(as.Lhs[0]) == ast.Expr(root) {
							continue
						}
						// the same field of the predicate's parameter
						txt := fullExprString(c.P.Fset, as.Lhs[0])
						if !strings.HasPrefix(txt, root.Name) {
							continue
						}
						lt := c.TryWantTerm(pfn, ret.Pos(), "$1"+txt[len(root.Name):], pps[k])
						if lt == nil {
							continue
						}
						if !formulaMentions(pf, lt.Key()) {
							unread = append(unread, txt)
						}
					}
					c.Check(len(unread) == 0, "C02.5-repair-predicate-agreement", fmt.Sprintf("UpdateStatefulPod: %s -> !%s", pr.repair.Name(), pr.pred.Name()), up.Decl.Pos(),
						"every pod field the repair assigns is a term of its predicate",
						"the repair "+pr.repair.Name()+" sets "+strings.Join(unread, ", ")+", which its predicate "+pr.pred.Name()+" does not look at: a pod wrong only there is never repaired")
				}
			}
		}
		c.Check(len(missing) == 0 && len(reads) > 0, "C02.5-predicate-repair-agreement", fmt.Sprintf("UpdateStatefulPod: !%s -> %s", pr.pred.Name(), pr.repair.Name()), up.Decl.Pos(),
			fmt.Sprintf("every pod field the predicate reads (%d) is written by the repair functions applied under the predicates", len(reads)),
			"the predicate "+pr.pred.Name()+" reads pod fields that no repair function writes ("+strings.Join(missing, ", ")+"): a pod differing only there is updated on every reconcile without ever matching, so the controller never goes quiet")
	}
}

// ownersUnder lists the named struct types reachable from t.
func ownersUnder(t types.Type) map[string]bool {
	out := map[string]bool{}
	seen := map[types.Type]bool{}
	var walk func(t types.Type, d int)
	walk = func(t types.Type, d int) {
		if t == nil || d > 6 || seen[t] {
			return
		}
		seen[t] = true
		switch u := t.(type) {
		case *types.Named:
			if _, ok := u.Underlying().(*types.Struct); ok {
				out[gf.OwnerName(u)] = true
			}
			walk(u.Underlying(), d)
		case *types.Alias:
			walk(types.Unalias(u), d)
		case *types.Pointer:
			walk(u.Elem(), d)
		case *types.Slice:
			walk(u.Elem(), d)
		case *types.Array:
			walk(u.Elem(), d)
		case *types.Map:
			walk(u.Elem(), d)
		case *types.Struct:
			for i := 0; i < u.NumFields(); i++ {
				walk(u.Field(i).Type(), d+1)
			}
		}
	}
	walk(t, 0)
	return out
}

// leafField: the field is not itself a struct (selections of struct-valued fields are path prefixes).
func (c *Ctx) leafField(owner, field string) bool {
	j := strings.LastIndex(owner, ".")
	if j < 0 {
		return true
	}
	tn, ok := c.P.Lookup(owner[:j], owner[j+1:]).(*types.TypeName)
	if !ok {
		return true
	}
	st, ok := tn.Type().Underlying().(*types.Struct)
	if !ok {
		return true
	}
	for k := 0; k < st.NumFields(); k++ {
		if st.Field(k).Name() == field {
			_, isStruct := st.Field(k).Type().Underlying().(*types.Struct)
			return !isStruct
		}
	}
	return true
}

// formulaMentions: some atom of f contains a term with this key.
func formulaMentions(f *gf.Formula, key string) bool {
	if f == nil {
		return false
	}
	if f.Op == 'A' && f.Atom != nil {
		for _, t := range f.Atom.Terms() {
			if t.Mentions(func(s *gf.Term) bool { return s.Key() == key }) {
				return true
			}
		}
	}
	for _, s := range f.Sub {
		if formulaMentions(s, key) {
			return true
		}
	}
	return false
}
