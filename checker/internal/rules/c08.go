package rules

import (
	"fmt"
	"go/ast"
	"go/token"
	"go/types"
	"sort"
	"strings"

	"asverif/internal/gf"
	"asverif/internal/load"
)

func init() {
	register(&Property{
		ID:    "C08",
		Title: "Update revision mirrors the template; scaling edits never cause a restart",
		Run:   runC08,
		Explanation: "Decides clauses C08.1-C08.5 of DESIGN.md: (1) the revision data is a projection of spec.template only: the value marshalled by the patch builder is a fresh map whose entries have constant keys and whose only non-constant leaf is the sub-tree read from the encoded set under the constant key path spec -> template, into which only \"$patch\":\"replace\" is stored; " +
			"(2) revision equality and both hash functions read only the revision's Data (and the hash label): annotations, other labels and metadata play no role; (3) in the function that picks the revisions, the revision Create is reached only with no equal revision among the listed ones, the renumbering Update only with an equal one that is not the newest, with the candidate's next revision number, and no other revision write is reachable; " +
			"(4) the create loop's effect set is {Create, Get}: a name collision never overwrites; the existing object is returned only under byte-equal data, otherwise the collision counter is incremented and the create retried; (5) status.updateRevision is assigned once, from the chosen update revision's name. (6) the update-revision variable only takes the candidate, a create/renumber result or the newest listed revision; the collision counter changes only where the existing revision's data differs from the candidate's; history truncation keeps the revisions this reconcile computed (C13.1/C13.2 as clauses). NOT decided: that applying the stored patch reproduces the template exactly for all templates (round-trip equality).",
	})
}

func runC08(c *Ctx) {
	c.patchProjection("C08.1")
	c.equalityReadsDataOnly("C08.2")
	c.revisionChoice()
	c.createLoop()
	// "status.updateRevision names ...": the name reaches the stored status only if the computed status is what every
	// attempt of the status write sends (the retry-shape rules shared with C09.5 / C12.5)
	c.statusRetryShape("C08.5")
	// the history the update revision is looked up in (and renumbered against) holds every listed revision that is
	// this set's or nobody's (the lister rules of C13/C10, as clauses of this property)
	c.withOnly(map[string]string{"C08.3h-owner-filter": "C08.3-history-owner-filter", "C08.3h-unowned-revisions-are-kept": "C08.3-history-keeps-unowned-revisions"}, nil, "C08.3-history-lister", 2, func() { c.listerFilters("C08.3h", "C08.3h-dedup") })
	// the revision a rollback re-uses (and every revision this reconcile chose) survives history truncation:
	// the truncation rules of C13 (live set seeded with the computed current and update revisions,
	// only non-live revisions beyond the limit are deleted)
	for _, s := range revisionDeleteSites(c) {
		c.truncate(s)
	}
	if r := c.ReconcileRoles(); r != nil {
		n := 0
		for _, fs := range fieldStores(r.FI.Pkg.TypesInfo, r.FI.Decl.Body) {
			if fs.Field == "UpdateRevision" && isNamed(fs.Owner, load.APIPkg, "StatefulSetStatus") {
				n++
				c.Check(r.Fn.Term(fs.Rhs).Key() == c.WantTerm(r.Fn, fs.Node.Pos(), "$1.Name", r.UpdRev).Key(), "C08.5-update-revision-source", r.FI.Obj.Name()+": "+types.ExprString(fs.Base)+"."+fs.Field, fs.Node.Pos(),
					"assigned from the chosen update revision's name", "status.updateRevision is assigned from something else")
			}
		}
		// or in a helper expanded into the reconcile function (its parameters are related to the caller's values by the engine)
		for _, h := range r.Fn.Expanded() {
			if !c.liftedAway(h) {
				continue
			}
			for _, fs := range fieldStores(h.Pkg.TypesInfo, h.Decl.Body) {
				if fs.Field == "UpdateRevision" && isNamed(fs.Owner, load.APIPkg, "StatefulSetStatus") {
					n++
					want := c.WantTerm(r.Fn, r.FI.Decl.Body.Lbrace+1, "$1.Name", r.UpdRev)
					c.Implies(r.An.StateBefore(fs.Node), gf.FEq(r.Fn.Term(fs.Rhs), want), "C08.5-update-revision-source", h.Obj.Name()+": "+types.ExprString(fs.Base)+"."+fs.Field, fs.Node.Pos())
				}
			}
		}
		c.Floor("C08.5-update-revision-assignments", n, 1)
	}
}

// patchProjection: C08.1 on getPatch.
func (c *Ctx) patchProjection(prefix string) {
	fi := c.Func(load.CtrlPkg, "getPatch")
	if fi == nil {
		return
	}
	info := fi.Pkg.TypesInfo
	fn := c.E.FnOf(fi)
	sets := paramsOfType(fi, load.APIPkg, "StatefulSet")
	if len(sets) != 1 {
		c.Fail("getPatch: set parameter not found")
		return
	}
	// the marshalled value
	var marshalArg ast.Expr
	var raw types.Object
	encodedFromParam := false
	for _, call := range callsIn(fi.Decl.Body, false) {
		switch calleeName(info, call) {
		case "encoding/json.Marshal":
			marshalArg = call.Args[0]
		case "encoding/json.Unmarshal":
			if u, ok := ast.Unparen(call.Args[1]).(*ast.UnaryExpr); ok {
				if id, ok := u.X.(*ast.Ident); ok {
					raw = info.ObjectOf(id)
				}
			}
			// its input derives from runtime.Encode(codec, set)
			if src := rootIdent(call.Args[0]); src != nil {
				if enc := assignedFromCall(fi, info, src); enc != nil && calleeName(info, enc) == "k8s.io/apimachinery/pkg/runtime.Encode" && len(enc.Args) == 2 {
					encodedFromParam = fn.Term(enc.Args[1]).Key() == fn.Term(sets[0]).Key()
				}
			} else if conv, ok := ast.Unparen(call.Args[0]).(*ast.CallExpr); ok && len(conv.Args) == 1 {
				if src := rootIdent(conv.Args[0]); src != nil {
					if enc := assignedFromCall(fi, info, src); enc != nil && calleeName(info, enc) == "k8s.io/apimachinery/pkg/runtime.Encode" && len(enc.Args) == 2 {
						encodedFromParam = fn.Term(enc.Args[1]).Key() == fn.Term(sets[0]).Key()
					}
				}
			}
		}
	}
	if marshalArg == nil || raw == nil {
		c.Bad(prefix+"-patch-is-template-projection", "getPatch", fi.Decl.Pos(), "the patch is not built by unmarshalling the encoded set and marshalling a map")
		return
	}
	c.Check(encodedFromParam, prefix+"-patch-source", "getPatch: encoded object", fi.Decl.Pos(), "the decoded tree is the encoding of the set passed in", "the patch is cut from something other than the encoding of the given set")
	// classification
	type cls struct {
		kind string // const, fresh, proj, other
		obj  types.Object
		path []string
	}
	var classify func(e ast.Expr, depth int) cls
	constKey := func(e ast.Expr) (string, bool) {
		tv, ok := info.Types[e]
		if ok && tv.Value != nil {
			return strings.Trim(tv.Value.ExactString(), `"`), true
		}
		return "", false
	}
	classify = func(e ast.Expr, depth int) cls {
		e = ast.Unparen(e)
		if depth > 16 {
			return cls{kind: "other"}
		}
		if tv, ok := info.Types[e]; ok && tv.Value != nil {
			return cls{kind: "const"}
		}
		switch x := e.(type) {
		case *ast.Ident:
			o := info.ObjectOf(x)
			if o == raw {
				return cls{kind: "proj", obj: o}
			}
			rhs := defRHS(fi, info, x)
			if rhs == nil {
				return cls{kind: "other"}
			}
			r := classify(rhs, depth+1)
			if r.kind == "fresh" || r.kind == "proj" {
				r.obj = o
			}
			return r
		case *ast.CallExpr:
			if id, ok := x.Fun.(*ast.Ident); ok && id.Name == "make" {
				return cls{kind: "fresh"}
			}
		case *ast.CompositeLit:
			if len(x.Elts) == 0 {
				return cls{kind: "fresh"}
			}
		case *ast.TypeAssertExpr:
			return classify(x.X, depth+1)
		case *ast.IndexExpr:
			base := classify(x.X, depth+1)
			if base.kind == "proj" {
				if k, ok := constKey(x.Index); ok {
					return cls{kind: "proj", path: append(append([]string{}, base.path...), k)}
				}
			}
		}
		return cls{kind: "other"}
	}
	// stores by target variable
	stores := map[types.Object][]*ast.AssignStmt{}
	ast.Inspect(fi.Decl.Body, func(n ast.Node) bool {
		if as, ok := n.(*ast.AssignStmt); ok && len(as.Lhs) == 1 && len(as.Rhs) == 1 {
			if ix, ok := as.Lhs[0].(*ast.IndexExpr); ok {
				if id, ok := ast.Unparen(ix.X).(*ast.Ident); ok {
					stores[info.ObjectOf(id)] = append(stores[info.ObjectOf(id)], as)
				}
			}
		}
		return true
	})
	n := 0
	var checkFresh func(obj types.Object, path string, depth int)
	seen := map[types.Object]bool{}
	checkFresh = func(obj types.Object, path string, depth int) {
		if seen[obj] || depth > 5 {
			return
		}
		seen[obj] = true
		for _, as := range stores[obj] {
			n++
			ix := as.Lhs[0].(*ast.IndexExpr)
			k, isConst := constKey(ix.Index)
			name := fmt.Sprintf("getPatch: %s = %s", types.ExprString(as.Lhs[0]), clip(types.ExprString(as.Rhs[0]), 40))
			if !isConst {
				c.Bad(prefix+"-patch-is-template-projection", name, as.Pos(), "a non-constant key is stored into the patch")
				continue
			}
			v := classify(as.Rhs[0], 0)
			switch v.kind {
			case "const":
				c.OK(prefix+"-patch-is-template-projection", name, as.Pos(), "constant entry")
			case "fresh":
				c.OK(prefix+"-patch-is-template-projection", name, as.Pos(), "nested fresh map (checked recursively)")
				if v.obj != nil {
					checkFresh(v.obj, path+"."+k, depth+1)
				}
			case "proj":
				okPath := len(v.path) == 2 && v.path[0] == "spec" && v.path[1] == "template" && path+"."+k == ".spec.template"
				c.Check(okPath, prefix+"-patch-is-template-projection", name, as.Pos(), "the only state-dependent leaf: encoded spec.template, stored at spec.template",
					"part of the encoded set other than spec.template flows into the revision data at "+path+"."+k+" (path read: "+strings.Join(v.path, ".")+"): a non-template edit changes the update revision")
				// stores into the projected sub-tree
				if v.obj != nil {
					for _, ps := range stores[v.obj] {
						n++
						pix := ps.Lhs[0].(*ast.IndexExpr)
						pk, _ := constKey(pix.Index)
						pv, isC := info.Types[ps.Rhs[0]]
						c.Check(pk == "$patch" && isC && pv.Value != nil && strings.Trim(pv.Value.ExactString(), `"`) == "replace", prefix+"-patch-is-template-projection",
							"getPatch: "+types.ExprString(ps.Lhs[0])+" = "+types.ExprString(ps.Rhs[0]), ps.Pos(), `the constant "$patch":"replace" directive`, "something other than the $patch directive is stored into the template sub-tree")
					}
				}
			default:
				c.Bad(prefix+"-patch-is-template-projection", name, as.Pos(), "a value that is neither constant nor the encoded spec.template flows into the revision data")
			}
		}
	}
	m := classify(marshalArg, 0)
	if m.kind != "fresh" || m.obj == nil {
		c.Bad(prefix+"-patch-is-template-projection", "getPatch: Marshal argument", marshalArg.Pos(), "the marshalled value is not a fresh map built in this function")
		return
	}
	checkFresh(m.obj, "", 0)
	c.Floor(prefix+"-patch-stores", n, 3)
	// the recorded form is the encoder's: "unchanged template" is decided by comparing bytes with what earlier
	// reconciles (and the controller this one took over from) have stored, so nothing is taken out of, or put into,
	// the decoded tree at any depth -- but for the $patch directive on the template
	nTree := 0
	ast.Inspect(fi.Decl.Body, func(x ast.Node) bool {
		switch y := x.(type) {
		case *ast.AssignStmt:
			for li, l := range y.Lhs {
				ix, ok := ast.Unparen(l).(*ast.IndexExpr)
				if !ok {
					continue
				}
				base := classify(ix.X, 0)
				if base.kind != "proj" {
					continue
				}
				nTree++
				k, _ := constKey(ix.Index)
				good := false
				if len(y.Rhs) == len(y.Lhs) {
					if pv, isC := info.Types[y.Rhs[li]]; isC && pv.Value != nil {
						good = k == "$patch" && strings.Trim(pv.Value.ExactString(), `"`) == "replace" && len(base.path) == 2 && base.path[0] == "spec" && base.path[1] == "template"
					}
				}
				c.Check(good, prefix+"-recorded-form-is-the-encoders", "getPatch: "+types.ExprString(l)+" = …", y.Pos(), `the $patch directive on spec.template`,
					"the decoded tree is edited at "+strings.Join(base.path, ".")+"["+k+"] before it is recorded: the bytes differ from those of the revisions already stored for the same template, an unchanged template no longer matches its revision and a new revision (and a rolling restart) follows")
			}
		case *ast.CallExpr:
			if id, ok := y.Fun.(*ast.Ident); ok && id.Name == "delete" && len(y.Args) == 2 {
				if _, isBuiltin := info.Uses[id].(*types.Builtin); isBuiltin {
					if base := classify(y.Args[0], 0); base.kind == "proj" {
						nTree++
						c.Bad(prefix+"-recorded-form-is-the-encoders", "getPatch: "+types.ExprString(y), y.Pos(),
							"an entry is deleted from the decoded tree at "+strings.Join(base.path, ".")+" before it is recorded: the bytes differ from those of the revisions already stored for the same template, an unchanged template no longer matches its revision and a new revision (and a rolling restart) follows")
					}
				}
			}
		}
		return true
	})
	c.Floor(prefix+"-decoded-tree-stores", nTree, 1)
	// the revision constructor uses that patch as Data.Raw and nothing else from the set but labels/annotations (which equality ignores)
	if nr := c.Func(load.CtrlPkg, "newRevision"); nr != nil {
		ninfo := nr.Pkg.TypesInfo
		ok := false
		for _, call := range callsIn(nr.Decl.Body, false) {
			if calleeName(ninfo, call) == load.K8sPkg+".NewControllerRevision" && len(call.Args) >= 4 {
				if lit, isLit := ast.Unparen(call.Args[3]).(*ast.CompositeLit); isLit && len(lit.Elts) == 1 {
					if kv, isKV := lit.Elts[0].(*ast.KeyValueExpr); isKV {
						if k, isID := kv.Key.(*ast.Ident); isID && k.Name == "Raw" {
							if src := assignedFromCall(nr, ninfo, kv.Value); src != nil {
								if f := gf.StaticCallee(ninfo, src); f != nil && f.Origin() == fi.Obj {
									ok = true
								}
							}
						}
					}
				}
			}
		}
		c.Check(ok, prefix+"-revision-data-is-the-patch", "newRevision", nr.Decl.Pos(), "Data = RawExtension{Raw: getPatch(set)}", "the revision's data is not exactly the template patch")
	}
}

// equalityReadsDataOnly: C08.2
func (c *Ctx) equalityReadsDataOnly(prefix string) {
	type spec struct {
		pkg, name string
		allowed   map[string]bool
	}
	for _, s := range []spec{
		{load.K8sPkg, "EqualRevision", map[string]bool{"Data": true, "Labels": true}},
		{load.K8sPkg, "HashControllerRevision", map[string]bool{"Data": true}},
		{load.CtrlPkg, "hashControllerRevision", map[string]bool{"Data": true}},
	} {
		fi := c.Func(s.pkg, s.name)
		if fi == nil {
			continue
		}
		info := fi.Pkg.TypesInfo
		got := map[string]bool{}
		ast.Inspect(fi.Decl.Body, func(x ast.Node) bool {
			if sel, ok := x.(*ast.SelectorExpr); ok && isNamed(info.TypeOf(sel.X), "k8s.io/api/apps/v1", "ControllerRevision") {
				if _, isField := info.ObjectOf(sel.Sel).(*types.Var); isField {
					got[sel.Sel.Name] = true
				}
			}
			return true
		})
		var extra []string
		for g := range got {
			if !s.allowed[g] {
				extra = append(extra, g)
			}
		}
		sort.Strings(extra)
		// the revision is not passed on whole to anything but the sibling hash/equality helpers
		c.Check(len(extra) == 0 && got["Data"], prefix+"-equality-reads-data-only", s.name, fi.Decl.Pos(), "reads only .Data (and the hash label) of the revisions", s.name+" also reads "+strings.Join(extra, ", ")+" of a revision: non-template edits can change revision identity")
		if s.name == "EqualRevision" {
			// label reads use the hash label constant only
			okLabel := true
			ast.Inspect(fi.Decl.Body, func(x ast.Node) bool {
				if ix, ok := x.(*ast.IndexExpr); ok {
					if sel, ok := ast.Unparen(ix.X).(*ast.SelectorExpr); ok && sel.Sel.Name == "Labels" {
						if tv, ok := info.Types[ix.Index]; !ok || tv.Value == nil || !strings.Contains(tv.Value.ExactString(), "controller.kubernetes.io/hash") {
							okLabel = false
						}
					}
				}
				return true
			})
			c.Check(okLabel, prefix+"-equality-reads-data-only", s.name+": label reads", fi.Decl.Pos(), "only the hash label", "revision equality depends on a label other than the data hash")
			// the final verdict is byte equality of Data.Raw
			last := fi.Decl.Body.List[len(fi.Decl.Body.List)-1]
			okBytes := false
			if ret, ok := last.(*ast.ReturnStmt); ok {
				for _, call := range callsIn(ret, false) {
					if calleeName(info, call) == "bytes.Equal" {
						okBytes = strings.Contains(types.ExprString(call.Args[0]), "Data.Raw") && strings.Contains(types.ExprString(call.Args[1]), "Data.Raw")
					}
				}
			}
			c.Check(okBytes, prefix+"-equality-is-byte-equality", s.name, fi.Decl.Pos(), "bytes.Equal(lhs.Data.Raw, rhs.Data.Raw)", "revision equality is not byte equality of the data")
			// the hash label may make two revisions unequal only when both labels parsed as integers (the shape
			// inherited from upstream): every early `return false` is dominated by non-nil parsed hashes of both sides,
			// and those are assigned only after a successful strconv parse. Otherwise equality depends on the
			// collision-count probe baked into the label.
			fn2 := c.E.FnOf(fi)
			fn2.KeepDead = true
			an2 := fn2.Analyze(nil)
			fn2.KeepDead = false
			// the parsed-hash variables: nil-initialised pointer locals, or locals assigned from a small helper that
			// returns such a pointer (the parsing may have been moved into it)
			var parsed []*ast.Ident
			helperOf := map[types.Object]*load.FuncInfo{}
			ast.Inspect(fi.Decl.Body, func(x ast.Node) bool {
				switch y := x.(type) {
				case *ast.ValueSpec:
					if len(y.Values) == 0 {
						for _, id := range y.Names {
							if _, isPtr := info.TypeOf(id).Underlying().(*types.Pointer); isPtr {
								parsed = append(parsed, id)
							}
						}
					}
				case *ast.AssignStmt:
					// hash, ok := helper(rev): the flag says whether the label parsed
					if len(y.Lhs) == 2 && len(y.Rhs) == 1 {
						flag, isID := y.Lhs[1].(*ast.Ident)
						call, isCall := ast.Unparen(y.Rhs[0]).(*ast.CallExpr)
						if isID && isCall && flag.Name != "_" && isBoolT(info.TypeOf(flag)) {
							if h := gf.StaticCallee(info, call); h != nil {
								if hfi := c.P.FuncInfoOf(h); hfi != nil && hfi.Pkg == fi.Pkg && c.liftedAway(hfi) && helperOf[info.ObjectOf(flag)] == nil {
									parsed = append(parsed, flag)
									helperOf[info.ObjectOf(flag)] = hfi
								}
							}
						}
					}
					if len(y.Lhs) == 1 && len(y.Rhs) == 1 {
						id, isID := y.Lhs[0].(*ast.Ident)
						call, isCall := ast.Unparen(y.Rhs[0]).(*ast.CallExpr)
						if isID && isCall {
							if pt, isPtr := info.TypeOf(id).Underlying().(*types.Pointer); isPtr {
								if _, basic := pt.Elem().Underlying().(*types.Basic); basic {
									if h := gf.StaticCallee(info, call); h != nil {
										if hfi := c.P.FuncInfoOf(h); hfi != nil && hfi.Pkg == fi.Pkg && c.liftedAway(hfi) && helperOf[info.ObjectOf(id)] == nil {
											parsed = append(parsed, id)
											helperOf[info.ObjectOf(id)] = hfi
										}
									}
								}
							}
						}
					}
				}
				return true
			})
			nFalse := 0
			ast.Inspect(fi.Decl.Body, func(x ast.Node) bool {
				ret, ok := x.(*ast.ReturnStmt)
				if !ok || len(ret.Results) != 1 || fn2.Formula(ret.Results[0]) != gf.False {
					return true
				}
				nFalse++
				var conj []*gf.Formula
				for _, id := range parsed {
					if isBoolT(info.TypeOf(id)) {
						conj = append(conj, gf.FBool(fn2.Term(id)))
					} else {
						conj = append(conj, gf.FNotNil(fn2.Term(id)))
					}
				}
				name := fmt.Sprintf("%s: return false[%d]", s.name, nFalse)
				if len(parsed) < 2 {
					c.Bad(prefix+"-hash-label-only-when-numeric", name, ret.Pos(), "revisions are declared unequal without both hash labels having parsed as integers: equality now depends on the label text (data hash plus collision count), not on the data")
					return true
				}
				c.Implies(an2.StateBefore(ret), gf.And(conj...), prefix+"-hash-label-only-when-numeric", name, ret.Pos())
				// ... and differ: with two pointer-held hashes, `*l != *r` is a fact where false is returned
				var ptrs []*gf.Term
				for _, id := range parsed {
					if pt, isPtr := info.TypeOf(id).Underlying().(*types.Pointer); isPtr {
						ptrs = append(ptrs, gf.Deref(fn2.Term(id), pt.Elem()))
					}
				}
				if len(ptrs) == 2 {
					c.Implies(an2.StateBefore(ret), gf.FNe(ptrs[0], ptrs[1]), prefix+"-unequal-only-when-hashes-differ", name, ret.Pos())
				}
				return true
			})
			// a parsed-hash variable becomes non-nil only after a successful numeric parse: at every store of a non-nil
			// value (in EqualRevision, or at a non-nil return of the helper) the error of a strconv.Parse* call is nil
			parseOK := func(hostFI *load.FuncInfo, hfn *gf.Fn, han *gf.Analysis, site ast.Node) bool {
				hinfo := hostFI.Pkg.TypesInfo
				var errs []*ast.Ident
				ast.Inspect(hostFI.Decl.Body, func(y ast.Node) bool {
					if as, ok := y.(*ast.AssignStmt); ok && len(as.Rhs) == 1 && len(as.Lhs) == 2 && as.End() <= site.Pos() {
						if call, ok := ast.Unparen(as.Rhs[0]).(*ast.CallExpr); ok && strings.HasPrefix(calleeName(hinfo, call), "strconv.Parse") {
							if eid, ok := as.Lhs[1].(*ast.Ident); ok {
								errs = append(errs, eid)
							}
						}
					}
					return true
				})
				st := han.StateBefore(site)
				if !st.Reachable() {
					return true
				}
				for _, e := range errs {
					if good, _ := st.Implies(gf.FNil(hfn.Term(e))); good {
						return true
					}
				}
				return false
			}
			doneHelper := map[*load.FuncInfo]bool{}
			for _, id := range parsed {
				if hfi := helperOf[info.ObjectOf(id)]; hfi != nil {
					if doneHelper[hfi] {
						continue
					}
					doneHelper[hfi] = true
					hfn := c.E.FnOf(hfi)
					hfn.KeepDead = true
					han := hfn.Analyze(nil)
					hfn.KeepDead = false
					ast.Inspect(hfi.Decl.Body, func(x ast.Node) bool {
						ret, ok := x.(*ast.ReturnStmt)
						if !ok {
							return true
						}
						switch len(ret.Results) {
						case 1:
							if isNilExpr(hfi.Pkg.TypesInfo, ret.Results[0]) {
								return true
							}
						case 2:
							if hfn.Formula(ret.Results[1]) == gf.False {
								return true
							}
						default:
							return true
						}
						c.Check(parseOK(hfi, hfn, han, ret), prefix+"-hash-label-only-when-numeric", hfi.Obj.Name()+": return "+types.ExprString(ret.Results[0]), ret.Pos(), "a non-nil parsed hash is returned only after a successful strconv parse of the label", "a parsed hash is produced without a successful numeric parse")
						return true
					})
					continue
				}
				ast.Inspect(fi.Decl.Body, func(x ast.Node) bool {
					as, ok := x.(*ast.AssignStmt)
					if !ok || len(as.Lhs) != 1 || fn2.Term(as.Lhs[0]).Key() != fn2.Term(id).Key() {
						return true
					}
					if len(as.Rhs) == 1 && isNilExpr(info, as.Rhs[0]) {
						return true
					}
					c.Check(parseOK(fi, fn2, an2, as), prefix+"-hash-label-only-when-numeric", s.name+": "+types.ExprString(as.Lhs[0])+" = "+types.ExprString(as.Rhs[0]), as.Pos(), "set only after a successful strconv parse of the label", "a parsed-hash variable is set without a successful numeric parse")
					return true
				})
			}
		}
	}
}

// revisionChoice: C08.3 on getStatefulSetRevisions.
func (c *Ctx) revisionChoice() {
	fi := c.Func(load.CtrlPkg, "defaultStatefulSetControl.getStatefulSetRevisions")
	cr := c.Func(load.CtrlPkg, "defaultStatefulSetControl.createControllerRevision")
	ur := c.Func(load.CtrlPkg, "defaultStatefulSetControl.updateControllerRevision")
	if fi == nil || cr == nil || ur == nil {
		return
	}
	fn := c.E.FnOf(fi)
	fn.KeepDead = true
	an := fn.Analyze(nil)
	fn.KeepDead = false
	_ = fi.Pkg.TypesInfo
	revs := fi.Decl.Type.Params.List[1].Names[0]
	var nCreate, nUpdate int
	nr := c.Func(load.CtrlPkg, "newRevision")
	nx := c.Func(load.CtrlPkg, "nextRevision")
	ferName := load.K8sPkg + ".FindEqualRevisions"
	revsT := fn.Term(revs)
	one := func(d *gf.Disj) gf.State { return gf.State{D: []*gf.Disj{d}} }
	class := func(d *gf.Disj, t *gf.Term) []*gf.Term { return append([]*gf.Term{t}, d.EqualTerms(t)...) }
	// t is, on this path, the result of a call of one of the given functions (expanded or not)
	resultOf := func(d *gf.Disj, t *gf.Term, fis ...*load.FuncInfo) (*ast.CallExpr, bool) {
		for _, o := range class(d, t) {
			if o.K == 'v' && o.Obj != nil {
				if site, k := fn.ResultSite(o.Obj); site != nil && k == 0 {
					for _, w := range fis {
						if w != nil && site.Callee.Obj == w.Obj {
							return site.Call, true
						}
					}
				}
			}
			if o.K == 'k' && o.Fn != nil {
				for _, w := range fis {
					if w != nil && o.Fn.Origin() == w.Obj {
						return nil, true
					}
				}
			}
		}
		return nil, false
	}
	// the candidate: built by newRevision from the set with the number nextRevision(revisions)
	isCandidate := func(d *gf.Disj, t *gf.Term) bool {
		call, ok := resultOf(d, t, nr)
		if !ok {
			// not expanded: the variable was assigned the call's first result
			return false
		}
		if call == nil {
			return true
		}
		return true
	}
	// every call of newRevision in the choice numbers the candidate nextRevision(revisions)
	if nr != nil && nx != nil {
		for _, bd := range fn.Bodies() {
			for _, call := range callsIn(bd, false) {
				if f := gf.StaticCallee(fn.Info, call); f == nil || f.Origin() != nr.Obj || len(call.Args) < 2 {
					continue
				}
				for _, st := range an.StatesAtExpr(call) {
					if !st.Reachable() {
						continue
					}
					want := gf.FEq(fn.Term(call.Args[1]), gf.CallT(nx.Obj.FullName(), types.Typ[types.Int64], revsT))
					c.Implies(st, want, "C08.3-candidate-numbered-above-all", fi.Obj.Name()+": newRevision number", call.Pos())
				}
			}
		}
	}
	for _, bd := range fn.Bodies() {
		for _, call := range callsIn(bd, false) {
			f := gf.StaticCallee(fn.Info, call)
			if f == nil || (f.Origin() != cr.Obj && f.Origin() != ur.Obj) {
				continue
			}
			for _, st := range an.StatesAtExpr(call) {
				if !st.Reachable() {
					continue
				}
				switch f.Origin() {
				case cr.Obj:
					nCreate++
					name := fi.Obj.Name() + ": createControllerRevision"
					if len(call.Args) < 2 {
						c.Unk("C08.3-create-only-without-equal-revision", name, call.Pos(), "the create helper has no candidate argument")
						continue
					}
					cand := fn.Term(call.Args[1])
					// no listed revision is equal to the candidate
					none := gf.FEq(gf.LenOf(gf.CallT(ferName, revsT.Typ, revsT, cand)), gf.ConstInt(0))
					c.Implies(st, none, "C08.3-create-only-without-equal-revision", name, call.Pos())
					okSrc := true
					for _, d := range st.D {
						if !isCandidate(d, cand) {
							okSrc = false
						}
					}
					c.Check(okSrc, "C08.3-candidate-from-current-template", fi.Obj.Name()+": candidate revision", call.Pos(), "the created revision is the one newRevision built from the set", "the created revision is not built from the set's current template")
				case ur.Obj:
					nUpdate++
					name := fi.Obj.Name() + ": updateControllerRevision"
					if len(call.Args) < 2 {
						c.Unk("C08.3-rollback-target-is-an-equal-revision", name, call.Pos(), "the renumber helper has no target/number arguments")
						continue
					}
					tt := fn.Term(call.Args[0])
					okEq, okNum := true, true
					for _, d := range st.D {
						// the target is a cell of FindEqualRevisions(revisions, candidate)
						var candT *gf.Term
						for _, cell := range class(d, tt) {
							if cell.K != 'i' || len(cell.A) != 2 {
								continue
							}
							for _, o := range class(d, cell.A[0]) {
								if o.K == 'k' && o.S == ferName && len(o.A) == 2 {
									if g, _ := one(d).Implies(gf.FEq(o.A[0], revsT)); g && isCandidate(d, o.A[1]) {
										candT = o.A[1]
									}
								}
							}
						}
						if candT == nil {
							okEq = false
							continue
						}
						// renumbered with the candidate's number
						if g, _ := one(d).Implies(gf.FEq(fn.Term(call.Args[1]), gf.Field(candT, "Revision", types.Typ[types.Int64]))); !g {
							okNum = false
						}
					}
					c.Check(okEq, "C08.3-rollback-target-is-an-equal-revision", name+" target", call.Pos(), "the renumbered revision is one of FindEqualRevisions(revisions, candidate)", "the renumbered revision is not an equal revision of the candidate")
					if okEq {
						c.Check(okNum, "C08.3-rollback-renumbers-above-all", name+" number", call.Pos(), "the equal revision gets the candidate's number, nextRevision(revisions): above all others", "the rolled-back revision is not renumbered with the candidate's number")
					}
				}
			}
		}
	}
	c.Floor("C08.3-create-sites", nCreate, 1)
	c.Floor("C08.3-rollback-sites", nUpdate, 1)
	c.updateRevisionSources(fi, fn, an, cr, ur, revs)
	// a revision the controller records is found again by its own listing: the listing selects by the set's selector, the
	// one thing validated to match that selector is the pod template's labels, so these are the labels a new revision
	// gets (a revision labelled otherwise is invisible to the next reconcile, which then records the same template again)
	if nr != nil {
		ninfo := nr.Pkg.TypesInfo
		nfn := c.E.FnOf(nr)
		sets := paramsOfType(nr, load.APIPkg, "StatefulSet")
		nC := 0
		for _, bd := range nfn.Bodies() {
			for _, call := range callsIn(bd, false) {
				f := gf.StaticCallee(ninfo, call)
				if f == nil || f.Name() != "NewControllerRevision" || f.Pkg() == nil || f.Pkg().Path() != load.K8sPkg {
					continue
				}
				nC++
				ok := false
				// the labels parameter of the constructor, by type and name position: the one map[string]string argument
				for k := 0; k < len(call.Args); k++ {
					if types.TypeString(ninfo.TypeOf(call.Args[k]), nil) != "map[string]string" || len(sets) != 1 {
						continue
					}
					want := c.TryWantTerm(nfn, call.Pos(), "$1.Spec.Template.Labels", sets[0])
					ok = want != nil && nfn.Term(call.Args[k]).Key() == want.Key()
				}
				c.Check(ok, "C08.1-new-revision-carries-template-labels", nr.Obj.Name()+": labels of the new revision", call.Pos(), "the pod template's labels (which the selector is validated to match)",
					"a new revision is not labelled with the pod template's labels: the selector-based listing may never return it, and the same template is recorded again on every reconcile")
			}
		}
		c.Floor("C08.1-revision-constructor-calls", nC, 1)
	}
	// the renumbering write carries the new number on every attempt: at each Update of a ControllerRevision in the
	// renumber helper (its retry closure included), the object sent has Revision == the number asked for. (Set once
	// outside the closure, a retry after a conflict would send the refreshed copy with its old number.)
	{
		uinfo := ur.Pkg.TypesInfo
		var num *ast.Ident
		for _, pf := range ur.Decl.Type.Params.List {
			for _, pn := range pf.Names {
				if b, ok := uinfo.TypeOf(pn).Underlying().(*types.Basic); ok && b.Kind() == types.Int64 {
					num = pn
				}
			}
		}
		nW := 0
		for _, s := range c.G.Sites {
			if s.Fn != ur.Obj || s.Resource != "controllerrevisions" || s.Verb != "Update" || len(s.Call.Args) < 2 {
				continue
			}
			nW++
			name := ur.Obj.Name() + ": ControllerRevisions.Update"
			if num == nil {
				c.Unk("C08.3-renumber-write-carries-the-number", name, s.Call.Pos(), "the renumber helper has no int64 parameter")
				continue
			}
			var sfn *gf.Fn
			var san *gf.Analysis
			if s.InLit != nil {
				sfn, san = c.LitAnalysis(uinfo, s.InLit, ur.Obj.Name()+"$lit")
			} else {
				sfn, san = c.Analysis(ur)
			}
			want := c.Want(sfn, s.Call.Pos(), "$1.Revision == $2", s.Call.Args[1], num)
			c.Implies(san.StateAtExpr(s.Call), want, "C08.3-renumber-write-carries-the-number", name, s.Call.Pos())
		}
		c.Floor("C08.3-renumber-writes", nW, 1)
	}
	// unchanged template: some path assigns the update revision without any write
	for _, s := range c.G.Sites {
		if s.Fn == fi.Obj && s.Class == "write" {
			c.Bad("C08.3-no-other-revision-write", fi.Obj.Name()+": "+s.Resource+"."+s.Verb, s.Call.Pos(), "a raw revision write in the revision-choice function")
		}
	}
	// the "unchanged" branch: reached with an equal newest revision, no call with write effects
	nextRev := c.Func(load.CtrlPkg, "nextRevision")
	if nextRev != nil {
		nfn, nan := c.Analysis(nextRev)
		ninfo := nextRev.Pkg.TypesInfo
		okNext := false
		ast.Inspect(nextRev.Decl.Body, func(x ast.Node) bool {
			if ret, ok := x.(*ast.ReturnStmt); ok && len(ret.Results) == 1 {
				if be, ok := ast.Unparen(ret.Results[0]).(*ast.BinaryExpr); ok && be.Op.String() == "+" {
					p := nextRev.Decl.Type.Params.List[0].Names[0]
					want := c.WantTerm(nfn, ret.Pos(), "$1[len($1)-1].Revision + 1", p)
					if want != nil {
						got := nfn.Term(ret.Results[0])
						// allow `count := len(revisions)`
						if ok, _ := nan.StateBefore(ret).Implies(gf.FEq(got, want)); ok {
							okNext = true
						}
					}
				}
			}
			return true
		})
		_ = ninfo
		c.Check(okNext, "C08.3-next-revision", "nextRevision", nextRev.Decl.Pos(), "last listed revision's number + 1 (the list is sorted by the caller)", "nextRevision is not `revisions[len-1].Revision + 1`")
	}
}

// createLoop: C08.4 on createControllerRevision.
func (c *Ctx) createLoop() {
	fi := c.Func(load.CtrlPkg, "defaultStatefulSetControl.createControllerRevision")
	if fi == nil {
		return
	}
	fn, an := c.Analysis(fi)
	info := fi.Pkg.TypesInfo
	effs := c.G.Effects(fi.Obj)
	var ks []string
	for k := range effs {
		ks = append(ks, k)
	}
	sort.Strings(ks)
	c.Check(strings.Join(ks, " ") == "controllerrevisions.Create controllerrevisions.Get", "C08.4-collision-never-overwrites", "createControllerRevision transitive effects", fi.Decl.Pos(),
		"exactly {Create, Get}: nothing is updated, patched or deleted on a name collision", "the create loop's effect set is {"+strings.Join(ks, " ")+"}")
	// returning the existing object requires byte-equal data
	var existsID *ast.Ident
	for _, s := range c.G.Sites {
		if s.Fn == fi.Obj && s.Verb == "Get" {
			if as, ok := stmtOf(fi.Decl.Body, s.Call).(*ast.AssignStmt); ok {
				existsID, _ = as.Lhs[0].(*ast.Ident)
			}
		}
	}
	var sent ast.Expr
	for _, s := range c.G.Sites {
		if s.Fn == fi.Obj && s.Verb == "Create" {
			sent = s.Call.Args[1]
		}
	}
	n := 0
	if existsID != nil && sent != nil {
		ast.Inspect(fi.Decl.Body, func(x ast.Node) bool {
			ret, ok := x.(*ast.ReturnStmt)
			if !ok || len(ret.Results) != 2 || fn.Term(ret.Results[0]).Key() != fn.Term(existsID).Key() {
				return true
			}
			n++
			want := c.Want(fn, ret.Pos(), "bytes.Equal($1.Data.Raw, $2.Data.Raw)", existsID, sent)
			c.Implies(an.StateBefore(ret), want, "C08.4-existing-returned-only-if-identical", "createControllerRevision: return "+existsID.Name, ret.Pos())
			return true
		})
	}
	c.Floor("C08.4-return-existing", n, 1)
	// the name is derived from a hash that includes the collision counter, and the counter is incremented before retrying
	inc := false
	ast.Inspect(fi.Decl.Body, func(x ast.Node) bool {
		var target ast.Expr
		switch s := x.(type) {
		case *ast.IncDecStmt:
			target = s.X
		case *ast.AssignStmt:
			if len(s.Lhs) == 1 && s.Tok != token.DEFINE {
				target = s.Lhs[0]
			}
		}
		if target == nil {
			return true
		}
		if st, ok := ast.Unparen(target).(*ast.StarExpr); ok {
			if id, ok := st.X.(*ast.Ident); ok && types.TypeString(info.TypeOf(id), nil) == "*int32" {
				inc = true
				// the counter moves up: names already tried are not tried again
				if ids, isIncDec := x.(*ast.IncDecStmt); isIncDec && ids.Tok != token.INC {
					c.Bad("C08.4-collision-counter-moves-up", "createControllerRevision: "+types.ExprString(target)+"--", x.Pos(), "the collision counter is decremented: a later collision walks back over names that were already tried")
				}
				// the counter moves only on a real collision: the existing revision's data differs from the candidate's.
				// (Counting an equal revision as a collision changes the name the same template hashes to on the
				// next reconcile: a duplicate revision is created and the pods are restarted.)
				name := "createControllerRevision: " + types.ExprString(target) + " changes"
				var want *gf.Formula
				if existsID != nil && sent != nil {
					if a, b := c.TryWantTerm(fn, x.Pos(), "$1.Data.Raw", existsID), c.TryWantTerm(fn, x.Pos(), "$1.Data.Raw", sent); a != nil && b != nil {
						want = gf.Not(gf.FBool(gf.CallT("bytes.Equal", types.Typ[types.Bool], a, b)))
					}
				}
				if want == nil {
					c.Bad("C08.4-collision-only-when-data-differs", name, x.Pos(), "the collision counter is changed where the existing revision has not been read and compared yet")
				} else {
					c.Implies(an.StateBefore(x), want, "C08.4-collision-only-when-data-differs", name, x.Pos())
				}
			}
		}
		return true
	})
	c.Check(inc, "C08.4-collision-counter", "createControllerRevision: *collisionCount++", fi.Decl.Pos(), "a different existing revision bumps the collision counter before the retry", "a name collision with a different revision does not change the name on retry")
}

// updateRevisionSources: the variable returned as the update revision only ever takes
// (a) the candidate built by newRevision, (b) the result of createControllerRevision or
// updateControllerRevision (both leave it numbered above all listed revisions), or
// (c) the newest listed revision, revisions[len(revisions)-1]. An older equal revision
// taken as it is would leave the update revision below the newest one.
func (c *Ctx) updateRevisionSources(fi *load.FuncInfo, fn *gf.Fn, an *gf.Analysis, cr, ur *load.FuncInfo, revs *ast.Ident) {
	info := fi.Pkg.TypesInfo
	var final *ast.ReturnStmt
	var updE ast.Expr
	if shape := c.chooser(); shape != nil {
		ast.Inspect(fi.Decl.Body, func(n ast.Node) bool {
			if ret, ok := n.(*ast.ReturnStmt); ok {
				if _, u := shape.results(info, ret); u != nil {
					if _, isID := ast.Unparen(u).(*ast.Ident); isID {
						final, updE = ret, ast.Unparen(u)
					}
				}
			}
			return true
		})
	}
	if final == nil {
		c.Fail("getStatefulSetRevisions: final return not found")
		return
	}
	upd := info.ObjectOf(updE.(*ast.Ident))
	st := an.StateBefore(final)
	newest := c.WantTerm(fn, final.Pos(), "$1[len($1)-1]", revs)
	n := 0
	kinds := map[string]int{}
	for _, d := range st.D {
		n++
		one := gf.State{D: []*gf.Disj{d}}
		kind := ""
		for _, o := range append([]*gf.Term{gf.Var(upd)}, d.EqualTerms(gf.Var(upd))...) {
			if o.K == 'v' && o.Obj != nil {
				if site, k := fn.ResultSite(o.Obj); site != nil && k == 0 {
					if site.Callee.Obj == cr.Obj {
						kind = "created"
					} else if site.Callee.Obj == ur.Obj {
						kind = "renumbered"
					}
				}
			}
			if o.K == 'k' && o.Fn != nil {
				if o.Fn.Origin() == cr.Obj {
					kind = "created"
				} else if o.Fn.Origin() == ur.Obj {
					kind = "renumbered"
				}
			}
		}
		if kind == "" && newest != nil {
			if g, _ := one.Implies(gf.FEq(gf.Var(upd), newest)); g {
				kind = "newest"
			}
		}
		if kind == "newest" {
			// "unchanged" is a statement about the recorded data: the newest revision is kept as the update revision only where
			// the facts say it equals the candidate built from the current template (EqualRevision holds of it, or it is itself
			// one of FindEqualRevisions(revisions, candidate)) -- equal numbers, names or positions say nothing about the data
			same := false
			keys := map[string]bool{newest.Key(): true}
			for _, o := range d.EqualTerms(newest) {
				keys[o.Key()] = true
				if o.K == 'i' && len(o.A) == 2 {
					for _, b := range append([]*gf.Term{o.A[0]}, d.EqualTerms(o.A[0])...) {
						if b.K == 'k' && b.S == load.K8sPkg+".FindEqualRevisions" {
							same = true
						}
					}
				}
			}
			for _, l := range d.L {
				if !l.Neg && l.A.Op == "b" && l.A.L != nil && l.A.L.K == 'k' && l.A.L.Fn != nil && l.A.L.Fn.Name() == "EqualRevision" {
					for _, a := range l.A.L.A {
						if keys[a.Key()] {
							same = true
						} else if g, _ := one.Implies(gf.FEq(a, newest)); g {
							same = true
						}
					}
				}
			}
			c.Check(same, "C08.3-unchanged-means-equal-data", fmt.Sprintf("%s: the newest revision kept as the update revision, path %d", fi.Obj.Name(), n), final.Pos(), "EqualRevision(newest, an equal revision of the candidate) holds on this path",
				"the newest listed revision is taken for the update revision without the fact that its data equals the candidate's: with two revisions of the same number (two controller instances, a retried upgrade) the update revision can name a revision that does not reproduce the template; facts: "+clip(d.String(), 400))
		}
		if kind == "" {
			c.Bad("C08.3-update-revision-source", fmt.Sprintf("%s: %s at the final return, path %d", fi.Obj.Name(), upd.Name(), n), final.Pos(),
				"the update revision returned on this path is neither the result of the create / renumber helper nor the newest listed revision (revisions[len(revisions)-1]): it can end up below the newest revision; facts: "+clip(d.String(), 500))
		}
		kinds[kind]++
	}
	for _, k := range []string{"created", "renumbered", "newest"} {
		c.Check(kinds[k] > 0, "C08.3-update-revision-source", fi.Obj.Name()+": a path returns the "+k+" revision", final.Pos(), fmt.Sprintf("%d path states", kinds[k]), "no path returns the "+k+" revision: the three-way choice is gone")
	}
	c.Floor("C08.3-update-revision-paths-at-final-return", n, 3)
}
