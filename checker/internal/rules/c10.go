package rules

import (
	"fmt"
	"go/ast"
	"go/token"
	"go/types"
	"sort"
	"strings"

	"asverif/internal/gf"
	"asverif/internal/load"
)

func init() {
	register(&Property{
		ID:    "C10",
		Title: "The controller touches only what it owns; adoption needs a fresh confirmation",
		Run:   runC10,
		Explanation: "Decides clauses C10.1-C10.7 of DESIGN.md: (1) the pod claim is built with the set, its selector and a filter comparing the pod's parent name with set.Name; the match closure returns true only after the selector matched and every filter accepted; " +
			"(2) in ClaimObject the adopt callback is called only with controllerRef == nil, owner not deleting, match(obj), object not deleting; the release callback only with controllerRef.UID == owner UID, !match(obj), owner not deleting; the transitive write set of the claim path is exactly {pods.Patch}; " +
			"(3) the adoption patch is reachable only through CanAdopt() returning nil; the can-adopt function is RecheckDeletionTimestamp over a closure whose only read is an uncached Get of the Advanced set and which succeeds only with fresh.UID == set.UID; RecheckDeletionTimestamp returns nil only with a nil deletion timestamp; " +
			"(4) every listed ControllerRevision passes the owner test before use (single lister, filtered appends); (5) the revision adopter is only handed orphans; (6) the Advanced StatefulSet is written only through UpdateStatus anywhere under pkg/; (7) objects from listers are passed only to callees that do not write through that parameter, and no field of an observed pod or of the cached set is stored to. " +
			"NOT decided: stale-cache histories; the API server's own owner-reference validation.",
	})
}

func runC10(c *Ctx) {
	c.claimConstruction()
	c.claimObjectGuards()
	c.freshConfirmation()
	c.listerFilters("C10.4", "C10.4-dedup")
	c.adoptOnlyOrphans("C10.5")
	// "never ... counted": the census counts the claimed pods only (they are the reconcile's input); outside the census a
	// pod is counted only after this controller's own successful create of it -- a create that failed, AlreadyExists
	// included, says nothing about whose pod is there (the adjustment rule of C12, as a clause of this property)
	c.withOnly(map[string]string{"C12.1-adjustment-follows-write": "C10.4-counted-only-after-its-own-successful-write"}, nil, "C10.4-adjustments-after-writes", 6, func() { runC12(c) })
	// C10.6 the set is written only through status
	nUS := 0
	for _, s := range c.G.Sites {
		if s.Resource != "statefulsets.pingcap" || s.Class != "write" || !strings.HasPrefix(s.Fn.Pkg().Path(), load.RootMod+"/pkg/") {
			continue
		}
		name := fmt.Sprintf("%s.%s in %s", s.Resource, s.Verb, s.Fn.Name())
		if s.Verb == "UpdateStatus" {
			nUS++
			c.OK("C10.6-set-written-only-through-status", name, s.Call.Pos(), "status subresource write")
		} else {
			c.Bad("C10.6-set-written-only-through-status", name, s.Call.Pos(), "the controller writes the StatefulSet object itself ("+s.Verb+"), not only its status")
		}
	}
	c.Floor("C10.6-status-write-positive-control", nUS, 1)
	for _, s := range c.G.Sites {
		if s.Resource == "statefulsets.apps" && s.Class == "write" && strings.HasPrefix(s.Fn.Pkg().Path(), load.RootMod+"/pkg/") {
			c.Bad("C10.6-set-written-only-through-status", s.String(), s.Call.Pos(), "the controller writes a built-in StatefulSet")
		}
	}
	c.cacheObjectsUnmodified()
}

// claimConstruction: C10.1
func (c *Ctx) claimConstruction() {
	fi := c.Func(load.CtrlPkg, "StatefulSetController.getPodsForStatefulSet")
	ctor, _ := c.P.Lookup(load.K8sPkg, "NewPodControllerRefManager").(*types.Func)
	claim := c.Func(load.K8sPkg, "PodControllerRefManager.ClaimPods")
	if fi == nil || ctor == nil || claim == nil {
		c.Fail("claim anchors do not resolve")
		return
	}
	fn := c.E.FnOf(fi)
	info := fi.Pkg.TypesInfo
	sets := paramsOfType(fi, load.APIPkg, "StatefulSet")
	var selParam *ast.Ident
	for _, f := range fi.Decl.Type.Params.List {
		for _, n := range f.Names {
			if types.TypeString(info.TypeOf(n), nil) == "k8s.io/apimachinery/pkg/labels.Selector" {
				selParam = n
			}
		}
	}
	if len(sets) != 1 || selParam == nil {
		c.Fail("getPodsForStatefulSet: set/selector parameters not found")
		return
	}
	var mgr, claimCall *ast.CallExpr
	for _, call := range callsIn(fi.Decl.Body, false) {
		switch f := gf.StaticCallee(info, call); {
		case f == ctor:
			mgr = call
		case f != nil && f.Origin() == claim.Obj:
			claimCall = call
		}
	}
	if mgr == nil || claimCall == nil {
		c.Bad("C10.1-claim-construction", fi.Obj.Name(), fi.Decl.Pos(), "pods are not claimed through NewPodControllerRefManager(...).ClaimPods")
		return
	}
	// "pods controlled by S that stop matching are released": the claim can only release what it is shown, so the pods it is
	// handed are every pod of the namespace (the lister asked with labels.Everything()), not those the selector still finds
	{
		good, why := false, "the pods handed to ClaimPods do not come from a lister List call in this function"
		if id := rootIdent(claimCall.Args[len(claimCall.Args)-2]); id != nil || true {
			var podsArg ast.Expr
			for _, a := range claimCall.Args {
				if types.TypeString(info.TypeOf(a), nil) == "[]*k8s.io/api/core/v1.Pod" {
					podsArg = a
				}
			}
			if podsArg != nil {
				if src, ok := ast.Unparen(defRHSOr(fi, info, podsArg)).(*ast.CallExpr); ok {
					for _, st := range c.G.Sites {
						if st.Call == src && st.Class == "cached-read" && st.Verb == "List" && len(src.Args) == 1 {
							good, why = false, "the lister is asked with "+types.ExprString(src.Args[0])+": a pod of this set whose labels were changed is not listed, so it is never released (it keeps its owner reference, blocks its ordinal, and is garbage-collected with the set)"
							if ev, ok := ast.Unparen(src.Args[0]).(*ast.CallExpr); ok {
								if f := gf.StaticCallee(info, ev); f != nil && f.FullName() == "k8s.io/apimachinery/pkg/labels.Everything" {
									good = true
								}
							}
						}
					}
				}
			}
		}
		c.Check(good, "C10.1-claim-sees-every-pod", fi.Obj.Name()+": pods handed to ClaimPods", claimCall.Pos(), "listed with labels.Everything(): pods that stopped matching are seen, and released", why)
	}
	c.Check(fn.Term(mgr.Args[1]).Key() == fn.Term(sets[0]).Key() && fn.Term(mgr.Args[2]).Key() == fn.Term(selParam).Key(), "C10.1-claim-construction",
		fi.Obj.Name()+": NewPodControllerRefManager(controller, selector)", mgr.Pos(), "the manager is built for this set and the selector handed in by sync", "the claim manager is built with another controller or selector")
	// sync computes that selector from set.Spec.Selector
	if sy := c.Func(load.CtrlPkg, "StatefulSetController.sync"); sy != nil {
		sfn, _ := c.Analysis(sy)
		sinfo := sy.Pkg.TypesInfo
		okSel := false
		var allCalls []*ast.CallExpr
		for _, bd := range sfn.Bodies() {
			allCalls = append(allCalls, callsIn(bd, false)...)
		}
		for _, call := range allCalls {
			if f := gf.StaticCallee(sinfo, call); f != nil && f.Origin() == fi.Obj {
				selArg := rootIdent(call.Args[1])
				setArg := call.Args[0]
				ast.Inspect(c.hostOf(sy, call).Decl.Body, func(n ast.Node) bool {
					as, ok := n.(*ast.AssignStmt)
					if !ok || len(as.Rhs) != 1 || len(as.Lhs) < 1 {
						return true
					}
					id, ok := as.Lhs[0].(*ast.Ident)
					if !ok || selArg == nil || sinfo.ObjectOf(id) != sinfo.ObjectOf(selArg) {
						return true
					}
					if rc, ok := as.Rhs[0].(*ast.CallExpr); ok && calleeName(sinfo, rc) == "k8s.io/apimachinery/pkg/apis/meta/v1.LabelSelectorAsSelector" {
						if sfn.Term(rc.Args[0]).Key() == c.WantTerm(sfn, as.Pos(), "$1.Spec.Selector", setArg).Key() {
							okSel = true
						}
					}
					return true
				})
			}
		}
		c.Check(okSel, "C10.1-selector-source", "sync: selector passed to getPodsForStatefulSet", sy.Decl.Pos(), "LabelSelectorAsSelector(set.Spec.Selector) of the same set", "the selector used for claiming is not derived from the set's own spec.selector")
	}
	// the filter: parent name == set.Name
	var filter *ast.FuncLit
	if len(claimCall.Args) >= 3 {
		if id, ok := ast.Unparen(claimCall.Args[2]).(*ast.Ident); ok {
			ast.Inspect(fi.Decl.Body, func(n ast.Node) bool {
				if as, ok := n.(*ast.AssignStmt); ok && len(as.Lhs) == 1 && len(as.Rhs) == 1 {
					if l, ok := as.Lhs[0].(*ast.Ident); ok && info.ObjectOf(l) == info.ObjectOf(id) {
						filter, _ = as.Rhs[0].(*ast.FuncLit)
					}
				}
				return true
			})
		} else {
			filter, _ = ast.Unparen(claimCall.Args[2]).(*ast.FuncLit)
		}
	}
	// the filter is "the pod's parent name is the set's name": at each of its returns, a true result implies the
	// equality and a false one its negation (the parent name being the first result of getParentNameAndOrdinal)
	okFilter := false
	if pn, _ := c.P.Lookup(load.CtrlPkg, "getParentNameAndOrdinal").(*types.Func); filter != nil && pn != nil && len(filter.Type.Params.List) == 1 && len(filter.Type.Params.List[0].Names) == 1 {
		lfn, lan := c.LitAnalysis(info, filter, fi.Obj.Name()+"$filter")
		pod := filter.Type.Params.List[0].Names[0]
		ct := gf.CallT(pn.FullName(), nil, lfn.Term(pod))
		ct.Fn = pn
		parent := gf.ProjOf(ct, 0, types.Typ[types.String])
		if setName := c.TryWantTerm(fn, claimCall.Pos(), "$1.Name", sets[0]); setName != nil {
			eq := gf.FEq(parent, setName)
			okFilter = true
			nRet := 0
			for _, bd := range lfn.Bodies()[:1] {
				ownNodes(bd, func(n ast.Node) {
					ret, ok := n.(*ast.ReturnStmt)
					if !ok || len(ret.Results) != 1 {
						return
					}
					nRet++
					st := lan.StateBefore(ret)
					if !st.Reachable() {
						return
					}
					r := lfn.Formula(ret.Results[0])
					if call, isCall := ast.Unparen(ret.Results[0]).(*ast.CallExpr); isCall && lfn.IsExpandedCall(call) {
						for _, site := range lfn.InlinedAt(ret) {
							if site.Call == call && len(site.Res) == 1 {
								r = gf.FBool(gf.Var(site.Res[0]))
								st = lan.StateAtExpr(call)
							}
						}
					}
					if yes := st.Assume(r); yes.Reachable() {
						if g, _ := yes.Implies(eq); !g {
							okFilter = false
						}
					}
					if no := st.Assume(gf.Not(r)); no.Reachable() {
						if g, _ := no.Implies(gf.Not(eq)); !g {
							okFilter = false
						}
					}
				})
			}
			if nRet == 0 {
				okFilter = false
			}
		}
	}
	c.Check(okFilter, "C10.1-membership-filter", fi.Obj.Name()+": ClaimPods filter", claimCall.Pos(), "filter is `parent name of the pod == set.Name`", "pods are claimed without the parent-name filter (or with a different one)")
	// the match closure in ClaimPods
	c.matchClosure(claim)
}

func (c *Ctx) matchClosure(claim *load.FuncInfo) {
	info := claim.Pkg.TypesInfo
	var match *ast.FuncLit
	var claimObj *ast.CallExpr
	co := c.Func(load.K8sPkg, "BaseControllerRefManager.ClaimObject")
	if co == nil {
		return
	}
	for _, call := range callsIn(claim.Decl.Body, false) {
		if f := gf.StaticCallee(info, call); f != nil && f.Origin() == co.Obj {
			claimObj = call
		}
	}
	if claimObj == nil {
		c.Bad("C10.1-match-closure", "ClaimPods", claim.Decl.Pos(), "ClaimPods does not go through ClaimObject")
		return
	}
	if id, ok := ast.Unparen(claimObj.Args[2]).(*ast.Ident); ok {
		ast.Inspect(claim.Decl.Body, func(n ast.Node) bool {
			if as, ok := n.(*ast.AssignStmt); ok && len(as.Lhs) == 1 && len(as.Rhs) == 1 {
				if l, ok := as.Lhs[0].(*ast.Ident); ok && info.ObjectOf(l) == info.ObjectOf(id) {
					match, _ = as.Rhs[0].(*ast.FuncLit)
				}
			}
			return true
		})
	}
	if match == nil {
		c.Bad("C10.1-match-closure", "ClaimPods: match", claimObj.Pos(), "match argument is not a local closure")
		return
	}
	lfn, lan := c.LitAnalysis(info, match, "ClaimPods$match")
	// filters parameter of ClaimPods
	var filters *ast.Ident
	for _, f := range claim.Decl.Type.Params.List {
		if _, isEll := f.Type.(*ast.Ellipsis); isEll {
			filters = f.Names[0]
		}
	}
	n := 0
	ast.Inspect(match.Body, func(x ast.Node) bool {
		ret, ok := x.(*ast.ReturnStmt)
		if !ok || len(ret.Results) != 1 || lfn.Formula(ret.Results[0]) != gf.True {
			return true
		}
		n++
		st := lan.StateBefore(ret)
		sel := false
		// some fact b(Matches(...Selector...)) must hold
		ok2 := true
		for _, d := range st.D {
			has := false
			for _, l := range d.L {
				if !l.Neg && l.A.Op == "b" && l.A.L.K == 'k' && l.A.L.Fn != nil && l.A.L.Fn.Name() == "Matches" && strings.Contains(l.A.L.String(), "Selector") {
					has = true
				}
			}
			if !has {
				ok2 = false
			}
		}
		sel = ok2 && st.Reachable()
		// all filters consulted: a range over the filters parameter precedes, returning false on a rejecting filter
		allFilters := false
		for _, s := range match.Body.List {
			rs, ok := s.(*ast.RangeStmt)
			if !ok || filters == nil || rs.Pos() > ret.Pos() {
				continue
			}
			if id, ok := ast.Unparen(rs.X).(*ast.Ident); !ok || info.ObjectOf(id) != info.ObjectOf(filters) {
				continue
			}
			v, _ := rs.Value.(*ast.Ident)
			ast.Inspect(rs.Body, func(y ast.Node) bool {
				if ifs, ok := y.(*ast.IfStmt); ok && v != nil {
					if u, ok := ast.Unparen(ifs.Cond).(*ast.UnaryExpr); ok {
						if call, ok := ast.Unparen(u.X).(*ast.CallExpr); ok {
							if f, ok := call.Fun.(*ast.Ident); ok && info.ObjectOf(f) == info.ObjectOf(v) && len(ifs.Body.List) == 1 {
								if r2, ok := ifs.Body.List[0].(*ast.ReturnStmt); ok && lfn.Formula(r2.Results[0]) == gf.False {
									allFilters = true
								}
							}
						}
					}
				}
				return true
			})
		}
		c.Check(sel && allFilters, "C10.1-match-closure", fmt.Sprintf("ClaimPods$match: return true[%d]", n), ret.Pos(),
			"true only after the selector matched the pod's labels and every filter accepted the pod", "match can return true without the selector test or without consulting every filter")
		return true
	})
	c.Floor("C10.1-match-true-returns", n, 1)
}

// claimObjectGuards: C10.2
func (c *Ctx) claimObjectGuards() {
	fi := c.Func(load.K8sPkg, "BaseControllerRefManager.ClaimObject")
	if fi == nil {
		return
	}
	fn, an := c.Analysis(fi)
	info := fi.Pkg.TypesInfo
	var ps []*ast.Ident
	for _, f := range fi.Decl.Type.Params.List {
		ps = append(ps, f.Names...)
	}
	if len(ps) != 5 {
		c.Fail("ClaimObject: expected 5 parameters")
		return
	}
	obj, match, adopt, release := ps[1], ps[2], ps[3], ps[4]
	recv := fi.Decl.Recv.List[0].Names[0]
	nA, nR := 0, 0
	// the calls of the adopt and release callbacks: in ClaimObject itself or in a helper the engine expands
	// into it (there the callback is a parameter known equal to ClaimObject's). Guards are stated over
	// ClaimObject's own parameters; inside a helper the engine relates them to the helper's.
	ppos := fi.Decl.Body.Lbrace + 1
	var allCalls []*ast.CallExpr
	for _, bd := range fn.Bodies() {
		allCalls = append(allCalls, callsIn(bd, false)...)
	}
	isParam := func(st gf.State, e ast.Expr, p *ast.Ident) bool {
		id, ok := ast.Unparen(e).(*ast.Ident)
		if !ok {
			return false
		}
		if info.ObjectOf(id) == info.ObjectOf(p) {
			return true
		}
		good, _ := st.Implies(gf.FEq(fn.Term(id), fn.Term(p)))
		return good && st.Reachable()
	}
	matchT := func() *gf.Formula { return c.Want(fn, ppos, "$1($2)", match, obj) }
	var adoptCalls []*ast.CallExpr
	for _, call := range allCalls {
		if _, ok := ast.Unparen(call.Fun).(*ast.Ident); !ok {
			continue
		}
		st := an.StateAtExpr(call)
		// the controller reference: any term known to equal GetControllerOf*(obj)
		ctrl := func(tmpl string) *gf.Formula {
			var alts []*gf.Formula
			for _, g := range []string{"GetControllerOfNoCopy", "GetControllerOf"} {
				ct := gf.CallT("k8s.io/apimachinery/pkg/apis/meta/v1."+g, nil, fn.Term(obj))
				switch tmpl {
				case "nil":
					alts = append(alts, gf.FNil(ct))
				case "mine":
					alts = append(alts, gf.And(gf.FNotNil(ct), gf.FEq(gf.Field(ct, "UID", nil), c.WantTerm(fn, ppos, "$1.Controller.GetUID()", recv))))
				}
			}
			return gf.Or(alts...)
		}
		switch {
		case isParam(st, call.Fun, adopt):
			nA++
			adoptCalls = append(adoptCalls, call)
			name := "ClaimObject: adopt(ctx, obj)"
			c.Implies(st, ctrl("nil"), "C10.2-adopt-orphans-only", name, call.Pos())
			c.Implies(st, c.Want(fn, ppos, "$1.Controller.GetDeletionTimestamp() == nil", recv), "C10.2-adopt-owner-not-deleting", name, call.Pos())
			c.Implies(st, matchT(), "C10.2-adopt-matching-only", name, call.Pos())
			c.Implies(st, c.Want(fn, ppos, "$1.GetDeletionTimestamp() == nil", obj), "C10.2-adopt-live-objects-only", name, call.Pos())
		case isParam(st, call.Fun, release):
			nR++
			name := "ClaimObject: release(ctx, obj)"
			c.Implies(st, ctrl("mine"), "C10.2-release-own-only", name, call.Pos())
			c.Implies(st, gf.Not(matchT()), "C10.2-release-non-matching-only", name, call.Pos())
			c.Implies(st, c.Want(fn, ppos, "$1.Controller.GetDeletionTimestamp() == nil", recv), "C10.2-release-owner-not-deleting", name, call.Pos())
		}
	}
	c.Floor("C10.2-adopt-sites", nA, 1)
	c.Floor("C10.2-release-sites", nR, 1)
	// `true` (claimed) is returned only for an object we control and that matches, or after a successful adoption
	nt := 0
	for _, bd := range fn.Bodies() {
		ast.Inspect(bd, func(x ast.Node) bool {
			if _, isLit := x.(*ast.FuncLit); isLit {
				return false
			}
			ret, ok := x.(*ast.ReturnStmt)
			if !ok || len(ret.Results) != 2 || fn.Formula(ret.Results[0]) != gf.True {
				return true
			}
			nt++
			st := an.StateBefore(ret)
			name := fmt.Sprintf("ClaimObject: return true[%d]", nt)
			if good, _ := st.Implies(matchT()); good {
				c.OK("C10.2-claimed-implies-match", name, ret.Pos(), "facts imply match(obj)")
				return true
			}
			// otherwise it must be the success exit of an adoption (whose own guards are checked above)
			viaAdopt := false
			for _, call := range adoptCalls {
				aU := fn.FromUntil(fi.Decl.Body.List[0], gf.TrueState(), call)
				if !aU.StateBefore(ret).Reachable() {
					viaAdopt = true
				}
			}
			c.Check(viaAdopt, "C10.2-claimed-implies-match", name, ret.Pos(), "reachable only through the (guarded) adopt call", "an object is reported as claimed without match(obj) and without passing the adopt call")
			return true
		})
	}
	c.Floor("C10.2-claimed-returns", nt, 2)
	// effect set of the claim path
	claim := c.Func(load.K8sPkg, "PodControllerRefManager.ClaimPods")
	if claim != nil {
		eff := c.G.Effects(claim.Obj, "write", "event")
		var ks []string
		for k := range eff {
			ks = append(ks, k)
		}
		sort.Strings(ks)
		c.Check(len(ks) == 1 && ks[0] == "pods.Patch", "C10.2-claim-effects", "ClaimPods transitive writes", claim.Decl.Pos(),
			"exactly {pods.Patch}: release and adoption patch the owner reference, nothing is deleted", "the claim path's write set is "+strings.Join(ks, ",")+", expected {pods.Patch}")
	}
}

// freshConfirmation: C10.3
func (c *Ctx) freshConfirmation() {
	adoptPod := c.Func(load.K8sPkg, "PodControllerRefManager.AdoptPod")
	canAdopt := c.Func(load.K8sPkg, "BaseControllerRefManager.CanAdopt")
	recheck := c.Func(load.K8sPkg, "RecheckDeletionTimestamp")
	if adoptPod == nil || canAdopt == nil || recheck == nil {
		return
	}
	c.uncachedReadsAreQuorumReads()
	fn, an := c.Analysis(adoptPod)
	info := adoptPod.Pkg.TypesInfo
	var gate ast.Stmt
	var gateCall *ast.CallExpr
	var patch *ast.CallExpr
	for _, call := range callsIn(adoptPod.Decl.Body, false) {
		f := gf.StaticCallee(info, call)
		if f != nil && f.Origin() == canAdopt.Obj {
			gateCall, gate = call, stmtOf(adoptPod.Decl.Body, call)
		}
		if f != nil && f.Name() == "PatchPod" {
			patch = call
		}
	}
	if gate == nil || patch == nil {
		c.Bad("C10.3-adoption-gated-by-CanAdopt", "AdoptPod", adoptPod.Decl.Pos(), "AdoptPod does not call CanAdopt before patching")
	} else {
		entry := adoptPod.Decl.Body.List[0]
		a1 := fn.FromUntil(entry, gf.TrueState(), gate)
		mustPass := !a1.StateAtExpr(patch).Reachable()
		errF := c.errNonNilAfter(fn, gate, gateCall)
		blocked := false
		if errF != nil {
			a2 := fn.FromAfter(gate, an.StateAfter(gate).Assume(errF))
			blocked = !a2.StateAtExpr(patch).Reachable()
		}
		c.Check(mustPass && blocked, "C10.3-adoption-gated-by-CanAdopt", "AdoptPod: PatchPod", patch.Pos(),
			"the adoption patch is reachable only through CanAdopt() and not when it returned an error", "the adoption patch can be issued without a successful CanAdopt()")
	}
	// CanAdopt returns the once-computed result of CanAdoptFunc
	{
		okShape := false
		cinfo := canAdopt.Pkg.TypesInfo
		var assigned []ast.Expr
		ast.Inspect(canAdopt.Decl.Body, func(n ast.Node) bool {
			if as, ok := n.(*ast.AssignStmt); ok && len(as.Lhs) == 1 {
				if sel, ok := as.Lhs[0].(*ast.SelectorExpr); ok && sel.Sel.Name == "canAdoptErr" {
					assigned = append(assigned, as.Rhs[0])
				}
			}
			return true
		})
		last := canAdopt.Decl.Body.List[len(canAdopt.Decl.Body.List)-1]
		if ret, ok := last.(*ast.ReturnStmt); ok && len(ret.Results) == 1 {
			if sel, ok := ret.Results[0].(*ast.SelectorExpr); ok && sel.Sel.Name == "canAdoptErr" && len(assigned) == 1 {
				if call, ok := assigned[0].(*ast.CallExpr); ok {
					if s2, ok := call.Fun.(*ast.SelectorExpr); ok && s2.Sel.Name == "CanAdoptFunc" {
						okShape = true
					}
				}
			}
		}
		_ = cinfo
		// canAdoptErr is written nowhere else in the package
		others := 0
		for _, fi := range c.P.Funcs() {
			if fi.Pkg.PkgPath != load.K8sPkg || fi == canAdopt {
				continue
			}
			ast.Inspect(fi.Decl.Body, func(n ast.Node) bool {
				if as, ok := n.(*ast.AssignStmt); ok {
					for _, l := range as.Lhs {
						if sel, ok := l.(*ast.SelectorExpr); ok && sel.Sel.Name == "canAdoptErr" {
							others++
						}
					}
				}
				return true
			})
		}
		c.Check(okShape && others == 0, "C10.3-CanAdopt-shape", "CanAdopt", canAdopt.Decl.Pos(), "returns the result of CanAdoptFunc(ctx), computed once", "CanAdopt does not return the result of CanAdoptFunc")
	}
	// RecheckDeletionTimestamp: nil only with getObject ok and no deletion timestamp
	{
		var lit *ast.FuncLit
		ast.Inspect(recheck.Decl.Body, func(n ast.Node) bool {
			if l, ok := n.(*ast.FuncLit); ok && lit == nil {
				lit = l
			}
			return true
		})
		if lit == nil {
			c.Bad("C10.3-recheck-deletion", "RecheckDeletionTimestamp", recheck.Decl.Pos(), "no closure returned")
		} else {
			lfn := c.E.FnOfLit(recheck.Pkg.TypesInfo, lit, "RecheckDeletionTimestamp$1")
			lfn.KeepDead = true
			lan := lfn.Analyze(nil)
			lfn.KeepDead = false
			n := 0
			ast.Inspect(lit.Body, func(x ast.Node) bool {
				ret, ok := x.(*ast.ReturnStmt)
				if !ok || len(ret.Results) != 1 || !isNilExpr(recheck.Pkg.TypesInfo, ret.Results[0]) {
					return true
				}
				n++
				st := lan.StateBefore(ret)
				// obj is the first result of getObject(ctx)
				var objID, errID *ast.Ident
				ast.Inspect(lit.Body, func(y ast.Node) bool {
					if as, ok := y.(*ast.AssignStmt); ok && len(as.Lhs) == 2 && len(as.Rhs) == 1 {
						if call, ok := as.Rhs[0].(*ast.CallExpr); ok {
							if f, ok := call.Fun.(*ast.Ident); ok && f.Name == recheck.Decl.Type.Params.List[0].Names[0].Name {
								objID, _ = as.Lhs[0].(*ast.Ident)
								errID, _ = as.Lhs[1].(*ast.Ident)
							}
						}
					}
					return true
				})
				if objID == nil || errID == nil {
					c.Bad("C10.3-recheck-deletion", "RecheckDeletionTimestamp: return nil", ret.Pos(), "the fresh object is not obtained from getObject(ctx)")
					return true
				}
				c.Implies(st, c.Want(lfn, ret.Pos(), "$1.GetDeletionTimestamp() == nil", objID), "C10.3-recheck-deletion", "RecheckDeletionTimestamp: return nil", ret.Pos())
				// and not when getObject failed
				var get ast.Stmt
				ast.Inspect(lit.Body, func(y ast.Node) bool {
					if as, ok := y.(*ast.AssignStmt); ok && len(as.Lhs) == 2 && as.Lhs[1] == ast.Expr(errID) {
						get = as
					}
					return true
				})
				blocked := false
				if get != nil {
					aE := lfn.FromAfter(get, lan.StateAfter(get).Assume(gf.FNotNil(lfn.Term(errID))))
					blocked = !aE.StateBefore(ret).Reachable()
				}
				c.Check(blocked, "C10.3-recheck-read-error-blocks", "RecheckDeletionTimestamp: return nil", ret.Pos(), "unreachable when the fresh read failed", "nil can be returned although the fresh read failed")
				return true
			})
			c.Floor("C10.3-recheck-nil-returns", n, 1)
		}
	}
	// the can-adopt function handed to the manager by the controller
	gp := c.Func(load.CtrlPkg, "StatefulSetController.getPodsForStatefulSet")
	if gp == nil {
		return
	}
	ginfo := gp.Pkg.TypesInfo
	gfn := c.E.FnOf(gp)
	sets := paramsOfType(gp, load.APIPkg, "StatefulSet")
	var lit *ast.FuncLit
	for _, call := range callsIn(gp.Decl.Body, false) {
		if f := gf.StaticCallee(ginfo, call); f != nil && f.Origin() == recheck.Obj && len(call.Args) == 1 {
			lit, _ = ast.Unparen(call.Args[0]).(*ast.FuncLit)
			// and its result is what goes to the manager
			as, _ := stmtOf(gp.Decl.Body, call).(*ast.AssignStmt)
			okFlow := false
			if as != nil && len(as.Lhs) == 1 {
				for _, c2 := range callsIn(gp.Decl.Body, false) {
					if calleeName(ginfo, c2) == load.K8sPkg+".NewPodControllerRefManager" && len(c2.Args) >= 5 {
						okFlow = gfn.Term(c2.Args[4]).Key() == gfn.Term(as.Lhs[0]).Key()
					}
				}
			}
			c.Check(okFlow, "C10.3-can-adopt-wiring", "getPodsForStatefulSet: canAdopt argument", call.Pos(), "the manager's CanAdoptFunc is RecheckDeletionTimestamp(fresh read)", "the manager is not given the RecheckDeletionTimestamp function")
		}
	}
	if lit == nil || len(sets) != 1 {
		c.Bad("C10.3-fresh-read", "getPodsForStatefulSet", gp.Decl.Pos(), "no RecheckDeletionTimestamp(func...) closure found")
		return
	}
	c.freshReadClosure(gp, lit, sets[0], "C10.3-fresh-read", "getPodsForStatefulSet$canAdopt")
}

// freshReadClosure: the closure's only API read is an uncached Get of the
// Advanced set, and it returns a nil error only with fresh.UID == set.UID.
func (c *Ctx) freshReadClosure(host *load.FuncInfo, lit *ast.FuncLit, set *ast.Ident, rule, name string) {
	info := host.Pkg.TypesInfo
	nRead, nCached := 0, 0
	var fresh *ast.Ident
	for _, s := range c.sitesUnder(host, lit) {
		switch s.Class {
		case "read":
			if s.Resource == "statefulsets.pingcap" && s.Verb == "Get" {
				nRead++
				// the variable receiving the object read (through a wrapper: the wrapper's matching result)
				k := 0
				if s.Helper != nil {
					k = c.resultIndexOf(s.Helper, s.Call, 0)
				}
				if as, ok := stmtOf(lit.Body, s.Top).(*ast.AssignStmt); ok && k >= 0 && k < len(as.Lhs) && len(as.Rhs) == 1 {
					fresh, _ = as.Lhs[k].(*ast.Ident)
				}
			}
		case "cached-read":
			nCached++
		}
	}
	c.Check(nRead == 1 && nCached == 0 && fresh != nil, rule, name+": reads", lit.Pos(), "exactly one uncached Get of the Advanced StatefulSet, no lister", "the confirmation read is cached or missing")
	if fresh == nil {
		return
	}
	lfn, lan := c.LitAnalysis(info, lit, name)
	n := 0
	ast.Inspect(lit.Body, func(x ast.Node) bool {
		ret, ok := x.(*ast.ReturnStmt)
		if !ok || len(ret.Results) != 2 || !isNilExpr(info, ret.Results[1]) {
			return true
		}
		n++
		st := lan.StateBefore(ret)
		c.Implies(st, c.Want(lfn, ret.Pos(), "$1.UID == $2.UID", fresh, set), rule+"-same-uid", name+": return fresh, nil", ret.Pos())
		c.Check(lfn.Term(ret.Results[0]).Key() == lfn.Term(fresh).Key(), rule+"-returns-fresh", name+": return fresh, nil", ret.Pos(), "the freshly read object is what is re-checked", "something other than the fresh object is returned for the deletion re-check")
		return true
	})
	c.Floor(rule+"-success-returns", n, 1)
}

// adoptOnlyOrphans: C10.5 / C09.4 instance.
func (c *Ctx) adoptOnlyOrphans(rule string) {
	m := ifaceMethod(c.P, load.CtrlPkg, "StatefulSetControlInterface", "AdoptOrphanRevisions")
	if m == nil {
		c.Fail("StatefulSetControlInterface.AdoptOrphanRevisions does not resolve")
		return
	}
	n := 0
	for _, fi := range c.P.Funcs() {
		if fi.Pkg.PkgPath != load.CtrlPkg {
			continue
		}
		info := fi.Pkg.TypesInfo
		for _, call := range callsIn(fi.Decl.Body, true) {
			if gf.StaticCallee(info, call) != m {
				continue
			}
			n++
			name := fmt.Sprintf("%s -> AdoptOrphanRevisions(%s)", fi.Obj.Name(), types.ExprString(call.Args[1]))
			// the slice is put together here, or in a filter function called for it
			fi, obj, _ := c.collectorOf(fi, call.Args[1])
			if fi == nil || obj == nil {
				c.Bad(rule+"-adopter-gets-orphans-only", name, call.Pos(), "argument is neither a slice variable filled here nor the result of a filter function")
				continue
			}
			info := fi.Pkg.TypesInfo
			fn, an := c.Analysis(fi)
			nApp := 0
			bad := false
			ast.Inspect(fi.Decl.Body, func(x ast.Node) bool {
				as, ok := x.(*ast.AssignStmt)
				if !ok || len(as.Lhs) != 1 || len(as.Rhs) != 1 {
					return true
				}
				id, ok := as.Lhs[0].(*ast.Ident)
				if !ok || info.ObjectOf(id) != obj {
					return true
				}
				rc, ok := as.Rhs[0].(*ast.CallExpr)
				if !ok {
					bad = true
					return true
				}
				fid, _ := rc.Fun.(*ast.Ident)
				if fid != nil && fid.Name == "make" {
					return true
				}
				if fid == nil || fid.Name != "append" {
					bad = true
					return true
				}
				st := an.StateBefore(as)
				for _, x := range rc.Args[1:] {
					nApp++
					var alts []*gf.Formula
					for _, g := range []string{"GetControllerOf", "GetControllerOfNoCopy"} {
						alts = append(alts, gf.FNil(gf.CallT("k8s.io/apimachinery/pkg/apis/meta/v1."+g, nil, fn.Term(x))))
					}
					c.Implies(st, gf.Or(alts...), rule+"-adopter-gets-orphans-only", fmt.Sprintf("%s: append(%s, %s)", fi.Obj.Name(), obj.Name(), types.ExprString(x)), as.Pos())
				}
				return true
			})
			if bad || nApp == 0 {
				c.Bad(rule+"-adopter-gets-orphans-only", name, call.Pos(), "the slice handed to the revision adopter is not built exclusively by guarded appends (it may contain revisions that already have a controller, which the adopter rejects with a permanent error)")
			}
		}
	}
	c.Floor(rule+"-adopter-call-sites", n, 1)
	// the adoption patch itself goes to orphans only (the precondition this caller-side filter must agree with): wherever
	// the controller package patches a ControllerRevision, the revision named in the call has no controller
	nPatch := 0
	for _, s := range c.G.Sites {
		if s.Class != "write" || s.Resource != "controllerrevisions" || s.Verb != "Patch" || len(s.Call.Args) < 2 {
			continue
		}
		ad := c.P.FuncInfoOf(s.Fn)
		if ad == nil || ad.Pkg.PkgPath != load.CtrlPkg {
			continue
		}
		nPatch++
		fn, an := c.Analysis(ad)
		// the revision: X in X.GetName() / X.Name given as the name of the patched object
		var rev ast.Expr
		switch x := ast.Unparen(s.Call.Args[1]).(type) {
		case *ast.CallExpr:
			if sel, ok := ast.Unparen(x.Fun).(*ast.SelectorExpr); ok && sel.Sel.Name == "GetName" {
				rev = sel.X
			}
		case *ast.SelectorExpr:
			if x.Sel.Name == "Name" {
				rev = x.X
			}
		}
		name := tableShort(c, ad) + ": " + s.Resource + "." + s.Verb
		if rev == nil {
			c.Unk(rule+"-adoption-patch-on-orphans-only", name, s.Call.Pos(), "the patched revision is not named by <revision>.GetName() or <revision>.Name")
			continue
		}
		var alts []*gf.Formula
		for _, g := range []string{"GetControllerOf", "GetControllerOfNoCopy"} {
			alts = append(alts, gf.FNil(gf.CallT("k8s.io/apimachinery/pkg/apis/meta/v1."+g, nil, fn.Term(rev))))
		}
		c.Implies(an.StateAtExpr(s.Call), gf.Or(alts...), rule+"-adoption-patch-on-orphans-only", name, s.Call.Pos())
		// and the rejection is for owned revisions only: an error built on the spot before the patch is returned only
		// where the revision has a controller (a rejection of every revision means nothing is ever adopted)
		var owned []*gf.Formula
		for _, g := range []string{"GetControllerOf", "GetControllerOfNoCopy"} {
			owned = append(owned, gf.FNotNil(gf.CallT("k8s.io/apimachinery/pkg/apis/meta/v1."+g, nil, fn.Term(rev))))
		}
		fn.KeepDead = true
		anK := fn.Analyze(nil)
		fn.KeepDead = false
		for _, bd := range fn.Bodies() {
			ownNodes(bd, func(x ast.Node) {
				ret, ok := x.(*ast.ReturnStmt)
				if !ok || len(ret.Results) == 0 || ret.Pos() > s.Call.Pos() || !isErrorCtor(fn.Info, ret.Results[len(ret.Results)-1]) {
					return
				}
				if st := anK.StateBefore(ret); st.Reachable() {
					c.Implies(st, gf.Or(owned...), rule+"-adoption-rejects-owned-only", tableShort(c, ad)+": rejection before the patch", ret.Pos())
				}
			})
		}
	}
	c.Floor(rule+"-revision-patch-sites", nPatch, 1)
}

func tableShort(c *Ctx, fi *load.FuncInfo) string {
	t := c.tableName(fi)
	if i := strings.LastIndex(t, "."); i >= 0 {
		t = t[i+1:]
	}
	return t
}

// cacheObjectsUnmodified: C10.7
func (c *Ctx) cacheObjectsUnmodified() {
	pw := gf.BuildParamWrites(c.P, c.E.Sum)
	check := func(fi *load.FuncInfo, isCached func(e ast.Expr) bool, exempt func(call *ast.CallExpr, arg ast.Expr) bool, what string) int {
		info := fi.Pkg.TypesInfo
		n := 0
		for _, call := range callsIn(fi.Decl.Body, false) {
			f := gf.StaticCallee(info, call)
			if f == nil || f.Pkg() == nil || !load.IsRepo(f.Pkg().Path()) {
				continue
			}
			for k, a := range call.Args {
				if !isCached(a) {
					continue
				}
				n++
				name := fmt.Sprintf("%s: %s(arg %d = %s)", fi.Obj.Name(), f.Name(), k, types.ExprString(a))
				if exempt != nil && exempt(call, a) {
					c.OK("C10.7-cache-objects-unmodified", name, call.Pos(), "argument is a freshly constructed object, not a cached one")
					continue
				}
				c.Check(!pw.Writes(c.E.Sum, f, k), "C10.7-cache-objects-unmodified", name, call.Pos(), "the callee does not write through this parameter",
					"a "+what+" read from the informer cache is passed to a callee that writes through that parameter")
			}
		}
		// direct stores through a cached object
		ast.Inspect(fi.Decl.Body, func(x ast.Node) bool {
			var lhss []ast.Expr
			switch s := x.(type) {
			case *ast.AssignStmt:
				lhss = s.Lhs
			case *ast.IncDecStmt:
				lhss = []ast.Expr{s.X}
			}
			for _, l := range lhss {
				switch y := ast.Unparen(l).(type) {
				case *ast.SelectorExpr:
					if isCached(y.X) || (rootIdent(y.X) != nil && isCachedRoot(y.X, isCached)) {
						n++
						c.Bad("C10.7-cache-objects-unmodified", fi.Obj.Name()+": "+types.ExprString(l)+" = ...", l.Pos(), "a field of a "+what+" read from the informer cache is assigned")
					}
				case *ast.IndexExpr:
					if sel, ok := ast.Unparen(y.X).(*ast.SelectorExpr); ok && isCachedRoot(sel.X, isCached) {
						n++
						c.Bad("C10.7-cache-objects-unmodified", fi.Obj.Name()+": "+types.ExprString(l)+" = ...", l.Pos(), "a map or slice of a "+what+" read from the informer cache is written")
					}
				}
			}
			return true
		})
		return n
	}
	// (a) the set in sync
	if sy := c.Func(load.CtrlPkg, "StatefulSetController.sync"); sy != nil {
		info := sy.Pkg.TypesInfo
		var setObj types.Object
		for _, s := range c.G.Sites {
			if s.Fn == sy.Obj && s.Class == "cached-read" && s.Verb == "Get" {
				if as, ok := stmtOf(sy.Decl.Body, s.Call).(*ast.AssignStmt); ok && len(as.Lhs) == 2 {
					if id, ok := as.Lhs[0].(*ast.Ident); ok {
						setObj = info.ObjectOf(id)
					}
				}
			}
		}
		if setObj == nil {
			c.Fail("sync: the set read from the lister is not bound to a variable")
		} else {
			n := check(sy, func(e ast.Expr) bool {
				id, ok := ast.Unparen(e).(*ast.Ident)
				return ok && info.ObjectOf(id) == setObj
			}, nil, "StatefulSet")
			c.Floor("C10.7-sync-set-uses", n, 1)
		}
	}
	// (b) observed pods in the reconcile function
	if r := c.ReconcileRoles(); r != nil {
		info := r.FI.Pkg.TypesInfo
		var isObs func(e ast.Expr) bool
		isObs = func(e ast.Expr) bool {
			switch x := ast.Unparen(e).(type) {
			case *ast.Ident:
				// an alias: v := pods[i]
				if d := defRHS(r.FI, info, x); d != nil {
					if _, isIdent := ast.Unparen(d).(*ast.Ident); !isIdent {
						return isObs(d)
					}
				}
				return false
			case *ast.UnaryExpr:
				// &v with v := *pods[i]: a shallow copy shares the labels, annotations and volumes of the cached object
				if x.Op == token.AND {
					if id, isID := ast.Unparen(x.X).(*ast.Ident); isID {
						if st, isStar := ast.Unparen(defRHS(r.FI, info, id)).(*ast.StarExpr); isStar {
							return isObs(st.X)
						}
					}
				}
				return false
			}
			ix, ok := ast.Unparen(e).(*ast.IndexExpr)
			if !ok {
				return false
			}
			id := rootIdent(ix.X)
			if id == nil {
				return false
			}
			o := info.ObjectOf(id)
			return o == r.W || o == r.K || o == info.ObjectOf(r.Pods)
		}
		n := check(r.FI, isObs, func(call *ast.CallExpr, arg ast.Expr) bool {
			// the create site passes a pod proven uncreated (built by the constructor)
			ok, _ := r.An.StateAtExpr(call).Implies(c.Want(r.Fn, call.Pos(), `$1.Status.Phase == ""`, arg))
			return ok
		}, "pod")
		c.Floor("C10.7-observed-pod-uses", n, 10)
	}
	// (c) the set handed to the control is a deep copy
	if ss := c.Func(load.CtrlPkg, "StatefulSetController.syncStatefulSet"); ss != nil {
		info := ss.Pkg.TypesInfo
		m := ifaceMethod(c.P, load.CtrlPkg, "StatefulSetControlInterface", "UpdateStatefulSet")
		for _, call := range callsIn(ss.Decl.Body, false) {
			if gf.StaticCallee(info, call) != m {
				continue
			}
			dc := false
			if a0, ok := ast.Unparen(call.Args[0]).(*ast.CallExpr); ok {
				if sel, ok := a0.Fun.(*ast.SelectorExpr); ok && sel.Sel.Name == "DeepCopy" {
					dc = true
				}
			}
			c.Check(dc || !pw.Writes(c.E.Sum, m, 0), "C10.7-control-gets-copy", "syncStatefulSet: UpdateStatefulSet(set...)", call.Pos(), "the control works on a deep copy of the cached set (or does not write through it)",
				"the control receives the cached set itself and writes through it")
		}
	}
}

func isCachedRoot(e ast.Expr, isCached func(ast.Expr) bool) bool {
	for {
		if isCached(e) {
			return true
		}
		switch x := ast.Unparen(e).(type) {
		case *ast.SelectorExpr:
			e = x.X
		case *ast.IndexExpr:
			if isCached(x) {
				return true
			}
			e = x.X
		case *ast.StarExpr:
			e = x.X
		default:
			return false
		}
	}
}

// uncachedReadsAreQuorumReads: "an uncached read confirms that S still exists": a Get of the set that goes to the API
// server does so with an empty resourceVersion in its options -- with a resourceVersion set ("0" in particular) the
// server may answer from its watch cache, which can lag like the informer does.
func (c *Ctx) uncachedReadsAreQuorumReads() {
	const rule = "C10.3-fresh-read-is-a-quorum-read"
	n := 0
	// no store into the ResourceVersion field of a GetOptions anywhere in the controller packages
	stored := map[string]bool{}
	for _, fi := range c.P.Funcs() {
		if !strings.HasPrefix(fi.Pkg.PkgPath, load.RootMod+"/pkg/") {
			continue
		}
		for _, fs := range fieldStores(fi.Pkg.TypesInfo, fi.Decl.Body) {
			if fs.Field == "ResourceVersion" && isNamed(fs.Owner, "k8s.io/apimachinery/pkg/apis/meta/v1", "GetOptions") && !fs.Literal {
				stored[types.ExprString(fs.Base)] = true
			}
		}
	}
	emptyRV := emptyResourceVersion
	for _, s := range c.G.Sites {
		if s.Class != "read" || s.Verb != "Get" || s.Resource != "statefulsets.pingcap" || s.Fn.Pkg() == nil || !strings.HasPrefix(s.Fn.Pkg().Path(), load.RootMod+"/pkg/") {
			continue
		}
		n++
		name := fmt.Sprintf("%s: %s.Get options", s.Fn.Name(), s.Resource)
		var opt ast.Expr
		for _, a := range s.Call.Args {
			if isNamed(s.Info.TypeOf(a), "k8s.io/apimachinery/pkg/apis/meta/v1", "GetOptions") {
				opt = a
			}
		}
		if opt == nil {
			c.Bad(rule, name, s.Call.Pos(), "no GetOptions argument found")
			continue
		}
		good, why := emptyRV(s.Info, opt)
		if id, ok := ast.Unparen(opt).(*ast.Ident); ok {
			good, why = false, "the options variable "+id.Name+" has no initialiser that can be read"
			if stored[id.Name] {
				why = "the ResourceVersion of " + id.Name + " is assigned somewhere"
			} else if v, isVar := s.Info.ObjectOf(id).(*types.Var); isVar {
				// the single initialiser of the variable (package level or local)
				for _, pk := range c.P.Roots {
					for _, f := range pk.Syntax {
						ast.Inspect(f, func(x ast.Node) bool {
							switch y := x.(type) {
							case *ast.ValueSpec:
								for i, nm := range y.Names {
									if pk.TypesInfo.ObjectOf(nm) == v && i < len(y.Values) {
										good, why = emptyRV(pk.TypesInfo, y.Values[i])
									} else if pk.TypesInfo.ObjectOf(nm) == v && len(y.Values) == 0 {
										good, why = true, ""
									}
								}
							case *ast.AssignStmt:
								for i, l := range y.Lhs {
									if lid, ok := l.(*ast.Ident); ok && pk.TypesInfo.ObjectOf(lid) == v && len(y.Rhs) == len(y.Lhs) {
										good, why = emptyRV(pk.TypesInfo, y.Rhs[i])
									}
								}
							}
							return true
						})
					}
				}
			}
		}
		c.Check(good, rule, name, s.Call.Pos(), "the options leave resourceVersion empty: the read is served from the store, not from a cache",
			"the read that is to confirm the set may be answered from the API server's watch cache: "+why+"; a set deleted or replaced a moment ago then still passes the check and adopts")
	}
	c.Floor(rule+"-sites", n, 1)
}

// defRHSOr: the expression assigned to the identifier e (its last definition in fi), or e itself.
func defRHSOr(fi *load.FuncInfo, info *types.Info, e ast.Expr) ast.Expr {
	if d := defRHS(fi, info, e); d != nil {
		return d
	}
	return e
}

// emptyResourceVersion: the options literal e sets no resourceVersion (or sets it to "").
func emptyResourceVersion(info *types.Info, e ast.Expr) (bool, string) {
	e = ast.Unparen(e)
	cl, ok := e.(*ast.CompositeLit)
	if !ok {
		return false, "the options are not a literal: " + types.ExprString(e)
	}
	for i, el := range cl.Elts {
		kv, ok := el.(*ast.KeyValueExpr)
		var v ast.Expr
		if ok {
			if k, isID := kv.Key.(*ast.Ident); !isID || k.Name != "ResourceVersion" {
				continue
			}
			v = kv.Value
		} else if i == 1 {
			v = el // positional: TypeMeta, ResourceVersion
		} else {
			continue
		}
		if tv, ok := info.Types[v]; !ok || tv.Value == nil || tv.Value.ExactString() != `""` {
			return false, "resourceVersion is set to " + types.ExprString(v)
		}
	}
	return true, ""
}
