package rules

import (
	"fmt"
	"go/ast"
	"go/constant"
	"go/token"
	"go/types"
	"reflect"
	"sort"
	"strings"

	"asverif/internal/gf"
	"asverif/internal/load"
)

func init() {
	register(&Property{
		ID:    "C19",
		Title: "Client-side helpers are lossless",
		Run:   runC19,
		Explanation: "Decides clauses C19.1-C19.5 of DESIGN.md: (1) type agreement: every field of the Advanced StatefulSet, StatefulSetList and the repo-defined types they reach has a built-in counterpart with the same JSON name, the same omitempty/inline option and an identical or recursively agreeing type (the condition under which marshal-with-one/unmarshal-with-the-other is lossless on modelled fields and cannot fail); built-in-only fields are listed as unmodelled; " +
			"(2) every successful return of the conversion functions has passed the assignment of TypeMeta.APIVersion from the target group-version, for every list item too; (3) each annotation helper indexes, stores and deletes only its own key constant and hands SetAnnotations the map it got from GetAnnotations (a fresh map only when that was nil); " +
			"(4) the hijacked Create and Update call the object defaulter on the object they send, before sending; (5) defaulting is idempotent by construction: every store in the closure of the object defaulter is a guarded zero-fill of its own target, has a state-independent right-hand side, or is a reviewed exception. NOT decided: round-trip equality as a value-level fact over all objects and slot sets.",
	})
}

func runC19(c *Ctx) {
	c.typeAgreement("C19.1")
	c.apiVersionFixup()
	c.annotationKeys()
	c.helpersKeepNothing()
	c.defaultBeforeSend()
	c.hijackWrappers()
	c.defaulterDiscipline()
}

// hijackWrappers: C19.6 — every method of the hijacked StatefulSet client calls
// the same verb of the Advanced client exactly once, passes its own context,
// name and options through, sends the conversion of the object it was given,
// and returns the conversion of what it got back.
func (c *Ctx) hijackWrappers() {
	n := 0
	for _, m := range []string{"Create", "Update", "UpdateStatus", "Get", "List", "Patch", "Apply", "ApplyStatus", "Watch"} {
		fi := c.Func(load.HelperPkg, "hijackStatefulSet."+m)
		if fi == nil {
			continue
		}
		n++
		fn, an := c.Analysis(fi)
		info := fi.Pkg.TypesInfo
		var site *ast.CallExpr
		cnt := 0
		reach := c.G.ReachDirect(fi.Obj)
		for _, s := range c.G.Sites {
			if s.Fn == fi.Obj && s.Resource == "statefulsets.pingcap" {
				cnt++
				if s.Verb == m {
					site = s.Call
				}
			} else if s.Fn != fi.Obj && reach[s.Fn] && s.Resource == "statefulsets.pingcap" && s.Fn.Pkg() != nil && s.Fn.Pkg().Path() == load.HelperPkg {
				// (a call of the Advanced client made on the method's behalf by a helper counts as the method's own)
				cnt++
			}
		}
		name := "hijackStatefulSet." + m
		if site == nil || cnt != 1 {
			c.Bad("C19.6-hijack-wrapper", name, fi.Decl.Pos(), fmt.Sprintf("does not call exactly the underlying %s once (%d Advanced-client calls)", m, cnt))
			continue
		}
		// parameters passed through unchanged (all non-object parameters), in order
		var params []*ast.Ident
		for _, pf := range fi.Decl.Type.Params.List {
			params = append(params, pf.Names...)
		}
		pass := true
		for i, a := range site.Args {
			if i >= len(params) {
				pass = false
				break
			}
			pt := types.TypeString(info.TypeOf(params[i]), nil)
			if strings.Contains(pt, "k8s.io/api/apps/v1.StatefulSet") || strings.Contains(pt, "applyconfigurations/apps/v1.StatefulSetApplyConfiguration") {
				// the object: must be the conversion of this parameter
				src, _ := reachingDefRHS(fi, info, a, site).(*ast.CallExpr)
				okObj := src != nil && c.convertsFromBuiltin(info, src, 0) && len(src.Args) == 1 && fn.Term(src.Args[0]).Key() == fn.Term(params[i]).Key()
				if !okObj {
					pass = false
				}
				continue
			}
			if fn.Term(a).Key() != fn.Term(params[i]).Key() {
				pass = false
			}
		}
		c.Check(pass && len(site.Args) == len(params), "C19.6-hijack-arguments", name, site.Pos(), "context, name, options are passed through and the object sent is the conversion of the one given", "the hijacked "+m+" does not pass its arguments through faithfully")
		// successful returns convert the underlying result
		res := stmtOf(fi.Decl.Body, site)
		var resID *ast.Ident
		if as, ok := res.(*ast.AssignStmt); ok && len(as.Lhs) == 2 {
			resID, _ = as.Lhs[0].(*ast.Ident)
		}
		okRet := false
		nRet := 0
		ast.Inspect(fi.Decl.Body, func(x ast.Node) bool {
			ret, ok := x.(*ast.ReturnStmt)
			if !ok || len(ret.Results) == 0 || !an.StateBefore(ret).Reachable() {
				return true
			}
			// error returns are fine
			if len(ret.Results) == 2 && isNilExpr(info, ret.Results[0]) {
				return true
			}
			nRet++
			var conv *ast.CallExpr
			if len(ret.Results) == 1 {
				conv, _ = ret.Results[0].(*ast.CallExpr)
			} else if len(ret.Results) == 2 && isNilExpr(info, ret.Results[1]) {
				conv, _ = ret.Results[0].(*ast.CallExpr)
			}
			direct := conv != nil && len(conv.Args) == 1 && ast.Unparen(conv.Args[0]) == ast.Expr(site) // conv(underlying(...)): both results handed on
			if len(ret.Results) == 1 && conv != nil && direct && c.convertsToBuiltin(info, conv, 0) {
				okRet = true
			}
			if conv != nil && resID != nil && len(conv.Args) == 1 && fn.Term(conv.Args[0]).Key() == fn.Term(resID).Key() && c.convertsToBuiltin(info, conv, 0) {
				okRet = true
			}
			return true
		})
		// an error of the underlying call is the method's result: with it non-nil no return that reports success is reachable
		if as, ok := res.(*ast.AssignStmt); ok && len(as.Lhs) == 2 {
			if errID, isID := as.Lhs[1].(*ast.Ident); isID && errID.Name != "_" {
				aE := fn.FromAfter(as, an.StateAfter(as).Assume(gf.FNotNil(fn.Term(errID))))
				swallowed := false
				ast.Inspect(fi.Decl.Body, func(x ast.Node) bool {
					ret, isRet := x.(*ast.ReturnStmt)
					if !isRet || len(ret.Results) == 0 {
						return true
					}
					st := aE.StateBefore(ret)
					if !st.Reachable() {
						return true
					}
					last := ret.Results[len(ret.Results)-1]
					if g, _ := st.Implies(gf.FNotNil(fn.Term(last))); !g || isNilExpr(info, last) || len(ret.Results) == 1 {
						swallowed = true
					}
					return true
				})
				c.Check(!swallowed, "C19.6-hijack-error-is-passed-on", name, site.Pos(), "no return without that error is reachable when the underlying call failed",
					"the hijacked "+m+" can report success although the Advanced client's call failed: the caller takes an object that was never stored for written")
			}
		}
		c.Check(okRet && nRet == 1, "C19.6-hijack-result", name, fi.Decl.Pos(), "the one successful return converts the underlying call's result to the built-in type", "the hijacked "+m+" does not return the conversion of what the Advanced client returned")
	}
	c.Floor("C19.6-hijack-methods", n, 8)
}

// ---------------------------------------------------------------------------
// E4: structural comparison of two struct types by JSON shape

type jsonField struct {
	name      string
	omitempty bool
	inline    bool
	typ       types.Type
	goName    string
}

func jsonFields(st *types.Struct) []jsonField {
	var out []jsonField
	for i := 0; i < st.NumFields(); i++ {
		f := st.Field(i)
		if !f.Exported() {
			continue
		}
		tag := reflect.StructTag(st.Tag(i)).Get("json")
		if tag == "-" {
			continue
		}
		parts := strings.Split(tag, ",")
		jf := jsonField{name: parts[0], typ: f.Type(), goName: f.Name()}
		for _, p := range parts[1:] {
			switch p {
			case "omitempty":
				jf.omitempty = true
			case "inline":
				jf.inline = true
			}
		}
		if jf.name == "" && !jf.inline {
			if f.Embedded() {
				jf.inline = true
			} else {
				jf.name = f.Name()
			}
		}
		out = append(out, jf)
	}
	return out
}

type typeCmp struct {
	c        *Ctx
	rule     string
	seen     map[string]bool
	n        int
	unmodel  []string
	mismatch int
}

func (tc *typeCmp) compare(path string, a, b types.Type) {
	if types.Identical(a, b) {
		return
	}
	key := path + "|" + types.TypeString(a, nil) + "|" + types.TypeString(b, nil)
	if tc.seen[key] {
		return
	}
	tc.seen[key] = true
	ua, ub := a.Underlying(), b.Underlying()
	switch x := ua.(type) {
	case *types.Pointer:
		if y, ok := ub.(*types.Pointer); ok {
			tc.compare(path, x.Elem(), y.Elem())
			return
		}
	case *types.Slice:
		if y, ok := ub.(*types.Slice); ok {
			tc.compare(path+"[]", x.Elem(), y.Elem())
			return
		}
	case *types.Map:
		if y, ok := ub.(*types.Map); ok {
			tc.compare(path+"{key}", x.Key(), y.Key())
			tc.compare(path+"{}", x.Elem(), y.Elem())
			return
		}
	case *types.Basic:
		if y, ok := ub.(*types.Basic); ok && x.Kind() == y.Kind() {
			return // named types over the same basic kind marshal alike
		}
	case *types.Struct:
		if y, ok := ub.(*types.Struct); ok {
			tc.structs(path, x, y)
			return
		}
	}
	tc.mismatch++
	tc.c.Bad(tc.rule+"-field-agreement", path, 0, fmt.Sprintf("type %s does not agree with the built-in %s", types.TypeString(a, nil), types.TypeString(b, nil)))
}

func (tc *typeCmp) structs(path string, a, b *types.Struct) {
	bf := map[string]jsonField{}
	var binline []jsonField
	for _, f := range jsonFields(b) {
		if f.inline {
			binline = append(binline, f)
		} else {
			bf[f.name] = f
		}
	}
	used := map[string]bool{}
	for _, f := range jsonFields(a) {
		tc.n++
		p := path + "." + f.goName
		if f.inline {
			// an inlined struct must be inlined on the other side with an agreeing type
			found := false
			for _, g := range binline {
				if g.goName == f.goName {
					found = true
					tc.compare(p, f.typ, g.typ)
				}
			}
			if !found {
				tc.mismatch++
				tc.c.Bad(tc.rule+"-field-agreement", p, 0, "inlined field has no inlined counterpart in the built-in type")
			} else {
				tc.c.OK(tc.rule+"-field-agreement", p, 0, "inlined on both sides")
			}
			continue
		}
		g, ok := bf[f.name]
		if !ok {
			tc.mismatch++
			tc.c.Bad(tc.rule+"-field-agreement", p, 0, fmt.Sprintf("JSON field %q has no counterpart in the built-in type: it is dropped when converting", f.name))
			continue
		}
		used[f.name] = true
		if f.omitempty != g.omitempty {
			tc.mismatch++
			tc.c.Bad(tc.rule+"-field-agreement", p, 0, fmt.Sprintf("JSON field %q: omitempty differs (advanced %v, built-in %v): zero values round-trip differently", f.name, f.omitempty, g.omitempty))
			continue
		}
		before := tc.mismatch
		tc.compare(p, f.typ, g.typ)
		if tc.mismatch == before {
			tc.c.OK(tc.rule+"-field-agreement", p, 0, fmt.Sprintf("json %q, omitempty=%v, type agrees", f.name, f.omitempty))
		}
	}
	for name, g := range bf {
		if !used[name] {
			tc.unmodel = append(tc.unmodel, path+"."+g.goName+" (json "+name+")")
		}
	}
}

func (c *Ctx) typeAgreement(rule string) *typeCmp {
	tc := &typeCmp{c: c, rule: rule, seen: map[string]bool{}}
	for _, name := range []string{"StatefulSet", "StatefulSetList"} {
		a, _ := c.P.Lookup(load.APIPkg, name).(*types.TypeName)
		b, _ := c.P.Lookup("k8s.io/api/apps/v1", name).(*types.TypeName)
		if a == nil || b == nil {
			c.Fail("type %s does not resolve in both API packages", name)
			continue
		}
		tc.compare(name, a.Type(), b.Type())
	}
	sort.Strings(tc.unmodel)
	c.Notes = append(c.Notes, fmt.Sprintf("%s: %d modelled fields compared; unmodelled built-in fields: %s", rule, tc.n, strings.Join(tc.unmodel, ", ")))
	c.Floor(rule+"-modelled-fields", tc.n, 30)
	return tc
}

// ---------------------------------------------------------------------------

func (c *Ctx) apiVersionFixup() {
	for _, name := range []string{"FromBuiltinStatefulSet", "ToBuiltinStatefulSet", "ToBuiltinStetefulsetList", "FromBuiltinStatefulSetApplyConfiguration"} {
		fi := c.Func(load.HelperPkg, name)
		if fi == nil {
			continue
		}
		fn, _ := c.Analysis(fi)
		info := fi.Pkg.TypesInfo
		// the result variable and its target package
		var final *ast.ReturnStmt
		ast.Inspect(fi.Decl.Body, func(n ast.Node) bool {
			if r, ok := n.(*ast.ReturnStmt); ok && len(r.Results) == 2 && isNilExpr(info, r.Results[1]) {
				final = r
			}
			return true
		})
		if final == nil {
			c.Bad("C19.2-apiversion", name, fi.Decl.Pos(), "no successful return found")
			continue
		}
		res := final.Results[0]
		resT := info.TypeOf(res)
		tpkg := ""
		if p, ok := resT.(*types.Pointer); ok {
			if n, ok := types.Unalias(p.Elem()).(*types.Named); ok {
				tpkg = n.Obj().Pkg().Path()
			}
		}
		wantGV := "k8s.io/api/apps/v1"
		if strings.HasPrefix(tpkg, load.ClientMod) {
			wantGV = load.APIPkg
		}
		// assignments X.APIVersion = <pkg>.SchemeGroupVersion.String() (directly or through a local)
		gvOK := func(e ast.Expr) bool {
			e = ast.Unparen(e)
			if u, ok := e.(*ast.UnaryExpr); ok && u.Op == token.AND {
				if r := defRHS(fi, info, u.X); r != nil {
					e = r
				}
			}
			if id, ok := e.(*ast.Ident); ok {
				if r := defRHS(fi, info, id); r != nil {
					e = r
				}
			}
			call, ok := e.(*ast.CallExpr)
			if !ok {
				return false
			}
			sel, ok := call.Fun.(*ast.SelectorExpr)
			if !ok || sel.Sel.Name != "String" {
				return false
			}
			gv, ok := sel.X.(*ast.SelectorExpr)
			if !ok || gv.Sel.Name != "SchemeGroupVersion" {
				return false
			}
			v, ok := info.ObjectOf(gv.Sel).(*types.Var)
			return ok && v.Pkg() != nil && v.Pkg().Path() == wantGV
		}
		var top ast.Node
		ast.Inspect(fi.Decl.Body, func(n ast.Node) bool {
			as, ok := n.(*ast.AssignStmt)
			if !ok || len(as.Lhs) != 1 || len(as.Rhs) != 1 {
				return true
			}
			sel, ok := as.Lhs[0].(*ast.SelectorExpr)
			if !ok || sel.Sel.Name != "APIVersion" {
				return true
			}
			if r := rootIdent(sel.X); r != nil && rootIdent(res) != nil && info.ObjectOf(r) == info.ObjectOf(rootIdent(res)) && gvOK(as.Rhs[0]) && topIndex(fi.Decl.Body, as) >= 0 && fi.Decl.Body.List[topIndex(fi.Decl.Body, as)] == ast.Stmt(as) {
				top = as
			}
			return true
		})
		ok := false
		if top != nil {
			aU := fn.FromUntil(fi.Decl.Body.List[0], gf.TrueState(), top)
			ok = !aU.StateBefore(final).Reachable()
		}
		// "unchanged in every field the API models": what the decoder has filled in is left as it is; the only thing a
		// conversion writes into the objects it returns is the type header (and the items it has re-typed, back in place)
		nSt := 0
		for _, bd := range fn.Bodies() {
			ast.Inspect(bd, func(n ast.Node) bool {
				as, ok := n.(*ast.AssignStmt)
				if !ok {
					return true
				}
				for li, l := range as.Lhs {
					l = ast.Unparen(l)
					var field string
					switch x := l.(type) {
					case *ast.SelectorExpr:
						if _, isField := info.ObjectOf(x.Sel).(*types.Var); !isField || !info.ObjectOf(x.Sel).(*types.Var).IsField() {
							continue
						}
						field = x.Sel.Name
					case *ast.IndexExpr:
						if _, isSel := ast.Unparen(x.X).(*ast.SelectorExpr); !isSel {
							continue
						}
						field = "[]"
					case *ast.StarExpr:
						field = "*"
					default:
						continue
					}
					// (only what is rooted in an API object: a set, a list, an apply configuration, or one of their parts)
					if r := rootIdent(l); r == nil || !apiObjectType(info.TypeOf(r)) {
						continue
					}
					nSt++
					cname := name + ": " + types.ExprString(l) + " = …"
					switch field {
					case "APIVersion", "Kind":
						c.OK("C19.2-conversion-writes-the-type-header-only", cname, as.Pos(), "the type header")
					case "[]":
						// X.Items[i] = v inside `for i, v := range X.Items`
						ix := l.(*ast.IndexExpr)
						good := false
						if rs, isR := innermostLoop(bd, as).(*ast.RangeStmt); isR && len(as.Rhs) == len(as.Lhs) {
							if v, isID := ast.Unparen(as.Rhs[li]).(*ast.Ident); isID && rs.Value != nil && rs.Key != nil {
								if rv, isID := rs.Value.(*ast.Ident); isID && info.ObjectOf(rv) == info.ObjectOf(v) &&
									types.ExprString(rs.X) == types.ExprString(ix.X) && types.ExprString(rs.Key) == types.ExprString(ix.Index) {
									good = true
								}
							}
						}
						c.Check(good, "C19.2-conversion-writes-the-type-header-only", cname, as.Pos(), "the item of this iteration, back in its place", "a list element is replaced by something other than the item that stood there: lists no longer keep their content and order")
					default:
						c.Bad("C19.2-conversion-writes-the-type-header-only", cname, as.Pos(), "the conversion alters "+types.ExprString(l)+" after decoding: an object written through the hijack client and read back is no longer unchanged in that field")
					}
				}
				return true
			})
		}
		c.Floor("C19.2-conversion-stores", nSt, 1)
		c.Check(ok, "C19.2-apiversion", name+": result.APIVersion", fi.Decl.Pos(), "every successful return has passed `result.APIVersion = "+wantGV+".SchemeGroupVersion.String()`", "a converted object can be returned without the target apiVersion")
		// list items
		if strings.Contains(name, "List") {
			okItems := false
			for _, s := range fi.Decl.Body.List {
				rs, isR := s.(*ast.RangeStmt)
				if !isR {
					continue
				}
				sel, isSel := ast.Unparen(rs.X).(*ast.SelectorExpr)
				if !isSel || sel.Sel.Name != "Items" || rootIdent(sel.X) == nil || info.ObjectOf(rootIdent(sel.X)) != info.ObjectOf(rootIdent(res)) {
					continue
				}
				set, stored := false, false
				for _, bs := range rs.Body.List {
					as, isAs := bs.(*ast.AssignStmt)
					if !isAs || len(as.Lhs) != 1 {
						continue
					}
					if l, isSel := as.Lhs[0].(*ast.SelectorExpr); isSel && l.Sel.Name == "APIVersion" && gvOK(as.Rhs[0]) {
						if v, isID := rs.Value.(*ast.Ident); isID && rootIdent(l.X) != nil && info.ObjectOf(rootIdent(l.X)) == info.ObjectOf(v) {
							set = true
						}
						// or in place: <list>.Items[i].APIVersion = gv with i the loop's index
						if k, isID := rs.Key.(*ast.Ident); isID && k.Name != "_" {
							base := ast.Unparen(l.X)
							if tm, isTM := base.(*ast.SelectorExpr); isTM && tm.Sel.Name == "TypeMeta" {
								base = ast.Unparen(tm.X)
							}
							if ix, isIx := base.(*ast.IndexExpr); isIx && fn.Term(ix.X).Key() == fn.Term(rs.X).Key() && fn.Term(ix.Index).Key() == fn.Term(k).Key() {
								set, stored = true, true
							}
						}
						if k, isID := rs.Key.(*ast.Ident); isID {
							if ix, isIx := ast.Unparen(l.X).(*ast.SelectorExpr); isIx {
								_ = ix
							}
							_ = k
						}
					}
					if ix, isIx := as.Lhs[0].(*ast.IndexExpr); isIx && set {
						if fn.Term(ix.X).Key() == fn.Term(rs.X).Key() && fn.Term(ix.Index).Key() == fn.Term(rs.Key).Key() && fn.Term(as.Rhs[0]).Key() == fn.Term(rs.Value).Key() {
							stored = true
						}
					}
				}
				if set && stored && rs.Pos() < final.Pos() {
					okItems = true
				}
			}
			c.Check(okItems, "C19.2-apiversion-items", name+": items", fi.Decl.Pos(), "a top-level loop over all items sets each item's apiVersion and stores the item back", "list items are returned without the target apiVersion")
		}
	}
}

// ---------------------------------------------------------------------------

func (c *Ctx) annotationKeys() {
	keys := map[string]string{"GetDeleteSlots": "DeleteSlotsAnn", "SetDeleteSlots": "DeleteSlotsAnn", "SetPausedReconcile": "PausedReconcileAnn", "GetPausedReconcile": "PausedReconcileAnn"}
	n := 0
	for fname, kname := range keys {
		fi := c.Func(load.HelperPkg, fname)
		kc, _ := c.P.Lookup(load.HelperPkg, kname).(*types.Const)
		if fi == nil || kc == nil {
			continue
		}
		fn, an := c.Analysis(fi)
		info := fi.Pkg.TypesInfo
		// the key: the constant itself, or (in a lookup helper expanded into the function) a parameter bound to it
		isKey := func(e ast.Expr) bool {
			if tv, ok := info.Types[e]; ok && tv.Value != nil {
				return tv.Value.ExactString() == kc.Val().ExactString()
			}
			g, _ := an.StateAtExpr(e).Implies(gf.FEq(fn.Term(e), gf.ConstStr(constant.StringVal(kc.Val()))))
			return g
		}
		nHere := 0
		for _, bd := range fn.Bodies() {
			// the annotations variable of this body: assigned from X.GetAnnotations()
			var ann types.Object
			ast.Inspect(bd, func(x ast.Node) bool {
				if as, ok := x.(*ast.AssignStmt); ok && len(as.Lhs) == 1 && len(as.Rhs) == 1 {
					if call, ok := as.Rhs[0].(*ast.CallExpr); ok {
						if sel, ok := call.Fun.(*ast.SelectorExpr); ok && sel.Sel.Name == "GetAnnotations" {
							if id, ok := as.Lhs[0].(*ast.Ident); ok {
								ann = info.ObjectOf(id)
							}
						}
						// or from an in-repo function that hands out the annotations in a map of its own: it stands for the
						// object's annotations only if every entry is carried over
						if g := gf.StaticCallee(info, call); g != nil && g.Pkg() != nil && inRepoPkg(g.Pkg().Path()) && bd == fi.Decl.Body {
							if _, isMap := info.TypeOf(as.Lhs[0]).Underlying().(*types.Map); isMap {
								if id, ok := as.Lhs[0].(*ast.Ident); ok {
									n++
									if c.Check(c.copiesEveryAnnotation(g), "C19.3-annotation-map-preserved", fname+": "+id.Name+" := "+g.Name()+"(…)", as.Pos(), "a copy into which every entry of GetAnnotations() is stored, unconditionally",
										g.Name()+" does not carry over every annotation of the object into the map it returns: what it leaves out is lost when the map is written back") {
										ann = info.ObjectOf(id)
									}
								}
							}
						}
					}
				}
				return true
			})
			// the getters may index the map where they obtain it: X.GetAnnotations()[key]
			ast.Inspect(bd, func(x ast.Node) bool {
				if ix, ok := x.(*ast.IndexExpr); ok {
					if call, ok := ast.Unparen(ix.X).(*ast.CallExpr); ok {
						if sel, ok := call.Fun.(*ast.SelectorExpr); ok && sel.Sel.Name == "GetAnnotations" {
							nHere++
							n++
							c.Check(isKey(ix.Index), "C19.3-annotation-keys", fmt.Sprintf("%s: GetAnnotations()[%s]", fname, types.ExprString(ix.Index)), ix.Pos(), "uses the helper's own key constant "+kname, "the helper touches an annotation other than its own key")
						}
					}
				}
				return true
			})
			if ann == nil {
				continue
			}
			ast.Inspect(bd, func(x ast.Node) bool {
				switch y := x.(type) {
				case *ast.IndexExpr:
					if r := rootIdent(y.X); r != nil && info.ObjectOf(r) == ann {
						n++
						nHere++
						c.Check(isKey(y.Index), "C19.3-annotation-keys", fmt.Sprintf("%s: annotations[%s]", fname, types.ExprString(y.Index)), y.Pos(), "uses the helper's own key constant "+kname, "the helper touches an annotation other than its own key")
					}
				case *ast.CallExpr:
					if id, ok := y.Fun.(*ast.Ident); ok && id.Name == "delete" && len(y.Args) == 2 {
						if r := rootIdent(y.Args[0]); r != nil && info.ObjectOf(r) == ann {
							n++
							nHere++
							c.Check(isKey(y.Args[1]), "C19.3-annotation-keys", fmt.Sprintf("%s: delete(annotations, %s)", fname, types.ExprString(y.Args[1])), y.Pos(), "deletes only its own key", "the helper deletes an annotation other than its own key")
						}
					}
					if sel, ok := y.Fun.(*ast.SelectorExpr); ok && sel.Sel.Name == "SetAnnotations" && len(y.Args) == 1 {
						n++
						id, ok := y.Args[0].(*ast.Ident)
						c.Check(ok && info.ObjectOf(id) == ann, "C19.3-annotation-map-preserved", fname+": SetAnnotations(...)", y.Pos(), "the map obtained from GetAnnotations is what is written back", "SetAnnotations is given a different map: other annotations are lost")
					}
				case *ast.AssignStmt:
					// annotations = <fresh map> only when annotations == nil
					for i, l := range y.Lhs {
						if id, ok := l.(*ast.Ident); ok && info.ObjectOf(id) == ann && y.Tok == token.ASSIGN && len(y.Rhs) == len(y.Lhs) {
							n++
							_ = i
							c.Implies(an.StateBefore(y), gf.FNil(fn.Term(id)), "C19.3-annotation-map-preserved", fname+": annotations = "+types.ExprString(y.Rhs[i]), y.Pos())
						}
					}
				}
				return true
			})
		}
		if nHere == 0 {
			c.Bad("C19.3-annotation-keys", fname, fi.Decl.Pos(), "annotations are not obtained through GetAnnotations()")
		}
	}
	c.Floor("C19.3-annotation-accesses", n, 6)
	// the setters always write: every successful exit has passed the key's delete or store and SetAnnotations
	for _, fname := range []string{"SetDeleteSlots", "SetPausedReconcile"} {
		fi := c.Func(load.HelperPkg, fname)
		if fi == nil {
			continue
		}
		fn, _ := c.Analysis(fi)
		info := fi.Pkg.TypesInfo
		var setCall *ast.CallExpr
		var keyOps []ast.Node
		ast.Inspect(fi.Decl.Body, func(x ast.Node) bool {
			switch y := x.(type) {
			case *ast.CallExpr:
				if sel, ok := y.Fun.(*ast.SelectorExpr); ok && sel.Sel.Name == "SetAnnotations" {
					setCall = y
				}
				if id, ok := y.Fun.(*ast.Ident); ok && id.Name == "delete" {
					keyOps = append(keyOps, y)
				}
			case *ast.AssignStmt:
				if len(y.Lhs) == 1 {
					if _, ok := y.Lhs[0].(*ast.IndexExpr); ok {
						keyOps = append(keyOps, y)
					}
				}
			}
			return true
		})
		check := func(stops []ast.Node, what string) {
			aU := fn.FromUntil(fi.Decl.Body.List[0], gf.TrueState(), stops...)
			bad := false
			ast.Inspect(fi.Decl.Body, func(x ast.Node) bool {
				if r, ok := x.(*ast.ReturnStmt); ok && aU.StateBefore(r).Reachable() {
					// an error return is fine
					if len(r.Results) == 1 {
						if good, _ := aU.StateBefore(r).Implies(gf.FNotNil(fn.Term(r.Results[0]))); good && !isNilExpr(info, r.Results[0]) {
							return true
						}
					}
					bad = true
				}
				return true
			})
			if ir := fn.ImplicitReturn(); ir != nil && aU.StateBefore(ir).Reachable() {
				bad = true
			}
			c.Check(!bad && len(stops) > 0, "C19.3-setter-always-writes", fname+": "+what, fi.Decl.Pos(), "no successful return is reachable without "+what, fname+" can return successfully without "+what+": the requested value is not written (e.g. an empty set does not remove the annotation)")
		}
		if setCall != nil {
			check([]ast.Node{setCall}, "SetAnnotations")
		} else {
			c.Bad("C19.3-setter-always-writes", fname, fi.Decl.Pos(), "no SetAnnotations call")
		}
		check(keyOps, "the delete or store of its key")
	}
	// AddDeleteSlots goes through Get/Set
	if fi := c.Func(load.HelperPkg, "AddDeleteSlots"); fi != nil {
		reach := c.G.ReachDirect(fi.Obj)
		g, s := c.Func(load.HelperPkg, "GetDeleteSlots"), c.Func(load.HelperPkg, "SetDeleteSlots")
		okAdd := g != nil && s != nil && reach[g.Obj] && reach[s.Obj]
		// and writes the union of the current and the given slots
		union := false
		for _, call := range callsIn(fi.Decl.Body, false) {
			if f := gf.StaticCallee(fi.Pkg.TypesInfo, call); f != nil && f.Name() == "Union" {
				union = true
			}
		}
		c.Check(okAdd && union, "C19.3-add-is-union", "AddDeleteSlots", fi.Decl.Pos(), "Set(Get(set).Union(given))", "AddDeleteSlots does not write the union of the current and the given slots")
	}
}

// ---------------------------------------------------------------------------

func (c *Ctx) defaultBeforeSend() {
	def, _ := c.P.Lookup(load.APIPkg, "SetObjectDefaults_StatefulSet").(*types.Func)
	if def == nil {
		c.Fail("SetObjectDefaults_StatefulSet does not resolve")
		return
	}
	for _, m := range []string{"Create", "Update"} {
		fi := c.Func(load.HelperPkg, "hijackStatefulSet."+m)
		if fi == nil {
			continue
		}
		fn, _ := c.Analysis(fi)
		info := fi.Pkg.TypesInfo
		var send *ast.CallExpr
		for _, s := range c.G.Sites {
			if s.Fn == fi.Obj && s.Class == "write" && s.Verb == m {
				send = s.Call
			}
		}
		if send == nil {
			c.Bad("C19.4-default-before-send", "hijackStatefulSet."+m, fi.Decl.Pos(), "no underlying "+m+" call found")
			continue
		}
		var dcall ast.Node
		for _, call := range callsIn(fi.Decl.Body, false) {
			if gf.StaticCallee(info, call) == def && len(call.Args) == 1 && fn.Term(call.Args[0]).Key() == fn.Term(send.Args[1]).Key() {
				dcall = stmtOf(fi.Decl.Body, call)
			}
		}
		ok := false
		if dcall == nil {
			// the conversion and the defaulting may sit in a helper the engine expands into the method: the defaulting
			// call is passed on every path to the send, and what it defaulted is what is sent (by the facts at the send)
			fn.KeepDead = true
			anK := fn.Analyze(nil)
			fn.KeepDead = false
			var stops []ast.Node
			same := false
			for _, h := range fn.Expanded() {
				for _, call := range callsIn(h.Decl.Body, false) {
					if gf.StaticCallee(h.Pkg.TypesInfo, call) == def && len(call.Args) == 1 {
						stops = append(stops, stmtOf(h.Decl.Body, call))
						if g, _ := anK.StateAtExpr(send).Implies(gf.FEq(fn.Term(call.Args[0]), fn.Term(send.Args[1]))); g {
							same = true
						}
					}
				}
			}
			if len(stops) > 0 && same {
				aU := fn.FromUntil(fi.Decl.Body.List[0], gf.TrueState(), stops...)
				ok = !aU.StateAtExpr(send).Reachable()
			}
		}
		if dcall != nil {
			aU := fn.FromUntil(fi.Decl.Body.List[0], gf.TrueState(), dcall)
			ok = !aU.StateAtExpr(send).Reachable()
			// and the object is not replaced between defaulting and sending
			ast.Inspect(fi.Decl.Body, func(n ast.Node) bool {
				if as, isAs := n.(*ast.AssignStmt); isAs && as.Pos() > dcall.Pos() && as.End() < send.Pos() {
					for _, l := range as.Lhs {
						if fn.Term(l).Key() == fn.Term(send.Args[1]).Key() {
							ok = false
						}
					}
				}
				return true
			})
		}
		c.Check(ok, "C19.4-default-before-send", "hijackStatefulSet."+m, send.Pos(), "the object sent has been defaulted on every path", "the hijacked "+m+" can send an object that was not defaulted (or defaults a different object)")
	}
}

// ---------------------------------------------------------------------------
// C19.5 defaulter write discipline

// reviewed exceptions: function | store text -> reason
// overwritingDefaults: "owner type.field" of defaulter stores that replace a value the object may carry, with the reason
// why that is not a loss in the sense of C19
var overwritingDefaults = map[string]string{
	load.APIPkg + ".StatefulSetUpdateStrategy.RollingUpdate": "under an empty strategy type the built-in API server's own defaulting replaces the rollingUpdate stanza in exactly the same way (k8s.io/kubernetes/pkg/apis/apps/v1 SetDefaults_StatefulSet), so what is read back through the hijack client is what the built-in API would have stored for the same object",
}

var defaulterExceptions = map[string]string{
	"SetDefaults_ResourceList|(*obj)[v1.ResourceName(key)] = val": "unguarded, state-dependent map store; idempotent because rounding up to milli scale is a projection (a rounded value rounds to itself)",
}

func (c *Ctx) defaulterDiscipline() {
	root := c.Func(load.APIPkg, "SetObjectDefaults_StatefulSet")
	if root == nil {
		return
	}
	reach := c.G.ReachDirect(root.Obj)
	var fis []*load.FuncInfo
	for f := range reach {
		fi := c.P.FuncInfoOf(f)
		if fi != nil && (fi.Pkg.PkgPath == load.APIPkg || fi.Pkg.PkgPath == load.DefPkg) {
			fis = append(fis, fi)
		}
	}
	sort.Slice(fis, func(i, j int) bool { return fis[i].Obj.FullName() < fis[j].Obj.FullName() })
	c.Floor("C19.5-defaulter-closure", len(fis), 15)
	nStores := 0
	for _, fi := range fis {
		fn, an := c.Analysis(fi)
		info := fi.Pkg.TypesInfo
		fresh := map[types.Object]bool{} // locals holding constants or fresh allocations
		ast.Inspect(fi.Decl.Body, func(n ast.Node) bool {
			if as, ok := n.(*ast.AssignStmt); ok && as.Tok == token.DEFINE && len(as.Lhs) == len(as.Rhs) {
				for i, l := range as.Lhs {
					if id, ok := l.(*ast.Ident); ok && stateIndependent(info, as.Rhs[i], fresh) {
						fresh[info.ObjectOf(id)] = true
					}
				}
			}
			if vs, ok := n.(*ast.ValueSpec); ok && len(vs.Values) == len(vs.Names) {
				for i, id := range vs.Names {
					if stateIndependent(info, vs.Values[i], fresh) {
						fresh[info.ObjectOf(id)] = true
					}
				}
			}
			return true
		})
		var prev ast.Stmt
		ast.Inspect(fi.Decl.Body, func(n ast.Node) bool {
			blk, ok := n.(*ast.BlockStmt)
			if !ok {
				return true
			}
			prev = nil
			for _, s := range blk.List {
				as, isAs := s.(*ast.AssignStmt)
				if !isAs {
					prev = s
					continue
				}
				for i, l := range as.Lhs {
					l = ast.Unparen(l)
					if _, isID := l.(*ast.Ident); isID {
						continue // locals
					}
					if as.Tok != token.ASSIGN || len(as.Rhs) != len(as.Lhs) {
						continue
					}
					nStores++
					text := types.ExprString(l) + " = " + clip(types.ExprString(as.Rhs[i]), 50)
					name := fi.Obj.Name() + ": " + text
					if why, ok := defaulterExceptions[fi.Obj.Name()+"|"+types.ExprString(l)+" = "+types.ExprString(as.Rhs[i])]; ok {
						c.OK("C19.5-defaulting-idempotent", name, as.Pos(), "reviewed exception: "+why)
						continue
					}
					st := an.StateBefore(as)
					lt := fn.Term(l)
					// (a) guarded zero-fill of the same target
					zero := gf.Or(gf.FNil(lt), gf.FEq(lt, gf.ConstStr("")), gf.FEq(lt, gf.ConstInt(0)), gf.Not(gf.FBool(lt)), gf.FEq(gf.LenOf(lt), gf.ConstInt(0)))
					if good, _ := st.Implies(zero); good && st.Reachable() {
						c.OK("C19.5-defaulting-idempotent", name, as.Pos(), "guarded zero-fill: the target is known to be zero here")
						continue
					}
					// `*p = c` right after `p = new(T)`: part of the same zero-fill
					if star, isStar := l.(*ast.StarExpr); isStar && prev != nil {
						if pas, ok := prev.(*ast.AssignStmt); ok && len(pas.Lhs) == 1 && fn.Term(pas.Lhs[0]).Key() == fn.Term(star.X).Key() {
							if call, ok := pas.Rhs[0].(*ast.CallExpr); ok {
								if id, ok := call.Fun.(*ast.Ident); ok && id.Name == "new" && stateIndependent(info, as.Rhs[i], fresh) {
									c.OK("C19.5-defaulting-idempotent", name, as.Pos(), "initialises the cell allocated by the preceding guarded zero-fill with a constant")
									continue
								}
							}
						}
					}
					// map entry guarded by absence of the key
					if ix, isIx := l.(*ast.IndexExpr); isIx {
						if _, isMap := info.TypeOf(ix.X).Underlying().(*types.Map); isMap {
							absent := false
							for _, d := range st.D {
								_ = d
							}
							// `if _, exists := m[k]; !exists { m[k] = ... }`
							p := pathTo(fi.Decl.Body, as)
							for j := len(p) - 1; j >= 0; j-- {
								if ifs, ok := p[j].(*ast.IfStmt); ok && ifs.Init != nil {
									if ias, ok := ifs.Init.(*ast.AssignStmt); ok && len(ias.Lhs) == 2 && len(ias.Rhs) == 1 {
										if rix, ok := ias.Rhs[0].(*ast.IndexExpr); ok && fn.Term(rix).Key() == fn.Term(ix).Key() {
											if good, _ := st.Implies(gf.Not(gf.FBool(fn.Term(ias.Lhs[1])))); good {
												absent = true
											}
										}
									}
								}
							}
							if absent {
								c.OK("C19.5-defaulting-idempotent", name, as.Pos(), "map entry stored only when the key is absent")
								continue
							}
						}
					}
					// (b) state-independent right-hand side
					if stateIndependent(info, as.Rhs[i], fresh) {
						c.OK("C19.5-defaulting-idempotent", name, as.Pos(), "state-independent right-hand side (constants / fresh allocation): re-applying writes the same value")
						// idempotent, but it overwrites what the object said: "written through the hijack client and read back is
						// unchanged in every field" holds only if a default is put where nothing was
						// (AllPtrFieldsNil(&target) is the emptiness test of a struct of pointers)
						emptyStruct := st.Reachable()
						for _, d := range st.D {
							has := false
							for _, lit := range d.L {
								if !lit.Neg && lit.A.Op == "b" && lit.A.L != nil && lit.A.L.K == 'k' && lit.A.L.Fn != nil && lit.A.L.Fn.Name() == "AllPtrFieldsNil" && len(lit.A.L.A) == 1 {
									if a := lit.A.L.A[0]; a.K == 'a' && len(a.A) == 1 && a.A[0].Key() == lt.Key() {
										has = true
									}
								}
							}
							if !has {
								emptyStruct = false
							}
						}
						ownerField := ""
						if sel, isSel := l.(*ast.SelectorExpr); isSel {
							ownerField = gf.OwnerName(info.TypeOf(sel.X)) + "." + sel.Sel.Name
						}
						if why, ok := overwritingDefaults[ownerField]; ok {
							c.OK("C19.5-defaults-fill-only-what-is-empty", name, as.Pos(), "reviewed exception: "+why)
						} else if emptyStruct {
							c.OK("C19.5-defaults-fill-only-what-is-empty", name, as.Pos(), "stored only when every pointer field of the target is nil")
						} else if strings.HasPrefix(fi.Pkg.PkgPath, load.ClientMod) || inRepoPkg(fi.Pkg.PkgPath) {
							c.Bad("C19.5-defaults-fill-only-what-is-empty", name, as.Pos(), "the defaulter stores a fixed value into a field without the fact that the field is empty: a value the user has set there is replaced on the way through the hijack client")
						}
						continue
					}
					c.Bad("C19.5-defaulting-idempotent", name, as.Pos(), "a defaulter store that is neither a guarded zero-fill of its own target nor state-independent: applying the defaults twice may differ from applying them once")
				}
				prev = s
			}
			return true
		})
		c.noLateDependency(fi, fn)
		// appends and increments in defaulters are never idempotent unless guarded
		ast.Inspect(fi.Decl.Body, func(n ast.Node) bool {
			if inc, ok := n.(*ast.IncDecStmt); ok {
				if _, isID := ast.Unparen(inc.X).(*ast.Ident); !isID {
					nStores++
					c.Bad("C19.5-defaulting-idempotent", fi.Obj.Name()+": "+types.ExprString(inc.X)+inc.Tok.String(), inc.Pos(), "a counter is changed by a defaulter: not idempotent")
				}
			}
			return true
		})
	}
	c.Floor("C19.5-defaulter-stores", nStores, 40)
}

// stateIndependent: the expression is built from constants, fresh allocations and locals that are.
func stateIndependent(info *types.Info, e ast.Expr, fresh map[types.Object]bool) bool {
	e = ast.Unparen(e)
	if tv, ok := info.Types[e]; ok && (tv.Value != nil || tv.IsNil()) {
		return true
	}
	switch x := e.(type) {
	case *ast.Ident:
		if o := info.ObjectOf(x); o != nil {
			if _, isConst := o.(*types.Const); isConst {
				return true
			}
			return fresh[o]
		}
	case *ast.UnaryExpr:
		if x.Op == token.AND {
			return stateIndependent(info, x.X, fresh)
		}
	case *ast.CompositeLit:
		for _, el := range x.Elts {
			v := el
			if kv, ok := el.(*ast.KeyValueExpr); ok {
				v = kv.Value
			}
			if !stateIndependent(info, v, fresh) {
				return false
			}
		}
		return true
	case *ast.CallExpr:
		if tv, ok := info.Types[x.Fun]; ok && tv.IsType() && len(x.Args) == 1 {
			return stateIndependent(info, x.Args[0], fresh)
		}
		if id, ok := x.Fun.(*ast.Ident); ok {
			if b, ok := info.ObjectOf(id).(*types.Builtin); ok && (b.Name() == "new" || b.Name() == "make") {
				for _, a := range x.Args[1:] {
					if !stateIndependent(info, a, fresh) {
						return false
					}
				}
				return true
			}
		}
		if f := gf.StaticCallee(info, x); f != nil && gf.PureExternal(f) || f != nil && strings.Contains(f.FullName(), "k8s.io/utils/pointer") {
			for _, a := range x.Args {
				if !stateIndependent(info, a, fresh) {
					return false
				}
			}
			return true
		}
	}
	return false
}

// noLateDependency: clause (c) of C19.5. A field read by the guard of a store
// (other than the store's own target) and written in the same function must be
// written on a path that leads to that guard: a write in a branch that is
// exclusive with the guard (or after it) can flip the guard on the next pass.
func (c *Ctx) noLateDependency(fi *load.FuncInfo, fn *gf.Fn) {
	info := fi.Pkg.TypesInfo
	fieldOf := func(e ast.Expr) string {
		sel, ok := ast.Unparen(e).(*ast.SelectorExpr)
		if !ok {
			return ""
		}
		if s, ok := info.Selections[sel]; ok && s.Kind() == types.FieldVal {
			return gf.OwnerName(info.TypeOf(sel.X)) + "." + sel.Sel.Name
		}
		return ""
	}
	// writes by field
	type wr struct {
		stmt ast.Stmt
		f    string
	}
	var writes []wr
	ast.Inspect(fi.Decl.Body, func(n ast.Node) bool {
		if as, ok := n.(*ast.AssignStmt); ok {
			for _, l := range as.Lhs {
				if f := fieldOf(l); f != "" {
					writes = append(writes, wr{as, f})
				}
			}
		}
		return true
	})
	if len(writes) == 0 {
		return
	}
	// guards: conditions of if statements and switch tags/cases enclosing a store
	type gcond struct {
		cond   ast.Expr
		region ast.Node
	}
	type guard struct {
		cond   ast.Expr
		region ast.Node
		store  *ast.AssignStmt
	}
	var guards []guard
	var walk func(n ast.Node, conds []gcond)
	walk = func(n ast.Node, conds []gcond) {
		switch x := n.(type) {
		case *ast.IfStmt:
			walk(x.Body, append(append([]gcond{}, conds...), gcond{x.Cond, x}))
			if x.Else != nil {
				walk(x.Else, append(append([]gcond{}, conds...), gcond{x.Cond, x}))
			}
			return
		case *ast.SwitchStmt:
			for _, cc := range x.Body.List {
				cl := cc.(*ast.CaseClause)
				cs := append([]gcond{}, conds...)
				if x.Tag != nil {
					cs = append(cs, gcond{x.Tag, cl})
				}
				for _, e := range cl.List {
					cs = append(cs, gcond{e, cl})
				}
				for _, s := range cl.Body {
					walk(s, cs)
				}
			}
			return
		case *ast.AssignStmt:
			for _, cnd := range conds {
				guards = append(guards, guard{cnd.cond, cnd.region, x})
			}
			return
		case *ast.BlockStmt:
			for _, s := range x.List {
				walk(s, conds)
			}
			return
		case *ast.ForStmt:
			walk(x.Body, conds)
			return
		case *ast.RangeStmt:
			walk(x.Body, conds)
			return
		}
	}
	walk(fi.Decl.Body, nil)
	reported := map[string]bool{}
	for _, g := range guards {
		own := ""
		if len(g.store.Lhs) == 1 {
			own = fieldOf(g.store.Lhs[0])
		}
		reads := map[string]bool{}
		ast.Inspect(g.cond, func(n ast.Node) bool {
			if e, ok := n.(ast.Expr); ok {
				if f := fieldOf(e); f != "" && f != own {
					reads[f] = true
				}
			}
			return true
		})
		for _, w := range writes {
			if !reads[w.f] || w.stmt == ast.Stmt(g.store) || contains(g.region, w.stmt) {
				continue // a write inside the region this guard governs is part of the guarded action itself
			}
			// the guard must be reachable from the write (the write happens before the guard is evaluated)
			a := fn.FromAfter(w.stmt, gf.TrueState())
			before := a.StateAtExpr(g.cond).Reachable() || contains(w.stmt, g.cond)
			key := fmt.Sprintf("%s|%d|%d", w.f, w.stmt.Pos(), g.cond.Pos())
			if reported[key] {
				continue
			}
			reported[key] = true
			name := fmt.Sprintf("%s: guard `%s` reads %s", fi.Obj.Name(), clip(types.ExprString(g.cond), 50), w.f)
			c.Check(before, "C19.5-no-late-dependency", name, g.cond.Pos(), "the write to that field in this function happens on a path leading to the guard",
				"the field is written at "+c.P.Pos(w.stmt.Pos())+" in a branch that does not lead to this guard: a second defaulting pass can take a different branch (defaulting twice != once)")
		}
	}
}

// convertsToBuiltin: the callee is one of the Advanced-to-built-in conversions, or a wrapper every non-error return
// of which is such a conversion of its first parameter (error returns hand the error on).
func (c *Ctx) convertsToBuiltin(info *types.Info, call *ast.CallExpr, depth int) bool {
	switch calleeShort(info, call) {
	case "ToBuiltinStatefulSet", "ToBuiltinStetefulsetList", "newHijackWatch":
		return true
	}
	f := gf.StaticCallee(info, call)
	if f == nil || depth > 2 {
		return false
	}
	hfi := c.P.FuncInfoOf(f)
	if hfi == nil || hfi.Pkg.PkgPath != load.HelperPkg || len(hfi.Decl.Type.Params.List) == 0 || len(hfi.Decl.Type.Params.List[0].Names) == 0 {
		return false
	}
	hinfo := hfi.Pkg.TypesInfo
	p0 := hinfo.ObjectOf(hfi.Decl.Type.Params.List[0].Names[0])
	n, good := 0, true
	ownNodes(hfi.Decl.Body, func(x ast.Node) {
		ret, ok := x.(*ast.ReturnStmt)
		if !ok {
			return
		}
		if len(ret.Results) == 2 && isNilExpr(hinfo, ret.Results[0]) {
			return // error return
		}
		n++
		var inner *ast.CallExpr
		if len(ret.Results) >= 1 {
			inner, _ = ast.Unparen(ret.Results[0]).(*ast.CallExpr)
		}
		if inner == nil || len(inner.Args) != 1 || !c.convertsToBuiltin(hinfo, inner, depth+1) {
			good = false
			return
		}
		if id, ok := ast.Unparen(inner.Args[0]).(*ast.Ident); !ok || hinfo.ObjectOf(id) != p0 {
			good = false
		}
	})
	return good && n > 0
}

// convertsFromBuiltin: the callee is one of the built-in-to-Advanced conversions, or a wrapper whose returned object
// comes from such a conversion of its first parameter.
func (c *Ctx) convertsFromBuiltin(info *types.Info, call *ast.CallExpr, depth int) bool {
	if strings.HasPrefix(calleeShort(info, call), "FromBuiltin") {
		return true
	}
	f := gf.StaticCallee(info, call)
	if f == nil || depth > 2 {
		return false
	}
	hfi := c.P.FuncInfoOf(f)
	if hfi == nil || hfi.Pkg.PkgPath != load.HelperPkg || len(hfi.Decl.Type.Params.List) == 0 || len(hfi.Decl.Type.Params.List[0].Names) == 0 {
		return false
	}
	hinfo := hfi.Pkg.TypesInfo
	p0 := hinfo.ObjectOf(hfi.Decl.Type.Params.List[0].Names[0])
	n, good := 0, true
	ownNodes(hfi.Decl.Body, func(x ast.Node) {
		ret, ok := x.(*ast.ReturnStmt)
		if !ok || len(ret.Results) == 0 || isNilExpr(hinfo, ret.Results[0]) {
			return
		}
		n++
		src, _ := c.originCall(hfi, ret.Results[0], 0)
		if src == nil || !strings.HasPrefix(calleeShort(hinfo, src), "FromBuiltin") || len(src.Args) != 1 {
			good = false
			return
		}
		if id, ok := ast.Unparen(src.Args[0]).(*ast.Ident); !ok || hinfo.ObjectOf(id) != p0 {
			good = false
		}
	})
	return good && n > 0
}

// apiObjectType: a (pointer to a) named type of one of the apps/v1 API or apply-configuration packages.
func apiObjectType(t types.Type) bool {
	if t == nil {
		return false
	}
	if p, ok := t.Underlying().(*types.Pointer); ok {
		t = p.Elem()
	}
	n, ok := types.Unalias(t).(*types.Named)
	if !ok || n.Obj().Pkg() == nil {
		return false
	}
	pp := n.Obj().Pkg().Path()
	return strings.HasSuffix(pp, "/apps/v1") || strings.Contains(pp, "applyconfiguration")
}

// copiesEveryAnnotation: g returns a map it has made itself, after a loop over X.GetAnnotations() (or a variable assigned
// from it) whose body starts with the store m[key] = value of the iteration's own key and value; m has no other
// store and no delete in g.
func (c *Ctx) copiesEveryAnnotation(g *types.Func) bool {
	fi := c.P.FuncInfoOf(g)
	if fi == nil {
		return false
	}
	info := fi.Pkg.TypesInfo
	var out types.Object
	nRet := 0
	ownNodes(fi.Decl.Body, func(x ast.Node) {
		if r, ok := x.(*ast.ReturnStmt); ok {
			nRet++
			if len(r.Results) == 1 {
				if id, ok := ast.Unparen(r.Results[0]).(*ast.Ident); ok && (out == nil || out == info.ObjectOf(id)) {
					out = info.ObjectOf(id)
					return
				}
			}
			out = nil
			nRet = -100
		}
	})
	if out == nil || nRet < 1 {
		return false
	}
	fromGet := func(e ast.Expr) bool {
		e = ast.Unparen(e)
		if id, ok := e.(*ast.Ident); ok {
			if d := defRHS(fi, info, id); d != nil {
				e = ast.Unparen(d)
			}
		}
		call, ok := e.(*ast.CallExpr)
		if !ok {
			return false
		}
		sel, ok := call.Fun.(*ast.SelectorExpr)
		return ok && sel.Sel.Name == "GetAnnotations"
	}
	copied, others := false, 0
	ast.Inspect(fi.Decl.Body, func(x ast.Node) bool {
		switch y := x.(type) {
		case *ast.RangeStmt:
			if fromGet(y.X) && len(y.Body.List) > 0 && y.Key != nil && y.Value != nil {
				if as, ok := y.Body.List[0].(*ast.AssignStmt); ok && len(as.Lhs) == 1 && len(as.Rhs) == 1 {
					if ix, ok := as.Lhs[0].(*ast.IndexExpr); ok {
						if r := rootIdent(ix.X); r != nil && info.ObjectOf(r) == out && types.ExprString(ix.Index) == types.ExprString(y.Key) && types.ExprString(as.Rhs[0]) == types.ExprString(y.Value) {
							copied = true
							others--
						}
					}
				}
			}
		case *ast.AssignStmt:
			for _, l := range y.Lhs {
				if ix, ok := ast.Unparen(l).(*ast.IndexExpr); ok {
					if r := rootIdent(ix.X); r != nil && info.ObjectOf(r) == out {
						others++
					}
				}
			}
		case *ast.CallExpr:
			if id, ok := y.Fun.(*ast.Ident); ok && id.Name == "delete" && len(y.Args) == 2 {
				if r := rootIdent(y.Args[0]); r != nil && info.ObjectOf(r) == out {
					others++
				}
			}
		}
		return true
	})
	return copied && others == 0
}

// helpersKeepNothing: "writing a set and reading it back yields the same set", whoever else has read the same annotation
// text before: the helpers answer from the object they are given and keep nothing of their own between calls -- no
// package-level sync/container value is used and no package-level map or slice is written in the helper package.
func (c *Ctx) helpersKeepNothing() {
	const rule = "C19.3-helpers-keep-nothing-between-calls"
	n := 0
	for _, fi := range c.P.Funcs() {
		if fi.Pkg.PkgPath != load.HelperPkg {
			continue
		}
		n++
		info := fi.Pkg.TypesInfo
		pkgVar := func(e ast.Expr) *types.Var {
			e = ast.Unparen(e)
			if u, ok := e.(*ast.UnaryExpr); ok && u.Op == token.AND {
				e = ast.Unparen(u.X)
			}
			id, ok := e.(*ast.Ident)
			if !ok {
				return nil
			}
			v, _ := info.Uses[id].(*types.Var)
			if v == nil || v.Pkg() == nil || v.Parent() != v.Pkg().Scope() || v.Pkg().Path() != load.HelperPkg {
				return nil
			}
			return v
		}
		ast.Inspect(fi.Decl.Body, func(x ast.Node) bool {
			switch y := x.(type) {
			case *ast.CallExpr:
				if sel, ok := y.Fun.(*ast.SelectorExpr); ok {
					if v := pkgVar(sel.X); v != nil {
						t := v.Type()
						if pt, ok := t.Underlying().(*types.Pointer); ok {
							t = pt.Elem()
						}
						if nt, ok := types.Unalias(t).(*types.Named); ok && nt.Obj().Pkg() != nil {
							switch nt.Obj().Pkg().Path() {
							case "sync", "sync/atomic", "container/list", "container/ring", "k8s.io/client-go/tools/cache", "k8s.io/apimachinery/pkg/util/cache":
								c.Bad(rule, fi.Obj.Name()+": "+types.ExprString(y.Fun), y.Pos(), "a package-level "+nt.Obj().Pkg().Name()+"."+nt.Obj().Name()+" is used by a helper: what one call leaves there the next call finds -- a set handed out earlier and changed by its receiver is what a later reader of the same annotation text gets")
							}
						}
					}
				}
				if id, ok := y.Fun.(*ast.Ident); ok && id.Name == "delete" && len(y.Args) == 2 {
					if v := pkgVar(y.Args[0]); v != nil {
						c.Bad(rule, fi.Obj.Name()+": "+types.ExprString(y), y.Pos(), "an entry of a package-level map is deleted by a helper")
					}
				}
			case *ast.AssignStmt:
				for _, l := range y.Lhs {
					if ix, ok := ast.Unparen(l).(*ast.IndexExpr); ok {
						if v := pkgVar(ix.X); v != nil {
							c.Bad(rule, fi.Obj.Name()+": "+types.ExprString(l), l.Pos(), "an entry of a package-level map or slice is written by a helper")
						}
					}
					if y.Tok != token.DEFINE {
						if v := pkgVar(l); v != nil {
							c.Bad(rule, fi.Obj.Name()+": "+types.ExprString(l), l.Pos(), "a package-level variable is written by a helper")
						}
					}
				}
			}
			return true
		})
	}
	if n > 0 {
		c.OK(rule, "helper package", 0, fmt.Sprintf("%d functions looked at", n))
	}
	c.Floor(rule+"-functions", n, 10)
}
