package rules

import (
	"fmt"
	"go/ast"
	"go/token"
	"go/types"

	"asverif/internal/gf"
	"asverif/internal/load"
)

func init() {
	register(&Property{
		ID:    "C20",
		Title: "Hijacked watch relays everything, survives error events, shuts down cleanly",
		Run:   runC20,
		Explanation: "Decides concurrency-shape clauses C20.1-C20.5 of DESIGN.md on the helper package: (1) in every function started by a go statement (and its in-package callees) every type assertion on received data is comma-ok and the !ok branch forwards the received event; explicit panics are in the reviewed table only; " +
			"(2) every channel send in such a function is a select case next to a receive from a channel that Stop closes; the sibling case returns; (3) close(result) and the source's Stop are deferred before the relay loop; " +
			"(4) every access to the stopped flag happens in a method that locks first and defers the unlock; Stop closes the done channel and stops the source only under !stopped, which it sets; (5) the relayed event carries the received Type and the conversion of the received object; after one receive at most one send is reachable before the next receive, and without a panic or return at least one; one goroutine per watch; the result channel is unbuffered. " +
			"NOT decided: interleavings as such; the rules decide the shape that makes blocking, leaking and crashing impossible.",
	})
}

func runC20(c *Ctx) {
	ctor := c.Func(load.HelperPkg, "newHijackWatch")
	if ctor == nil {
		return
	}
	info := ctor.Pkg.TypesInfo
	// goroutines started in the helper package (non-test)
	var goFns []*load.FuncInfo
	goCalls := map[*load.FuncInfo]*ast.CallExpr{}
	nGo := 0
	for _, fi := range c.P.Funcs() {
		if fi.Pkg.PkgPath != load.HelperPkg {
			continue
		}
		ast.Inspect(fi.Decl.Body, func(n ast.Node) bool {
			g, ok := n.(*ast.GoStmt)
			if !ok {
				return true
			}
			nGo++
			if f := gf.StaticCallee(fi.Pkg.TypesInfo, g.Call); f != nil {
				if t := c.P.FuncInfoOf(f); t != nil {
					goFns = append(goFns, t)
					goCalls[t] = g.Call
					return true
				}
			}
			c.Bad("C20.1-goroutine-resolved", fi.Obj.Name()+": go statement", g.Pos(), "a goroutine is started on something other than a named in-repo function")
			return true
		})
	}
	c.Floor("C20.0-goroutines-in-helper-package", nGo, 1)
	// one goroutine per watch, unbuffered result channel
	nGoCtor := 0
	ast.Inspect(ctor.Decl.Body, func(n ast.Node) bool {
		if _, ok := n.(*ast.GoStmt); ok {
			nGoCtor++
		}
		if _, ok := n.(*ast.ForStmt); ok {
			nGoCtor += 10
		}
		if _, ok := n.(*ast.RangeStmt); ok {
			nGoCtor += 10
		}
		return true
	})
	c.Check(nGoCtor == 1, "C20.5-single-relay-goroutine", "newHijackWatch", ctor.Decl.Pos(), "exactly one go statement, outside any loop", "the watch does not start exactly one relay goroutine")
	unbuf := false
	ast.Inspect(ctor.Decl.Body, func(n ast.Node) bool {
		kv, ok := n.(*ast.KeyValueExpr)
		if !ok {
			return true
		}
		if k, ok := kv.Key.(*ast.Ident); ok && k.Name == "result" {
			if call, ok := kv.Value.(*ast.CallExpr); ok {
				if id, ok := call.Fun.(*ast.Ident); ok && id.Name == "make" && len(call.Args) == 1 {
					unbuf = true
				}
			}
		}
		return true
	})
	c.Check(unbuf, "C20.5-unbuffered-result", "newHijackWatch: result channel", ctor.Decl.Pos(), "make(chan watch.Event) without capacity: order and multiplicity follow from one send per receive", "the result channel is buffered or not created here")
	_ = info
	for _, g := range goFns {
		c.relayFunction(g, goCalls[g])
	}
	// "instead of crashing the process": in the relay goroutine a result that may be nil (an accessor whose error was
	// dropped, a failed assertion) is read only where the facts show it is not (the rule of C15.5, over the relay functions)
	c.withOnly(map[string]string{"C15.5-result-read-only-when-valid": "C20.1-relay-reads-only-valid-results"}, nil, "C20.1-relay-functions", 1, func() { c.validResults(goFns) })
	c.lockDiscipline()
}

func (c *Ctx) relayFunction(fi *load.FuncInfo, goCall *ast.CallExpr) {
	fn, an := c.Analysis(fi)
	info := fi.Pkg.TypesInfo
	name := fi.Obj.Name()
	// the field (or method) of the watch that an expression of the relay denotes: w.done itself, or a parameter
	// of the relay bound to w.done where the goroutine is started
	sigParams := fi.Obj.Type().(*types.Signature).Params()
	fieldOf := func(e ast.Expr) string {
		switch x := ast.Unparen(e).(type) {
		case *ast.SelectorExpr:
			return x.Sel.Name
		case *ast.Ident:
			o := info.ObjectOf(x)
			for k := 0; k < sigParams.Len(); k++ {
				if sigParams.At(k) == o && goCall != nil && k < len(goCall.Args) {
					if sel, ok := ast.Unparen(goCall.Args[k]).(*ast.SelectorExpr); ok {
						return sel.Sel.Name
					}
				}
			}
		}
		return ""
	}
	reach := c.G.ReachDirect(fi.Obj)
	// the receive: `event, ok := <-src` comm of a select clause (or plain)
	var recv *ast.AssignStmt
	var event *ast.Ident
	ast.Inspect(fi.Decl.Body, func(n ast.Node) bool {
		if as, ok := n.(*ast.AssignStmt); ok && len(as.Rhs) == 1 {
			if u, ok := ast.Unparen(as.Rhs[0]).(*ast.UnaryExpr); ok && u.Op == token.ARROW && recv == nil {
				recv = as
				event, _ = as.Lhs[0].(*ast.Ident)
			}
		}
		return true
	})
	if recv == nil || event == nil {
		c.Bad("C20.5-relay-shape", name, fi.Decl.Pos(), "no `event, ok := <-source` receive found in the relay goroutine")
		return
	}
	// (1) panics and assertions in everything the goroutine runs inside the helper package
	for f := range reach {
		t := c.P.FuncInfoOf(f)
		if t == nil || t.Pkg.PkgPath != load.HelperPkg {
			continue
		}
		tinfo := t.Pkg.TypesInfo
		ast.Inspect(t.Decl.Body, func(n ast.Node) bool {
			switch x := n.(type) {
			case *ast.CallExpr:
				if id, ok := x.Fun.(*ast.Ident); ok {
					if b, ok := tinfo.ObjectOf(id).(*types.Builtin); ok && b.Name() == "panic" {
						pname := fmt.Sprintf("%s: panic(%s)", t.Obj.Name(), types.ExprString(x.Args[0]))
						// reviewed: panic(err) right after the in-repo conversion whose infallibility is C19.1
						okp := false
						if t == fi {
							st := an.StateAtExpr(x)
							if arg, ok := x.Args[0].(*ast.Ident); ok {
								if src := assignedFromCall(t, tinfo, arg); src != nil {
									if cf := gf.StaticCallee(tinfo, src); cf != nil && cf.Name() == "ToBuiltinStatefulSet" {
										if good, _ := st.Implies(gf.FNotNil(fn.Term(arg))); good {
											okp = true
										}
									}
								}
							}
						}
						c.Check(okp, "C20.1-no-panic-on-input", pname, x.Pos(), "reviewed exception: only when the Advanced->built-in conversion fails, which type agreement (C19.1) excludes",
							"the relay goroutine can panic on a received event (HandleCrash re-panics: the process dies)")
					}
				}
			case *ast.TypeAssertExpr:
				if x.Type == nil {
					return true
				}
				// must be the right-hand side of a two-value assignment
				p := pathTo(t.Decl.Body, x)
				commaOK := false
				if len(p) >= 2 {
					if as, ok := p[len(p)-2].(*ast.AssignStmt); ok && len(as.Lhs) == 2 && len(as.Rhs) == 1 {
						commaOK = true
					}
				}
				c.Check(commaOK, "C20.1-assertions-comma-ok", fmt.Sprintf("%s: %s", t.Obj.Name(), types.ExprString(x)), x.Pos(), "comma-ok form", "an unchecked type assertion in the relay goroutine panics on an unexpected payload")
			}
			return true
		})
	}
	// every send of the relay, in the relay itself or in a helper expanded into it
	type sendSite struct {
		s    *ast.SendStmt
		body *ast.BlockStmt
	}
	var sites []sendSite
	var sends []ast.Node
	for _, bd := range fn.Bodies() {
		bd := bd
		ast.Inspect(bd, func(n ast.Node) bool {
			if s, ok := n.(*ast.SendStmt); ok {
				sites = append(sites, sendSite{s, bd})
				sends = append(sends, s)
			}
			return true
		})
	}
	// the event as received: a ghost the receive's variable equals right after the receive. "Sent on unchanged"
	// and "carries the received type" are statements about the ghost, however the code names or re-assigns things.
	evObj := info.ObjectOf(event)
	ghost := types.NewVar(recv.Pos(), fi.Pkg.Types, "received", evObj.Type())
	gT := gf.Var(ghost)
	saved := fn.PostFacts
	pf := map[ast.Node]*gf.Formula{}
	for k, v := range saved {
		pf[k] = v
	}
	pf[recv] = gf.FEq(gf.Var(evObj), gT)
	fn.PostFacts = pf
	fn.KeepDead = true
	an = fn.Analyze(nil)
	restore := func() { fn.PostFacts, fn.KeepDead = saved, false }
	defer restore()
	// the failed branch of the payload assertion forwards the received event
	nAssert := 0
	for _, bd := range fn.Bodies() {
		ast.Inspect(bd, func(n ast.Node) bool {
			as, ok := n.(*ast.AssignStmt)
			if !ok || len(as.Lhs) != 2 || len(as.Rhs) != 1 {
				return true
			}
			ta, ok := ast.Unparen(as.Rhs[0]).(*ast.TypeAssertExpr)
			if !ok || ta.Type == nil {
				return true
			}
			okID, _ := as.Lhs[1].(*ast.Ident)
			if okID == nil {
				return true
			}
			nAssert++
			// from after the assertion with !ok: before the next receive a send is passed, and what it sends is the received event
			st := an.StateAfter(as).Assume(gf.Not(gf.FBool(fn.Term(okID))))
			aU := fn.FromAfterUntil(as, st, sends...)
			lost := aU.Reentered(recv)
			unchanged := true
			reached := 0
			for _, sd := range sites {
				ss := aU.StateBefore(sd.s)
				if !ss.Reachable() {
					continue
				}
				reached++
				if good, _ := ss.Implies(gf.FEq(fn.Term(sd.s.Value), gT)); !good {
					unchanged = false
				}
			}
			c.Check(reached > 0 && !lost && unchanged, "C20.1-unknown-payload-is-forwarded", name+": !ok branch of "+types.ExprString(ta), as.Pos(),
				"an event whose payload is not a StatefulSet is sent on unchanged before the next receive", "an event with an unexpected payload is dropped (or crashes, or is altered) instead of being relayed")
			return true
		})
	}
	// (2) sends: each is the comm of a select clause with a sibling receive from a Stop-closed channel whose case leaves the relay
	nSend := 0
	closed := c.closedByStop()
	for _, sd := range sites {
		s := sd.s
		nSend++
		sname := fmt.Sprintf("%s: %s <- %s", name, types.ExprString(s.Chan), clip(types.ExprString(s.Value), 40))
		p := pathTo(sd.body, s)
		good := false
		if len(p) >= 3 {
			if cc, ok := p[len(p)-2].(*ast.CommClause); ok && cc.Comm == ast.Stmt(s) {
				for i := len(p) - 3; i >= 0; i-- {
					sel, ok := p[i].(*ast.SelectStmt)
					if !ok {
						continue
					}
					for _, other := range sel.Body.List {
						oc := other.(*ast.CommClause)
						if oc == cc || oc.Comm == nil {
							continue
						}
						es, ok := oc.Comm.(*ast.ExprStmt)
						if !ok {
							continue
						}
						u, ok := ast.Unparen(es.X).(*ast.UnaryExpr)
						if !ok || u.Op != token.ARROW {
							continue
						}
						if fld := fieldOf(u.X); fld != "" && closed[fld] && len(oc.Body) > 0 {
							// the sibling case leaves the relay: from its body neither the receive nor a send is reached again
							aL := fn.From(oc.Body[0], gf.TrueState())
							leaves := !aL.Reentered(recv)
							for _, o := range sends {
								if aL.StateBefore(o).Reachable() {
									leaves = false
								}
							}
							if leaves {
								good = true
							}
						}
					}
					break
				}
			}
		}
		c.Check(good, "C20.2-no-unguarded-send", sname, s.Pos(), "the send is a select case next to `<-done` (closed by Stop), whose case leaves the relay", "a bare send can block forever after the consumer stopped the watch: the goroutine leaks and the result channel is never closed")
	}
	c.Floor("C20.2-sends-in-relay", nSend, 1)

	// (3) deferred close(result) and Stop before the loop
	var loopPos token.Pos = fi.Decl.Body.End()
	for _, s := range fi.Decl.Body.List {
		if _, ok := s.(*ast.ForStmt); ok {
			loopPos = s.Pos()
			break
		}
	}
	hasClose, hasStop := false, false
	for _, s := range fi.Decl.Body.List {
		d, ok := s.(*ast.DeferStmt)
		if !ok || d.Pos() > loopPos {
			continue
		}
		if id, ok := d.Call.Fun.(*ast.Ident); ok && id.Name == "close" && len(d.Call.Args) == 1 {
			if fieldOf(d.Call.Args[0]) == "result" {
				hasClose = true
			}
		}
		if f := gf.StaticCallee(info, d.Call); f != nil && f.Name() == "Stop" {
			hasStop = true
		} else if f == nil && fieldOf(d.Call.Fun) == "Stop" {
			hasStop = true // the watch's Stop method handed to the relay as a function value
		}
	}
	c.Check(hasClose, "C20.3-close-on-every-exit", name+": defer close(result)", fi.Decl.Pos(), "deferred at the top of the relay: runs on every exit, panics included", "the result channel is not closed on every exit of the relay")
	c.Check(hasStop, "C20.3-stop-on-every-exit", name+": defer Stop()", fi.Decl.Pos(), "deferred at the top of the relay", "the source watch is not stopped on every exit of the relay")
	// source closed -> return
	if okID, isID := recv.Lhs[len(recv.Lhs)-1].(*ast.Ident); isID && len(recv.Lhs) == 2 {
		aC := fn.FromAfter(recv, an.StateAfter(recv).Assume(gf.Not(gf.FBool(fn.Term(okID)))))
		again := aC.Reentered(recv)
		anySend := false
		for _, o := range sends {
			if aC.StateBefore(o).Reachable() {
				anySend = true
			}
		}
		c.Check(!again && !anySend, "C20.3-source-closed-ends-relay", name+": !ok on receive", recv.Pos(), "when the source channel is closed the relay returns (no send, no further receive)", "a closed source does not end the relay")
	} else {
		c.Bad("C20.3-source-closed-ends-relay", name+": receive", recv.Pos(), "the receive does not test for a closed source channel")
	}
	// (5) faithful relay: path by path at every send, what is sent is the received event itself, or an event whose Type is
	// the received Type and whose Object is the result of ToBuiltinStatefulSet applied to the received Object
	var convCalls []*ast.CallExpr
	for _, bd := range fn.Bodies() {
		for _, call := range callsIn(bd, false) {
			if cf := gf.StaticCallee(info, call); cf != nil && cf.Name() == "ToBuiltinStatefulSet" && len(call.Args) == 1 {
				convCalls = append(convCalls, call)
			}
		}
	}
	gObj := gf.Field(gT, "Object", nil)
	var advT types.Type
	if tn := c.P.Lookup(load.APIPkg, "StatefulSet"); tn != nil {
		advT = types.NewPointer(tn.Type())
	}
	for _, sd := range sites {
		s := sd.s
		sname := fmt.Sprintf("%s: send of %s", name, clip(types.ExprString(s.Value), 50))
		st := an.StateBefore(s)
		if !st.Reachable() {
			continue
		}
		// the value's Type and Object as expressions (a literal at the send) or as fields of the sent term
		var typT, objT *gf.Term
		vT := fn.Term(s.Value)
		if lit, ok := ast.Unparen(s.Value).(*ast.CompositeLit); ok {
			for _, el := range lit.Elts {
				if kv, ok := el.(*ast.KeyValueExpr); ok {
					if k, ok := kv.Key.(*ast.Ident); ok {
						switch k.Name {
						case "Type":
							typT = fn.Term(kv.Value)
						case "Object":
							objT = fn.Term(kv.Value)
						}
					}
				}
			}
		} else {
			typT, objT = gf.Field(vT, "Type", nil), gf.Field(vT, "Object", nil)
		}
		okAll := true
		var why string
		for _, d := range st.D {
			one := gf.State{D: []*gf.Disj{d}}
			if same, _ := one.Implies(gf.FEq(vT, gT)); same {
				// forwarded as received: only an event that does not carry an Advanced StatefulSet
				if advT != nil {
					if notSet, _ := one.Implies(gf.Not(gf.FBool(gf.TypeIs(gObj, advT)))); !notSet {
						okAll, why = false, "on some path the received event is sent on unconverted although its payload was not found to be something other than an Advanced StatefulSet: "+clip(d.String(), 300)
					}
				}
				continue
			}
			if typT == nil || objT == nil {
				okAll, why = false, "the sent value is neither the received event nor an event with visible Type and Object"
				continue
			}
			okType, _ := one.Implies(gf.FEq(typT, gf.Field(gT, "Type", nil)))
			okObj := false
			for _, cc := range convCalls {
				as, _ := stmtOf(bodyOfCall(fn, cc), cc).(*ast.AssignStmt)
				if as == nil || len(as.Lhs) < 1 {
					continue
				}
				res := fn.Term(as.Lhs[0])
				isRes, _ := one.Implies(gf.FEq(objT, res))
				// its argument is the received object asserted to the Advanced type
				arg := fn.Term(cc.Args[0])
				fromRecv := false
				for _, o := range append(d.EqualTerms(arg), arg) {
					if o.K == 't' && len(o.A) == 1 {
						if eq, _ := one.Implies(gf.FEq(o.A[0], gObj)); eq || o.A[0].Key() == gObj.Key() {
							fromRecv = true
						}
					}
				}
				if isRes && fromRecv {
					okObj = true
				}
			}
			if !okType || !okObj {
				okAll, why = false, "on some path the sent event does not carry the received Type and the conversion of the received Object: "+clip(d.String(), 400)
			}
		}
		c.Check(okAll, "C20.5-faithful-relay", sname, s.Pos(), "the received event itself, or Type = received Type and Object = ToBuiltinStatefulSet(received Object)", why)
	}
	// multiplicity: after a send, no other send before the next receive; after a receive with ok, some send or exit before the next receive
	for i, sd := range sites {
		s := sd.s
		p := pathTo(sd.body, s)
		var cc *ast.CommClause
		if len(p) >= 2 {
			cc, _ = p[len(p)-2].(*ast.CommClause)
		}
		if cc == nil {
			continue
		}
		var selStmt *ast.SelectStmt
		for j := len(p) - 3; j >= 0; j-- {
			if x, ok := p[j].(*ast.SelectStmt); ok {
				selStmt = x
				break
			}
		}
		if selStmt == nil {
			continue
		}
		twice := false
		// from the case body of this send (empty body -> falls to after the select)
		blk := enclosingBlock(sd.body, selStmt)
		var next ast.Node
		for k, st := range blk.List {
			if st == ast.Stmt(selStmt) && k+1 < len(blk.List) {
				next = blk.List[k+1]
			}
		}
		if len(cc.Body) > 0 {
			next = cc.Body[0]
		}
		if next != nil {
			aS := fn.FromUntil(next, gf.TrueState(), recv)
			for _, o := range sends {
				if aS.StateBefore(o).Reachable() {
					twice = true
				}
			}
		}
		c.Check(!twice, "C20.5-at-most-one-send-per-receive", fmt.Sprintf("%s: after send[%d]", name, i), s.Pos(), "no further send is reachable before the next receive", "one received event can be sent twice")
	}
	if okID, isID := recv.Lhs[len(recv.Lhs)-1].(*ast.Ident); isID && len(recv.Lhs) == 2 {
		aO := fn.FromAfterUntil(recv, an.StateAfter(recv).Assume(gf.FBool(fn.Term(okID))), sends...)
		// stopping at the sends, the next receive must be unreachable (every received event is sent, or the relay ends)
		c.Check(!aO.Reentered(recv), "C20.5-at-least-one-send-per-receive", name+": after a successful receive", recv.Pos(), "every path to the next receive passes a send", "a received event can be skipped without being sent")
	}
	_ = nAssert
}

// bodyOfCall returns the body (the function's own or an expanded helper's) that contains call.
func bodyOfCall(fn *gf.Fn, call *ast.CallExpr) *ast.BlockStmt {
	for _, bd := range fn.Bodies() {
		if contains(bd, call) {
			return bd
		}
	}
	return fn.Body
}

// closedByStop: names of the struct fields (channels) that the Stop method closes.
func (c *Ctx) closedByStop() map[string]bool {
	out := map[string]bool{}
	stop := c.Func(load.HelperPkg, "hijackWatch.Stop")
	if stop == nil {
		return out
	}
	ast.Inspect(stop.Decl.Body, func(n ast.Node) bool {
		if call, ok := n.(*ast.CallExpr); ok {
			if id, ok := call.Fun.(*ast.Ident); ok && id.Name == "close" && len(call.Args) == 1 {
				if sel, ok := call.Args[0].(*ast.SelectorExpr); ok {
					out[sel.Sel.Name] = true
				}
			}
		}
		return true
	})
	return out
}

// lockDiscipline: C20.4
func (c *Ctx) lockDiscipline() {
	n := 0
	for _, fi := range c.P.Funcs() {
		if fi.Pkg.PkgPath != load.HelperPkg || fi.Decl.Recv == nil {
			continue
		}
		info := fi.Pkg.TypesInfo
		uses := false
		ast.Inspect(fi.Decl.Body, func(x ast.Node) bool {
			if sel, ok := x.(*ast.SelectorExpr); ok && sel.Sel.Name == "stopped" {
				if v, ok := info.ObjectOf(sel.Sel).(*types.Var); ok && v.IsField() {
					uses = true
				}
			}
			return true
		})
		if !uses {
			continue
		}
		n++
		// first statement Lock(), second defer Unlock()
		locked := false
		if len(fi.Decl.Body.List) >= 2 {
			if es, ok := fi.Decl.Body.List[0].(*ast.ExprStmt); ok {
				if call, ok := es.X.(*ast.CallExpr); ok {
					if f := gf.StaticCallee(info, call); f != nil && f.FullName() == "(*sync.Mutex).Lock" {
						if d, ok := fi.Decl.Body.List[1].(*ast.DeferStmt); ok {
							if f2 := gf.StaticCallee(info, d.Call); f2 != nil && f2.FullName() == "(*sync.Mutex).Unlock" {
								locked = true
							}
						}
					}
				}
			}
		}
		c.Check(locked, "C20.4-stopped-under-lock", fi.Obj.Name()+": accesses stopped", fi.Decl.Pos(), "Lock() first, Unlock() deferred", "the stopped flag is accessed without holding the mutex")
	}
	c.Floor("C20.4-functions-touching-stopped", n, 1)
	stop := c.Func(load.HelperPkg, "hijackWatch.Stop")
	if stop == nil {
		return
	}
	fn, an := c.Analysis(stop)
	info := stop.Pkg.TypesInfo
	recv := stop.Decl.Recv.List[0].Names[0]
	notStopped := c.Want(fn, stop.Decl.Body.End()-1, "!$1.stopped", recv)
	nc := 0
	var setTrue ast.Node
	ast.Inspect(stop.Decl.Body, func(x ast.Node) bool {
		if as, ok := x.(*ast.AssignStmt); ok && len(as.Lhs) == 1 {
			if sel, ok := as.Lhs[0].(*ast.SelectorExpr); ok && sel.Sel.Name == "stopped" && fn.Formula(as.Rhs[0]) == gf.True {
				setTrue = as
			}
		}
		return true
	})
	for _, call := range callsIn(stop.Decl.Body, false) {
		isClose := false
		if id, ok := call.Fun.(*ast.Ident); ok && id.Name == "close" {
			isClose = true
		}
		isSrcStop := false
		if f := gf.StaticCallee(info, call); f != nil && f.Name() == "Stop" {
			isSrcStop = true
		}
		if !isClose && !isSrcStop {
			continue
		}
		nc++
		name := "Stop: " + types.ExprString(call)
		// reachable only through `stopped = true`, which itself is under !stopped
		okOnce := false
		if setTrue != nil {
			aU := fn.FromUntil(stop.Decl.Body.List[0], gf.TrueState(), setTrue)
			if !aU.StateAtExpr(call).Reachable() {
				if good, _ := an.StateBefore(setTrue).Implies(notStopped); good {
					okOnce = true
				}
			}
		}
		c.Check(okOnce, "C20.4-stop-once", name, call.Pos(), "executed only after `stopped = true`, which is set under !stopped: at most once however often Stop is called", "a second Stop can close the done channel again (panic) or stop the source twice")
	}
	c.Floor("C20.4-stop-actions", nc, 2)
}
