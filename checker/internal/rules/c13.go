package rules

import (
	"fmt"
	"go/ast"
	"go/token"
	"go/types"
	"sort"
	"strings"

	"asverif/internal/eff"
	"asverif/internal/gf"
	"asverif/internal/load"
)

func init() {
	register(&Property{
		ID:    "C13",
		Title: "History is trimmed only beyond the limit and never loses a live revision",
		Run:   runC13,
		Explanation: "Decides clauses C13.1-C13.5 of DESIGN.md on the function that issues ControllerRevisions.Delete and on the revision lister: (1) the live map is initialised with the names of both revision parameters and receives, in an unguarded loop over all pods, each pod's revision label; it is never cleared; every element appended to the deletable slice has the fact !live[rev.Name]; " +
			"(2) the delete loop walks, from index 0 upwards, the prefix history[:len-limit] taken under the fact len(history) > limit with limit == *spec.revisionHistoryLimit; the caller sorts the same slice with SortControllerRevisions before; the comparator orders by Revision then creation time then name; " +
			"(3) every element the lister returns has passed the owner test (no controller, or controller UID == set UID); (4) with more than one List over the resource, elements are de-duplicated by name (append only after a not-seen test and marking); (5) ControllerRevisions.Delete has a single caller. The live set is seeded with two ControllerRevision parameters that every caller takes from getStatefulSetRevisions of the same reconcile; the deleted position is below (non-live revisions) - limit by facts at the Delete call, positions ascend from 0 and no iteration skips its delete. NOT decided: 'at most limit remain' as arithmetic.",
	})
}

func revisionDeleteSites(c *Ctx) []*eff.Site {
	var out []*eff.Site
	for _, s := range c.G.Sites {
		if s.Resource == "controllerrevisions" && s.Verb == "Delete" && s.Fn.Pkg().Path() == load.CtrlPkg {
			out = append(out, s)
		}
	}
	return out
}

func runC13(c *Ctx) {
	c.whoMayCall("C13.5-who-may-delete-revisions", "controllerrevisions", []string{"Delete", "DeleteCollection"},
		map[string]string{"(*" + load.CtrlPkg + ".defaultStatefulSetControl).truncateHistory": "history truncation"}, 1)
	sites := revisionDeleteSites(c)
	for _, s := range sites {
		c.truncate(s)
	}
	c.listerFilters("C13.3", "C13.4")
}

func paramsOfType(fi *load.FuncInfo, pkg, name string) []*ast.Ident {
	var out []*ast.Ident
	for _, f := range fi.Decl.Type.Params.List {
		for _, n := range f.Names {
			if isNamed(fi.Pkg.TypesInfo.TypeOf(n), pkg, name) {
				out = append(out, n)
			}
		}
	}
	return out
}

func (c *Ctx) truncate(s *eff.Site) {
	fi := c.P.FuncInfoOf(s.Fn)
	fn, an := c.Analysis(fi)
	info := fi.Pkg.TypesInfo
	body := fi.Decl.Body
	fname := fi.Obj.Name()
	// the deleted name is X[i].Name for a cell of a local slice (read directly, or through a range value variable)
	nameArg := s.Call.Args[1]
	stD := an.StateAtExpr(s.Call)
	nt := fn.Term(nameArg)
	var cell *gf.Term
	if base := fieldBase(nt, "Name"); base != nil {
		cell = cellTermOf(stD, base)
	}
	if cell == nil || cell.A[0].K != 'v' || cell.A[0].Obj == nil {
		c.Bad("C13.2-delete-target", fname+": Delete name argument", s.Call.Pos(), "the deleted revision is not the Name of a cell of a local slice (`history[i].Name`, or a range value over it)")
		return
	}
	H := cell.A[0].Obj
	idx := cell.A[1]
	c.OK("C13.2-delete-target", fname+": Delete("+types.ExprString(nameArg)+")", s.Call.Pos(), "deletes cell "+cell.String()+" of slice "+H.Name())

	// assignments to H: make, appends, at most one prefix re-slice
	var reslice *ast.AssignStmt
	nApp := 0
	var liveMap types.Object
	ast.Inspect(body, func(n ast.Node) bool {
		as, ok := n.(*ast.AssignStmt)
		if !ok || len(as.Lhs) != 1 || len(as.Rhs) != 1 {
			return true
		}
		id, ok := as.Lhs[0].(*ast.Ident)
		if !ok || info.ObjectOf(id) != H {
			return true
		}
		switch r := ast.Unparen(as.Rhs[0]).(type) {
		case *ast.SliceExpr:
			if reslice != nil {
				c.Bad("C13.2-prefix", fname+": second re-slice of "+H.Name(), as.Pos(), "the deletable slice is re-sliced more than once")
			}
			reslice = as
			if r.Low != nil || rootIdent(r.X) == nil || info.ObjectOf(rootIdent(r.X)) != H {
				c.Bad("C13.2-prefix", fname+": "+types.ExprString(as.Lhs[0])+" = "+types.ExprString(as.Rhs[0]), as.Pos(), "not a prefix re-slice history[:n] of the deletable slice")
			}
		case *ast.CallExpr:
			fid, _ := r.Fun.(*ast.Ident)
			if fid != nil && fid.Name == "make" {
				return true
			}
			if fid == nil || fid.Name != "append" {
				c.Bad("C13.1-not-live", fname+": "+types.ExprString(as.Rhs[0]), as.Pos(), "the deletable slice is assigned by something other than make/append/prefix re-slice")
				return true
			}
			st := an.StateBefore(as)
			for _, x := range r.Args[1:] {
				nApp++
				name := fmt.Sprintf("%s: append(%s, %s)", fname, H.Name(), types.ExprString(x))
				// find the live map: a map[string]bool indexed by x.Name in the same loop
				var want *gf.Formula
				ast.Inspect(body, func(m ast.Node) bool {
					ix, ok := m.(*ast.IndexExpr)
					if !ok || !contains(innermostLoop(body, as), ix) {
						return true
					}
					if mt, ok := info.TypeOf(ix.X).Underlying().(*types.Map); ok && isBoolT(mt.Elem()) {
						if fn.Term(ix.Index).Key() == c.WantTerm(fn, as.Pos(), "$1.Name", x).Key() {
							if mid := rootIdent(ix.X); mid != nil {
								liveMap = info.ObjectOf(mid)
								want = gf.Not(gf.FBool(fn.Term(ix)))
							}
						}
					}
					return true
				})
				if want == nil {
					c.Bad("C13.1-not-live", name, as.Pos(), "no live-set test on the appended revision's name is visible")
					continue
				}
				c.Implies(st, want, "C13.1-not-live", name, as.Pos())
			}
		default:
			c.Bad("C13.1-not-live", fname+": "+types.ExprString(as.Rhs[0]), as.Pos(), "the deletable slice is assigned by something other than make/append/prefix re-slice")
		}
		return true
	})
	c.Floor("C13.1-appends", nApp, 1)
	if liveMap != nil {
		c.liveSet(fi, fn, liveMap)
	}
	sets := paramsOfType(fi, load.APIPkg, "StatefulSet")
	if len(sets) != 1 {
		c.Bad("C13.2-prefix", fname+": set parameter", s.Call.Pos(), "the function does not have exactly one StatefulSet parameter")
		return
	}
	// how many are deleted: at the Delete call the position is below (number of non-live revisions) - limit.
	// The number of non-live revisions is len(H) where H is never re-sliced, otherwise a variable that
	// equals len(H) right before the re-slice.
	limit := c.WantTerm(fn, s.Call.Pos(), "int(*$1.Spec.RevisionHistoryLimit)", sets[0])
	var totals []*gf.Term
	if reslice == nil {
		totals = append(totals, gf.LenOf(gf.Var(H)))
	} else {
		stR := an.StateBefore(reslice)
		for _, obj := range localInts(info, body) {
			if ok, _ := stR.Implies(gf.FEq(gf.Var(obj), gf.LenOf(gf.Var(H)))); ok {
				totals = append(totals, gf.Var(obj))
			}
		}
		// or the prefix bound itself is len(H) - limit at the re-slice
		se := ast.Unparen(reslice.Rhs[0]).(*ast.SliceExpr)
		if se.High != nil {
			if ok, _ := stR.Implies(gf.FEq(fn.Term(se.High), gf.Bin("-", gf.LenOf(gf.Var(H)), limit))); ok {
				// then idx < len(H) (after the re-slice) is the bound
				if ok2, _ := stD.Implies(gf.FLt(idx, gf.LenOf(gf.Var(H)))); ok2 && !assignedBetween(info, body, H, reslice.End(), s.Call.Pos()) {
					c.OK("C13.2-only-beyond-limit", fname+": deleted position", s.Call.Pos(), "the slice is cut to its first len(history) - limit cells before the delete loop, and the position stays inside it")
					totals = nil
					goto ordered
				}
			}
		}
	}
	{
		okCount := false
		var tried []string
		for _, T := range totals {
			want := gf.FLt(idx, gf.Bin("-", T, limit))
			tried = append(tried, want.String())
			if ok, _ := stD.Implies(want); ok {
				okCount = true
				c.OK("C13.2-only-beyond-limit", fname+": deleted position", s.Call.Pos(), "facts at the Delete call imply "+want.String())
				break
			}
		}
		if !okCount {
			_, wit := stD.Implies(gf.False)
			c.Bad("C13.2-only-beyond-limit", fname+": deleted position", s.Call.Pos(), fmt.Sprintf("the deleted position is not proven below (non-live revisions) - *spec.revisionHistoryLimit (tried %s); facts on one path: %s", strings.Join(tried, "; "), clip(wit, 500)))
		}
	}
ordered:
	// oldest first: the position ascends from 0 (an index loop from 0 with ++, or a range loop)
	okLoop := false
	switch loop := innermostLoop(body, s.Call).(type) {
	case *ast.RangeStmt:
		x := fn.Term(loop.X)
		if x.K == 's' {
			x = x.A[0]
		}
		var pos *gf.Term
		if k, ok := loop.Key.(*ast.Ident); ok && k.Name != "_" {
			pos = fn.Term(k)
		} else {
			pos = gf.Var(c.E.RangeIndex(loop))
		}
		okLoop = x.Key() == gf.Var(H).Key() && pos.Key() == idx.Key()
		if lx := fn.Term(loop.X); lx.K == 's' && lx.A[1].K != 'z' {
			okLoop = false // not a prefix
		}
	case *ast.ForStmt:
		init, _ := loop.Init.(*ast.AssignStmt)
		post, _ := loop.Post.(*ast.IncDecStmt)
		if init != nil && post != nil && len(init.Lhs) == 1 && len(init.Rhs) == 1 && post.Tok == token.INC && loop.Cond != nil {
			iv := init.Lhs[0]
			zero := fn.Term(init.Rhs[0]).Key() == gf.ConstInt(0).Key()
			same := fn.Term(post.X).Key() == fn.Term(iv).Key() && idx.Key() == fn.Term(iv).Key()
			okLoop = zero && same && !assignedIn(info, loop.Body, info.ObjectOf(iv.(*ast.Ident)))
		}
	}
	c.Check(okLoop, "C13.2-oldest-first", fname+": delete loop", s.Call.Pos(), "the loop visits history[0], history[1], ... in order", "the delete loop does not walk the non-live revisions from position 0 upwards")
	// every iteration deletes: no path from the loop body's start back to the loop head skips the Delete call
	c.deleteOnEveryIteration(fn, an, innermostLoop(body, s.Call), s.Call, fname)
	// appended in the order of the (sorted) revisions parameter
	c.sortedByCaller(fi)
}

// deleteOnEveryIteration: a later revision is never deleted while an earlier one was skipped.
func (c *Ctx) deleteOnEveryIteration(fn *gf.Fn, an *gf.Analysis, loop ast.Stmt, call *ast.CallExpr, fname string) {
	if loop == nil {
		return
	}
	var bodyStmt *ast.BlockStmt
	switch l := loop.(type) {
	case *ast.RangeStmt:
		bodyStmt = l.Body
	case *ast.ForStmt:
		bodyStmt = l.Body
	}
	if bodyStmt == nil || len(bodyStmt.List) == 0 {
		return
	}
	first := bodyStmt.List[0]
	a := fn.FromUntil(first, an.StateBefore(first), call)
	head := loopHead(fn, loop)
	skipped := head != nil && a.BlockReached(head)
	c.Check(!skipped, "C13.2-no-skip", fname+": delete loop", call.Pos(), "every iteration reaches the Delete call before the next one starts", "an iteration can go on to the next revision without deleting this one: a younger revision may be deleted while an older one is kept")
	// and the loop runs to its end: it is left early only with an error ("after a successful reconcile at most
	// revisionHistoryLimit unused revisions remain")
	c.loopLeftOnlyWithError(fn, an, loop, "C13.2-truncation-completes", fname+": delete loop")
}

// loopLeftOnlyWithError: every return inside the loop hands back a non-nil error, and there is no break out of it.
func (c *Ctx) loopLeftOnlyWithError(fn *gf.Fn, an *gf.Analysis, loop ast.Stmt, rule, name string) {
	body := loopBody(loop)
	if body == nil {
		return
	}
	n := 0
	good := true
	why := ""
	ownNodes(body, func(x ast.Node) {
		switch y := x.(type) {
		case *ast.ReturnStmt:
			st := an.StateBefore(y)
			if !st.Reachable() {
				return
			}
			n++
			if len(y.Results) == 0 {
				good, why = false, "a bare return at "+c.P.Pos(y.Pos())
				return
			}
			last := y.Results[len(y.Results)-1]
			if isErrorCtor(fn.Info, last) {
				return
			}
			if g, _ := st.Implies(gf.FNotNil(fn.Term(last))); !g {
				good, why = false, "the return at "+c.P.Pos(y.Pos())+" can report success before the remaining items were handled"
			}
		case *ast.BranchStmt:
			if y.Tok == token.BREAK && innermostBreakTarget(body, y) == nil {
				good, why = false, "a break at "+c.P.Pos(y.Pos())+" leaves the loop before the remaining items were handled"
			}
		}
	})
	c.Check(good, rule, name, loop.Pos(), fmt.Sprintf("left early only with a non-nil error (%d returns)", n), why)
}

// fieldBase strips the selection of field name (through embedded structs) from t and returns the base, or nil.
func fieldBase(t *gf.Term, name string) *gf.Term {
	if t == nil || t.K != 'f' || t.S != name || len(t.A) != 1 {
		return nil
	}
	b := t.A[0]
	for b.K == 'f' && len(b.A) == 1 && (b.S == "ObjectMeta" || b.S == "TypeMeta") {
		b = b.A[0]
	}
	return b
}

// cellTermOf: t is a cell X[i], or a term that every disjunct of st knows equal (transitively) to a
// cell of one and the same slice variable; returns the cell (of the first disjunct).
func cellTermOf(st gf.State, t *gf.Term) *gf.Term {
	if t.K == 'i' {
		return t
	}
	if !st.Reachable() {
		return nil
	}
	var found *gf.Term
	for _, d := range st.D {
		var here *gf.Term
		for _, o := range d.EqualTerms(t) {
			if o.K == 'i' && o.A[0].K == 'v' && (found == nil || o.A[0].Key() == found.A[0].Key()) && (here == nil || o.Key() == found.Key()) {
				here = o
			}
		}
		if here == nil {
			return nil
		}
		if found == nil {
			found = here
		}
	}
	return found
}

// localInts lists the integer-typed local variables defined in body.
func localInts(info *types.Info, body ast.Node) []types.Object {
	var out []types.Object
	seen := map[types.Object]bool{}
	ast.Inspect(body, func(n ast.Node) bool {
		if id, ok := n.(*ast.Ident); ok {
			if v, ok := info.Defs[id].(*types.Var); ok && !seen[v] && isIntT(v.Type()) {
				seen[v] = true
				out = append(out, v)
			}
		}
		return true
	})
	return out
}

// assignedBetween: obj is assigned by a statement positioned in (from, to).
func assignedBetween(info *types.Info, body ast.Node, obj types.Object, from, to token.Pos) bool {
	found := false
	ast.Inspect(body, func(n ast.Node) bool {
		if as, ok := n.(*ast.AssignStmt); ok && as.Pos() > from && as.Pos() < to {
			for _, l := range as.Lhs {
				if id, ok := l.(*ast.Ident); ok && info.ObjectOf(id) == obj {
					found = true
				}
			}
		}
		return true
	})
	return found
}

// assignedIn: obj is assigned or stepped inside n.
func assignedIn(info *types.Info, n ast.Node, obj types.Object) bool {
	found := false
	ast.Inspect(n, func(x ast.Node) bool {
		switch s := x.(type) {
		case *ast.AssignStmt:
			for _, l := range s.Lhs {
				if id, ok := l.(*ast.Ident); ok && info.ObjectOf(id) == obj {
					found = true
				}
			}
		case *ast.IncDecStmt:
			if id, ok := s.X.(*ast.Ident); ok && info.ObjectOf(id) == obj {
				found = true
			}
		}
		return true
	})
	return found
}

func isBoolT(t types.Type) bool {
	b, ok := t.Underlying().(*types.Basic)
	return ok && b.Info()&types.IsBoolean != 0
}

// termEqualUnder: in every disjunct, a equals b after rewriting by the disjunct's equalities.
func termEqualUnder(st gf.State, a, b *gf.Term) bool {
	if a == nil || b == nil {
		return false
	}
	ok, _ := st.Implies(gf.FEq(a, b))
	if ok {
		return true
	}
	return false
}

// liveSet: C13.1 on the live map.
func (c *Ctx) liveSet(fi *load.FuncInfo, fn *gf.Fn, live types.Object) {
	info := fi.Pkg.TypesInfo
	body := fi.Decl.Body
	fname := fi.Obj.Name()
	revs := paramsOfType(fi, "k8s.io/api/apps/v1", "ControllerRevision")
	podsParam := (*ast.Ident)(nil)
	for _, f := range fi.Decl.Type.Params.List {
		for _, n := range f.Names {
			if types.TypeString(info.TypeOf(n), nil) == "[]*k8s.io/api/core/v1.Pod" {
				podsParam = n
			}
		}
	}
	truncFI, truncRevs := fi, revs
	// the live set may be built by a small helper: `live := liveRevisionNames(pods, current, update)`. The
	// helper is then the place where the rules below are checked, with the truncation's revision and pod
	// parameters mapped to the helper's through the call's arguments.
	var builderCall *ast.CallExpr
	nDefs := 0
	ast.Inspect(body, func(n ast.Node) bool {
		if as, ok := n.(*ast.AssignStmt); ok && len(as.Lhs) == 1 && len(as.Rhs) == 1 {
			if id, ok := as.Lhs[0].(*ast.Ident); ok && info.ObjectOf(id) == live {
				nDefs++
				builderCall, _ = ast.Unparen(as.Rhs[0]).(*ast.CallExpr)
			}
		}
		return true
	})
	if nDefs == 1 && builderCall != nil {
		if h := gf.StaticCallee(info, builderCall); h != nil {
			hfi := c.P.FuncInfoOf(h)
			if hfi != nil && hfi.Pkg == fi.Pkg && c.liftedAway(hfi) {
				var hparams []*ast.Ident
				for _, f := range hfi.Decl.Type.Params.List {
					hparams = append(hparams, f.Names...)
				}
				mapped := func(p *ast.Ident) *ast.Ident {
					for k, a := range builderCall.Args {
						if id, ok := ast.Unparen(a).(*ast.Ident); ok && p != nil && info.ObjectOf(id) == info.ObjectOf(p) && k < len(hparams) {
							return hparams[k]
						}
					}
					return nil
				}
				// the returned map variable
				var hlive types.Object
				ast.Inspect(hfi.Decl.Body, func(n ast.Node) bool {
					if ret, ok := n.(*ast.ReturnStmt); ok && len(ret.Results) == 1 {
						if id, ok := ast.Unparen(ret.Results[0]).(*ast.Ident); ok {
							hlive = info.ObjectOf(id)
						}
					}
					return true
				})
				if hlive != nil {
					var hrevs []*ast.Ident
					for _, rp := range revs {
						if m := mapped(rp); m != nil {
							hrevs = append(hrevs, m)
						}
					}
					fi, fn, body, fname, live = hfi, c.E.FnOf(hfi), hfi.Decl.Body, hfi.Obj.Name(), hlive
					revs, podsParam = hrevs, mapped(podsParam)
				}
			}
		}
	}
	nLiveParams := 0
	// initialisation with both revision names
	var lit *ast.CompositeLit
	ast.Inspect(body, func(n ast.Node) bool {
		if as, ok := n.(*ast.AssignStmt); ok && len(as.Lhs) == 1 && len(as.Rhs) == 1 {
			if id, ok := as.Lhs[0].(*ast.Ident); ok && info.ObjectOf(id) == live {
				if cl, ok := as.Rhs[0].(*ast.CompositeLit); ok {
					lit = cl
				}
			}
		}
		return true
	})
	for _, rp := range revs {
		if types.TypeString(info.TypeOf(rp), nil) != "*k8s.io/api/apps/v1.ControllerRevision" {
			continue
		}
		found := false
		if lit != nil {
			for _, el := range lit.Elts {
				if kv, ok := el.(*ast.KeyValueExpr); ok {
					if fn.Term(kv.Key).Key() == c.WantTerm(fn, lit.Pos(), "$1.Name", rp).Key() && fn.Formula(kv.Value) == gf.True {
						found = true
					}
				}
			}
		}
		c.Check(found, "C13.1-live-current-and-update", fname+": live["+rp.Name+".Name]", fi.Decl.Pos(), "marked live at initialisation", "the revision parameter "+rp.Name+" is not marked live")
		if found {
			nLiveParams++
		}
	}
	// the chooser's results may arrive together, as the struct it returns: its two revision fields are then what
	// has to be marked live, and the argument has to be that result (truncateCallers)
	var carrier *ast.Ident
	if shape := c.chooser(); nLiveParams < 2 && shape != nil && shape.structured && fi == truncFI {
		want := shape.fi.Obj.Type().(*types.Signature).Results().At(0).Type()
		for _, f := range fi.Decl.Type.Params.List {
			for _, pn := range f.Names {
				if types.Identical(info.TypeOf(pn), want) {
					carrier = pn
				}
			}
		}
		if carrier != nil {
			for _, fld := range []string{shape.curField, shape.updField} {
				found := false
				if wt := c.TryWantTerm(fn, body.Lbrace+1, "$1."+fld+".Name", carrier); wt != nil && lit != nil {
					for _, el := range lit.Elts {
						if kv, ok := el.(*ast.KeyValueExpr); ok && fn.Term(kv.Key).Key() == wt.Key() && fn.Formula(kv.Value) == gf.True {
							found = true
						}
					}
				}
				c.Check(found, "C13.1-live-current-and-update", fname+": live["+carrier.Name+"."+fld+".Name]", fi.Decl.Pos(), "marked live at initialisation", "the revision "+carrier.Name+"."+fld+" is not marked live")
				if found {
					nLiveParams++
				}
			}
			truncRevs = append(truncRevs, carrier)
		}
	}
	// the two revisions this reconcile computed must be handed in and marked live: a name read from the
	// set's stored status is the previous reconcile's choice
	c.Check(nLiveParams >= 2, "C13.1-live-set-seeded-with-computed-revisions", fname+": ControllerRevision parameters marked live", fi.Decl.Pos(),
		"the truncation receives the current and the update revision and marks both live", "the truncation does not receive (or does not mark live) both the current and the update revision computed by this reconcile")
	c.truncateCallers(truncFI, truncRevs)
	// every pod's revision label, unconditionally, over all pods
	okPods := false
	var getRev *types.Func
	if g := c.P.Func(load.CtrlPkg, "getPodRevision"); g != nil {
		getRev = g.Obj
	}
	for _, s := range body.List {
		rs, ok := s.(*ast.RangeStmt)
		if !ok || podsParam == nil {
			continue
		}
		if id, ok := ast.Unparen(rs.X).(*ast.Ident); !ok || info.ObjectOf(id) != info.ObjectOf(podsParam) {
			continue
		}
		for _, bs := range rs.Body.List {
			as, ok := bs.(*ast.AssignStmt)
			if !ok || len(as.Lhs) != 1 || len(as.Rhs) != 1 {
				continue
			}
			ix, ok := as.Lhs[0].(*ast.IndexExpr)
			if !ok || rootIdent(ix.X) == nil || info.ObjectOf(rootIdent(ix.X)) != live {
				continue
			}
			call, ok := ast.Unparen(ix.Index).(*ast.CallExpr)
			if !ok || gf.StaticCallee(info, call) != getRev || fn.Formula(as.Rhs[0]) != gf.True {
				continue
			}
			cellWant := loopCell(rs)
			right := false
			if cellWant != nil && fn.Term(call.Args[0]).Key() == fn.Term(cellWant).Key() {
				right = true
			} else if v, ok := rs.Value.(*ast.Ident); ok && fn.Term(call.Args[0]).Key() == fn.Term(v).Key() {
				right = true
			}
			// every iteration reaches the store: stopping at it, the loop head is not re-entered
			if right {
				_, an := c.Analysis(fi)
				start := rs.Body.List[0]
				aU := fn.FromUntil(start, an.StateBefore(start), as)
				if head := loopHead(fn, rs); head != nil && !aU.BlockReached(head) {
					okPods = true
				}
			}
		}
	}
	c.Check(okPods, "C13.1-live-pod-revisions", fname+": live[revision(pod)] for all pods", fi.Decl.Pos(),
		"a top-level loop over all pods marks each pod's revision label live, unconditionally", "not every pod's revision label is marked live (loop missing, guarded, or over a subset)")
	// never cleared
	cleared := false
	ast.Inspect(body, func(n ast.Node) bool {
		switch x := n.(type) {
		case *ast.AssignStmt:
			for i, l := range x.Lhs {
				if ix, ok := l.(*ast.IndexExpr); ok && rootIdent(ix.X) != nil && info.ObjectOf(rootIdent(ix.X)) == live {
					if len(x.Rhs) == len(x.Lhs) && fn.Formula(x.Rhs[i]) != gf.True {
						cleared = true
					}
				}
			}
		case *ast.CallExpr:
			if id, ok := x.Fun.(*ast.Ident); ok && (id.Name == "delete" || id.Name == "clear") && len(x.Args) > 0 {
				if r := rootIdent(x.Args[0]); r != nil && info.ObjectOf(r) == live {
					cleared = true
				}
			}
		}
		return true
	})
	c.Check(!cleared, "C13.1-live-never-cleared", fname+": writes to the live map", fi.Decl.Pos(), "only `= true` stores", "an entry of the live map can be cleared or set to a non-true value")
}

// sortedByCaller: each caller sorts the slice it passes as the revisions
// argument with SortControllerRevisions, as a top-level statement before the call.
func (c *Ctx) sortedByCaller(fi *load.FuncInfo) {
	sortFn, _ := c.P.Lookup(load.K8sPkg, "SortControllerRevisions").(*types.Func)
	if sortFn == nil {
		c.Fail("k8s.SortControllerRevisions does not resolve")
		return
	}
	// index of the revisions parameter
	pi := -1
	i := 0
	for _, f := range fi.Decl.Type.Params.List {
		for _, n := range f.Names {
			if types.TypeString(fi.Pkg.TypesInfo.TypeOf(n), nil) == "[]*k8s.io/api/apps/v1.ControllerRevision" {
				pi = i
			}
			i++
		}
	}
	if pi < 0 {
		c.Fail("%s has no []*ControllerRevision parameter", fi.Obj.Name())
		return
	}
	n := 0
	for _, caller := range c.G.Callers(fi.Obj) {
		cfi := c.P.FuncInfoOf(caller)
		info := cfi.Pkg.TypesInfo
		for _, call := range callsIn(cfi.Decl.Body, false) {
			if f := gf.StaticCallee(info, call); f == nil || f.Origin() != fi.Obj {
				continue
			}
			n++
			arg := rootIdent(call.Args[pi])
			name := fmt.Sprintf("%s -> %s(%s)", cfi.Obj.Name(), fi.Obj.Name(), types.ExprString(call.Args[pi]))
			sorted := false
			ti := topIndex(cfi.Decl.Body, call)
			for k, s := range cfi.Decl.Body.List {
				es, ok := s.(*ast.ExprStmt)
				if !ok || k >= ti {
					continue
				}
				sc, ok := es.X.(*ast.CallExpr)
				if ok && gf.StaticCallee(info, sc) == sortFn && arg != nil && rootIdent(sc.Args[0]) != nil && info.ObjectOf(rootIdent(sc.Args[0])) == info.ObjectOf(arg) {
					sorted = true
				}
			}
			// ... and the variable is not given another value between the sort and the call (a fresh listing is in name order)
			if sorted && arg != nil {
				var sortPos token.Pos
				for k, s := range cfi.Decl.Body.List {
					if es, ok := s.(*ast.ExprStmt); ok && k < ti {
						if sc, ok := es.X.(*ast.CallExpr); ok && gf.StaticCallee(info, sc) == sortFn && rootIdent(sc.Args[0]) != nil && info.ObjectOf(rootIdent(sc.Args[0])) == info.ObjectOf(arg) {
							sortPos = es.End()
						}
					}
				}
				if assignedBetween(info, cfi.Decl.Body, info.ObjectOf(arg), sortPos, call.Pos()) {
					sorted = false
				}
			}
			c.Check(sorted, "C13.2-sorted-by-caller", name, call.Pos(), "the caller sorts the same slice with SortControllerRevisions before", "the revisions passed to history truncation are not sorted by the caller")
		}
	}
	c.Floor("C13.2-truncate-callers", n, 1)
	// comparator: Revision, then creation time, then name
	if less := c.P.Func(load.K8sPkg, "byRevision.Less"); less != nil {
		lfn, lan := c.Analysis(less)
		recv := less.Decl.Recv.List[0].Names[0]
		pi, pj := less.Decl.Type.Params.List[0].Names[0], less.Decl.Type.Params.List[0].Names[1]
		nret, nOrient := 0, 0
		ast.Inspect(less.Decl.Body, func(x ast.Node) bool {
			ret, ok := x.(*ast.ReturnStmt)
			if !ok {
				return true
			}
			nret++
			name := fmt.Sprintf("byRevision.Less: return[%d] %s", nret, types.ExprString(ret.Results[0]))
			st := lan.StateBefore(ret)
			got := lfn.Formula(ret.Results[0]).String()
			byRev := c.Want(lfn, ret.Pos(), "$1[$2].Revision < $1[$3].Revision", recv, pi, pj)
			byName := c.Want(lfn, ret.Pos(), "$1[$2].Name < $1[$3].Name", recv, pi, pj)
			eqRev := c.Want(lfn, ret.Pos(), "$1[$2].Revision == $1[$3].Revision", recv, pi, pj)
			switch {
			case got == byRev.String():
				c.Implies(st, gf.Not(eqRev), "C13.2-comparator", name, ret.Pos())
			case got == byName.String():
				c.Implies(st, eqRev, "C13.2-comparator", name, ret.Pos())
			default:
				// creation-time tie-break: only under equal Revision
				c.Implies(st, eqRev, "C13.2-comparator", name, ret.Pos())
				// ... and oldest first: what the truncation deletes is the front of the sorted slice, so among revisions of
				// equal number the earlier creation time sorts lower (i before j, or j after i)
				asc, desc := orientation(less.Pkg.TypesInfo, ret.Results[0], less.Pkg.TypesInfo.ObjectOf(pi), less.Pkg.TypesInfo.ObjectOf(pj))
				switch {
				case desc > 0:
					c.Bad("C13.2-comparator-oldest-first", name, ret.Pos(), "the tie-break among revisions of equal number orders the later creation time first: the truncation, which deletes from the front, then removes the newest of them and keeps the oldest")
				case asc > 0:
					nOrient++
					c.OK("C13.2-comparator-oldest-first", name, ret.Pos(), "the element at the first index sorts lower when it was created earlier")
				}
			}
			return true
		})
		c.Floor("C13.2-comparator-returns", nret, 3)
		c.Floor("C13.2-comparator-orientation", nOrient, 1)
	} else {
		c.Fail("byRevision.Less does not resolve")
	}
}

// orientation counts, among the comparisons e is built from, those that put the element at index i first when its
// key is lower or earlier (asc) and those that put it first when its key is higher or later (desc). A comparison is
// x < y, x > y (also <=, >=) or x.Before(y), x.After(y) with one side read from the cell at i and the other from the cell at j.
func orientation(info *types.Info, e ast.Expr, pi, pj types.Object) (asc, desc int) {
	side := func(x ast.Expr) int {
		r := 0
		ast.Inspect(x, func(n ast.Node) bool {
			if ix, ok := n.(*ast.IndexExpr); ok {
				if id, ok := ast.Unparen(ix.Index).(*ast.Ident); ok {
					switch info.ObjectOf(id) {
					case pi:
						r |= 1
					case pj:
						r |= 2
					}
				}
			}
			return true
		})
		return r
	}
	count := func(x, y ast.Expr, lower bool) {
		sx, sy := side(x), side(y)
		switch {
		case sx == 1 && sy == 2 && lower, sx == 2 && sy == 1 && !lower:
			asc++
		case sx == 1 && sy == 2 && !lower, sx == 2 && sy == 1 && lower:
			desc++
		}
	}
	ast.Inspect(e, func(n ast.Node) bool {
		switch v := n.(type) {
		case *ast.BinaryExpr:
			switch v.Op {
			case token.LSS, token.LEQ:
				count(v.X, v.Y, true)
			case token.GTR, token.GEQ:
				count(v.X, v.Y, false)
			}
		case *ast.CallExpr:
			if sel, ok := v.Fun.(*ast.SelectorExpr); ok && len(v.Args) == 1 {
				switch sel.Sel.Name {
				case "Before":
					count(sel.X, v.Args[0], true)
				case "After":
					count(sel.X, v.Args[0], false)
				}
			}
		}
		return true
	})
	return
}

// listerFilters: C13.3/C10.4 (owner filter) and C13.4 (de-duplication) on the revision lister.
func (c *Ctx) listerFilters(ownerRule, dedupRule string) {
	// the listings: uncached List sites on controllerrevisions of the history lister (a List inside a helper counts once
	// per call of the helper), and the functions, reachable from the lister, that build the slice it returns
	lr := c.Func(load.CtrlPkg, "defaultStatefulSetControl.ListRevisions")
	if lr == nil {
		return
	}
	total := 0
	for _, ls := range c.sitesOf(lr) {
		if ls.Resource == "controllerrevisions" && ls.Verb == "List" {
			total++
		}
	}
	reach := c.G.ReachDirect(lr.Obj)
	var builders []*load.FuncInfo
	for f := range reach {
		fi := c.P.FuncInfoOf(f)
		if fi == nil || fi.Pkg.PkgPath != load.CtrlPkg {
			continue
		}
		builders = append(builders, fi)
	}
	sort.Slice(builders, func(i, j int) bool { return builders[i].Obj.FullName() < builders[j].Obj.FullName() })
	nApp := 0
	for _, fi := range builders {
		fn, an := c.Analysis(fi)
		info := fi.Pkg.TypesInfo
		// the slice of revisions this function returns first
		var res types.Object
		ownNodes(fi.Decl.Body, func(n ast.Node) {
			if ret, ok := n.(*ast.ReturnStmt); ok && len(ret.Results) >= 1 {
				if id, ok := ast.Unparen(ret.Results[0]).(*ast.Ident); ok && !isNilExpr(info, id) && types.TypeString(info.TypeOf(id), nil) == "[]*k8s.io/api/apps/v1.ControllerRevision" {
					res = info.ObjectOf(id)
				}
			}
		})
		if res == nil {
			continue
		}
		sets := paramsOfType(fi, load.APIPkg, "StatefulSet")
		ownNodes(fi.Decl.Body, func(n ast.Node) {
			as, ok := n.(*ast.AssignStmt)
			if !ok || len(as.Lhs) != 1 || len(as.Rhs) != 1 {
				return
			}
			id, ok := as.Lhs[0].(*ast.Ident)
			if !ok || info.ObjectOf(id) != res {
				return
			}
			call, ok := as.Rhs[0].(*ast.CallExpr)
			if !ok {
				return
			}
			if fid, _ := call.Fun.(*ast.Ident); fid == nil || fid.Name != "append" || call.Ellipsis.IsValid() {
				return
			}
			st := an.StateBefore(as)
			for _, x := range call.Args[1:] {
				nApp++
				name := fmt.Sprintf("%s: append(%s, %s)", tableShort(c, fi), res.Name(), types.ExprString(x))
				if len(sets) != 1 {
					c.Bad(ownerRule+"-owner-filter", name, as.Pos(), "revisions are collected in a function without the owning set at hand")
					continue
				}
				xt := fn.Term(x)
				uid := c.WantTerm(fn, as.Pos(), "$1.UID", sets[0])
				var alts []*gf.Formula
				for _, getter := range []string{"GetControllerOfNoCopy", "GetControllerOf"} {
					ct := gf.CallT("k8s.io/apimachinery/pkg/apis/meta/v1."+getter, nil, xt)
					alts = append(alts, gf.FNil(ct), gf.FEq(gf.Field(ct, "UID", nil), uid))
				}
				c.Implies(st, gf.Or(alts...), ownerRule+"-owner-filter", name, as.Pos())
				// and the other way round: a listed revision that nobody controls belongs to the history (it is what a set
				// deleted with orphaning and created again, or a migrated set, finds); an iteration for such a revision ends
				// without the append only if its name has been seen before
				if loop := innermostLoop(fi.Decl.Body, as); loop != nil {
					var body *ast.BlockStmt
					switch l := loop.(type) {
					case *ast.RangeStmt:
						body = l.Body
					case *ast.ForStmt:
						body = l.Body
					}
					if head := loopHead(fn, loop); head != nil && body != nil && len(body.List) > 0 {
						// from behind the last top-level statement that defines the element's variable, for an element not seen before
						startIdx := 0
						if root := rootIdent(stripAddr(x)); root != nil {
							for si, s0 := range body.List {
								if assignedIn(info, s0, info.ObjectOf(root)) {
									if _, isAssign := s0.(*ast.AssignStmt); isAssign {
										startIdx = si + 1
									}
								}
							}
						}
						dropped, witness := false, ""
						if startIdx < len(body.List) && topIndex(body, as) >= startIdx {
							start := body.List[startIdx]
							assume := []*gf.Formula{gf.FNil(gf.CallT("k8s.io/apimachinery/pkg/apis/meta/v1.GetControllerOfNoCopy", nil, xt)), gf.FNil(gf.CallT("k8s.io/apimachinery/pkg/apis/meta/v1.GetControllerOf", nil, xt)),
								gf.Not(gf.FBool(gf.CallT("k8s.io/apimachinery/pkg/apis/meta/v1.IsControlledBy", types.Typ[types.Bool], xt, fn.Term(sets[0]))))}
							ast.Inspect(body, func(y ast.Node) bool {
								if st2, ok := y.(*ast.AssignStmt); ok && len(st2.Lhs) == 1 && len(st2.Rhs) == 1 {
									if ix, ok := st2.Lhs[0].(*ast.IndexExpr); ok && isBoolT(info.TypeOf(ix)) {
										if tv, ok := info.Types[st2.Rhs[0]]; ok && tv.Value != nil && tv.Value.ExactString() == "true" {
											assume = append(assume, gf.Not(gf.FBool(fn.Term(ix))))
										}
									}
								}
								return true
							})
							aG := fn.FromUntil(start, an.StateBefore(start).Assume(gf.And(assume...)), as)
							if in, ok := aG.In[head.Index]; ok && in.Reachable() {
								dropped = true
								_, witness = in.Implies(gf.False)
							}
						}
						c.Check(!dropped, ownerRule+"-unowned-revisions-are-kept", name, as.Pos(), "an iteration for a revision without a controller ends without the append only for a name seen before",
							"a listed revision that has no controller can be left out of the history: it is never adopted, a template it records is not recognised (a new revision is made, or the old one is re-used without being renumbered); facts on one such path: "+clip(witness, 300))
					}
				}
				if total > 1 {
					c.dedup(fi, fn, an, as, x, dedupRule, name)
					// the record of what was seen spans both listings: it lives in the lister, or in a function the lister
					// calls once for all the listed items (kept per call of a helper that is called once per listing, a
					// revision found by both listings is appended twice)
					if fi != lr {
						nCalls := 0
						for _, g := range builders {
							for _, cc := range callsIn(g.Decl.Body, true) {
								if f := gf.StaticCallee(g.Pkg.TypesInfo, cc); f != nil && f.Origin() == fi.Obj {
									nCalls++
									if innermostLoop(g.Decl.Body, cc) != nil {
										nCalls++
									}
								}
							}
						}
						c.Check(nCalls == 1, dedupRule+"-dedup-spans-the-listings", name, as.Pos(), "the function holding the record of seen names is called once",
							fmt.Sprintf("the names already seen are remembered per call of %s, which is called %d times (once per listing): a revision carrying both the selector labels and the upgrade label is counted twice", tableShort(c, fi), nCalls))
					}
				}
			}
		})
	}
	c.Floor(ownerRule+"-lister-appends", nApp, 1)
	c.Floor(ownerRule+"-revision-list-sites", total, 2)
}

// dedup: the append is reachable only through a store seen[key] = true made under !seen[key], key == element name.
func (c *Ctx) dedup(fi *load.FuncInfo, fn *gf.Fn, an *gf.Analysis, app *ast.AssignStmt, elem ast.Expr, rule, name string) {
	info := fi.Pkg.TypesInfo
	loop := innermostLoop(fi.Decl.Body, app)
	if loop == nil {
		c.Bad(rule+"-dedup", name, app.Pos(), "append outside a loop")
		return
	}
	// the element's name term: elem is &local or local
	base := ast.Unparen(elem)
	if u, ok := base.(*ast.UnaryExpr); ok && u.Op == token.AND {
		base = u.X
	}
	key := c.WantTerm(fn, app.Pos(), "$1.Name", base)
	var mark *ast.AssignStmt
	ast.Inspect(loop, func(n ast.Node) bool {
		as, ok := n.(*ast.AssignStmt)
		if !ok || len(as.Lhs) != 1 || len(as.Rhs) != 1 {
			return true
		}
		ix, ok := as.Lhs[0].(*ast.IndexExpr)
		if !ok {
			return true
		}
		if mt, ok := info.TypeOf(ix.X).Underlying().(*types.Map); ok && isBoolT(mt.Elem()) && key != nil && fn.Term(ix.Index).Key() == key.Key() && fn.Formula(as.Rhs[0]) == gf.True {
			mark = as
		}
		return true
	})
	if mark == nil {
		c.Bad(rule+"-dedup", name, app.Pos(), "several List calls feed this slice and no seen-set keyed by the element's name guards the append")
		return
	}
	ix := mark.Lhs[0].(*ast.IndexExpr)
	okGuard, _ := an.StateBefore(mark).Implies(gf.Not(gf.FBool(fn.Term(ix))))
	// must pass through the mark: from the loop body entry, stopping at the mark, the append is unreachable
	bodyStart := loopBody(loop).List[0]
	aU := fn.FromUntil(bodyStart, an.StateBefore(bodyStart), mark)
	pass := !aU.StateBefore(app).Reachable()
	// the seen map is not cleared inside the loop
	c.Check(okGuard && pass, rule+"-dedup", name, app.Pos(), "appended only after `!seen[name]` and marking seen[name] = true",
		"the append can be reached without the not-seen test and marking (duplicates possible)")
}

// truncateCallers: every caller passes, for the ControllerRevision parameters, the first two
// results of the revision-choosing function called in the same function.
func (c *Ctx) truncateCallers(fi *load.FuncInfo, revs []*ast.Ident) {
	choose := c.Func(load.CtrlPkg, "defaultStatefulSetControl.getStatefulSetRevisions")
	if choose == nil {
		return
	}
	// parameter positions (whole: the parameter carries the chooser's struct result, both revisions at once)
	pos := map[int]string{}
	whole := map[int]bool{}
	i := 0
	for _, f := range fi.Decl.Type.Params.List {
		for _, n := range f.Names {
			for _, rp := range revs {
				if rp == n && types.TypeString(fi.Pkg.TypesInfo.TypeOf(n), nil) == "*k8s.io/api/apps/v1.ControllerRevision" {
					pos[i] = n.Name
				}
				if rp == n && types.TypeString(fi.Pkg.TypesInfo.TypeOf(n), nil) != "*k8s.io/api/apps/v1.ControllerRevision" && structOfType(fi.Pkg.TypesInfo.TypeOf(n)) != nil {
					pos[i] = n.Name
					whole[i] = true
				}
			}
			i++
		}
	}
	n := 0
	for _, caller := range c.P.Funcs() {
		info := caller.Pkg.TypesInfo
		for _, call := range callsIn(caller.Decl.Body, true) {
			if gf.StaticCallee(info, call) != fi.Obj {
				continue
			}
			n++
			used := map[int]bool{}
			for k, pname := range pos {
				name := fmt.Sprintf("%s: %s(… %s …)", caller.Obj.Name(), fi.Obj.Name(), pname)
				good := false
				why := "argument is not a variable assigned from " + choose.Obj.Name()
				if k < len(call.Args) {
					if id, ok := ast.Unparen(call.Args[k]).(*ast.Ident); ok {
						ast.Inspect(caller.Decl.Body, func(x ast.Node) bool {
							as, ok := x.(*ast.AssignStmt)
							if !ok || len(as.Rhs) != 1 || as.End() > call.Pos() {
								return true
							}
							src, ok := ast.Unparen(as.Rhs[0]).(*ast.CallExpr)
							if !ok || gf.StaticCallee(info, src) != choose.Obj {
								return true
							}
							for li, l := range as.Lhs {
								if lid, ok := l.(*ast.Ident); ok && info.ObjectOf(lid) == info.ObjectOf(id) && whole[k] && li == 0 {
									good = true
									continue
								}
								if lid, ok := l.(*ast.Ident); ok && info.ObjectOf(lid) == info.ObjectOf(id) && li < 2 && !whole[k] {
									good = !used[li]
									used[li] = true
									if !good {
										why = "both revision arguments are the same result"
									}
								}
							}
							return true
						})
						// not reassigned in between
						if good && assignedBetweenCalls(info, caller.Decl.Body, info.ObjectOf(id), choose.Obj, call) {
							good, why = false, "the variable is reassigned between "+choose.Obj.Name()+" and the call"
						}
					}
				}
				c.Check(good, "C13.1-live-set-seeded-with-computed-revisions", name, call.Pos(), "the argument is a result of "+choose.Obj.Name()+" in the same reconcile", why)
			}
		}
	}
	c.Floor("C13.1-truncation-call-sites", n, 1)
	c.successOnlyAfterTruncation(fi)
}

// successOnlyAfterTruncation: "after a successful reconcile at most revisionHistoryLimit unused revisions remain":
// in every function between the reconcile entry and the truncation, no return is reachable without passing the
// call of the truncation (or of the function that leads to it) unless it returns a non-nil error.
func (c *Ctx) successOnlyAfterTruncation(trunc *load.FuncInfo) {
	const rule = "C13.2-success-only-after-the-truncation"
	target := trunc
	nF := 0
	for depth := 0; depth < 4 && target != nil; depth++ {
		var next *load.FuncInfo
		for _, caller := range c.P.Funcs() {
			if caller.Pkg.PkgPath != load.CtrlPkg || caller == target {
				continue
			}
			info := caller.Pkg.TypesInfo
			var stops []ast.Node
			for _, call := range callsIn(caller.Decl.Body, true) {
				if gf.StaticCallee(info, call) == target.Obj {
					if st := stmtOf(caller.Decl.Body, call); st != nil {
						stops = append(stops, st)
					}
				}
			}
			if len(stops) == 0 {
				continue
			}
			nF++
			next = caller
			fn, _ := c.Analysis(caller)
			aU := fn.FromUntil(caller.Decl.Body.List[0], gf.TrueState(), stops...)
			nR := 0
			judge := func(ret ast.Node, last ast.Expr) {
				for _, s := range stops {
					if s == ret {
						return
					}
				}
				st := aU.StateBefore(ret)
				if !st.Reachable() {
					return
				}
				nR++
				name := fmt.Sprintf("%s: return #%d before %s", caller.Obj.Name(), nR, target.Obj.Name())
				switch {
				case last == nil:
					c.Bad(rule, name, ret.Pos(), "the function can end without the history having been truncated")
				case isErrorCtor(info, last):
					c.OK(rule, name, ret.Pos(), "an error built on the spot")
				default:
					if g, _ := st.Implies(gf.FNotNil(fn.Term(last))); g && !isNilExpr(info, last) {
						c.OK(rule, name, ret.Pos(), "returns a non-nil error")
					} else {
						c.Bad(rule, name, ret.Pos(), "the reconcile can report success without having truncated the history: unused revisions beyond revisionHistoryLimit then remain after a successful reconcile (and keep remaining while nothing else changes)")
					}
				}
			}
			ownNodes(caller.Decl.Body, func(x ast.Node) {
				ret, ok := x.(*ast.ReturnStmt)
				if !ok {
					return
				}
				if len(ret.Results) == 0 {
					judge(ret, nil)
					return
				}
				last := ret.Results[len(ret.Results)-1]
				if !isErrorType(info.TypeOf(last)) && !isNilExpr(info, last) {
					judge(ret, nil)
					return
				}
				judge(ret, last)
			})
			if ir := fn.ImplicitReturn(); ir != nil {
				judge(ir, nil)
			}
		}
		target = next
	}
	c.Floor("C13.2-functions-leading-to-the-truncation", nF, 1)
}

// assignedBetweenCalls: obj is assigned by something other than a call to src before call.
func assignedBetweenCalls(info *types.Info, body ast.Node, obj types.Object, src *types.Func, call *ast.CallExpr) bool {
	bad := false
	ast.Inspect(body, func(x ast.Node) bool {
		as, ok := x.(*ast.AssignStmt)
		if !ok || as.End() > call.Pos() {
			return true
		}
		for _, l := range as.Lhs {
			if id, ok := l.(*ast.Ident); ok && info.ObjectOf(id) == obj {
				if len(as.Rhs) == 1 {
					if c2, ok := ast.Unparen(as.Rhs[0]).(*ast.CallExpr); ok && gf.StaticCallee(info, c2) == src {
						continue
					}
				}
				bad = true
			}
		}
		return true
	})
	return bad
}

// isErrorCtor: e is fmt.Errorf(...) or errors.New(...): a non-nil error built on the spot.
func isErrorCtor(info *types.Info, e ast.Expr) bool {
	call, ok := ast.Unparen(e).(*ast.CallExpr)
	if !ok {
		return false
	}
	f := gf.StaticCallee(info, call)
	return f != nil && (f.FullName() == "fmt.Errorf" || f.FullName() == "errors.New")
}

func stripAddr(e ast.Expr) ast.Expr {
	e = ast.Unparen(e)
	if u, ok := e.(*ast.UnaryExpr); ok && u.Op == token.AND {
		return ast.Unparen(u.X)
	}
	return e
}
