package rules

import (
	"fmt"
	"go/ast"
	"go/constant"
	"go/token"
	"go/types"
	"sort"
	"strings"

	"asverif/internal/gf"
	"asverif/internal/load"
)

func init() {
	register(&Property{
		ID:    "C11",
		Title: "Deleted and paused sets are left alone, and a pause is lossless",
		Run:   runC11,
		Explanation: "Decides clauses C11.1-C11.3 of DESIGN.md: (1) in sync every call whose transitive effect summary contains an API write or an event is dominated by !GetPausedReconcile(set) for the set read from the lister; the helper returns true only for annotations[\"paused-reconcile\"] == \"true\"; the functions that can write are called only from sync (and each other); the pod and set event handlers' effect sets contain no write and no event; the worker's only other effects are queue operations; " +
			"(2) every pod/claim write of the reconcile function is dominated by set.DeletionTimestamp == nil (shared with C04.3); (3) pod adoption/release require the owner's deletion timestamp to be nil (shared with C10.2) and the revision label-sync and adoption calls are dominated by fresh.UID == set.UID and fresh.DeletionTimestamp == nil for an uncached read of the set. " +
			"The pause helper returns false only with a nil annotation map or a missing key (so an annotation \"true\" always pauses). NOT decided: that resuming after a pause converges to the same result (only statelessness, see C02, supports it).",
	})
}

func hasWriteOrEvent(effs map[string]bool) bool { return len(effs) > 0 }

func runC11(c *Ctx) {
	sy := c.Func(load.CtrlPkg, "StatefulSetController.sync")
	if sy == nil {
		return
	}
	// "once the annotation is removed it resumes": the only thing that tells the controller so is the update event of
	// the set, and a paused set has written nothing that would produce another one -- the set informer's handlers
	// enqueue the set whatever has changed (the registration rule of C16, as a clause of this property)
	c.withOnly(map[string]string{"C16.1-registration-target": "C11.4-unpausing-is-noticed"}, func(s string) bool { return !strings.Contains(strings.ToLower(s), "pod") }, "C11.4-set-informer-handlers", 3, func() { runC16(c) })
	// "adopts ... nothing" while the set is being deleted: the uncached recheck runs once per sync, and what it found is what
	// every adoption attempt of that sync is told -- not only the first (the shape rule of C10.3, as a clause of this property)
	c.refusedAdoptionEndsTheSync(sy)
	// a revision gets this set's owner reference only on the path that has looked at the set uncached first: the patching
	// helper is called from the control's AdoptOrphanRevisions and from nowhere else
	{
		nSite := 0
		var onlyFromAdoption func(f *types.Func, depth int) (bool, string)
		onlyFromAdoption = func(f *types.Func, depth int) (bool, string) {
			if strings.HasSuffix(f.Name(), "AdoptOrphanRevisions") {
				return true, ""
			}
			callers := c.G.Callers(f)
			if len(callers) == 0 || depth > 2 {
				return false, f.Name()
			}
			for _, cf := range callers {
				if g, who := onlyFromAdoption(cf, depth+1); !g {
					return false, who
				}
			}
			return true, ""
		}
		for _, s := range c.G.Sites {
			if s.Resource != "controllerrevisions" || s.Verb != "Patch" || s.Fn.Pkg() == nil || s.Fn.Pkg().Path() != load.CtrlPkg {
				continue
			}
			nSite++
			good, who := onlyFromAdoption(s.Fn, 0)
			c.Check(good, "C11.1-revision-adoption-only-behind-the-recheck", "ControllerRevisions.Patch in "+s.Fn.Name(), s.Call.Pos(), "reached only through the control's AdoptOrphanRevisions, which adoptOrphanRevisions calls after the uncached look at the set",
				"the owner-reference patch of a ControllerRevision is also reached through "+who+", a path that has not looked at the set uncached: a set that is being deleted takes ownership of a revision")
		}
		c.Floor("C11.1-revision-adoption-sites", nSite, 1)
	}
	c.withOnly(map[string]string{"C10.3-CanAdopt-shape": "C11.1-recheck-result-is-kept-for-every-attempt"}, nil, "C11.1-recheck-shape", 1, c.freshConfirmation)
	fn, an := c.Analysis(sy)
	info := sy.Pkg.TypesInfo
	// the set read from the lister
	var setID *ast.Ident
	var setStmt ast.Stmt
	for _, s := range c.G.Sites {
		if s.Fn == sy.Obj && s.Class == "cached-read" && s.Verb == "Get" {
			if as, ok := stmtOf(sy.Decl.Body, s.Call).(*ast.AssignStmt); ok && len(as.Lhs) == 2 {
				setID, _ = as.Lhs[0].(*ast.Ident)
				setStmt = as
			}
		}
	}
	if setID == nil {
		c.Fail("sync: the set read from the lister is not bound to a variable")
		return
	}
	paused, _ := c.P.Lookup(load.HelperPkg, "GetPausedReconcile").(*types.Func)
	if paused == nil {
		c.Fail("helper.GetPausedReconcile does not resolve")
		return
	}
	// (built through the canoniser, so that a single-expression helper, which the engine reads as its body, is matched too)
	notPaused := c.Want(fn, sy.Decl.Body.End()-1, "!helper.GetPausedReconcile($1)", setID)
	if notPaused == gf.False {
		notPaused = gf.Not(gf.FBool(gf.CallT(paused.FullName(), types.Typ[types.Bool], fn.Term(setID))))
	}
	n := 0
	var aPaused *gf.Analysis
	var syncCalls []*ast.CallExpr
	for _, bd := range fn.Bodies() {
		for _, call := range callsIn(bd, false) {
			if !fn.IsExpandedCall(call) { // (an expanded helper's body is looked at itself)
				syncCalls = append(syncCalls, call)
			}
		}
	}
	for _, call := range syncCalls {
		// direct effect sites
		class, res, verb := "", "", ""
		for _, s := range c.G.Sites {
			if s.Call == call {
				class, res, verb = s.Class, s.Resource, s.Verb
			}
		}
		var effs []string
		if class == "write" || class == "event" {
			effs = append(effs, res+"."+verb)
		}
		for _, t := range c.G.CallTargets(info, call) {
			for k := range c.G.Effects(t, "write", "event") {
				effs = append(effs, k)
			}
		}
		if len(effs) == 0 {
			continue
		}
		sort.Strings(effs)
		n++
		name := fmt.Sprintf("sync: %s [effects: %s]", clip(types.ExprString(call.Fun), 60), clip(strings.Join(effs, ","), 120))
		// decided by paths: once the set has been read, a reconcile of a paused set never reaches this call
		// (the fact itself need not survive the calls in between)
		if aPaused == nil {
			aPaused = fn.FromAfter(setStmt, an.StateAfter(setStmt).Assume(gf.Not(notPaused)))
		}
		st := aPaused.StateAtExpr(call)
		if st.Reachable() {
			_, wit := st.Implies(gf.False)
			c.Bad("C11.1-pause-gate", name, call.Pos(), "with the paused-reconcile annotation \"true\" on the set that was read, this writing call is still reachable; facts on one such path: "+clip(wit, 400))
		} else {
			c.OK("C11.1-pause-gate", name, call.Pos(), "unreachable when the set read from the lister is paused")
		}
	}
	c.Floor("C11.1-writing-calls-in-sync", n, 3)
	// dynamic calls inside sync (deferred closure): must not write
	for _, s := range c.G.Sites {
		if s.Fn == sy.Obj && s.InLit != nil && (s.Class == "write" || s.Class == "event") {
			c.Bad("C11.1-pause-gate", "sync: closure "+s.String(), s.Call.Pos(), "a closure in sync performs a write that no pause test can dominate")
		}
	}
	c.pausedHelper(paused)
	// every write of the controller package sits behind sync: with sync taken out of the call graph, no function of the
	// package that contains a write (or event) site is reachable from any entry (a function nothing in the program calls
	// or refers to). The gate inside sync is C11.1-pause-gate above.
	{
		entries := []*types.Func{}
		for _, fi := range c.P.Funcs() {
			if fi.Obj == sy.Obj {
				continue
			}
			if len(c.G.Callers(fi.Obj)) == 0 {
				entries = append(entries, fi.Obj)
			}
		}
		sort.Slice(entries, func(i, j int) bool { return entries[i].FullName() < entries[j].FullName() })
		from := map[*types.Func]*types.Func{}
		seen := map[*types.Func]bool{}
		work := append([]*types.Func{}, entries...)
		for _, e := range entries {
			seen[e] = true
		}
		for len(work) > 0 {
			f := work[0]
			work = work[1:]
			var ts []*types.Func
			for t := range c.G.Direct[f] {
				ts = append(ts, t)
			}
			sort.Slice(ts, func(i, j int) bool { return ts[i].FullName() < ts[j].FullName() })
			for _, t := range ts {
				if t == sy.Obj || seen[t] {
					continue
				}
				seen[t] = true
				from[t] = f
				work = append(work, t)
			}
		}
		writers := map[*types.Func]*effSiteRef{}
		var order []*types.Func
		for _, s := range c.G.Sites {
			if s.Class != "write" && s.Class != "event" {
				continue
			}
			fi := c.P.FuncInfoOf(s.Fn)
			if fi == nil || fi.Pkg.PkgPath != load.CtrlPkg {
				continue
			}
			if writers[s.Fn] == nil {
				writers[s.Fn] = &effSiteRef{s.Resource + "." + s.Verb}
				order = append(order, s.Fn)
			}
		}
		sort.Slice(order, func(i, j int) bool { return order[i].FullName() < order[j].FullName() })
		for _, w := range order {
			name := w.Name() + " [" + writers[w].what + "]"
			if !seen[w] {
				c.OK("C11.1-writers-called-only-through-sync", name, 0, "every call chain from an entry of the program to this writing function passes through sync")
				continue
			}
			var chain []string
			for f := w; f != nil; f = from[f] {
				chain = append([]string{f.Name()}, chain...)
			}
			c.Bad("C11.1-writers-called-only-through-sync", name, 0, "this writing function is reached without passing through sync (and its pause gate): "+strings.Join(chain, " -> "))
		}
		c.Floor("C11.1-writing-functions", len(order), 5)
	}
	// event handlers: no write, no event
	nh := 0
	for _, h := range []string{"addPod", "updatePod", "deletePod", "enqueueStatefulSet"} {
		fi := c.Func(load.CtrlPkg, "StatefulSetController."+h)
		if fi == nil {
			continue
		}
		nh++
		effs := c.G.Effects(fi.Obj, "write", "event")
		var ks []string
		for k := range effs {
			ks = append(ks, k)
		}
		sort.Strings(ks)
		c.Check(len(ks) == 0, "C11.1-handlers-do-not-write", h, fi.Decl.Pos(), "effect set contains no API write and no event (queue operations and cached reads only)", "an event handler can write: "+strings.Join(ks, ","))
	}
	c.Floor("C11.1-handlers", nh, 4)
	// the set-informer update handler literal
	if ctor := c.Func(load.CtrlPkg, "NewStatefulSetController"); ctor != nil {
		for _, s := range c.G.Sites {
			if s.Fn == ctor.Obj && (s.Class == "write") {
				c.Bad("C11.1-handlers-do-not-write", "NewStatefulSetController: "+s.String(), s.Call.Pos(), "the constructor or an inline handler performs an API write")
			}
		}
	}

	// C11.2 shared with C04.3
	if r := c.ReconcileRoles(); r != nil {
		var writes []*ast.CallExpr
		writes = append(writes, r.Creates...)
		writes = append(writes, r.Deletes...)
		writes = append(writes, r.Updates...)
		for i, w := range writes {
			name := siteName(r.FI.Obj.Name(), calleeShort(r.FI.Pkg.TypesInfo, w), i, w.Args[1])
			c.Implies(r.An.StateAtExpr(w), c.Want(r.Fn, w.Pos(), `$1.DeletionTimestamp == nil`, r.Set), "C11.2-deletion-gate", name, w.Pos())
		}
		c.Floor("C11.2-write-sites", len(writes), 5)
	}
	// C11.3 pods: the claim guards
	c.claimObjectGuardsAs("C11.3")
	// C11.3 revisions
	c.revisionAdoptionGate()
}

func (c *Ctx) claimObjectGuardsAs(prefix string) {
	n := len(c.Obs)
	c.claimObjectGuards()
	var keep []*Ob
	for _, o := range c.Obs[n:] {
		if strings.Contains(o.Rule, "owner-not-deleting") {
			o.Rule = prefix + strings.TrimPrefix(o.Rule, "C10.2")
			keep = append(keep, o)
		}
	}
	c.Obs = append(c.Obs[:n], keep...)
	if len(keep) < 2 {
		c.Fail("claim guards: fewer than 2 owner-not-deleting obligations")
	}
}

// pausedHelper: returns true only for the pause annotation with value "true".
func (c *Ctx) pausedHelper(paused *types.Func) {
	fi := c.P.FuncInfoOf(paused)
	if fi == nil {
		c.Fail("GetPausedReconcile has no body")
		return
	}
	fn, _ := c.Analysis(fi)
	info := fi.Pkg.TypesInfo
	keyConst, _ := c.P.Lookup(load.HelperPkg, "PausedReconcileAnn").(*types.Const)
	if keyConst == nil {
		c.Fail("helper.PausedReconcileAnn does not resolve")
		return
	}
	n := 0
	// the whole helper as one expression: `return X.GetAnnotations()[PausedReconcileAnn] == "true"` (a missing key or
	// a nil map reads as "", so both directions hold by the semantics of map indexing)
	if len(fi.Decl.Body.List) == 1 {
		if ret, ok := fi.Decl.Body.List[0].(*ast.ReturnStmt); ok && len(ret.Results) == 1 {
			if be, ok := ast.Unparen(ret.Results[0]).(*ast.BinaryExpr); ok && be.Op == token.EQL {
				ix, isIx := ast.Unparen(be.X).(*ast.IndexExpr)
				other := be.Y
				if !isIx {
					ix, isIx = ast.Unparen(be.Y).(*ast.IndexExpr)
					other = be.X
				}
				if isIx && fn.Term(other).Key() == gf.ConstStr("true").Key() {
					if tv, ok := info.Types[ix.Index]; ok && tv.Value != nil && tv.Value.ExactString() == keyConst.Val().ExactString() {
						if call, ok := ast.Unparen(ix.X).(*ast.CallExpr); ok {
							if sel, ok := call.Fun.(*ast.SelectorExpr); ok && sel.Sel.Name == "GetAnnotations" {
								c.OK("C11.1-paused-means-annotation-true", "GetPausedReconcile: "+types.ExprString(ret.Results[0]), ret.Pos(), `the helper is exactly annotations["paused-reconcile"] == "true"`)
								c.OK("C11.1-annotation-true-means-paused", "GetPausedReconcile: "+types.ExprString(ret.Results[0]), ret.Pos(), `the helper is exactly annotations["paused-reconcile"] == "true"`)
								return
							}
						}
					}
				}
			}
		}
	}
	// in general: at every return, a true result implies annotations[key] == "true" and a false one implies
	// annotations[key] != "true" (or a nil map), annotations being GetAnnotations() of the parameter. Decided on the
	// helper together with what the engine expands into it (a lookup helper).
	params := fi.Decl.Type.Params.List
	if len(params) != 1 || len(params[0].Names) != 1 {
		c.Unk("C11.1-paused-means-annotation-true", "GetPausedReconcile", fi.Decl.Pos(), "the helper does not take exactly one object")
		return
	}
	mapT := c.TryWantTerm(fn, fi.Decl.Body.Lbrace+1, "$1.GetAnnotations()", params[0].Names[0])
	if mapT == nil {
		c.Unk("C11.1-paused-means-annotation-true", "GetPausedReconcile", fi.Decl.Pos(), "GetAnnotations() of the parameter does not type-check")
		return
	}
	val := gf.Index(mapT, gf.ConstStr(constant.StringVal(keyConst.Val())), types.Typ[types.String])
	isTrue := gf.FEq(val, gf.ConstStr("true"))
	fn.KeepDead = true
	an := fn.Analyze(nil)
	fn.KeepDead = false
	nf := 0
	ownNodes(fi.Decl.Body, func(x ast.Node) {
		ret, ok := x.(*ast.ReturnStmt)
		if !ok || len(ret.Results) != 1 {
			return
		}
		st := an.StateBefore(ret)
		if !st.Reachable() {
			return
		}
		r := fn.Formula(ret.Results[0])
		if yes := st.Assume(r); yes.Reachable() {
			n++
			c.Implies(yes, isTrue, "C11.1-paused-means-annotation-true", "GetPausedReconcile: return "+types.ExprString(ret.Results[0])+" (true)", ret.Pos())
		}
		if no := st.Assume(gf.Not(r)); no.Reachable() {
			nf++
			c.Implies(no, gf.Or(gf.Not(isTrue), gf.FNil(mapT)), "C11.1-annotation-true-means-paused", "GetPausedReconcile: return "+types.ExprString(ret.Results[0])+" (false)", ret.Pos())
		}
	})
	c.Floor("C11.1-paused-true-returns", n, 1)
	c.Floor("C11.1-paused-false-returns", nf, 1)
}

// assignedFrom returns the single right-hand side assigned to identifier e in fi (nil if none or several).
func assignedFrom(fi *load.FuncInfo, info *types.Info, e ast.Expr) ast.Expr {
	id, ok := ast.Unparen(e).(*ast.Ident)
	if !ok {
		return nil
	}
	var rhs ast.Expr
	n := 0
	ast.Inspect(fi.Decl.Body, func(y ast.Node) bool {
		if as, ok := y.(*ast.AssignStmt); ok && len(as.Lhs) == len(as.Rhs) {
			for i, l := range as.Lhs {
				if lid, ok := l.(*ast.Ident); ok && info.ObjectOf(lid) == info.ObjectOf(id) {
					rhs = as.Rhs[i]
					n++
				}
			}
		}
		return true
	})
	if n != 1 {
		return nil
	}
	return rhs
}

// revisionAdoptionGate: C11.3 for ControllerRevisions. Decided on adoptOrphanRevisions together with the helpers the
// engine expands into it: every call there that writes (and is not itself expanded) is reached only with
// fresh.UID == set.UID and fresh.DeletionTimestamp == nil, fresh being the result of the uncached Get.
func (c *Ctx) revisionAdoptionGate() {
	fi := c.Func(load.CtrlPkg, "StatefulSetController.adoptOrphanRevisions")
	if fi == nil {
		return
	}
	fn, an := c.Analysis(fi)
	info := fi.Pkg.TypesInfo
	sets := paramsOfType(fi, load.APIPkg, "StatefulSet")
	if len(sets) != 1 {
		c.Fail("adoptOrphanRevisions: set parameter not found")
		return
	}
	// the fresh object: result of the uncached Get in this function or in a helper expanded into it
	var fresh *ast.Ident
	var freshAt token.Pos
	for _, s := range c.sitesOf(fi) {
		if s.Class == "read" && s.Resource == "statefulsets.pingcap" && s.Verb == "Get" {
			k := 0
			if s.Helper != nil {
				k = c.resultIndexOf(s.Helper, s.Call, 0)
			}
			if as, ok := stmtOf(fi.Decl.Body, s.Top).(*ast.AssignStmt); ok && k >= 0 && k < len(as.Lhs) && len(as.Rhs) == 1 {
				fresh, _ = as.Lhs[k].(*ast.Ident)
				freshAt = as.End()
			}
		}
	}
	if fresh == nil {
		for _, bd := range fn.Bodies()[1:] {
			for _, call := range callsIn(bd, false) {
				for _, s := range c.G.Sites {
					if s.Call == call && s.Class == "read" && s.Resource == "statefulsets.pingcap" && s.Verb == "Get" {
						if as, ok := stmtOf(bd, call).(*ast.AssignStmt); ok && len(as.Rhs) == 1 && len(as.Lhs) == 2 {
							fresh, _ = as.Lhs[0].(*ast.Ident)
							freshAt = as.End()
						}
					}
				}
			}
		}
	}
	if fresh == nil {
		c.Bad("C11.3-revision-adoption-gate", fi.Obj.Name(), fi.Decl.Pos(), "no uncached read of the set precedes revision adoption")
		return
	}
	// each side of the gate is read in its own scope (the fresh object may live in an expanded helper)
	fUID, fDel := c.TryWantTerm(fn, freshAt, "$1.UID", fresh), c.TryWantTerm(fn, freshAt, "$1.DeletionTimestamp", fresh)
	sUID := c.TryWantTerm(fn, fi.Decl.Body.Lbrace+1, "$1.UID", sets[0])
	if fUID == nil || fDel == nil || sUID == nil {
		c.Unk("C11.3-revision-adoption-gate", fi.Obj.Name(), fi.Decl.Pos(), "the UID / deletion timestamp of the fresh object or of the set cannot be read")
		return
	}
	gate := gf.And(gf.FEq(fUID, sUID), gf.FNil(fDel))
	n := 0
	for _, bd := range fn.Bodies() {
		for _, call := range callsIn(bd, false) {
			if fn.IsExpandedCall(call) {
				continue // its body is looked at itself
			}
			var effs []string
			for _, t := range c.G.CallTargets(info, call) {
				for k := range c.G.Effects(t, "write") {
					effs = append(effs, k)
				}
			}
			for _, s := range c.G.Sites {
				if s.Call == call && s.Class == "write" {
					effs = append(effs, s.Resource+"."+s.Verb)
				}
			}
			if len(effs) == 0 {
				continue
			}
			sort.Strings(effs)
			for i, st := range an.StatesAtExpr(call) {
				n++
				name := fmt.Sprintf("%s: %s [effects: %s]", fi.Obj.Name(), clip(types.ExprString(call.Fun), 50), strings.Join(effs, ","))
				if i > 0 {
					name += fmt.Sprintf(" #%d", i+1)
				}
				c.Implies(st, gate, "C11.3-revision-adoption-gate", name, call.Pos())
			}
		}
	}
	c.Floor("C11.3-revision-writes-in-adoption", n, 2)
}

type effSiteRef struct{ what string }

// refusedAdoptionEndsTheSync: the adoption of orphan revisions starts with the uncached look at the set; when that look
// finds the set deleted (or gone, or replaced) it says so through its error, and that is the only way the rest of the
// sync -- which works on the cached copy, where the deletion timestamp may not have arrived yet -- gets to know. So where
// that call has returned an error, neither the pod claim nor the reconcile proper is reachable.
func (c *Ctx) refusedAdoptionEndsTheSync(sy *load.FuncInfo) {
	const rule = "C11.1-refused-adoption-ends-the-sync"
	adopt := c.Func(load.CtrlPkg, "StatefulSetController.adoptOrphanRevisions")
	if adopt == nil {
		return
	}
	fn, an := c.Analysis(sy)
	info := sy.Pkg.TypesInfo
	n := 0
	for _, bd := range fn.Bodies() {
		for _, call := range callsIn(bd, true) {
			if f := gf.StaticCallee(info, call); f == nil || f.Origin() != adopt.Obj {
				continue
			}
			n++
			var as *ast.AssignStmt
			switch st := stmtOf(bd, call).(type) {
			case *ast.AssignStmt:
				as = st
			case *ast.IfStmt:
				as, _ = st.Init.(*ast.AssignStmt)
			}
			if as == nil || len(as.Rhs) != 1 || ast.Unparen(as.Rhs[0]) != ast.Expr(call) {
				c.Bad(rule, "sync: adoptOrphanRevisions(…)", call.Pos(), "the error of the adoption is not bound to a variable: its refusal cannot stop anything")
				continue
			}
			errF := gf.FNotNil(fn.Term(as.Lhs[len(as.Lhs)-1]))
			aE := fn.FromAfter(as, an.StateAfter(as).Assume(errF))
			k := 0
			for _, bd2 := range fn.Bodies() {
				for _, t := range callsIn(bd2, true) {
					f := gf.StaticCallee(info, t)
					if f == nil || (f.Name() != "syncStatefulSet" && f.Name() != "getPodsForStatefulSet") {
						continue
					}
					k++
					c.Check(!aE.StateAtExpr(t).Reachable(), rule, fmt.Sprintf("sync: %s after a refused adoption", f.Name()), t.Pos(), "unreachable when adoptOrphanRevisions returned an error",
						"the sync goes on after adoptOrphanRevisions has returned an error: when that error says the set has just been deleted, pods and claims are still created, deleted or adopted for it on the strength of the stale cached copy")
				}
			}
			if k == 0 {
				c.Bad(rule, "sync", call.Pos(), "the pod claim and the reconcile are not called from sync directly")
			}
		}
	}
	c.Floor(rule+"-adoption-calls", n, 1)
}
