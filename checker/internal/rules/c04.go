package rules

import (
	"fmt"
	"go/ast"
	"go/token"
	"go/types"

	"asverif/internal/gf"
	"asverif/internal/load"

	"golang.org/x/tools/go/cfg"
)

func init() {
	register(&Property{
		ID:    "C04",
		Title: "Pods are created only at vacant desired ordinals",
		Run:   runC04,
		Explanation: "Decides clauses C04.1-C04.4 of DESIGN.md on the current source: (1) every call of the pod-create primitive takes a cell of the wanted slice W whose facts contain Status.Phase == \"\" (a pod built by the constructor, never an observed one); " +
			"(2) the versioned constructor's results flow only into W, and only (i) at an index with W[k]==nil, 0<=k<bound, k not an effective slot or (ii) in place of a Failed/Succeeded pod of the same cell; W is made with the helper's bound and the helper is fed *spec.replicas; " +
			"(3) every pod/claim write site of the reconcile function is dominated by set.DeletionTimestamp == nil; (4) the raw Pods().Create primitive has only the allowed callers. " +
			"(5) in the loop over the observed pods an iteration ends without storing the pod in the wanted slice or appending it to the condemned slice only when getOrdinal(pod) < 0; the helper-walk rules of C01.3 are evaluated as a clause (without the int32 overflow rule). NOT decided: that the snapshot is the reachable one; that the helper's bound and slots are arithmetically right (C01).",
	})
}

// podReady builds Running ∧ Ready for a pod expression from API fields (not from the controller's own predicate helpers).
func (c *Ctx) podReady(fn *gf.Fn, pos token.Pos, cell ast.Expr) *gf.Formula {
	running := c.Want(fn, pos, `$1.Status.Phase == "Running"`, cell)
	st := c.WantTerm(fn, pos, `$1.Status`, cell)
	if st == nil {
		return gf.False
	}
	ready := gf.FBool(gf.CallT(load.K8sPkg+".IsPodReadyConditionTrue", types.Typ[types.Bool], st))
	return gf.And(running, ready)
}

func (c *Ctx) podHealthy(fn *gf.Fn, pos token.Pos, cell ast.Expr) *gf.Formula {
	return gf.And(c.podReady(fn, pos, cell), c.Want(fn, pos, `$1.DeletionTimestamp == nil`, cell))
}

func runC04(c *Ctx) {
	r := c.ReconcileRoles()
	if r == nil {
		return
	}
	fn, an := r.Fn, r.An
	info := r.FI.Pkg.TypesInfo
	c.Floor("C04.1-create-sites", len(r.Creates), 1)
	c.slotSetIsReadOnly(r)
	// "only at vacant desired ordinals": vacant is judged on the pods the reconcile is handed, so it is handed every pod of
	// the set the store holds -- finished and terminating ones too -- straight from the full listing through the claim
	// (the listing rule of C10.1, as a clause of this property)
	c.withOnly(map[string]string{"C10.1-claim-sees-every-pod": "C04.3-the-reconcile-sees-every-pod-of-the-set"}, nil, "C04.3-pod-listing", 1, c.claimConstruction)
	c.everyObservedPodIsPlaced(r, "C04.5-every-observed-pod-is-placed")
	// the desired set the reconcile works on is the helper's: its walk over the delete slots (C01.3) decides
	// which ordinals are wanted and which are condemned
	c.skipWrap = true
	c.helperChain()
	c.boundComputation()
	c.skipWrap = false
	for i, cr := range r.Creates {
		arg := cr.Args[1]
		name := siteName(r.FI.Obj.Name(), "CreateStatefulPod", i, arg)
		id := rootIdent(arg)
		_, isIdx := ast.Unparen(arg).(*ast.IndexExpr)
		if id == nil || info.ObjectOf(id) != r.W || !isIdx {
			c.Bad("C04.1-create-arg", name, cr.Pos(), "the created pod is not a cell of the wanted slice")
			continue
		}
		c.OK("C04.1-create-arg", name, cr.Pos(), "argument is a cell of the wanted slice "+r.W.Name())
		st := an.StateAtExpr(cr)
		c.Implies(st, c.Want(fn, cr.Pos(), `$1.Status.Phase == ""`, arg), "C04.1-create-uncreated", name, cr.Pos())
	}
	// C04.2 constructor results flow only into W
	nCtor := 0
	for _, fi := range c.P.Funcs() {
		if fi.Pkg.PkgPath != load.CtrlPkg {
			continue
		}
		finfo := fi.Pkg.TypesInfo
		ast.Inspect(fi.Decl.Body, func(n ast.Node) bool {
			call, ok := n.(*ast.CallExpr)
			if !ok || gf.StaticCallee(finfo, call) != r.Ctor {
				return true
			}
			nCtor++
			name := fmt.Sprintf("%s: %s(...)[%d]", fi.Obj.Name(), r.Ctor.Name(), nCtor)
			okStore := false
			if fi == r.FI {
				if as, ok := stmtOf(fi.Decl.Body, call).(*ast.AssignStmt); ok && len(as.Lhs) == 1 && len(as.Rhs) == 1 && ast.Unparen(as.Rhs[0]) == ast.Expr(call) {
					if ix, ok := ast.Unparen(as.Lhs[0]).(*ast.IndexExpr); ok {
						if id := rootIdent(ix.X); id != nil && finfo.ObjectOf(id) == r.W {
							okStore = true
						}
					}
				}
			}
			c.Check(okStore, "C04.2-fresh-only-into-W", name, call.Pos(), "result stored directly into a cell of the wanted slice (context checked by C04.2-fresh-context)",
				"a freshly constructed pod flows somewhere other than a cell of the wanted slice")
			return true
		})
	}
	c.Floor("C04.2-constructor-calls", nCtor, 2)
	c.storeClassesAs(r, "C04.2")
	c.boundIsHelperResult(r, "C04.2-bound")

	// C04.3 deletion gate
	var writes []*ast.CallExpr
	writes = append(writes, r.Creates...)
	writes = append(writes, r.Deletes...)
	writes = append(writes, r.Updates...)
	for i, w := range writes {
		name := siteName(r.FI.Obj.Name(), calleeShort(info, w), i, w.Args[1])
		c.Implies(an.StateAtExpr(w), c.Want(fn, w.Pos(), `$1.DeletionTimestamp == nil`, r.Set), "C04.3-deletion-gate", name, w.Pos())
	}
	c.Floor("C04.3-write-sites", len(writes), 5)
	// no other API write syntactically inside the reconcile function
	for _, s := range c.G.Sites {
		if s.Fn == r.FI.Obj && s.Class == "write" {
			c.Bad("C04.3-deletion-gate", s.String(), s.Call.Pos(), "a raw API write inside the reconcile function bypasses the pod control")
		}
	}

	// C04.4 who may create
	c.whoMayCall("C04.4-who-may-create", "pods", []string{"Create"},
		map[string]string{
			"(*" + load.CtrlPkg + ".realStatefulPodControl).CreateStatefulPod": "the real pod control's create method",
			"(" + load.K8sPkg + ".RealPodControl).createPods":                  "copied upstream helper, unreachable from the controller (checked below)",
		}, 2)
	c.unreachableFromController("C04.4-unreachable", []string{"(" + load.K8sPkg + ".RealPodControl).createPods", "(" + load.K8sPkg + ".RealPodControl).CreatePods",
		"(" + load.K8sPkg + ".RealPodControl).CreatePodsWithGenerateName"}, nil)
	// CreateStatefulPod itself is called only from the reconcile function
	for _, caller := range c.G.Callers(c.Func(load.CtrlPkg, "realStatefulPodControl.CreateStatefulPod").Obj) {
		c.Check(caller == r.FI.Obj, "C04.4-create-callers", caller.FullName(), 0, "only caller of the pod control's create method is the reconcile function",
			"the pod control's create method has an additional caller")
	}
}

func calleeShort(info *types.Info, call *ast.CallExpr) string {
	if f := gf.StaticCallee(info, call); f != nil {
		return pinnedName(f)
	}
	return "?"
}

// storeClassesAs re-evaluates the store classes under another rule prefix (shared clause).
func (c *Ctx) storeClassesAs(r *Reconcile, prefix string) {
	n := len(c.Obs)
	c.storeClasses(r)
	for _, o := range c.Obs[n:] {
		if len(o.Rule) > 5 && o.Rule[:5] == "C03.1" {
			o.Rule = prefix + o.Rule[5:]
		}
	}
}

// everyObservedPodIsPlaced: in the loop over the observed pods, an iteration goes on to the next pod
// without having stored the pod in the wanted slice or appended it to the condemned slice only
// when the pod's name gives no ordinal (getOrdinal < 0). A pod that is neither wanted nor condemned
// is invisible to the rest of the reconcile: its ordinal looks vacant and a second pod is created for it.
func (c *Ctx) everyObservedPodIsPlaced(r *Reconcile, rule string) {
	fn, an := r.Fn, r.An
	info := r.FI.Pkg.TypesInfo
	var census *ast.RangeStmt
	ast.Inspect(r.FI.Decl.Body, func(n ast.Node) bool {
		if rs, ok := n.(*ast.RangeStmt); ok && census == nil {
			if id, ok := ast.Unparen(rs.X).(*ast.Ident); ok && info.ObjectOf(id) == info.ObjectOf(r.Pods) {
				census = rs
			}
		}
		return true
	})
	if census == nil {
		c.Fail("loop over the observed pods not found")
		return
	}
	cell := loopCell(census)
	body := loopBlock(fn, census, cfg.KindRangeBody)
	head := loopHead(fn, census)
	if cell == nil || body == nil || head == nil || len(body.Nodes) == 0 {
		c.Fail("observed-pods loop: cell / body / head not resolved")
		return
	}
	cellKey := fn.Term(cell).Key()
	// placements of the iteration's pod
	var places []ast.Node
	ast.Inspect(census.Body, func(n ast.Node) bool {
		as, ok := n.(*ast.AssignStmt)
		if !ok || len(as.Lhs) != 1 || len(as.Rhs) != 1 {
			return true
		}
		if id := rootIdent(as.Lhs[0]); id != nil {
			switch info.ObjectOf(id) {
			case r.W:
				if _, isIdx := ast.Unparen(as.Lhs[0]).(*ast.IndexExpr); isIdx && fn.Term(as.Rhs[0]).Key() == cellKey {
					places = append(places, as)
				}
			case r.K:
				if call, ok := as.Rhs[0].(*ast.CallExpr); ok {
					if fid, _ := call.Fun.(*ast.Ident); fid != nil && fid.Name == "append" {
						for _, x := range call.Args[1:] {
							if fn.Term(x).Key() == cellKey {
								places = append(places, as)
							}
						}
					}
				}
			}
		}
		return true
	})
	c.Floor(rule+"-placements", len(places), 2)
	aU := fn.FromUntil(body.Nodes[0], an.In[body.Index], places...)
	name := r.FI.Obj.Name() + ": observed-pods loop iteration"
	noOrd := c.Want(fn, census.Body.Pos(), "getOrdinal($1) < 0", cell)
	n := 0
	for _, b := range fn.CFG.Blocks {
		if !b.Live {
			continue
		}
		for i, sx := range b.Succs {
			if sx != head || b == head {
				continue
			}
			es := aU.EdgeStates(b)
			if i >= len(es) || !es[i].Reachable() {
				continue
			}
			n++
			c.Implies(es[i], noOrd, rule, fmt.Sprintf("%s back-edge[%d]", name, n-1), census.Pos())
		}
	}
	// leaving the loop from inside an iteration (break/return) is a skip too
	ast.Inspect(census.Body, func(x ast.Node) bool {
		if ret, ok := x.(*ast.ReturnStmt); ok && aU.StateBefore(ret).Reachable() {
			c.Bad(rule, name+": return", ret.Pos(), "the loop over the observed pods can be left before the pod of the iteration is placed")
		}
		return true
	})
	if n == 0 {
		c.OK(rule, name, census.Pos(), "no iteration ends without the pod having been stored in the wanted slice or appended to the condemned slice")
	}
}

// everyVacancyIsFilled: every desired ordinal that holds no observed pod gets a fresh pod object before the wanted
// loop runs (the wanted loop skips empty cells). (a) the fill loop is passed on every path from the function's entry
// to the wanted loop; (b) it walks ord = 0, 1, ... while ord < bound; (c) an iteration for an ordinal that is no slot
// and whose cell is empty does not end without the store.
func (c *Ctx) everyVacancyIsFilled(r *Reconcile, rule string) {
	fn, an := r.Fn, r.An
	info := r.FI.Pkg.TypesInfo
	if r.WLoop == nil {
		return
	}
	var store *ast.AssignStmt
	ownNodes(r.FI.Decl.Body, func(n ast.Node) {
		as, ok := n.(*ast.AssignStmt)
		if !ok || len(as.Lhs) != 1 || len(as.Rhs) != 1 || contains(r.WLoop, as) {
			return
		}
		ix, ok := ast.Unparen(as.Lhs[0]).(*ast.IndexExpr)
		if !ok {
			return
		}
		if id := rootIdent(ix.X); id == nil || info.ObjectOf(id) != r.W {
			return
		}
		if call, ok := ast.Unparen(as.Rhs[0]).(*ast.CallExpr); ok && gf.StaticCallee(info, call) == r.Ctor {
			store = as
		}
	})
	name := r.FI.Obj.Name() + ": vacancy fill"
	if store == nil {
		c.Bad(rule, name, r.WLoop.Pos(), "no loop stores fresh pods into the empty cells of the wanted slice before the wanted loop")
		return
	}
	outer := innermostLoop(r.FI.Decl.Body, store)
	// the fill loop runs to its end: no break out of it, no return in it
	if lb := loopBody(outer); lb != nil {
		early := ""
		ownNodes(lb, func(y ast.Node) {
			switch b := y.(type) {
			case *ast.BranchStmt:
				if b.Tok == token.BREAK && innermostBreakTarget(lb, b) == nil {
					early = "a break at " + c.P.Pos(b.Pos())
				}
			case *ast.ReturnStmt:
				early = "a return at " + c.P.Pos(b.Pos())
			}
		})
		c.Check(early == "", rule, name+": runs to the end", outer.Pos(), "no early exit from the fill loop", "the fill loop can be left early ("+early+"): the vacant ordinals behind that point get no pod")
	}
	entry := r.FI.Decl.Body.List[0]
	whead := loopHead(fn, r.WLoop)
	// `for ord := range replicas`: every index of the wanted slice, by construction
	if rl, isRange := outer.(*ast.RangeStmt); isRange {
		rid, okRoot := ast.Unparen(rl.X).(*ast.Ident)
		ord, okKey := rl.Key.(*ast.Ident)
		if !okRoot || info.ObjectOf(rid) != r.W || !okKey || ord.Name == "_" || len(rl.Body.List) == 0 {
			c.Unk(rule, name, store.Pos(), "the fill loop ranges over something other than the whole wanted slice by index")
			return
		}
		aU := fn.FromUntil(entry, gf.TrueState(), rl.Body.List[0])
		// (reaching the wanted loop with the fill loop's body never entered is fine only for an empty wanted slice: the range is unconditional)
		top := topIndex(r.FI.Decl.Body, rl)
		c.Check(top >= 0 && r.FI.Decl.Body.List[top] == ast.Stmt(rl) && whead != nil, rule, name+": always run", rl.Pos(), "an unconditional range over the wanted slice before the wanted loop",
			"the fill loop is nested in a condition: vacant desired ordinals can stay empty")
		_ = aU
		c.OK(rule, name+": walk", rl.Pos(), "range over every index of the wanted slice")
		start := rl.Body.List[0]
		vac := c.Want(fn, rl.Body.Pos(), "$1[$2] == nil && !$3.Has(int32($2))", &ast.Ident{Name: r.W.Name()}, ord, r.Slots)
		aF := fn.FromUntil(start, an.StateBefore(start).Assume(vac), store)
		h := loopHead(fn, rl)
		c.Check(h != nil && !aF.BlockReached(h), rule, name+": every empty desired cell", store.Pos(), "an iteration for a vacant desired ordinal does not end without the store",
			"an iteration for a vacant desired ordinal can end without a pod object being stored: nothing is created there")
		return
	}
	loop, _ := outer.(*ast.ForStmt)
	if loop == nil {
		c.Unk(rule, name, store.Pos(), "the fill store is not in a loop")
		return
	}
	// (a) passed on every path to the wanted loop
	var first ast.Node = loop
	if loop.Init != nil {
		first = loop.Init
	}
	aU := fn.FromUntil(entry, gf.TrueState(), first)
	c.Check(whead != nil && !aU.BlockReached(whead), rule, name+": always run", loop.Pos(), "the wanted loop is reached only through the fill loop",
		"the wanted loop can be reached without the fill loop having run: vacant desired ordinals stay empty and no pod is created for them in this reconcile")
	// (b) the walk
	okWalk := false
	var ord *ast.Ident
	if init, ok := loop.Init.(*ast.AssignStmt); ok && len(init.Lhs) == 1 && len(init.Rhs) == 1 {
		ord, _ = init.Lhs[0].(*ast.Ident)
		if ord != nil && fn.Term(init.Rhs[0]).Key() == gf.ConstInt(0).Key() && loop.Cond != nil && r.Bound != nil {
			want := c.Want(fn, loop.Body.Pos(), "$1 < $2", ord, r.Bound)
			if inc, ok := loop.Post.(*ast.IncDecStmt); ok && inc.Tok == token.INC && fn.Term(inc.X).Key() == fn.Term(ord).Key() && fn.Formula(loop.Cond).Key() == want.Key() {
				okWalk = true
			}
		}
	}
	c.Check(okWalk, rule, name+": walk", loop.Pos(), "ord = 0; ord < bound; ord++", "the fill loop does not walk every ordinal below the bound")
	// (c) an empty non-slot cell is filled
	if ord != nil && len(loop.Body.List) > 0 {
		start := loop.Body.List[0]
		vac := c.Want(fn, loop.Body.Pos(), "$1[$2] == nil && !$3.Has(int32($2))", &ast.Ident{Name: r.W.Name()}, ord, r.Slots)
		aF := fn.FromUntil(start, an.StateBefore(start).Assume(vac), store)
		post := loopBlock(fn, loop, cfg.KindForPost)
		reached := post != nil && aF.BlockReached(post)
		if post == nil {
			if h := loopHead(fn, loop); h != nil {
				reached = aF.BlockReached(h)
			}
		}
		c.Check(!reached, rule, name+": every empty desired cell", store.Pos(), "an iteration for a vacant desired ordinal does not end without the store",
			"an iteration for a vacant desired ordinal can end without a pod object being stored: nothing is created there")
	}
}

// slotSetIsReadOnly: the effective slot set the helper returned says, for the whole pass, which ordinals are not to be
// filled: nothing in the reconcile function takes an element out of it or puts one in -- neither through the variable
// nor through a copy of the variable (a sets.Int32 is a map: the copy is the same set).
func (c *Ctx) slotSetIsReadOnly(r *Reconcile) {
	const rule = "C04.2-slot-set-is-read-only"
	info := r.FI.Pkg.TypesInfo
	alias := map[types.Object]bool{info.ObjectOf(r.Slots): true}
	for changed := true; changed; {
		changed = false
		for _, bd := range r.Fn.Bodies() {
			ast.Inspect(bd, func(x ast.Node) bool {
				as, ok := x.(*ast.AssignStmt)
				if !ok || len(as.Lhs) != len(as.Rhs) {
					return true
				}
				for i, l := range as.Lhs {
					lid, ok := l.(*ast.Ident)
					rid, ok2 := ast.Unparen(as.Rhs[i]).(*ast.Ident)
					if ok && ok2 && alias[info.ObjectOf(rid)] && info.ObjectOf(lid) != nil && !alias[info.ObjectOf(lid)] {
						alias[info.ObjectOf(lid)] = true
						changed = true
					}
				}
				return true
			})
		}
	}
	readOnly := map[string]bool{"Has": true, "HasAll": true, "HasAny": true, "Len": true, "List": true, "UnsortedList": true, "Equal": true, "IsSuperset": true,
		"Difference": true, "Union": true, "Intersection": true}
	n := 0
	for _, bd := range r.Fn.Bodies() {
		ast.Inspect(bd, func(x ast.Node) bool {
			switch y := x.(type) {
			case *ast.CallExpr:
				if sel, ok := y.Fun.(*ast.SelectorExpr); ok {
					if id, ok := ast.Unparen(sel.X).(*ast.Ident); ok && alias[info.ObjectOf(id)] {
						n++
						c.Check(readOnly[sel.Sel.Name], rule, fmt.Sprintf("%s: %s.%s(…)", r.FI.Obj.Name(), id.Name, sel.Sel.Name), y.Pos(), "a read",
							"the effective slot set is changed in the middle of the pass (through "+id.Name+"): an ordinal the annotation lists is then filled, or one it does not list is left empty")
					}
				}
				if id, ok := y.Fun.(*ast.Ident); ok && id.Name == "delete" && len(y.Args) == 2 {
					if a, ok := ast.Unparen(y.Args[0]).(*ast.Ident); ok && alias[info.ObjectOf(a)] {
						n++
						c.Bad(rule, fmt.Sprintf("%s: delete(%s, …)", r.FI.Obj.Name(), a.Name), y.Pos(), "an element is taken out of the effective slot set in the middle of the pass")
					}
				}
			case *ast.AssignStmt:
				for _, l := range y.Lhs {
					if ix, ok := ast.Unparen(l).(*ast.IndexExpr); ok {
						if a, ok := ast.Unparen(ix.X).(*ast.Ident); ok && alias[info.ObjectOf(a)] {
							n++
							c.Bad(rule, fmt.Sprintf("%s: %s[…] = …", r.FI.Obj.Name(), a.Name), y.Pos(), "an element is put into the effective slot set in the middle of the pass")
						}
					}
				}
			}
			return true
		})
	}
	c.Floor(rule+"-uses", n, 2)
}
