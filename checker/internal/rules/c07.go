package rules

import (
	"fmt"
	"go/ast"
	"go/types"

	"asverif/internal/gf"
	"asverif/internal/load"
)

func init() {
	register(&Property{
		ID:    "C07",
		Title: "Rolling update honours partition, goes highest-first; OnDelete never restarts",
		Run:   runC07,
		Explanation: "Decides clauses C07.1-C07.4 of DESIGN.md: (1) the update delete has the facts strategy != OnDelete, revision(cell) != update revision, not terminating, and index >= partition (under RollingUpdate != nil and Partition != nil) with 0 <= index < len; the wanted-slice invariant ordinal == index comes from the store classes; " +
			"(2) the walk starts at len-1, only decreases, continues to a lower index only past nil or a pod at the update revision that is Running, Ready and not terminating, and the delete is followed by return on every path; " +
			"(3) no other delete site's guard mentions the revision label; (4) in the versioned constructor the branch that builds from the current set holds exactly under (RollingUpdate==nil ∧ type RollingUpdate ∧ ordinal < status.currentReplicas) ∨ (RollingUpdate!=nil ∧ Partition!=nil ∧ ordinal < partition), each branch pairs a set with its own revision name, stamps the revision label on the returned pod and passes its own ordinal parameter. " +
			"NOT decided: kubelet schedules; that 'at most one pod is down' across reconciles (it follows from (2) per reconcile plus cache consistency, which is not decided).",
	})
}

func runC07(c *Ctx) {
	r := c.ReconcileRoles()
	if r == nil {
		return
	}
	if r.ULoop == nil {
		c.Fail("update walk not resolved")
		return
	}
	fn, an := r.Fn, r.An
	info := r.FI.Pkg.TypesInfo
	nC := 0
	for i, d := range r.Deletes {
		name := siteName(r.FI.Obj.Name(), "DeleteStatefulPod", i, d.Args[1])
		st := an.StateAtExpr(d)
		if !contains(r.ULoop, d) {
			// C07.3: the revision label plays no role at the other delete sites
			rev := false
			if r.GetPodRevision != nil {
				rev = st.Mentions(func(t *gf.Term) bool { return t.K == 'k' && t.Fn == r.GetPodRevision })
			}
			c.Check(!rev, "C07.3-revision-only-guards-the-update-delete", name, d.Pos(), "no guard fact at this delete mentions the pod's revision label",
				"a delete outside the update walk is guarded by the pod's revision: a pod may be deleted because of its revision under any strategy")
			continue
		}
		nC++
		cell, _ := ast.Unparen(d.Args[1]).(*ast.IndexExpr)
		if cell == nil || rootIdent(cell) == nil || info.ObjectOf(rootIdent(cell)) != r.W {
			c.Bad("C07.1-update-delete-class", name, d.Pos(), "the update walk deletes something that is not a cell of the wanted slice")
			continue
		}
		c.Implies(st, c.Want(fn, d.Pos(), `$1.Spec.UpdateStrategy.Type != "OnDelete"`, r.Set), "C07.3-not-under-OnDelete", name, d.Pos())
		c.Implies(st, c.Want(fn, d.Pos(), `getPodRevision($1) != $2.Name`, cell, r.UpdRev), "C07.1-outdated-only", name, d.Pos())
		c.Implies(st, c.Want(fn, d.Pos(), `$1 != nil && $1.DeletionTimestamp == nil`, cell), "C07.1-not-terminating", name, d.Pos())
		c.Implies(st, c.Want(fn, d.Pos(), `$1.Spec.UpdateStrategy.RollingUpdate == nil || $1.Spec.UpdateStrategy.RollingUpdate.Partition == nil || $2 >= int(*$1.Spec.UpdateStrategy.RollingUpdate.Partition)`, r.Set, cell.Index),
			"C07.1-at-or-above-partition", name, d.Pos())
		c.Implies(st, c.Want(fn, d.Pos(), `0 <= $1 && $1 < len($2)`, cell.Index, cell.X), "C07.1-index-in-range", name, d.Pos())
		// followed by return: nothing else is written after it
		c.oneOrdinal(r, an, podWrite{d, "delete", name}, "C07.2-delete-then-return")
	}
	c.Floor("C07.1-update-delete-sites", nC, 1)
	c.walkCoversPartition(r, "C07.2-walk-reaches-down-to-partition")
	c.updateWalkContinue(r, an, "C07.2-walk-continue")
	c.storeClassesAs(r, "C07.1-ordinal-is-index")
	c.versionedConstructor(r)
}

// versionedConstructor checks C07.4 / C06.1a on newVersionedStatefulSetPod.
func (c *Ctx) versionedConstructor(r *Reconcile) {
	fi := c.P.FuncInfoOf(r.Ctor)
	if fi == nil {
		c.Fail("versioned constructor has no body")
		return
	}
	fn, an := c.Analysis(fi)
	info := fi.Pkg.TypesInfo
	var params []*ast.Ident
	for _, f := range fi.Decl.Type.Params.List {
		params = append(params, f.Names...)
	}
	if len(params) != 5 {
		c.Fail("versioned constructor: expected 5 parameters")
		return
	}
	curSet, updSet, curRev, updRev, ord := params[0], params[1], params[2], params[3], params[4]
	inner := c.Func(load.CtrlPkg, "newStatefulSetPod")
	setRev := c.Func(load.CtrlPkg, "setPodRevision")
	if inner == nil || setRev == nil {
		return
	}
	nRet := 0
	ast.Inspect(fi.Decl.Body, func(n ast.Node) bool {
		ret, ok := n.(*ast.ReturnStmt)
		if !ok || len(ret.Results) != 1 {
			return true
		}
		nRet++
		name := fmt.Sprintf("%s: return[%d]", fi.Obj.Name(), nRet-1)
		id, ok := ast.Unparen(ret.Results[0]).(*ast.Ident)
		if !ok {
			c.Bad("C07.4-constructor-branches", name, ret.Pos(), "the constructor returns something other than a local pod variable")
			return true
		}
		obj := info.ObjectOf(id)
		// in the same block: pod := newStatefulSetPod(S, ordinal); setPodRevision(pod, R)
		blk := enclosingBlock(fi.Decl.Body, ret)
		var fromSet, revArg ast.Expr
		var build *ast.CallExpr
		for _, s := range blk.List {
			switch x := s.(type) {
			case *ast.AssignStmt:
				if len(x.Lhs) == 1 && len(x.Rhs) == 1 {
					if l, ok := x.Lhs[0].(*ast.Ident); ok && info.ObjectOf(l) == obj {
						if call, ok := x.Rhs[0].(*ast.CallExpr); ok && gf.StaticCallee(info, call) == inner.Obj {
							build, fromSet = call, call.Args[0]
							c.Check(fn.Term(call.Args[1]).Key() == fn.Term(ord).Key(), "C07.4-own-ordinal", name, call.Pos(),
								"the pod is built for the constructor's own ordinal parameter", "the pod is built for a different ordinal than requested")
						}
					}
				}
			case *ast.ExprStmt:
				if call, ok := x.X.(*ast.CallExpr); ok && gf.StaticCallee(info, call) == setRev.Obj && build != nil {
					if a0, ok := ast.Unparen(call.Args[0]).(*ast.Ident); ok && info.ObjectOf(a0) == obj {
						revArg = call.Args[1]
					}
				}
			}
		}
		if build == nil || revArg == nil {
			c.Bad("C07.4-constructor-branches", name, ret.Pos(), "the returned pod is not built by newStatefulSetPod and stamped by setPodRevision in the same block")
			return true
		}
		st := an.StateBefore(build)
		isCur := fn.Term(fromSet).Key() == fn.Term(curSet).Key()
		isUpd := fn.Term(fromSet).Key() == fn.Term(updSet).Key()
		switch {
		case isCur:
			c.Check(fn.Term(revArg).Key() == fn.Term(curRev).Key(), "C07.4-pairing", name, build.Pos(), "current set is stamped with the current revision name",
				"a pod built from the current set is stamped with a different revision name")
			want := c.Want(fn, build.Pos(), `($1.Spec.UpdateStrategy.Type == "RollingUpdate" && $1.Spec.UpdateStrategy.RollingUpdate == nil && $2 < int($1.Status.CurrentReplicas)) || ($1.Spec.UpdateStrategy.RollingUpdate != nil && $1.Spec.UpdateStrategy.RollingUpdate.Partition != nil && $2 < int(*$1.Spec.UpdateStrategy.RollingUpdate.Partition))`, curSet, ord)
			c.Implies(st, want, "C07.4-current-branch-below-partition", name, build.Pos())
		case isUpd:
			c.Check(fn.Term(revArg).Key() == fn.Term(updRev).Key(), "C07.4-pairing", name, build.Pos(), "update set is stamped with the update revision name",
				"a pod built from the update set is stamped with a different revision name")
			want := c.Want(fn, build.Pos(), `!(($1.Spec.UpdateStrategy.Type == "RollingUpdate" && $1.Spec.UpdateStrategy.RollingUpdate == nil && $2 < int($1.Status.CurrentReplicas)) || ($1.Spec.UpdateStrategy.RollingUpdate != nil && $1.Spec.UpdateStrategy.RollingUpdate.Partition != nil && $2 < int(*$1.Spec.UpdateStrategy.RollingUpdate.Partition)))`, curSet, ord)
			c.Implies(st, want, "C07.4-update-branch-at-or-above-partition", name, build.Pos())
		default:
			c.Bad("C07.4-pairing", name, build.Pos(), "the pod is built from neither the current nor the update set: "+types.ExprString(fromSet))
		}
		return true
	})
	c.Floor("C07.4-constructor-returns", nRet, 2)
}

func enclosingBlock(body *ast.BlockStmt, n ast.Node) *ast.BlockStmt {
	best := body
	ast.Inspect(body, func(x ast.Node) bool {
		if x == nil {
			return true
		}
		if !contains(x, n) {
			return false
		}
		if b, ok := x.(*ast.BlockStmt); ok {
			best = b
		}
		return true
	})
	return best
}

// walkCoversPartition: the update walk's lower bound is not above the
// partition (or 0 when there is none): every ordinal at or above the partition
// is visited, otherwise pods there are never brought to the update revision.
func (c *Ctx) walkCoversPartition(r *Reconcile, rule string) {
	if r.ULoop == nil || r.ULoop.Cond == nil {
		return
	}
	be, ok := ast.Unparen(r.ULoop.Cond).(*ast.BinaryExpr)
	if !ok {
		c.Bad(rule, r.FI.Obj.Name()+": update walk condition", r.ULoop.Pos(), "the walk has no comparison condition")
		return
	}
	idx := r.ULoop.Init.(*ast.AssignStmt).Lhs[0]
	var lower ast.Expr
	switch {
	case be.Op.String() == ">=" && r.Fn.Term(be.X).Key() == r.Fn.Term(idx).Key():
		lower = be.Y
	case be.Op.String() == "<=" && r.Fn.Term(be.Y).Key() == r.Fn.Term(idx).Key():
		lower = be.X
	}
	if lower == nil {
		c.Bad(rule, r.FI.Obj.Name()+": update walk condition", r.ULoop.Pos(), "the walk does not run `index >= lower bound`")
		return
	}
	st := r.An.StateBefore(r.ULoop.Init)
	want := c.Want(r.Fn, r.ULoop.Pos(), "$2 <= 0 || ($1.Spec.UpdateStrategy.RollingUpdate != nil && $1.Spec.UpdateStrategy.RollingUpdate.Partition != nil && $2 <= int(*$1.Spec.UpdateStrategy.RollingUpdate.Partition))", r.Set, lower)
	c.Implies(st, want, rule, r.FI.Obj.Name()+": update walk lower bound "+types.ExprString(lower), r.ULoop.Pos())
}
