package rules

import (
	"fmt"
	"go/ast"
	"go/token"
	"go/types"

	"asverif/internal/gf"
	"asverif/internal/load"
)

func init() {
	register(&Property{
		ID:    "C07",
		Title: "Rolling update honours partition, goes highest-first; OnDelete never restarts",
		Run:   runC07,
		Explanation: "Decides clauses C07.1-C07.4 of DESIGN.md: (1) the update delete has the facts strategy != OnDelete, revision(cell) != update revision, not terminating, and index >= partition (under RollingUpdate != nil and Partition != nil) with 0 <= index < len; the wanted-slice invariant ordinal == index comes from the store classes; " +
			"(2) the walk starts at len-1, only decreases, continues to a lower index only past nil or a pod at the update revision that is Running, Ready and not terminating, and the delete is followed by return on every path; " +
			"(3) no other delete site's guard mentions the revision label; (4) in the versioned constructor the branch that builds from the current set holds exactly under (RollingUpdate==nil ∧ type RollingUpdate ∧ ordinal < status.currentReplicas) ∨ (RollingUpdate!=nil ∧ Partition!=nil ∧ ordinal < partition), each branch pairs a set with its own revision name, stamps the revision label on the returned pod and passes its own ordinal parameter. " +
			"NOT decided: kubelet schedules; that 'at most one pod is down' across reconciles (it follows from (2) per reconcile plus cache consistency, which is not decided).",
	})
}

func runC07(c *Ctx) {
	r := c.ReconcileRoles()
	if r == nil {
		return
	}
	if r.ULoop == nil {
		c.Fail("update walk not resolved")
		return
	}
	fn, an := r.Fn, r.An
	info := r.FI.Pkg.TypesInfo
	nC := 0
	for i, d := range r.Deletes {
		name := siteName(r.FI.Obj.Name(), "DeleteStatefulPod", i, d.Args[1])
		st := an.StateAtExpr(d)
		if !contains(r.ULoop, d) {
			// C07.3: the revision label plays no role at the other delete sites
			rev := false
			if r.GetPodRevision != nil {
				rev = st.Mentions(func(t *gf.Term) bool { return t.K == 'k' && t.Fn == r.GetPodRevision })
			}
			c.Check(!rev, "C07.3-revision-only-guards-the-update-delete", name, d.Pos(), "no guard fact at this delete mentions the pod's revision label",
				"a delete outside the update walk is guarded by the pod's revision: a pod may be deleted because of its revision under any strategy")
			continue
		}
		nC++
		cell, _ := ast.Unparen(d.Args[1]).(*ast.IndexExpr)
		if cell == nil || rootIdent(cell) == nil || info.ObjectOf(rootIdent(cell)) != r.W {
			c.Bad("C07.1-update-delete-class", name, d.Pos(), "the update walk deletes something that is not a cell of the wanted slice")
			continue
		}
		c.Implies(st, c.Want(fn, d.Pos(), `$1.Spec.UpdateStrategy.Type != "OnDelete"`, r.Set), "C07.3-not-under-OnDelete", name, d.Pos())
		c.Implies(st, c.Want(fn, d.Pos(), `getPodRevision($1) != $2.Name`, cell, r.UpdRev), "C07.1-outdated-only", name, d.Pos())
		c.Implies(st, c.Want(fn, d.Pos(), `$1 != nil && $1.DeletionTimestamp == nil`, cell), "C07.1-not-terminating", name, d.Pos())
		c.Implies(st, c.Want(fn, d.Pos(), `$1.Spec.UpdateStrategy.RollingUpdate == nil || $1.Spec.UpdateStrategy.RollingUpdate.Partition == nil || $2 >= int(*$1.Spec.UpdateStrategy.RollingUpdate.Partition)`, r.Set, cell.Index),
			"C07.1-at-or-above-partition", name, d.Pos())
		c.Implies(st, c.Want(fn, d.Pos(), `0 <= $1 && $1 < len($2)`, cell.Index, cell.X), "C07.1-index-in-range", name, d.Pos())
		// followed by return: nothing else is written after it
		c.oneOrdinal(r, an, podWrite{d, "delete", name}, "C07.2-delete-then-return")
	}
	c.Floor("C07.1-update-delete-sites", nC, 1)
	c.walkCoversPartition(r, "C07.2-walk-reaches-down-to-partition")
	c.updateWalkContinue(r, an, "C07.2-walk-continue")
	c.storeClassesAs(r, "C07.1-ordinal-is-index")
	c.versionedConstructor(r)
	c.restoredSetsEveryDefinition(r)
}

// restoredSetsEveryDefinition: "pods it (re)creates below the partition are built from the current revision while
// those at or above it are built from the update revision": at every call of the versioned constructor, each
// StatefulSet it is handed (directly or as a field of a literal) is a variable all of whose definitions are
// ApplyRevision(<the reconciled set>, R) for one of the two revision parameters R -- the same R in the same slot at
// every call -- or a copy of the other restored set at a place where the facts show both revisions to be the same.
func (c *Ctx) restoredSetsEveryDefinition(r *Reconcile) {
	const rule = "C07.4-restored-from-its-own-revision"
	apply := c.Func(load.CtrlPkg, "ApplyRevision")
	if apply == nil {
		return
	}
	host, fn, an := r.FI, r.Fn, r.An
	info := host.Pkg.TypesInfo
	type leaf struct {
		slot string
		val  ast.Expr
	}
	slotRev := map[string]string{}
	nLeaf := 0
	anyBad := false
	curK, updK := fn.Term(r.CurRev).Key(), fn.Term(r.UpdRev).Key()
	for _, call := range callsIn(host.Decl.Body, true) {
		if f := gf.StaticCallee(info, call); f == nil || f.Origin() != r.Ctor {
			continue
		}
		var leaves []leaf
		for k, a := range call.Args {
			a = ast.Unparen(a)
			if isNamed(info.TypeOf(a), load.APIPkg, "StatefulSet") {
				leaves = append(leaves, leaf{fmt.Sprintf("#%d", k), a})
				continue
			}
			lit := a
			if id, ok := lit.(*ast.Ident); ok {
				if d := defRHS(host, info, id); d != nil {
					lit = ast.Unparen(d)
				}
			}
			if u, ok := lit.(*ast.UnaryExpr); ok && u.Op == token.AND {
				lit = ast.Unparen(u.X)
			}
			if cl, ok := lit.(*ast.CompositeLit); ok {
				for i, el := range cl.Elts {
					v, key := el, fmt.Sprintf("#%d.%d", k, i)
					if kv, ok := el.(*ast.KeyValueExpr); ok {
						v, key = kv.Value, fmt.Sprintf("#%d.%s", k, types.ExprString(kv.Key))
					}
					if isNamed(info.TypeOf(v), load.APIPkg, "StatefulSet") {
						leaves = append(leaves, leaf{key, ast.Unparen(v)})
					}
				}
			}
		}
		for _, lf := range leaves {
			nLeaf++
			name := fmt.Sprintf("%s: %s(… %s …) slot %s", host.Obj.Name(), r.Ctor.Name(), types.ExprString(lf.val), lf.slot)
			id, ok := lf.val.(*ast.Ident)
			if !ok {
				// the restoring call in place
				id = nil
			}
			var defs []struct {
				rhs ast.Expr
				at  ast.Node
			}
			if id == nil {
				defs = append(defs, struct {
					rhs ast.Expr
					at  ast.Node
				}{lf.val, stmtOf(host.Decl.Body, call)})
			} else {
				if info.ObjectOf(id) == info.ObjectOf(r.Set) {
					c.Bad(rule, name, call.Pos(), "the constructor is handed the reconciled set itself, not a set restored from a revision")
					continue
				}
				ast.Inspect(host.Decl.Body, func(n ast.Node) bool {
					switch x := n.(type) {
					case *ast.AssignStmt:
						for li, l := range x.Lhs {
							if lid, ok := l.(*ast.Ident); ok && info.ObjectOf(lid) == info.ObjectOf(id) {
								rhs := x.Rhs[0]
								if len(x.Rhs) == len(x.Lhs) {
									rhs = x.Rhs[li]
								}
								defs = append(defs, struct {
									rhs ast.Expr
									at  ast.Node
								}{rhs, x})
							}
						}
					case *ast.ValueSpec:
						for li, l := range x.Names {
							if info.ObjectOf(l) == info.ObjectOf(id) && len(x.Values) > 0 {
								rhs := x.Values[0]
								if len(x.Values) == len(x.Names) {
									rhs = x.Values[li]
								}
								defs = append(defs, struct {
									rhs ast.Expr
									at  ast.Node
								}{rhs, x})
							}
						}
					}
					return true
				})
			}
			if len(defs) == 0 {
				c.Bad(rule, name, call.Pos(), "no definition of this value found in the reconcile function")
				continue
			}
			good, rev, why := true, "", ""
			for _, d := range defs {
				src, isCall := ast.Unparen(d.rhs).(*ast.CallExpr)
				if isCall && len(src.Args) == 2 {
					if f := gf.StaticCallee(info, src); f != nil && f.Origin() == apply.Obj && fn.Term(src.Args[0]).Key() == fn.Term(r.Set).Key() {
						k := fn.Term(src.Args[1]).Key()
						this := map[string]string{curK: "current", updK: "update"}[k]
						if this != "" && (rev == "" || rev == this) {
							rev = this
							continue
						}
						good, why = false, fmt.Sprintf("definition at line %d restores it from %s", c.P.Fset.Position(d.at.Pos()).Line, types.ExprString(src.Args[1]))
						break
					}
				}
				// a copy of another restored set: it may reach a call of the constructor only where the facts show both
				// revisions to be the same one (the copy may be unconditional and replaced under the opposite test)
				if isNamed(info.TypeOf(d.rhs), load.APIPkg, "StatefulSet") {
					if _, isCopy := ast.Unparen(d.rhs).(*ast.Ident); isCopy {
						var stops []ast.Node
						for _, o := range defs {
							if o.at != d.at {
								stops = append(stops, o.at)
							}
						}
						aU := fn.FromAfterUntil(d.at, an.StateAfter(d.at), stops...)
						// judged at the first top-level statement after the last definition (the revisions are parameters that
						// are never reassigned, and revision objects are never written: what holds there holds at the call)
						var lastEnd token.Pos
						for _, o := range defs {
							if top := host.Decl.Body.List[max(topIndex(host.Decl.Body, o.at), 0)]; top.End() > lastEnd {
								lastEnd = top.End()
							}
						}
						var at ast.Node = call
						for _, ts := range host.Decl.Body.List {
							if ts.Pos() >= lastEnd {
								at = ts
								break
							}
						}
						st := aU.StateBefore(at)
						if at == ast.Node(call) {
							st = aU.StateAtExpr(call)
						}
						same := gf.FEq(fn.Term(r.CurRev), fn.Term(r.UpdRev))
						sameName := gf.FEq(c.WantTerm(fn, at.Pos(), "$1.Name", r.CurRev), c.WantTerm(fn, at.Pos(), "$1.Name", r.UpdRev))
						g1, _ := st.Implies(same)
						g2, _ := st.Implies(sameName)
						if assignedIn(info, host.Decl.Body, info.ObjectOf(r.CurRev)) || assignedIn(info, host.Decl.Body, info.ObjectOf(r.UpdRev)) {
							g1, g2 = false, false
						}
						if !st.Reachable() || g1 || g2 {
							continue
						}
					}
				}
				good, why = false, fmt.Sprintf("definition at line %d (%s) is not ApplyRevision(%s, <revision parameter>), and where it reaches this call the facts do not show the current and the update revision to be the same", c.P.Fset.Position(d.at.Pos()).Line, clip(types.ExprString(d.rhs), 80), r.Set.Name)
				break
			}
			if good && rev != "" {
				if prev, ok := slotRev[lf.slot]; ok && prev != rev {
					good, why = false, "this slot is handed the set restored from the "+prev+" revision at another call and from the "+rev+" revision here"
				}
				slotRev[lf.slot] = rev
			}
			if good && rev == "" {
				good, why = false, "no definition restores it from a revision"
			}
			if !good {
				anyBad = true
			}
			c.Check(good, rule, name, call.Pos(), fmt.Sprintf("every one of its %d definition(s) restores it from the %s revision parameter", len(defs), rev),
				"a pod can be built from a set that was not restored from the revision its slot stands for: "+why)
		}
	}
	seen := map[string]bool{}
	for _, v := range slotRev {
		seen[v] = true
	}
	c.Check(anyBad || (seen["current"] && seen["update"]), rule, host.Obj.Name()+": both restored sets reach the constructor", host.Decl.Pos(), "one slot carries the current, another the update revision's set", "the constructor is not handed both a set restored from the current and one from the update revision")
	c.Floor("C07.4-restored-set-arguments", nLeaf, 2)
}

// versionedConstructor checks C07.4 / C06.1a on newVersionedStatefulSetPod.
func (c *Ctx) versionedConstructor(r *Reconcile) {
	fi := c.P.FuncInfoOf(r.Ctor)
	if fi == nil {
		c.Fail("versioned constructor has no body")
		return
	}
	fn, an := c.Analysis(fi)
	info := fi.Pkg.TypesInfo
	roles := c.ctorRolesOf(r)
	if roles == nil {
		c.Fail("versioned constructor: the roles of its parameters (current/update set, current/update revision name, ordinal) do not resolve from its call in %s", r.FI.Obj.Name())
		return
	}
	curSet, updSet, curRev, updRev, ord := roles.CurSet, roles.UpdSet, roles.CurRev, roles.UpdRev, roles.Ord
	// the role expressions are type-checked in the constructor's scope (they may be fields of a parameter struct)
	roleT := func(e ast.Expr) *gf.Term {
		if t := c.WantTerm(fn, fi.Decl.Body.Lbrace+1, "$1", e); t != nil {
			return t
		}
		return fn.Term(e)
	}
	inner := c.Func(load.CtrlPkg, "newStatefulSetPod")
	setRev := c.Func(load.CtrlPkg, "setPodRevision")
	if inner == nil || setRev == nil {
		return
	}
	// every returned pod is built by newStatefulSetPod(S, ordinal) and stamped by setPodRevision(pod, R);
	// path by path at the stamp: (S, R) is (current set, current revision) with the ordinal below the
	// partition (or the legacy currentReplicas bound), or (update set, update revision) otherwise
	below := c.Want(fn, fi.Decl.Body.Lbrace+1, `($1.Spec.UpdateStrategy.Type == "RollingUpdate" && $1.Spec.UpdateStrategy.RollingUpdate == nil && $2 < int($1.Status.CurrentReplicas)) || ($1.Spec.UpdateStrategy.RollingUpdate != nil && $1.Spec.UpdateStrategy.RollingUpdate.Partition != nil && $2 < int(*$1.Spec.UpdateStrategy.RollingUpdate.Partition))`, curSet, ord)
	nBuild := 0
	for _, build := range callsIn(fi.Decl.Body, false) {
		if gf.StaticCallee(info, build) != inner.Obj {
			continue
		}
		nBuild++
		name := fmt.Sprintf("%s: build[%d]", fi.Obj.Name(), nBuild-1)
		c.Check(fn.Term(build.Args[1]).Key() == roleT(ord).Key(), "C07.4-own-ordinal", name, build.Pos(),
			"the pod is built for the constructor's own ordinal parameter", "the pod is built for a different ordinal than requested")
		as, _ := stmtOf(fi.Decl.Body, build).(*ast.AssignStmt)
		var pod types.Object
		if as != nil && len(as.Lhs) == 1 && len(as.Rhs) == 1 {
			if l, ok := as.Lhs[0].(*ast.Ident); ok {
				pod = info.ObjectOf(l)
			}
		}
		var stamp *ast.CallExpr
		if pod != nil {
			for _, call := range callsIn(fi.Decl.Body, false) {
				if gf.StaticCallee(info, call) == setRev.Obj && call.Pos() > build.Pos() && stamp == nil {
					if a0, ok := ast.Unparen(call.Args[0]).(*ast.Ident); ok && info.ObjectOf(a0) == pod {
						stamp = call
					}
				}
			}
		}
		if stamp == nil {
			c.Bad("C07.4-constructor-branches", name, build.Pos(), "the built pod is not stamped by setPodRevision")
			continue
		}
		// the stamp is passed on every path from the build to a return of this pod
		aU := fn.FromAfterUntil(as, an.StateAfter(as), stamp)
		unstamped := false
		ast.Inspect(fi.Decl.Body, func(n ast.Node) bool {
			if ret, ok := n.(*ast.ReturnStmt); ok && aU.StateBefore(ret).Reachable() {
				unstamped = true
			}
			return true
		})
		c.Check(!unstamped, "C07.4-constructor-branches", name, build.Pos(), "every path from the build to a return passes setPodRevision", "a built pod can be returned without its revision label")
		st := an.StateAtExpr(stamp)
		S, R := fn.Term(build.Args[0]), fn.Term(stamp.Args[1])
		okAll := st.Reachable()
		var why string
		for _, d := range st.D {
			one := gf.State{D: []*gf.Disj{d}}
			isCur, _ := one.Implies(gf.FEq(S, roleT(curSet)))
			isUpd, _ := one.Implies(gf.FEq(S, roleT(updSet)))
			switch {
			case isCur:
				r, _ := one.Implies(gf.FEq(R, roleT(curRev)))
				bl, _ := one.Implies(below)
				if !r {
					okAll, why = false, "a pod built from the current set is stamped with a different revision name"
				} else if !bl {
					okAll, why = false, "a pod is built from the current set although its ordinal is not proven below the partition: "+clip(d.String(), 400)
				}
			case isUpd:
				r, _ := one.Implies(gf.FEq(R, roleT(updRev)))
				bl, _ := one.Implies(gf.Not(below))
				if !r {
					okAll, why = false, "a pod built from the update set is stamped with a different revision name"
				} else if !bl {
					okAll, why = false, "a pod is built from the update set although its ordinal is not proven at or above the partition: "+clip(d.String(), 400)
				}
			default:
				okAll, why = false, "the pod is built from neither the current nor the update set on some path: "+types.ExprString(build.Args[0])
			}
		}
		c.Check(okAll, "C07.4-pairing", name, build.Pos(), "on every path: current set with current revision below the partition, update set with update revision otherwise", why)
	}
	c.Floor("C07.4-constructor-builds", nBuild, 1)
	// and every return returns a built pod
	nRet := 0
	ast.Inspect(fi.Decl.Body, func(n ast.Node) bool {
		ret, ok := n.(*ast.ReturnStmt)
		if !ok || len(ret.Results) != 1 {
			return true
		}
		nRet++
		name := fmt.Sprintf("%s: return[%d]", fi.Obj.Name(), nRet-1)
		id, ok := ast.Unparen(ret.Results[0]).(*ast.Ident)
		src := (*ast.CallExpr)(nil)
		if ok {
			src, _ = reachingDefRHS(fi, info, id, ret).(*ast.CallExpr)
		}
		c.Check(src != nil && gf.StaticCallee(info, src) == inner.Obj, "C07.4-constructor-branches", name, ret.Pos(), "returns a pod built by newStatefulSetPod", "the constructor returns something other than a pod built by newStatefulSetPod")
		return true
	})
	c.Floor("C07.4-constructor-returns", nRet, 1)
}

func enclosingBlock(body *ast.BlockStmt, n ast.Node) *ast.BlockStmt {
	best := body
	ast.Inspect(body, func(x ast.Node) bool {
		if x == nil {
			return true
		}
		if !contains(x, n) {
			return false
		}
		if b, ok := x.(*ast.BlockStmt); ok {
			best = b
		}
		return true
	})
	return best
}

// walkCoversPartition: the update walk's lower bound is not above the
// partition (or 0 when there is none): every ordinal at or above the partition
// is visited, otherwise pods there are never brought to the update revision.
func (c *Ctx) walkCoversPartition(r *Reconcile, rule string) {
	if r.ULoop == nil || r.ULoop.Cond == nil {
		return
	}
	be, ok := ast.Unparen(r.ULoop.Cond).(*ast.BinaryExpr)
	if !ok {
		c.Bad(rule, r.FI.Obj.Name()+": update walk condition", r.ULoop.Pos(), "the walk has no comparison condition")
		return
	}
	idx := r.ULoop.Init.(*ast.AssignStmt).Lhs[0]
	var lower ast.Expr
	switch {
	case be.Op.String() == ">=" && r.Fn.Term(be.X).Key() == r.Fn.Term(idx).Key():
		lower = be.Y
	case be.Op.String() == "<=" && r.Fn.Term(be.Y).Key() == r.Fn.Term(idx).Key():
		lower = be.X
	}
	if lower == nil {
		c.Bad(rule, r.FI.Obj.Name()+": update walk condition", r.ULoop.Pos(), "the walk does not run `index >= lower bound`")
		return
	}
	st := r.An.StateBefore(r.ULoop.Init)
	want := c.Want(r.Fn, r.ULoop.Pos(), "$2 <= 0 || ($1.Spec.UpdateStrategy.RollingUpdate != nil && $1.Spec.UpdateStrategy.RollingUpdate.Partition != nil && $2 <= int(*$1.Spec.UpdateStrategy.RollingUpdate.Partition))", r.Set, lower)
	c.Implies(st, want, rule, r.FI.Obj.Name()+": update walk lower bound "+types.ExprString(lower), r.ULoop.Pos())
}
