package rules

import (
	"fmt"
	"go/ast"
	"go/constant"
	"go/token"
	"go/types"
	"strings"

	"asverif/internal/gf"
	"asverif/internal/load"

	"golang.org/x/tools/go/cfg"
)

func init() {
	register(&Property{
		ID:    "C06",
		Title: "Stable identity and storage per ordinal; claims come first and are never removed",
		Run:   runC06,
		Explanation: "Decides clauses C06.1-C06.4 of DESIGN.md: (1) the pod constructor chain stamps identity on every path: a controller reference built by metav1.NewControllerRef(set, controllerKind), name = getPodName(set, ordinal) for the constructor's own ordinal, hostname = name, subdomain = spec.serviceName, namespace, the pod-name label, the revision label (versioned constructor, C07.4), and a volume per claim template whose claim name is getPersistentVolumeClaimName(set, template, ordinal); the two name functions are fixed Sprintf formats over (template name, set name, ordinal); " +
			"(2) claims before pod: the pod Create is reachable only through a successful createPersistentVolumeClaims(set, pod) for the same pod; the claim loop covers every claim of the pod, cannot be left early, reaches the claim Create whenever the lister says NotFound, and aggregates every error (C09.1); (3) no Delete, DeleteCollection, Update, UpdateStatus, Patch or Apply on PersistentVolumeClaims anywhere in the repository's production code (positive control: the one Create); " +
			"(4) the claim builder sets name, namespace and the selector's match labels on every path, for every template. (5) the pod revision label is stored by setPodRevision only, which is called by the versioned constructor only; in the update primitive the pod write is reached only through a successful createPersistentVolumeClaims once updateStorage has run. NOT decided: name equality over scale-in/scale-out histories as a value-level fact (it follows from the purity of the name functions).",
	})
}

func topLevelCalls(fi *load.FuncInfo) []*ast.CallExpr {
	var out []*ast.CallExpr
	for _, s := range fi.Decl.Body.List {
		switch x := s.(type) {
		case *ast.ExprStmt:
			if c, ok := x.X.(*ast.CallExpr); ok {
				out = append(out, c)
			}
		case *ast.AssignStmt:
			for _, r := range x.Rhs {
				if c, ok := ast.Unparen(r).(*ast.CallExpr); ok {
					out = append(out, c)
				}
			}
		}
	}
	return out
}

// topLevelAssign finds a top-level `lhs = rhs` statement by canonical terms.
func (c *Ctx) topLevelAssign(fi *load.FuncInfo, fn *gf.Fn, lhsTmpl, rhsTmpl string, args ...ast.Expr) bool {
	for _, s := range fi.Decl.Body.List {
		as, ok := s.(*ast.AssignStmt)
		if !ok || len(as.Lhs) != 1 || len(as.Rhs) != 1 {
			continue
		}
		l, r := c.TryWantTerm(fn, as.Pos(), lhsTmpl, args...), c.TryWantTerm(fn, as.Pos(), rhsTmpl, args...)
		if l != nil && r != nil && fn.Term(as.Lhs[0]).Key() == l.Key() && fn.Term(as.Rhs[0]).Key() == r.Key() {
			return true
		}
	}
	// not written as one top-level assignment (set through a small helper, say): the facts at every exit of the
	// function still give the equality
	_, an := c.Analysis(fi)
	end := fi.Decl.Body.Rbrace
	l, r := c.TryWantTerm(fn, end, lhsTmpl, args...), c.TryWantTerm(fn, end, rhsTmpl, args...)
	if l == nil || r == nil {
		return false
	}
	n, all := 0, true
	check := func(st gf.State) {
		if !st.Reachable() {
			return
		}
		n++
		if g, _ := st.Implies(gf.FEq(l, r)); !g {
			all = false
		}
	}
	ownNodes(fi.Decl.Body, func(x ast.Node) {
		if ret, ok := x.(*ast.ReturnStmt); ok {
			check(an.StateBefore(ret))
		}
	})
	if ir := fn.ImplicitReturn(); ir != nil {
		check(an.StateBefore(ir))
	}
	return n > 0 && all
}

func runC06(c *Ctx) {
	c.constructorChain()
	c.claimsBeforePod()
	// C06.3 zero-expected verbs on claims
	nCreate := 0
	for _, s := range c.G.Sites {
		if s.Resource != "persistentvolumeclaims" || s.Class != "write" {
			continue
		}
		name := fmt.Sprintf("%s.%s in %s", s.Resource, s.Verb, s.Fn.Name())
		if s.Verb == "Create" {
			nCreate++
			c.OK("C06.3-claims-never-removed-or-rewritten", name, s.Call.Pos(), "positive control: the claim Create site is seen by the catalogue")
			continue
		}
		c.Bad("C06.3-claims-never-removed-or-rewritten", name, s.Call.Pos(), "the repository "+strings.ToLower(s.Verb)+"s a PersistentVolumeClaim: an ordinal scaled in and out again may not get its claim back")
	}
	c.Floor("C06.3-claim-create-positive-control", nCreate, 1)
	c.claimBuilder()
	c.revisionLabelWriters()
	c.claimsBeforePodUpdate("C06.2-claims-before-pod-update")
	c.restoredSetComesFromTheRevision()
}

// claimsBeforePodUpdate: in the pod-update primitive, once the storage repair has pointed the pod's
// volumes at its claims, the pod write is reachable only through a successful createPersistentVolumeClaims.
// Written the other way round, a fault (or crash) between the two leaves a pod that passes the storage
// predicate while its claim does not exist: no later reconcile repairs it.
func (c *Ctx) claimsBeforePodUpdate(rule string) {
	fi := c.Func(load.CtrlPkg, "realStatefulPodControl.UpdateStatefulPod")
	cl := c.Func(load.CtrlPkg, "realStatefulPodControl.createPersistentVolumeClaims")
	repair := c.Func(load.CtrlPkg, "updateStorage")
	if fi == nil || cl == nil || repair == nil {
		return
	}
	info := fi.Pkg.TypesInfo
	n := 0
	for _, s := range c.G.Sites {
		if s.Fn != fi.Obj || s.Resource != "pods" || s.Class != "write" {
			continue
		}
		// the analysed unit: the literal holding the write (the retry closure), or the function
		var fn *gf.Fn
		var an *gf.Analysis
		var body *ast.BlockStmt
		if s.InLit != nil {
			fn, an = c.LitAnalysis(info, s.InLit, fi.Obj.Name()+"$retry")
			body = s.InLit.Body
		} else {
			fn, an = c.Analysis(fi)
			body = fi.Decl.Body
		}
		var repairs, claims []*ast.CallExpr
		for _, call := range callsIn(body, false) {
			if f := gf.StaticCallee(info, call); f != nil {
				switch f.Origin() {
				case repair.Obj:
					repairs = append(repairs, call)
				case cl.Obj:
					claims = append(claims, call)
				}
			}
		}
		name := fmt.Sprintf("%s: pods.%s", fi.Obj.Name(), s.Verb)
		if len(repairs) == 0 || len(claims) == 0 {
			c.Bad(rule, name, s.Call.Pos(), "the storage repair or the claim creation call is missing next to the pod write")
			continue
		}
		n++
		var stops []ast.Node
		for _, cc := range claims {
			stops = append(stops, stmtOf(body, cc))
		}
		okOrder := true
		for _, rp := range repairs {
			st := stmtOf(body, rp)
			aU := fn.FromAfterUntil(st, an.StateAfter(st), stops...)
			if aU.StateAtExpr(s.Call).Reachable() {
				okOrder = false
			}
		}
		okErr := true
		for _, cc := range claims {
			st := stmtOf(body, cc)
			errF := c.errNonNilAfter(fn, st, cc)
			if errF == nil {
				okErr = false
				continue
			}
			aE := fn.FromAfter(st, an.StateAfter(st).Assume(errF))
			if aE.StateAtExpr(s.Call).Reachable() {
				okErr = false
			}
		}
		c.Check(okOrder && okErr, rule, name, s.Call.Pos(), "after the storage repair the pod write is reached only through a successful createPersistentVolumeClaims",
			"the repaired pod can be written before (or although) its claims could not be created: a fault in between leaves a pod that passes the storage predicate without its claim")
	}
	c.Floor(rule+"-sites", n, 1)
}

// revisionLabelWriters: a pod's revision label is written by setPodRevision only, and setPodRevision is
// called by the versioned constructor only (where the label is paired with the set the pod is built from,
// C07.4). Any other writer can make a pod carry the label of a revision it was not built from.
func (c *Ctx) revisionLabelWriters() {
	setRev := c.Func(load.CtrlPkg, "setPodRevision")
	ctor := c.Func(load.CtrlPkg, "newVersionedStatefulSetPod")
	if setRev == nil || ctor == nil {
		return
	}
	nStore, nCall := 0, 0
	for _, fi := range c.P.Funcs() {
		pp := fi.Pkg.PkgPath
		if pp != load.CtrlPkg && pp != load.K8sPkg {
			continue
		}
		info := fi.Pkg.TypesInfo
		isRevKey := func(e ast.Expr) bool {
			tv, ok := info.Types[e]
			if !ok || tv.Value == nil {
				return false
			}
			return tv.Value.ExactString() == `"controller-revision-hash"`
		}
		podLabels := func(e ast.Expr) bool {
			// <pod>.Labels or <pod>.ObjectMeta.Labels of a v1.Pod
			sel, ok := ast.Unparen(e).(*ast.SelectorExpr)
			if !ok || sel.Sel.Name != "Labels" {
				return false
			}
			x := ast.Unparen(sel.X)
			if s2, ok := x.(*ast.SelectorExpr); ok && s2.Sel.Name == "ObjectMeta" {
				x = s2.X
			}
			return isNamed(info.TypeOf(x), "k8s.io/api/core/v1", "Pod")
		}
		ast.Inspect(fi.Decl.Body, func(n ast.Node) bool {
			switch x := n.(type) {
			case *ast.AssignStmt:
				for _, l := range x.Lhs {
					if ix, ok := ast.Unparen(l).(*ast.IndexExpr); ok && isRevKey(ix.Index) && podLabels(ix.X) {
						nStore++
						name := fmt.Sprintf("%s: %s = ...", fi.Obj.Name(), types.ExprString(l))
						c.Check(fi == setRev, "C06.5-revision-label-writers", name, x.Pos(), "the one writer of the pod revision label", "a pod's revision label is written outside setPodRevision")
					}
				}
			case *ast.CallExpr:
				if id, ok := x.Fun.(*ast.Ident); ok && id.Name == "delete" && len(x.Args) == 2 && isRevKey(x.Args[1]) && podLabels(x.Args[0]) {
					c.Bad("C06.5-revision-label-writers", fi.Obj.Name()+": delete of the revision label", x.Pos(), "a pod's revision label is removed")
				}
				// a label-setting helper handed the revision key: the call is the store
				if h := gf.StaticCallee(info, x); h != nil && h != setRev.Obj {
					if hfi := c.P.FuncInfoOf(h); hfi != nil && (hfi.Pkg.PkgPath == load.CtrlPkg || hfi.Pkg.PkgPath == load.K8sPkg) {
						for k, a := range x.Args {
							if !isRevKey(a) {
								continue
							}
							// the k-th parameter indexes a pod's labels on the left of an assignment
							var pk types.Object
							i := 0
							for _, pf := range hfi.Decl.Type.Params.List {
								for _, pn := range pf.Names {
									if i == k {
										pk = hfi.Pkg.TypesInfo.ObjectOf(pn)
									}
									i++
								}
							}
							stores := false
							ast.Inspect(hfi.Decl.Body, func(m ast.Node) bool {
								if as, ok := m.(*ast.AssignStmt); ok {
									for _, l := range as.Lhs {
										if ix, ok := ast.Unparen(l).(*ast.IndexExpr); ok {
											if id, ok := ast.Unparen(ix.Index).(*ast.Ident); ok && pk != nil && hfi.Pkg.TypesInfo.ObjectOf(id) == pk {
												if sel, ok := ast.Unparen(ix.X).(*ast.SelectorExpr); ok && sel.Sel.Name == "Labels" {
													stores = true
												}
											}
										}
									}
								}
								return true
							})
							if stores {
								nStore++
								name := fmt.Sprintf("%s: %s", fi.Obj.Name(), clip(types.ExprString(x), 60))
								c.Check(fi == setRev, "C06.5-revision-label-writers", name, x.Pos(), "the one writer of the pod revision label (through a label-setting helper)", "a pod's revision label is written outside setPodRevision")
							}
						}
					}
				}
				if gf.StaticCallee(info, x) == setRev.Obj {
					nCall++
					name := fmt.Sprintf("%s: %s", fi.Obj.Name(), clip(types.ExprString(x), 60))
					okCaller := fi == ctor
					if !okCaller {
						// a helper expanded into the constructor
						for _, h := range c.E.FnOf(ctor).Expanded() {
							if h == fi {
								okCaller = true
							}
						}
					}
					c.Check(okCaller, "C06.5-revision-label-writers", name, x.Pos(), "called by the versioned constructor, which pairs the label with the set the pod is built from",
						"the revision label of a pod is set outside the versioned constructor: the pod can carry the label of a revision it was not built from")
				}
			}
			return true
		})
	}
	c.Floor("C06.5-revision-label-stores", nStore, 1)
	c.Floor("C06.5-setPodRevision-calls", nCall, 1)
}

func (c *Ctx) constructorChain() {
	// newStatefulSetPod
	fi := c.Func(load.CtrlPkg, "newStatefulSetPod")
	if fi == nil {
		return
	}
	fn := c.E.FnOf(fi)
	info := fi.Pkg.TypesInfo
	var set, ord *ast.Ident
	for _, pf := range fi.Decl.Type.Params.List {
		for _, pn := range pf.Names {
			if isNamed(info.TypeOf(pn), load.APIPkg, "StatefulSet") {
				set = pn
			} else if isIntT(info.TypeOf(pn)) {
				ord = pn
			}
		}
	}
	last, _ := fi.Decl.Body.List[len(fi.Decl.Body.List)-1].(*ast.ReturnStmt)
	if set == nil || ord == nil || last == nil || len(last.Results) != 1 {
		c.Fail("newStatefulSetPod: parameters/return not recognised")
		return
	}
	pod, _ := last.Results[0].(*ast.Ident)
	if pod == nil {
		c.Bad("C06.1-constructor", "newStatefulSetPod: return", last.Pos(), "does not return a local pod variable")
		return
	}
	var fromTemplate, initID, updStor bool
	for _, call := range topLevelCalls(fi) {
		switch calleeName(info, call) {
		case load.K8sPkg + ".GetPodFromTemplate":
			okTmpl := fn.Term(call.Args[0]).Key() == c.WantTerm(fn, call.Pos(), "&$1.Spec.Template", set).Key() && fn.Term(call.Args[1]).Key() == fn.Term(set).Key()
			okRef := false
			if rc, ok := ast.Unparen(call.Args[2]).(*ast.CallExpr); ok && calleeName(info, rc) == "k8s.io/apimachinery/pkg/apis/meta/v1.NewControllerRef" {
				if fn.Term(rc.Args[0]).Key() == fn.Term(set).Key() {
					if id := identOfSel(rc.Args[1]); id != nil {
						if v, ok := info.ObjectOf(id).(*types.Var); ok && v.Name() == "controllerKind" && v.Pkg().Path() == load.CtrlPkg {
							okRef = true
						}
					}
				}
			}
			// result bound to the returned pod
			if as, ok := stmtOf(fi.Decl.Body, call).(*ast.AssignStmt); ok && len(as.Lhs) >= 1 && fn.Term(as.Lhs[0]).Key() == fn.Term(pod).Key() {
				fromTemplate = okTmpl && okRef
			}
			c.Check(okTmpl, "C06.1-from-own-template", "newStatefulSetPod: GetPodFromTemplate", call.Pos(), "instantiates &set.Spec.Template for set", "the pod is not instantiated from the set's own template")
			c.Check(okRef, "C06.1-controller-reference", "newStatefulSetPod: controller reference", call.Pos(), "metav1.NewControllerRef(set, controllerKind): owner by UID, controller=true", "the pod is created without a controller reference to the set")
		case load.CtrlPkg + ".initIdentity":
			initID = fn.Term(call.Args[0]).Key() == fn.Term(set).Key() && fn.Term(call.Args[1]).Key() == fn.Term(pod).Key()
		case load.CtrlPkg + ".updateStorage":
			updStor = fn.Term(call.Args[0]).Key() == fn.Term(set).Key() && fn.Term(call.Args[1]).Key() == fn.Term(pod).Key()
		}
	}
	c.Check(fromTemplate, "C06.1-constructor", "newStatefulSetPod: pod := GetPodFromTemplate(...)", fi.Decl.Pos(), "the returned pod is the template instance", "the returned pod is not the template instance with a controller reference")
	c.Check(c.topLevelAssign(fi, fn, "$1.Name", "getPodName($2, $3)", pod, set, ord), "C06.1-name", "newStatefulSetPod: pod.Name", fi.Decl.Pos(), "pod.Name = getPodName(set, ordinal), unconditionally", "the pod name is not getPodName(set, ordinal) for the constructor's own ordinal")
	// what the constructor hands back, whichever helpers it goes through: at its return the facts about the pod give
	// name, namespace, pod-name label, hostname and subdomain
	{
		_, ran := c.Analysis(fi)
		st := ran.StateBefore(last)
		for _, w := range []struct {
			rule, what string
			tmpl       []string
		}{
			// (the identity helper re-derives the name from the ordinal it parses out of the name set just before: either form)
			{"C06.1-returned-name", "pod.Name = getPodName(set, ordinal)", []string{"$1.Name == getPodName($2, $3)", "$1.Name == getPodName($2, getOrdinal($1))"}},
			{"C06.1-returned-namespace", "pod.Namespace = set.Namespace", []string{"$1.Namespace == $2.Namespace"}},
			{"C06.1-returned-hostname", "hostname = pod name", []string{"$1.Spec.Hostname == $1.Name"}},
			{"C06.1-returned-subdomain", "subdomain = governing service", []string{"$1.Spec.Subdomain == $2.Spec.ServiceName"}},
		} {
			var alts []*gf.Formula
			for _, t := range w.tmpl {
				alts = append(alts, c.Want(fn, last.Pos(), t, pod, set, ord))
			}
			c.Implies(st, gf.Or(alts...), w.rule, "newStatefulSetPod: "+w.what+" at the return", last.Pos())
		}
	}
	_ = initID
	c.Check(updStor, "C06.1-storage-rewritten", "newStatefulSetPod: updateStorage(set, pod)", fi.Decl.Pos(), "called unconditionally on the returned pod", "updateStorage is not applied to the returned pod")
	// controllerKind value
	if ck, ok := c.P.Lookup(load.CtrlPkg, "controllerKind").(*types.Var); ok {
		good := false
		for _, f := range c.P.Pkg(load.CtrlPkg).Syntax {
			ast.Inspect(f, func(n ast.Node) bool {
				if vs, ok := n.(*ast.ValueSpec); ok {
					for i, nm := range vs.Names {
						if c.P.Pkg(load.CtrlPkg).TypesInfo.Defs[nm] == ck && i < len(vs.Values) {
							s := types.ExprString(vs.Values[i])
							good = strings.HasSuffix(s, `SchemeGroupVersion.WithKind("StatefulSet")`)
						}
					}
				}
				return true
			})
		}
		c.Check(good, "C06.1-controller-kind", "controllerKind", 0, `SchemeGroupVersion.WithKind("StatefulSet") of the Advanced API group`, "controllerKind is not the Advanced StatefulSet kind")
	}
	// initIdentity / updateIdentity / setPodRevision
	type asg struct{ fn, lhs, rhs, rule, what string }
	for _, a := range []asg{
		{"initIdentity", "$2.Spec.Hostname", "$2.Name", "C06.1-hostname", "hostname = pod name"},
		{"initIdentity", "$2.Spec.Subdomain", "$1.Spec.ServiceName", "C06.1-subdomain", "subdomain = governing service"},
		{"updateIdentity", "$2.Name", "getPodName($1, getOrdinal($2))", "C06.1-name-from-ordinal", "name = getPodName(set, ordinal of the pod)"},
		{"updateIdentity", "$2.Namespace", "$1.Namespace", "C06.1-namespace", "namespace = set's namespace"},
		{"updateIdentity", "$2.Labels[apps.StatefulSetPodNameLabel]", "$2.Name", "C06.1-pod-name-label", "pod-name label = pod name"},
	} {
		if a.fn == "initIdentity" && c.P.Func(load.CtrlPkg, a.fn) == nil && c.renames()[load.CtrlPkg+"|"+a.fn] == nil {
			continue // written out in the constructor: C06.1-returned-hostname / -subdomain decide it there
		}
		f := c.Func(load.CtrlPkg, a.fn)
		if f == nil {
			continue
		}
		ffn := c.E.FnOf(f)
		var ps []ast.Expr
		for _, pf := range f.Decl.Type.Params.List {
			for _, pn := range pf.Names {
				ps = append(ps, pn)
			}
		}
		c.Check(len(ps) == 2 && c.topLevelAssign(f, ffn, a.lhs, a.rhs, ps...), a.rule, a.fn+": "+a.what, f.Decl.Pos(), "unconditional top-level assignment", a.fn+" does not set "+a.what+" unconditionally")
	}
	if ii := c.P.Func(load.CtrlPkg, "initIdentity"); ii != nil {
		okc := false
		for _, call := range topLevelCalls(ii) {
			if calleeName(ii.Pkg.TypesInfo, call) == load.CtrlPkg+".updateIdentity" {
				okc = true
			}
		}
		c.Check(okc, "C06.1-identity-initialised", "initIdentity: updateIdentity(set, pod)", ii.Decl.Pos(), "called unconditionally", "initIdentity does not apply updateIdentity")
	}
	if sr := c.Func(load.CtrlPkg, "setPodRevision"); sr != nil {
		sfn := c.E.FnOf(sr)
		ps := sr.Decl.Type.Params.List
		c.Check(c.topLevelAssign(sr, sfn, "$1.Labels[kubeapps.StatefulSetRevisionLabel]", "$2", ps[0].Names[0], ps[1].Names[0]), "C06.1-revision-label", "setPodRevision", sr.Decl.Pos(),
			"Labels[controller-revision-hash] = revision, unconditionally", "setPodRevision does not stamp the revision label")
	}
	// name functions: fixed formats
	for _, nf := range []struct{ name, format string }{{"getPodName", `"%s-%d"`}, {"getPersistentVolumeClaimName", `"%s-%s-%d"`}} {
		f := c.Func(load.CtrlPkg, nf.name)
		if f == nil {
			continue
		}
		// the returned string as a sequence of parts (literal pieces, string terms, integers in decimal), whether it is
		// written with fmt.Sprintf, with + and strconv, or a mix; compared with the wanted sequence over the parameters
		ok := false
		if len(f.Decl.Body.List) == 1 {
			if ret, isRet := f.Decl.Body.List[0].(*ast.ReturnStmt); isRet && len(ret.Results) == 1 {
				ffn := c.E.FnOf(f)
				got, okParts := stringParts(f.Pkg.TypesInfo, ffn, ret.Results[0])
				var ps []*ast.Ident
				for _, pf := range f.Decl.Type.Params.List {
					ps = append(ps, pf.Names...)
				}
				var want []string
				switch {
				case nf.name == "getPodName" && len(ps) == 2:
					want = []string{"s:" + c.WantTerm(ffn, ret.Pos(), "$1.Name", ps[0]).Key(), "l:-", "d:" + ffn.Term(ps[1]).Key()}
				case nf.name == "getPersistentVolumeClaimName" && len(ps) == 3:
					// the template claim, or its name
					first := ffn.Term(ps[1])
					if bt, isB := f.Pkg.TypesInfo.TypeOf(ps[1]).Underlying().(*types.Basic); !isB || bt.Kind() != types.String {
						first = c.WantTerm(ffn, ret.Pos(), "$1.Name", ps[1])
					}
					want = []string{"s:" + first.Key(), "l:-", "s:" + c.WantTerm(ffn, ret.Pos(), "$1.Name", ps[0]).Key(), "l:-", "d:" + ffn.Term(ps[2]).Key()}
				}
				ok = okParts && want != nil && strings.Join(got, "|") == strings.Join(want, "|")
			}
		}
		c.Check(ok, "C06.1-name-functions", nf.name, f.Decl.Pos(), "a fixed format over (template name,) set name and ordinal: a pure function, so the same ordinal always gets the same names", nf.name+" is not the fixed name format")
	}
	// updateStorage: one volume per claim of the pod, bound to the claim's name
	if us := c.Func(load.CtrlPkg, "updateStorage"); us != nil {
		ufn := c.E.FnOf(us)
		uinfo := us.Pkg.TypesInfo
		ps := us.Decl.Type.Params.List
		setP, podP := ps[0].Names[0], ps[1].Names[0]
		var loop *ast.RangeStmt
		for _, s := range us.Decl.Body.List {
			if rs, ok := s.(*ast.RangeStmt); ok {
				if src := assignedFromCall(us, uinfo, rs.X); src != nil && calleeName(uinfo, src) == load.CtrlPkg+".getPersistentVolumeClaims" &&
					ufn.Term(src.Args[0]).Key() == ufn.Term(setP).Key() && ufn.Term(src.Args[1]).Key() == ufn.Term(podP).Key() && loop == nil {
					loop = rs
				}
			}
		}
		okVol := false
		var newVols types.Object
		if loop != nil && len(loop.Body.List) == 1 {
			if as, ok := loop.Body.List[0].(*ast.AssignStmt); ok && len(as.Rhs) == 1 {
				if call, ok := as.Rhs[0].(*ast.CallExpr); ok && len(call.Args) == 2 {
					if lit, ok := call.Args[1].(*ast.CompositeLit); ok {
						txt := types.ExprString(lit)
						_ = txt
						// Name: <key>, ...PersistentVolumeClaim: &{ClaimName: <value>.Name}
						nameOK, claimOK := false, false
						ast.Inspect(lit, func(n ast.Node) bool {
							if kv, ok := n.(*ast.KeyValueExpr); ok {
								if k, ok := kv.Key.(*ast.Ident); ok {
									if k.Name == "Name" && ufn.Term(kv.Value).Key() == ufn.Term(loop.Key).Key() {
										nameOK = true
									}
									if k.Name == "ClaimName" && ufn.Term(kv.Value).Key() == c.WantTerm(ufn, kv.Pos(), "$1.Name", loop.Value).Key() {
										claimOK = true
									}
								}
							}
							return true
						})
						okVol = nameOK && claimOK
						if id, ok := as.Lhs[0].(*ast.Ident); ok {
							newVols = uinfo.ObjectOf(id)
						}
					}
				}
			}
		}
		assigned := false
		if newVols != nil {
			for _, s := range us.Decl.Body.List {
				if as, ok := s.(*ast.AssignStmt); ok && len(as.Lhs) == 1 {
					if ufn.Term(as.Lhs[0]).Key() == c.WantTerm(ufn, as.Pos(), "$1.Spec.Volumes", podP).Key() {
						if id, ok := as.Rhs[0].(*ast.Ident); ok && uinfo.ObjectOf(id) == newVols {
							assigned = true
						}
					}
				}
			}
		}
		c.Check(okVol && assigned, "C06.1-volumes-bound-to-claims", "updateStorage", us.Decl.Pos(), "for every claim of the pod a volume named after the template with ClaimName = the claim's name; the result replaces pod.Spec.Volumes",
			"the pod's volumes are not bound, one per claim template, to the ordinal's claims")
	}
}

func (c *Ctx) claimsBeforePod() {
	fi := c.Func(load.CtrlPkg, "realStatefulPodControl.CreateStatefulPod")
	cl := c.Func(load.CtrlPkg, "realStatefulPodControl.createPersistentVolumeClaims")
	if fi == nil || cl == nil {
		return
	}
	fn, an := c.Analysis(fi)
	info := fi.Pkg.TypesInfo
	var create, claims *ast.CallExpr
	for _, s := range c.G.Sites {
		if s.Fn == fi.Obj && s.Resource == "pods" && s.Verb == "Create" {
			create = s.Call
		}
	}
	for _, call := range callsIn(fi.Decl.Body, false) {
		if f := gf.StaticCallee(info, call); f != nil && f.Origin() == cl.Obj {
			claims = call
		}
	}
	if create == nil || claims == nil {
		c.Bad("C06.2-claims-before-pod", "CreateStatefulPod", fi.Decl.Pos(), "the pod Create or the claim creation call is missing")
		return
	}
	ps := fi.Decl.Type.Params.List
	setP, podP := ps[0].Names[0], ps[1].Names[0]
	same := fn.Term(claims.Args[0]).Key() == fn.Term(setP).Key() && fn.Term(claims.Args[1]).Key() == fn.Term(podP).Key() && fn.Term(create.Args[1]).Key() == fn.Term(podP).Key()
	st := stmtOf(fi.Decl.Body, claims)
	aU := fn.FromUntil(fi.Decl.Body.List[0], gf.TrueState(), st)
	must := !aU.StateAtExpr(create).Reachable()
	errF := c.errNonNilAfter(fn, st, claims)
	blocked := false
	if errF != nil {
		aE := fn.FromAfter(st, an.StateAfter(st).Assume(errF))
		blocked = !aE.StateAtExpr(create).Reachable()
	}
	c.Check(same && must && blocked, "C06.2-claims-before-pod", "CreateStatefulPod: Pods.Create", create.Pos(), "reachable only through createPersistentVolumeClaims(set, pod) for the same pod, and not when that returned an error",
		"the pod can be created without its claims having been created first (or after a claim could not be created)")
	// the claim loop
	cfn, can := c.Analysis(cl)
	cinfo := cl.Pkg.TypesInfo
	// (the lookup and the create may sit in a per-claim helper the engine expands into the loop)
	var pvcCreate, pvcGet, createTop *ast.CallExpr
	for _, s := range c.sitesOf(cl) {
		if s.Resource == "persistentvolumeclaims" {
			switch s.Verb {
			case "Create":
				pvcCreate, createTop = s.Call, s.Top
			case "Get":
				pvcGet = s.Call
			}
		}
	}
	if pvcCreate == nil || pvcGet == nil {
		c.Bad("C06.2-claim-loop", "createPersistentVolumeClaims", cl.Decl.Pos(), "no claim lookup/create found")
		return
	}
	// "a claim that cannot be created prevents the pod from being created": the pod create is blocked by the error
	// this function returns (C06.2-claims-before-pod), so the failure of any claim's lookup or create has to be in
	// that result -- not overwritten by a later claim's outcome, not dropped (the error discipline of C09, applied
	// to the functions that hold the claim calls)
	{
		var scopes []errScope
		hosts := map[*load.FuncInfo]bool{cl: true, c.hostOf(cl, pvcCreate): true, c.hostOf(cl, pvcGet): true}
		for _, sc := range c.errorDisciplineScopes() {
			if hosts[sc.fi] {
				scopes = append(scopes, sc)
			}
		}
		c.Floor("C06.2-claim-error-sites", c.errorDiscipline("C06.2-claim", scopes), 2)
	}
	loop, _ := innermostLoop(cl.Decl.Body, createTop).(*ast.RangeStmt)
	cps := cl.Decl.Type.Params.List
	okRange := false
	if loop != nil {
		if src, ok := ast.Unparen(loop.X).(*ast.CallExpr); ok && calleeName(cinfo, src) == load.CtrlPkg+".getPersistentVolumeClaims" {
			okRange = cfn.Term(src.Args[0]).Key() == cfn.Term(cps[0].Names[0]).Key() && cfn.Term(src.Args[1]).Key() == cfn.Term(cps[1].Names[0]).Key()
		}
	}
	c.Check(okRange, "C06.2-claim-loop-covers-all", "createPersistentVolumeClaims: range", cl.Decl.Pos(), "ranges over getPersistentVolumeClaims(set, pod): every claim of this pod", "the claim loop does not range over all claims of the pod")
	if loop == nil {
		return
	}
	// no early exit
	done, head := loopBlock(cfn, loop, cfg.KindRangeDone), loopHead(cfn, loop)
	early := false
	for _, b := range cfn.CFG.Blocks {
		if !b.Live || b == head {
			continue
		}
		for i, sx := range b.Succs {
			if sx == done {
				if es := can.EdgeStates(b); i < len(es) && es[i].Reachable() {
					early = true
				}
			}
		}
	}
	ast.Inspect(loop.Body, func(n ast.Node) bool {
		if r, ok := n.(*ast.ReturnStmt); ok && can.StateBefore(r).Reachable() {
			early = true
		}
		return true
	})
	c.Check(!early, "C06.2-claim-loop-no-early-exit", "createPersistentVolumeClaims: loop", loop.Pos(), "the loop is left only when every claim has been handled", "the claim loop can be left early (break/return): later claims are never looked up or created")
	// every claim is looked up: no iteration ends without the lister having been asked about this claim (a claim taken
	// for granted from an earlier reconcile may have been deleted since)
	if len(loop.Body.List) > 0 && head != nil {
		start := loop.Body.List[0]
		aG := cfn.FromUntil(start, can.StateBefore(start), pvcGet)
		c.Check(!aG.BlockReached(head), "C06.2-every-claim-is-looked-up", "createPersistentVolumeClaims: lookup", pvcGet.Pos(), "every iteration passes the claim lookup",
			"an iteration can end without looking the claim up: its existence is assumed, and the pod is created although the claim may be gone")
	}
	// NotFound reaches Create; the created claim is the loop's claim
	getStmt := stmtOf(c.hostOf(cl, pvcGet).Decl.Body, pvcGet)
	if as, ok := getStmt.(*ast.AssignStmt); ok {
		errID := as.Lhs[len(as.Lhs)-1]
		nf := gf.FBool(gf.CallT("k8s.io/apimachinery/pkg/api/errors.IsNotFound", types.Typ[types.Bool], cfn.Term(errID)))
		aN := cfn.FromAfterUntil(getStmt, can.StateAfter(getStmt).Assume(nf), pvcCreate)
		skipped := head != nil && aN.BlockReached(head)
		c.Check(!skipped, "C06.2-missing-claim-is-created", "createPersistentVolumeClaims: NotFound", pvcGet.Pos(), "a claim the lister does not know is created before the next claim is examined", "a missing claim can be skipped without being created")
		// any other lookup error is recorded
	}
	if v, ok := loop.Value.(*ast.Ident); ok {
		wantPtr, wantName := c.WantTerm(cfn, loop.Body.Pos(), "&$1", v), c.WantTerm(cfn, loop.Body.Pos(), "$1.Name", v)
		sameC := wantPtr != nil && cfn.Term(pvcCreate.Args[1]).Key() == wantPtr.Key()
		if !sameC && wantPtr != nil {
			sameC, _ = can.StateAtExpr(pvcCreate).Implies(gf.FEq(cfn.Term(pvcCreate.Args[1]), wantPtr))
		}
		sameG := wantName != nil && cfn.Term(pvcGet.Args[0]).Key() == wantName.Key()
		if !sameG && wantName != nil {
			sameG, _ = can.StateAtExpr(pvcGet).Implies(gf.FEq(cfn.Term(pvcGet.Args[0]), wantName))
		}
		c.Check(sameC && sameG,
			"C06.2-claim-identity", "createPersistentVolumeClaims: Get/Create arguments", pvcCreate.Pos(), "looks up claim.Name and creates &claim of the iteration", "the looked-up and the created claim are not the iteration's claim")
	}
}

// claimBuilder: C06.4 on getPersistentVolumeClaims.
func (c *Ctx) claimBuilder() {
	fi := c.Func(load.CtrlPkg, "getPersistentVolumeClaims")
	if fi == nil {
		return
	}
	fn, an := c.Analysis(fi)
	info := fi.Pkg.TypesInfo
	ps := fi.Decl.Type.Params.List
	setP, podP := ps[0].Names[0], ps[1].Names[0]
	var loop ast.Stmt
	var claim *ast.Ident
	var store *ast.AssignStmt
	ast.Inspect(fi.Decl.Body, func(n ast.Node) bool {
		as, ok := n.(*ast.AssignStmt)
		if !ok || len(as.Lhs) != 1 {
			return true
		}
		if ix, ok := as.Lhs[0].(*ast.IndexExpr); ok {
			if _, isMap := info.TypeOf(ix.X).Underlying().(*types.Map); isMap && types.TypeString(info.TypeOf(as.Rhs[0]), nil) == "k8s.io/api/core/v1.PersistentVolumeClaim" {
				store = as
				claim, _ = as.Rhs[0].(*ast.Ident)
				loop = innermostLoop(fi.Decl.Body, as)
			}
		}
		return true
	})
	if store == nil || claim == nil || loop == nil {
		c.Bad("C06.4-claim-builder", "getPersistentVolumeClaims", fi.Decl.Pos(), "no `claims[template name] = claim` store in a loop")
		return
	}
	// over all templates
	okAll := false
	switch l := loop.(type) {
	case *ast.RangeStmt:
		tm := c.WantTerm(fn, l.Pos(), "$1.Spec.VolumeClaimTemplates", setP)
		if fn.Term(l.X).Key() == tm.Key() {
			okAll = true
		} else if r := defRHS(fi, info, l.X); r != nil && fn.Term(r).Key() == tm.Key() {
			okAll = true
		}
	}
	// the store is reached on every iteration
	start := loopBody(loop).List[0]
	aU := fn.FromUntil(start, an.StateBefore(start), store)
	if head := loopHead(fn, loop); head == nil || aU.BlockReached(head) {
		okAll = false
	}
	c.Check(okAll, "C06.4-every-template", "getPersistentVolumeClaims: loop", loop.Pos(), "every volume claim template yields a claim", "not every volume claim template yields a claim")
	st := an.StateBefore(store)
	_ = st
	// on every path to the store: name, namespace, labels
	body := loopBody(loop)
	nameOK, nsOK := false, false
	for _, s := range body.List {
		if as, ok := s.(*ast.AssignStmt); ok && len(as.Lhs) == 1 && len(as.Rhs) == 1 {
			if termIs(fn.Term(as.Lhs[0]), c.TryWantTerm(fn, as.Pos(), "$1.Name", claim)) {
				if call, ok := as.Rhs[0].(*ast.CallExpr); ok && calleeName(info, call) == load.CtrlPkg+".getPersistentVolumeClaimName" && len(call.Args) == 3 {
					o := defRHS(fi, info, call.Args[2])
					if oc, ok := o.(*ast.CallExpr); ok && calleeName(info, oc) == load.CtrlPkg+".getOrdinal" && fn.Term(oc.Args[0]).Key() == fn.Term(podP).Key() &&
						fn.Term(call.Args[0]).Key() == fn.Term(setP).Key() && (termIs(fn.Term(call.Args[1]), c.TryWantTerm(fn, as.Pos(), "&$1", claim)) || termIs(fn.Term(call.Args[1]), c.TryWantTerm(fn, as.Pos(), "$1.Name", claim))) {
						nameOK = true
					}
				}
			}
			if termIs(fn.Term(as.Lhs[0]), c.TryWantTerm(fn, as.Pos(), "$1.Namespace", claim)) && termIs(fn.Term(as.Rhs[0]), c.TryWantTerm(fn, as.Pos(), "$1.Namespace", setP)) {
				nsOK = true
			}
		}
	}
	c.Check(nameOK, "C06.4-claim-name", "getPersistentVolumeClaims: claim.Name", store.Pos(), "getPersistentVolumeClaimName(set, &claim, getOrdinal(pod)), unconditionally", "the claim is not named after (template, set, ordinal of the pod)")
	c.Check(nsOK, "C06.4-claim-namespace", "getPersistentVolumeClaims: claim.Namespace", store.Pos(), "the set's namespace, unconditionally", "the claim is not placed in the set's namespace")
	// labels: on the nil branch assigned from the selector's match labels, on the other branch every match label copied
	ml := c.WantTerm(fn, store.Pos(), "$1.Spec.Selector.MatchLabels", setP)
	var merge, assign bool
	ast.Inspect(body, func(n ast.Node) bool {
		switch x := n.(type) {
		case *ast.RangeStmt:
			if fn.Term(x.X).Key() == ml.Key() && len(x.Body.List) == 1 {
				if as, ok := x.Body.List[0].(*ast.AssignStmt); ok {
					if ix, ok := as.Lhs[0].(*ast.IndexExpr); ok && termIs(fn.Term(ix.X), c.TryWantTerm(fn, as.Pos(), "$1.Labels", claim)) &&
						fn.Term(ix.Index).Key() == fn.Term(x.Key).Key() && fn.Term(as.Rhs[0]).Key() == fn.Term(x.Value).Key() {
						if ok, _ := an.StateBefore(x).Implies(c.Want(fn, x.Pos(), "$1.Labels != nil", claim)); ok {
							merge = true
						}
					}
				}
			}
		case *ast.AssignStmt:
			if len(x.Lhs) == 1 && termIs(fn.Term(x.Lhs[0]), c.TryWantTerm(fn, x.Pos(), "$1.Labels", claim)) && fn.Term(x.Rhs[0]).Key() == ml.Key() {
				if ok, _ := an.StateBefore(x).Implies(c.Want(fn, x.Pos(), "$1.Labels == nil", claim)); ok {
					assign = true
				}
			}
		}
		return true
	})
	// and one of the two happens on every path: stopping at both, the store is unreachable
	var stops []ast.Node
	ast.Inspect(body, func(n ast.Node) bool {
		switch x := n.(type) {
		case *ast.RangeStmt:
			if fn.Term(x.X).Key() == ml.Key() {
				stops = append(stops, x.Body.List[0])
			}
		case *ast.AssignStmt:
			if len(x.Lhs) == 1 && termIs(fn.Term(x.Lhs[0]), c.TryWantTerm(fn, x.Pos(), "$1.Labels", claim)) {
				stops = append(stops, x)
			}
		}
		return true
	})
	c.Check(merge && assign, "C06.4-claim-labels", "getPersistentVolumeClaims: claim.Labels", store.Pos(), "selector match labels merged into existing labels, or assigned when there are none", "a claim can be built without the selector's match labels")
}

func termIs(a, b *gf.Term) bool { return a != nil && b != nil && a.Key() == b.Key() }

// stringParts flattens a string-valued expression into parts: "l:<text>" literal pieces (adjacent ones
// merged), "s:<term key>" string terms, "d:<term key>" integers printed in decimal. It understands
// fmt.Sprintf with %s, %d and %v verbs, +, strconv.Itoa / FormatInt(x, 10) and fmt.Sprint of one argument.
func stringParts(info *types.Info, fn *gf.Fn, e ast.Expr) ([]string, bool) {
	var out []string
	ok := true
	lit := func(t string) {
		if t == "" {
			return
		}
		if n := len(out); n > 0 && strings.HasPrefix(out[n-1], "l:") {
			out[n-1] += t
			return
		}
		out = append(out, "l:"+t)
	}
	isInt := func(x ast.Expr) bool {
		b, isB := info.TypeOf(x).Underlying().(*types.Basic)
		return isB && b.Info()&types.IsInteger != 0
	}
	isStr := func(x ast.Expr) bool {
		b, isB := info.TypeOf(x).Underlying().(*types.Basic)
		return isB && b.Info()&types.IsString != 0
	}
	var walk func(x ast.Expr)
	walk = func(x ast.Expr) {
		x = ast.Unparen(x)
		if tv, has := info.Types[x]; has && tv.Value != nil && tv.Value.Kind() == constant.String {
			lit(constant.StringVal(tv.Value))
			return
		}
		switch y := x.(type) {
		case *ast.BinaryExpr:
			if y.Op == token.ADD && isStr(y) {
				walk(y.X)
				walk(y.Y)
				return
			}
		case *ast.CallExpr:
			switch calleeName(info, y) {
			case "fmt.Sprintf":
				tv, has := info.Types[y.Args[0]]
				if !has || tv.Value == nil {
					ok = false
					return
				}
				format := constant.StringVal(tv.Value)
				argi := 1
				for i := 0; i < len(format); i++ {
					if format[i] != '%' {
						lit(string(format[i]))
						continue
					}
					if i+1 >= len(format) {
						ok = false
						return
					}
					i++
					switch format[i] {
					case '%':
						lit("%")
					case 's', 'd', 'v':
						if argi >= len(y.Args) {
							ok = false
							return
						}
						a := y.Args[argi]
						argi++
						switch {
						case isInt(a) && format[i] != 's':
							out = append(out, "d:"+fn.Term(a).Key())
						case isStr(a) && format[i] != 'd':
							walk(a)
						default:
							ok = false
						}
					default:
						ok = false
					}
				}
				return
			case "strconv.Itoa":
				out = append(out, "d:"+fn.Term(y.Args[0]).Key())
				return
			case "strconv.FormatInt":
				if tv, has := info.Types[y.Args[1]]; has && tv.Value != nil && tv.Value.ExactString() == "10" {
					out = append(out, "d:"+fn.Term(y.Args[0]).Key())
					return
				}
			case "fmt.Sprint":
				if len(y.Args) == 1 {
					if isInt(y.Args[0]) {
						out = append(out, "d:"+fn.Term(y.Args[0]).Key())
						return
					}
					if isStr(y.Args[0]) {
						walk(y.Args[0])
						return
					}
				}
			}
		}
		if isStr(x) {
			out = append(out, "s:"+fn.Term(x).Key())
			return
		}
		ok = false
	}
	walk(e)
	return out, ok
}

// restoredSetComesFromTheRevision: "the label of the revision it was built from": a pod is built from ApplyRevision(set, R)
// and stamped R (C07.4), so what ApplyRevision returns has to be R's recorded template applied to the set -- on every
// path: no successful return is reachable without having passed the call that is handed R's recorded data. (What the
// stored status says about R is a reconcile old.)
func (c *Ctx) restoredSetComesFromTheRevision() {
	const rule = "C06.1-restored-set-comes-from-the-revision"
	fi := c.Func(load.CtrlPkg, "ApplyRevision")
	if fi == nil {
		return
	}
	fn, _ := c.Analysis(fi)
	info := fi.Pkg.TypesInfo
	var rev *ast.Ident
	for _, pf := range fi.Decl.Type.Params.List {
		for _, pn := range pf.Names {
			if types.TypeString(info.TypeOf(pn), nil) == "*k8s.io/api/apps/v1.ControllerRevision" {
				rev = pn
			}
		}
	}
	if rev == nil {
		c.Fail("ApplyRevision: revision parameter not found")
		return
	}
	var stops []ast.Node
	for _, bd := range fn.Bodies() {
		for _, call := range callsIn(bd, true) {
			uses := false
			for _, a := range call.Args {
				ast.Inspect(a, func(x ast.Node) bool {
					if sel, ok := x.(*ast.SelectorExpr); ok && sel.Sel.Name == "Raw" {
						if r := rootIdent(sel.X); r != nil && info.ObjectOf(r) == info.ObjectOf(rev) {
							uses = true
						}
					}
					return true
				})
			}
			if uses {
				if st := stmtOf(bd, call); st != nil {
					stops = append(stops, st)
				}
			}
		}
	}
	if len(stops) == 0 {
		c.Bad(rule, "ApplyRevision", fi.Decl.Pos(), "no call is handed the revision's recorded data")
		return
	}
	aU := fn.FromUntil(fi.Decl.Body.List[0], gf.TrueState(), stops...)
	n := 0
	ownNodes(fi.Decl.Body, func(x ast.Node) {
		ret, ok := x.(*ast.ReturnStmt)
		if !ok || len(ret.Results) == 0 {
			return
		}
		st := aU.StateBefore(ret)
		if !st.Reachable() {
			return
		}
		last := ret.Results[len(ret.Results)-1]
		if isErrorCtor(info, last) {
			return
		}
		if g, _ := st.Implies(gf.FNotNil(fn.Term(last))); g && !isNilExpr(info, last) {
			return
		}
		n++
		c.Bad(rule, fmt.Sprintf("ApplyRevision: return #%d", n), ret.Pos(), "a set is returned as restored from the revision without the revision's recorded data having been applied: a pod built from it carries the revision's label but not its template")
	})
	if n == 0 {
		c.OK(rule, "ApplyRevision", fi.Decl.Pos(), "every successful return has passed the application of revision.Data.Raw")
	}
}
