package rules

import (
	_ "embed"
	"encoding/json"
	"go/ast"
	"go/types"
	"sort"
	"strings"

	"asverif/internal/gf"
	"asverif/internal/load"
)

// Anchor fingerprints. The rules are anchored on functions by name. An unexported function may be
// renamed without any change of behaviour; to keep the anchors (and the tables keyed by function
// name: idioms, reviewed exceptions) attached, anchors.json records for every function of the
// pinned tree its signature and the set of functions it calls. A name of that table which no longer
// exists is matched to the one new function of the same package with the same receiver and
// signature whose callee set is closest (and close enough); anything ambiguous stays unresolved
// and is reported as such.

//go:embed anchors.json
var anchorsJSON []byte

type anchorPrint struct {
	Pkg     string   `json:"pkg"`
	Name    string   `json:"name"` // Recv.Name for methods
	Sig     string   `json:"sig"`
	Callees []string `json:"callees"`
}

// Fingerprints computes the table for the loaded tree (asverif anchors > anchors.json at the pinned commit).
func Fingerprints(p *load.Prog) []anchorPrint {
	var out []anchorPrint
	for _, fi := range p.Funcs() {
		if strings.HasSuffix(p.Fset.Position(fi.Decl.Pos()).Filename, "_test.go") {
			continue
		}
		out = append(out, printOf(fi))
	}
	sort.Slice(out, func(i, j int) bool {
		if out[i].Pkg != out[j].Pkg {
			return out[i].Pkg < out[j].Pkg
		}
		return out[i].Name < out[j].Name
	})
	return out
}

func printOf(fi *load.FuncInfo) anchorPrint {
	info := fi.Pkg.TypesInfo
	set := map[string]bool{}
	ast.Inspect(fi.Decl.Body, func(n ast.Node) bool {
		if call, ok := n.(*ast.CallExpr); ok {
			if f := gf.StaticCallee(info, call); f != nil {
				set[f.FullName()] = true
			}
		}
		return true
	})
	var cs []string
	for k := range set {
		cs = append(cs, k)
	}
	sort.Strings(cs)
	sig := fi.Obj.Type().(*types.Signature)
	var ps, rs []string
	for i := 0; i < sig.Params().Len(); i++ {
		ps = append(ps, types.TypeString(sig.Params().At(i).Type(), nil))
	}
	for i := 0; i < sig.Results().Len(); i++ {
		rs = append(rs, types.TypeString(sig.Results().At(i).Type(), nil))
	}
	sg := "(" + strings.Join(ps, ", ") + ") (" + strings.Join(rs, ", ") + ")"
	if sig.Variadic() {
		sg += " variadic"
	}
	return anchorPrint{Pkg: fi.Pkg.PkgPath, Name: scopeShortName(fi), Sig: sg, Callees: cs}
}

// renames maps "pkg|oldName" -> current FuncInfo for functions of the table that are gone.
func (c *Ctx) renames() map[string]*load.FuncInfo {
	if c.renamed != nil {
		return c.renamed
	}
	c.renamed = map[string]*load.FuncInfo{}
	c.renamedBack = map[*load.FuncInfo]string{}
	var table []anchorPrint
	if json.Unmarshal(anchorsJSON, &table) != nil {
		return c.renamed
	}
	known := map[string]bool{}
	for _, a := range table {
		known[a.Pkg+"|"+a.Name] = true
	}
	present := map[string]*load.FuncInfo{}
	var fresh []*load.FuncInfo
	for _, fi := range c.P.Funcs() {
		k := fi.Pkg.PkgPath + "|" + scopeShortName(fi)
		present[k] = fi
		if !known[k] {
			fresh = append(fresh, fi)
		}
	}
	recvOf := func(name string) string {
		if i := strings.Index(name, "."); i >= 0 {
			return name[:i]
		}
		return ""
	}
	unexported := func(name string) bool {
		if i := strings.Index(name, "."); i >= 0 {
			name = name[i+1:]
		}
		return name != "" && name[0] >= 'a' && name[0] <= 'z'
	}
	taken := map[*load.FuncInfo]bool{}
	for _, a := range table {
		k := a.Pkg + "|" + a.Name
		if present[k] != nil || !unexported(a.Name) {
			continue
		}
		want := map[string]bool{}
		for _, x := range a.Callees {
			want[x] = true
		}
		var best *load.FuncInfo
		bestScore, second := -1.0, -1.0
		for _, fi := range fresh {
			if fi.Pkg.PkgPath != a.Pkg || taken[fi] || recvOf(scopeShortName(fi)) != recvOf(a.Name) {
				continue
			}
			pr := printOf(fi)
			if pr.Sig != a.Sig {
				continue
			}
			inter, union := 0, len(want)
			for _, x := range pr.Callees {
				if want[x] {
					inter++
				} else {
					union++
				}
			}
			score := 1.0
			if union > 0 {
				score = float64(inter) / float64(union)
			}
			if score > bestScore {
				best, second, bestScore = fi, bestScore, score
			} else if score > second {
				second = score
			}
		}
		if best != nil && bestScore >= 0.6 && bestScore-second >= 0.2 {
			c.renamed[k] = best
			c.renamedBack[best] = a.Name
			taken[best] = true
		}
	}
	return c.renamed
}

// tableName returns the name under which fi is known to the name-keyed tables (its name at the
// pinned commit if it was renamed since).
func (c *Ctx) tableName(fi *load.FuncInfo) string {
	c.renames()
	if old, ok := c.renamedBack[fi]; ok {
		return old
	}
	return scopeShortName(fi)
}

var pinnedCache map[string]bool

// pinnedNames: "pkg|Recv.Name" of every function of the pinned tree.
func pinnedNames() map[string]bool {
	if pinnedCache != nil {
		return pinnedCache
	}
	pinnedCache = map[string]bool{}
	var table []anchorPrint
	if json.Unmarshal(anchorsJSON, &table) == nil {
		for _, a := range table {
			pinnedCache[a.Pkg+"|"+a.Name] = true
		}
	}
	return pinnedCache
}
