package rules

import (
	"go/ast"
	"go/types"

	"asverif/internal/gf"
	"asverif/internal/load"
)

// chooserShape: how the revision-choosing function hands back the current and the update revision. Either as
// its first two results, or as two fields of a struct result; which field is which is read from the consumer:
// the call of the reconcile function, whose revision parameters are identified by what is stored into
// status.currentRevision / status.updateRevision (ReconcileRoles).
type chooserShape struct {
	fi                 *load.FuncInfo
	structured         bool
	curField, updField string
}

var chooserCache = map[*Ctx]*chooserShape{}

func (c *Ctx) chooser() *chooserShape {
	if cs, ok := chooserCache[c]; ok {
		return cs
	}
	var cs *chooserShape
	defer func() { chooserCache[c] = cs }()
	fi := c.Func(load.CtrlPkg, "defaultStatefulSetControl.getStatefulSetRevisions")
	if fi == nil {
		return nil
	}
	sig := fi.Obj.Type().(*types.Signature)
	isRev := func(t types.Type) bool { return types.TypeString(t, nil) == "*k8s.io/api/apps/v1.ControllerRevision" }
	if sig.Results().Len() >= 3 && isRev(sig.Results().At(0).Type()) && isRev(sig.Results().At(1).Type()) {
		cs = &chooserShape{fi: fi}
		return cs
	}
	// a struct (or pointer to struct) first result with two revision fields
	if sig.Results().Len() < 2 {
		return nil
	}
	st := structOfType(sig.Results().At(0).Type())
	if st == nil {
		return nil
	}
	r := c.ReconcileRoles()
	if r == nil || r.CurRev == nil || r.UpdRev == nil {
		return nil
	}
	// positions of the reconcile function's revision parameters
	idx := map[types.Object]int{}
	i := 0
	for _, f := range r.FI.Decl.Type.Params.List {
		for _, n := range f.Names {
			idx[r.FI.Pkg.TypesInfo.ObjectOf(n)] = i
			i++
		}
	}
	ci, okc := idx[r.FI.Pkg.TypesInfo.ObjectOf(r.CurRev)]
	ui, oku := idx[r.FI.Pkg.TypesInfo.ObjectOf(r.UpdRev)]
	if !okc || !oku {
		return nil
	}
	for _, caller := range c.P.Funcs() {
		info := caller.Pkg.TypesInfo
		for _, call := range callsIn(caller.Decl.Body, true) {
			if f := gf.StaticCallee(info, call); f == nil || f.Origin() != r.FI.Obj || len(call.Args) <= ci || len(call.Args) <= ui {
				continue
			}
			cf, ok1 := ast.Unparen(call.Args[ci]).(*ast.SelectorExpr)
			uf, ok2 := ast.Unparen(call.Args[ui]).(*ast.SelectorExpr)
			if !ok1 || !ok2 {
				continue
			}
			// both selected from one variable assigned from the chooser
			cb, ok1 := ast.Unparen(cf.X).(*ast.Ident)
			ub, ok2 := ast.Unparen(uf.X).(*ast.Ident)
			if !ok1 || !ok2 || info.ObjectOf(cb) != info.ObjectOf(ub) {
				continue
			}
			if src := assignedFromCall(caller, info, cb); src != nil {
				if g := gf.StaticCallee(info, src); g != nil && g.Origin() == fi.Obj {
					cs = &chooserShape{fi: fi, structured: true, curField: cf.Sel.Name, updField: uf.Sel.Name}
					return cs
				}
			}
		}
	}
	return nil
}

func structOfType(t types.Type) *types.Struct {
	if p, ok := t.Underlying().(*types.Pointer); ok {
		t = p.Elem()
	}
	s, _ := t.Underlying().(*types.Struct)
	return s
}

// results: the expressions a successful return hands back as current and update revision (nil, nil otherwise).
func (cs *chooserShape) results(info *types.Info, ret *ast.ReturnStmt) (cur, upd ast.Expr) {
	if len(ret.Results) == 0 || !isNilExpr(info, ret.Results[len(ret.Results)-1]) {
		return nil, nil
	}
	if !cs.structured {
		if len(ret.Results) < 3 || isNilExpr(info, ret.Results[0]) {
			return nil, nil
		}
		return ret.Results[0], ret.Results[1]
	}
	e := ast.Unparen(ret.Results[0])
	if u, ok := e.(*ast.UnaryExpr); ok {
		e = ast.Unparen(u.X)
	}
	lit, ok := e.(*ast.CompositeLit)
	if !ok {
		return nil, nil
	}
	for _, el := range lit.Elts {
		kv, ok := el.(*ast.KeyValueExpr)
		if !ok {
			return nil, nil
		}
		if k, ok := kv.Key.(*ast.Ident); ok {
			switch k.Name {
			case cs.curField:
				cur = kv.Value
			case cs.updField:
				upd = kv.Value
			}
		}
	}
	if cur == nil || upd == nil {
		return nil, nil
	}
	return cur, upd
}
