package rules

import (
	"fmt"
	"go/ast"
	"go/constant"
	"go/token"
	"go/types"
	"math"
	"os"
	"strings"

	"asverif/internal/gf"
	"asverif/internal/load"
)

func init() {
	register(&Property{
		ID:    "C01",
		Title: "Desired ordinals = first `replicas` non-negative integers not in delete-slots",
		Run:   runC01,
		Explanation: "Decides clauses C01.1-C01.4 of DESIGN.md: (1) single source of truth: in the controller packages spec.replicas is read only as the first argument of helper.GetMaxReplicaCountAndDeleteSlots and the delete-slots annotation only through helper.GetDeleteSlots (whose result only feeds that same call); the four ordinal helpers reach that function and do no arithmetic of their own on the replica count; the ordinal enumeration inserts exactly the i with 0 <= i < bound and i not an effective slot; " +
			"(2) the controller makes the wanted slice with the returned bound and tests the returned slot set (shared with C03/C04); (3) shape of the bound computation: it walks a copy of the slot set in ascending order (sets.Int32.List), compares each slot with the running bound it returns, extends the bound only under 0 <= slot < bound, and removes from the effective set every slot for which that fails; " +
			"(4) the int32 increment of the bound is not overflow-guarded: known finding D9. NOT decided: the arithmetic claim itself (cardinality and minimality for all (replicas, slots)); it needs value-level reasoning.",
	})
}

func runC01(c *Ctx) {
	c.singleSource()
	c.helperChain()
	c.boundComputation()
	c.malformedAnnotationMeansNoSlots()
	c.extremeHelpers()
	if r := c.ReconcileRoles(); r != nil {
		c.boundIsHelperResult(r, "C01.2-bound")
		c.storeClassesAs(r, "C01.2")
		c.everyVacancyIsFilled(r, "C01.2-every-vacancy-is-filled")
	}
}

// singleSource: C01.1 in the controller packages.
func (c *Ctx) singleSource() {
	hf, _ := c.P.Lookup(load.HelperPkg, "GetMaxReplicaCountAndDeleteSlots").(*types.Func)
	gds, _ := c.P.Lookup(load.HelperPkg, "GetDeleteSlots").(*types.Func)
	ann, _ := c.P.Lookup(load.HelperPkg, "DeleteSlotsAnn").(*types.Const)
	if hf == nil || gds == nil || ann == nil {
		c.Fail("helper anchors do not resolve")
		return
	}
	nRep, nSlots := 0, 0
	for _, fi := range c.P.Funcs() {
		pp := fi.Pkg.PkgPath
		if !strings.HasPrefix(pp, load.RootMod+"/pkg/") && !strings.HasPrefix(pp, load.RootMod+"/cmd/") {
			continue
		}
		info := fi.Pkg.TypesInfo
		parents := map[ast.Node]ast.Node{}
		var stack []ast.Node
		ast.Inspect(fi.Decl.Body, func(n ast.Node) bool {
			if n == nil {
				stack = stack[:len(stack)-1]
				return true
			}
			if len(stack) > 0 {
				parents[n] = stack[len(stack)-1]
			}
			stack = append(stack, n)
			return true
		})
		ast.Inspect(fi.Decl.Body, func(n ast.Node) bool {
			switch x := n.(type) {
			case *ast.SelectorExpr:
				if x.Sel.Name == "Replicas" && isNamed(info.TypeOf(x.X), load.APIPkg, "StatefulSetSpec") {
					nRep++
					name := fmt.Sprintf("%s: read of %s", fi.Obj.Name(), types.ExprString(x))
					// allowed: *X as argument 0 of the helper, or a nil comparison
					ok := false
					p := parents[x]
					if st, isStar := p.(*ast.StarExpr); isStar {
						if call, isCall := parents[st].(*ast.CallExpr); isCall && gf.StaticCallee(info, call) == hf && len(call.Args) > 0 && ast.Unparen(call.Args[0]) == ast.Expr(st) {
							ok = true
						}
					}
					if be, isBin := p.(*ast.BinaryExpr); isBin && (be.Op == token.EQL || be.Op == token.NEQ) {
						ok = true
					}
					c.Check(ok, "C01.1-replicas-only-through-helper", name, x.Pos(), "spec.replicas flows only into helper.GetMaxReplicaCountAndDeleteSlots",
						"spec.replicas is used outside the helper call: a bound or count is derived without the delete slots")
				}
			case *ast.CallExpr:
				if gf.StaticCallee(info, x) == gds {
					nSlots++
					name := fmt.Sprintf("%s: helper.GetDeleteSlots(...)", fi.Obj.Name())
					// its result variable is used only as argument 1 of the helper
					ok := false
					if as, isAs := parents[x].(*ast.AssignStmt); isAs && len(as.Lhs) == 1 {
						if id, isID := as.Lhs[0].(*ast.Ident); isID {
							obj := info.ObjectOf(id)
							uses, good := 0, 0
							ast.Inspect(fi.Decl.Body, func(m ast.Node) bool {
								if u, isU := m.(*ast.Ident); isU && info.Uses[u] == obj {
									uses++
									// find the first use: must be the helper's argument 1 before reassignment
									if call, isCall := parents[u].(*ast.CallExpr); isCall && gf.StaticCallee(info, call) == hf && len(call.Args) == 2 && call.Args[1] == ast.Expr(u) {
										good++
									}
								}
								return true
							})
							// later uses refer to the effective set returned by the helper into the same variable (checked by the store classes)
							ok = good == 1
						}
					} else if call, isCall := parents[x].(*ast.CallExpr); isCall && gf.StaticCallee(info, call) == hf {
						ok = true
					} else if call, isCall := parents[x].(*ast.CallExpr); isCall {
						// compared with another slot set, or printed: no ordinal and no bound comes of it
						if f := gf.StaticCallee(info, call); f != nil && (f.Name() == "Equal" || nilTolerant(f)) {
							ok = true
						}
					} else if sel, isSel := parents[x].(*ast.SelectorExpr); isSel && sel.Sel.Name == "Equal" {
						if _, isCall := parents[sel].(*ast.CallExpr); isCall {
							ok = true
						}
					}
					c.Check(ok, "C01.1-slots-only-through-helper", name, x.Pos(), "the annotation's slot set is handed to helper.GetMaxReplicaCountAndDeleteSlots",
						"the raw delete-slots set is used without passing through the helper")
				}
			case *ast.Ident:
				if info.Uses[x] == ann {
					c.Bad("C01.1-annotation-only-through-helper", fi.Obj.Name()+": "+x.Name, x.Pos(), "the delete-slots annotation key is used directly in controller code")
				}
			}
			return true
		})
	}
	c.Floor("C01.1-spec-replicas-reads", nRep, 1)
	c.Floor("C01.1-delete-slot-reads", nSlots, 1)
}

// helperChain: the four ordinal helpers.
func (c *Ctx) helperChain() {
	core := c.Func(load.HelperPkg, "GetMaxReplicaCountAndDeleteSlots")
	if core == nil {
		return
	}
	for _, name := range []string{"GetPodOrdinals", "GetPodOrdinalsFromReplicasAndDeleteSlots", "GetMaxPodOrdinal", "GetMinPodOrdinal"} {
		fi := c.Func(load.HelperPkg, name)
		if fi == nil {
			continue
		}
		reach := c.G.ReachDirect(fi.Obj)
		c.Check(reach[core.Obj], "C01.1-helpers-share-the-bound", name, fi.Decl.Pos(), "reaches GetMaxReplicaCountAndDeleteSlots", name+" computes ordinals without GetMaxReplicaCountAndDeleteSlots")
		// no arithmetic on the replicas parameter
		info := fi.Pkg.TypesInfo
		var rep types.Object
		for _, pf := range fi.Decl.Type.Params.List {
			for _, pn := range pf.Names {
				if pn.Name == "replicas" || types.TypeString(info.TypeOf(pn), nil) == "int32" {
					rep = info.ObjectOf(pn)
				}
			}
		}
		arith := false
		ast.Inspect(fi.Decl.Body, func(n ast.Node) bool {
			switch x := n.(type) {
			case *ast.BinaryExpr:
				if mentionsObj(info, x, map[types.Object]bool{rep: true}) {
					arith = true
				}
			case *ast.IncDecStmt:
				if mentionsObj(info, x, map[types.Object]bool{rep: true}) {
					arith = true
				}
			}
			return true
		})
		c.Check(!arith, "C01.1-helpers-no-own-arithmetic", name, fi.Decl.Pos(), "the replica count is only passed on", name+" does arithmetic or comparisons of its own on the replica count")
	}
	// the enumeration
	fi := c.Func(load.HelperPkg, "GetPodOrdinalsFromReplicasAndDeleteSlots")
	if fi == nil {
		return
	}
	fn, an := c.Analysis(fi)
	info := fi.Pkg.TypesInfo
	var bound, slots *ast.Ident
	ast.Inspect(fi.Decl.Body, func(n ast.Node) bool {
		if as, ok := n.(*ast.AssignStmt); ok && len(as.Lhs) == 2 && len(as.Rhs) == 1 {
			if call, ok := as.Rhs[0].(*ast.CallExpr); ok && gf.StaticCallee(info, call) == core.Obj {
				bound, _ = as.Lhs[0].(*ast.Ident)
				slots, _ = as.Lhs[1].(*ast.Ident)
			}
		}
		return true
	})
	if bound == nil || slots == nil {
		c.Bad("C01.1-enumeration", fi.Obj.Name(), fi.Decl.Pos(), "the helper's results are not bound")
		return
	}
	n := 0
	for _, call := range callsIn(fi.Decl.Body, false) {
		f := gf.StaticCallee(info, call)
		if f == nil || f.Name() != "Insert" || len(call.Args) != 1 {
			continue
		}
		n++
		want := c.Want(fn, call.Pos(), "0 <= $1 && $1 < $2 && !$3.Has($1)", call.Args[0], bound, slots)
		c.Implies(an.StateAtExpr(call), want, "C01.1-enumeration", fi.Obj.Name()+": Insert("+types.ExprString(call.Args[0])+")", call.Pos())
		// and the loop starts at 0 with step 1: every i in range is visited
		if loop, ok := innermostLoop(fi.Decl.Body, call).(*ast.ForStmt); ok {
			init, _ := loop.Init.(*ast.AssignStmt)
			post, _ := loop.Post.(*ast.IncDecStmt)
			good := init != nil && post != nil && post.Tok == token.INC && fn.Term(init.Rhs[0]).Key() == gf.ConstInt(0).Key() &&
				fn.Formula(loop.Cond).Key() == c.Want(fn, loop.Body.Pos(), "$1 < $2", init.Lhs[0], bound).Key()
			// the only skip is slot membership
			skip := false
			start := loop.Body.List[0]
			aU := fn.FromUntil(start, an.StateBefore(start).Assume(c.Want(fn, loop.Body.Pos(), "!$1.Has($2)", slots, init.Lhs[0])), call)
			for _, b := range fn.CFG.Blocks {
				if b.Live && b.Stmt == ast.Stmt(loop) && b.Kind.String() == "ForPost" && aU.BlockReached(b) {
					skip = true
				}
			}
			c.Check(good && !skip, "C01.1-enumeration-complete", fi.Obj.Name()+": loop", loop.Pos(), "i runs 0..bound-1 and every non-slot i is inserted", "the enumeration skips ordinals inside the range that are not slots")
		}
	}
	c.Floor("C01.1-enumeration-inserts", n, 1)
}

// boundComputation: C01.3/4 on GetMaxReplicaCountAndDeleteSlots.
func (c *Ctx) boundComputation() {
	fi := c.Func(load.HelperPkg, "GetMaxReplicaCountAndDeleteSlots")
	if fi == nil {
		return
	}
	fn, an := c.Analysis(fi)
	info := fi.Pkg.TypesInfo
	params := fi.Decl.Type.Params.List
	var repP, slotsP *ast.Ident
	for _, pf := range params {
		for _, pn := range pf.Names {
			switch types.TypeString(info.TypeOf(pn), nil) {
			case "int32":
				repP = pn
			default:
				slotsP = pn
			}
		}
	}
	// the final return (bound, effective)
	var final *ast.ReturnStmt
	ast.Inspect(fi.Decl.Body, func(n ast.Node) bool {
		if r, ok := n.(*ast.ReturnStmt); ok && len(r.Results) == 2 {
			final = r
		}
		return true
	})
	if repP == nil || slotsP == nil || final == nil {
		c.Fail("GetMaxReplicaCountAndDeleteSlots: parameters or return not recognised")
		return
	}
	boundID, _ := final.Results[0].(*ast.Ident)
	effID, _ := final.Results[1].(*ast.Ident)
	if boundID == nil || effID == nil {
		c.Bad("C01.3-bound-computation", fi.Obj.Name()+": return", final.Pos(), "the results are not the running bound and the effective slot set variables")
		return
	}
	bound, eff := info.ObjectOf(boundID), info.ObjectOf(effID)
	// initial value of the bound is the replicas parameter
	init := assignedFirst(fi, info, bound)
	c.Check(init != nil && fn.Term(init).Key() == fn.Term(repP).Key(), "C01.3-bound-starts-at-replicas", fi.Obj.Name()+": "+bound.Name()+" initial value", fi.Decl.Pos(),
		"the bound starts at spec.replicas", "the bound does not start at the replicas argument")
	// the effective set is a fresh copy of the parameter: NewInt32() + Insert of every key of the parameter
	copyOK := false
	ast.Inspect(fi.Decl.Body, func(n ast.Node) bool {
		rs, ok := n.(*ast.RangeStmt)
		if !ok {
			return true
		}
		if id, ok := ast.Unparen(rs.X).(*ast.Ident); ok && info.ObjectOf(id) == info.ObjectOf(slotsP) {
			for _, s := range rs.Body.List {
				if es, ok := s.(*ast.ExprStmt); ok {
					if call, ok := es.X.(*ast.CallExpr); ok {
						if f := gf.StaticCallee(info, call); f != nil && f.Name() == "Insert" {
							if r := rootIdent(recvOf(call)); r != nil && info.ObjectOf(r) == eff && len(call.Args) == 1 && fn.Term(call.Args[0]).Key() == fn.Term(rs.Key).Key() {
								copyOK = true
							}
						}
					}
				}
			}
		}
		return true
	})
	// or the library copy: eff := <param>.Clone()
	ast.Inspect(fi.Decl.Body, func(n ast.Node) bool {
		as, ok := n.(*ast.AssignStmt)
		if !ok || len(as.Lhs) != 1 || len(as.Rhs) != 1 {
			return true
		}
		if id, ok := as.Lhs[0].(*ast.Ident); ok && info.ObjectOf(id) == eff {
			if call, ok := ast.Unparen(as.Rhs[0]).(*ast.CallExpr); ok && len(call.Args) == 0 {
				if f := gf.StaticCallee(info, call); f != nil && f.Name() == "Clone" && f.Pkg() != nil && strings.HasSuffix(f.Pkg().Path(), "apimachinery/pkg/util/sets") {
					if r := rootIdent(recvOf(call)); r != nil && info.ObjectOf(r) == info.ObjectOf(slotsP) {
						copyOK = true
					}
				}
			}
		}
		return true
	})
	c.Check(copyOK, "C01.3-effective-set-is-a-copy", fi.Obj.Name()+": "+eff.Name(), fi.Decl.Pos(), "the effective set starts as a copy of the given slots (the argument is not modified)", "the effective slot set is not a full copy of the argument")
	// the walk: for _, s := range eff.List()
	var walk *ast.RangeStmt
	ast.Inspect(fi.Decl.Body, func(n ast.Node) bool {
		if rs, ok := n.(*ast.RangeStmt); ok {
			if call, ok := ast.Unparen(rs.X).(*ast.CallExpr); ok {
				if f := gf.StaticCallee(info, call); f != nil && f.Name() == "List" && strings.Contains(f.FullName(), "util/sets") {
					if r := rootIdent(recvOf(call)); r != nil && (info.ObjectOf(r) == eff || info.ObjectOf(r) == info.ObjectOf(slotsP)) {
						walk = rs
					}
				}
			}
		}
		return true
	})
	if walk == nil {
		c.Bad("C01.3-ascending-walk", fi.Obj.Name(), fi.Decl.Pos(), "the slots are not walked in ascending order (range over sets.Int32.List()): a slot brought into range by a lower slot would be missed")
		return
	}
	c.OK("C01.3-ascending-walk", fi.Obj.Name()+": range "+types.ExprString(walk.X), walk.Pos(), "sets.Int32.List() is sorted ascending")
	slot, _ := walk.Value.(*ast.Ident)
	if slot == nil {
		c.Bad("C01.3-ascending-walk", fi.Obj.Name(), walk.Pos(), "the walk has no value variable")
		return
	}
	// increments of the bound
	nInc := 0
	ast.Inspect(walk.Body, func(n ast.Node) bool {
		inc, ok := n.(*ast.IncDecStmt)
		if !ok {
			return true
		}
		if id, ok := inc.X.(*ast.Ident); !ok || info.ObjectOf(id) != bound {
			return true
		}
		nInc++
		name := fmt.Sprintf("%s: %s++", fi.Obj.Name(), bound.Name())
		st := an.StateBefore(inc)
		c.Implies(st, c.Want(fn, inc.Pos(), "0 <= $1 && $1 < $2", slot, boundID), "C01.3-extend-only-for-slots-in-range", name, inc.Pos())
		// C01.4 overflow
		if !c.skipWrap {
			c.Implies(st, c.Want(fn, inc.Pos(), "$1 < 2147483647", boundID), "C01.4-no-wrapping-bound", name, inc.Pos())
		}
		return true
	})
	c.Floor("C01.3-bound-increments", nInc, 1)
	// any other write to the bound inside the walk
	ast.Inspect(walk.Body, func(n ast.Node) bool {
		if as, ok := n.(*ast.AssignStmt); ok {
			for _, l := range as.Lhs {
				if id, ok := l.(*ast.Ident); ok && info.ObjectOf(id) == bound {
					c.Bad("C01.3-extend-only-for-slots-in-range", fi.Obj.Name()+": "+types.ExprString(l)+" assigned in the walk", as.Pos(), "the bound is modified other than by the guarded increment")
				}
			}
		}
		return true
	})
	// a slot that does not satisfy 0 <= s < bound is removed from the effective set: with that assumed, stopping at Delete(s), the next iteration is unreachable
	var dels []ast.Node
	for _, call := range callsIn(walk.Body, false) {
		if f := gf.StaticCallee(info, call); f != nil && f.Name() == "Delete" {
			if r := rootIdent(recvOf(call)); r != nil && info.ObjectOf(r) == eff && len(call.Args) == 1 && fn.Term(call.Args[0]).Key() == fn.Term(slot).Key() {
				dels = append(dels, call)
			}
		}
	}
	start := walk.Body.List[0]
	outside := gf.Not(c.Want(fn, walk.Body.Pos(), "0 <= $1 && $1 < $2", slot, boundID))
	aU := fn.FromUntil(start, an.StateBefore(start).Assume(outside), dels...)
	head := loopHead(fn, walk)
	c.Check(len(dels) > 0 && head != nil && !aU.BlockReached(head), "C01.3-out-of-range-slots-are-dropped", fi.Obj.Name()+": effective set", walk.Pos(),
		"every slot with !(0 <= s < bound) is deleted from the effective set before the next iteration", "a slot outside [0, bound) can stay in the effective slot set")
	// and a slot inside the range is never deleted
	inside := c.Want(fn, walk.Body.Pos(), "0 <= $1 && $1 < $2", slot, boundID)
	aI := fn.FromCut(start, an.StateBefore(start).Assume(inside), head) // this iteration only
	kept := true
	for _, d := range dels {
		// reachable with the in-range facts still in force (before the increment changes the bound)
		if os.Getenv("ASV_DEBUG") != "" {
			fmt.Printf("C01 kept: del@%s state=%s\n", c.P.Pos(d.Pos()), clip(aI.StateAtExpr(d.(*ast.CallExpr)).String(), 600))
		}
		if st := aI.StateAtExpr(d.(*ast.CallExpr)); st.Reachable() {
			if ok, _ := st.Implies(inside); ok {
				kept = false
			}
		}
	}
	c.Check(kept, "C01.3-in-range-slots-are-kept", fi.Obj.Name()+": effective set", walk.Pos(), "a slot inside [0, bound) is never removed from the effective set", "a slot inside the range can be removed from the effective set")
}

// assignedFirst returns the right-hand side of the first assignment/definition of obj in fi.
func assignedFirst(fi *load.FuncInfo, info *types.Info, obj types.Object) ast.Expr {
	var rhs ast.Expr
	ast.Inspect(fi.Decl.Body, func(n ast.Node) bool {
		if rhs != nil {
			return false
		}
		if as, ok := n.(*ast.AssignStmt); ok && len(as.Lhs) == len(as.Rhs) {
			for i, l := range as.Lhs {
				if id, ok := l.(*ast.Ident); ok && info.ObjectOf(id) == obj {
					rhs = as.Rhs[i]
				}
			}
		}
		return true
	})
	return rhs
}

// malformedAnnotationMeansNoSlots: "for every value of the delete-slots annotation": a value that does not decode gives
// no slots at all. The decoder leaves what it has decoded so far (and zeros for the elements it could not) in the
// target, so nothing is taken from the target once the decoder has reported an error.
func (c *Ctx) malformedAnnotationMeansNoSlots() {
	const rule = "C01.1-malformed-annotation-means-no-slots"
	fi := c.Func(load.HelperPkg, "GetDeleteSlots")
	if fi == nil {
		return
	}
	fn, an := c.Analysis(fi)
	info := fi.Pkg.TypesInfo
	n := 0
	for _, bd := range fn.Bodies() {
		for _, call := range callsIn(bd, false) {
			f := gf.StaticCallee(info, call)
			if f == nil || f.FullName() != "encoding/json.Unmarshal" || len(call.Args) != 2 {
				continue
			}
			n++
			name := "GetDeleteSlots: " + types.ExprString(call)
			target := rootIdent(stripAddr(call.Args[1]))
			stmt := stmtOf(bd, call)
			errF := c.errNonNilAfter(fn, stmt, call)
			if target == nil || stmt == nil || errF == nil {
				c.Bad(rule, name, call.Pos(), "the decoder's error is not bound to a variable, or its target is not a variable: a failed decode cannot be told from a good one")
				continue
			}
			aE := fn.FromAfter(stmt, an.StateAfter(stmt).Assume(errF))
			if ifs, ok := stmt.(*ast.IfStmt); ok && ifs.Init != nil {
				aE = fn.FromAfter(ifs.Init, an.StateAfter(ifs.Init).Assume(errF))
			}
			bad := ""
			ast.Inspect(bd, func(x ast.Node) bool {
				id, ok := x.(*ast.Ident)
				if !ok || info.Uses[id] != info.ObjectOf(target) || id.Pos() <= call.End() {
					return true
				}
				if aE.StateAtExpr(id).Reachable() && bad == "" {
					bad = c.P.Pos(id.Pos())
				}
				return true
			})
			c.Check(bad == "", rule, name, call.Pos(), "the decoded slice is not read on the decoder's error path",
				"the decoded slice is read at "+bad+" although the decoder reported an error: a value such as [1, \"2\"] or [4294967296] then yields slots {0, 1} or {0} instead of none, and every helper and the controller aim for the wrong ordinals")
		}
	}
	c.Floor(rule+"-decode-sites", n, 1)
}

// extremeHelpers: "highest/lowest ordinal ... agrees with it": GetMaxPodOrdinal and GetMinPodOrdinal fold the set
// GetPodOrdinals(replicas, set) returns: one result variable, started below (above) every possible ordinal, is given the
// element of the iteration exactly when that element is greater (smaller) than it, and is what is returned.
func (c *Ctx) extremeHelpers() {
	const rule = "C01.1-extreme-of-the-ordinal-set"
	po := c.Func(load.HelperPkg, "GetPodOrdinals")
	if po == nil {
		return
	}
	n := 0
	for _, spec := range []struct {
		name string
		max  bool
	}{{"GetMaxPodOrdinal", true}, {"GetMinPodOrdinal", false}} {
		fi := c.Func(load.HelperPkg, spec.name)
		if fi == nil {
			continue
		}
		n++
		fn, an := c.Analysis(fi)
		info := fi.Pkg.TypesInfo
		var params []*ast.Ident
		for _, pf := range fi.Decl.Type.Params.List {
			params = append(params, pf.Names...)
		}
		// the loop over GetPodOrdinals(<own parameters>)
		var loop *ast.RangeStmt
		ownNodes(fi.Decl.Body, func(x ast.Node) {
			if rs, ok := x.(*ast.RangeStmt); ok && loop == nil {
				src := ast.Unparen(defRHSOr(fi, info, rs.X))
				if call, ok := src.(*ast.CallExpr); ok {
					if f := gf.StaticCallee(info, call); f != nil && f.Origin() == po.Obj && len(call.Args) == len(params) {
						same := true
						for i, a := range call.Args {
							if fn.Term(a).Key() != fn.Term(params[i]).Key() {
								same = false
							}
						}
						if same {
							loop = rs
						}
					}
				}
			}
		})
		if loop == nil || loop.Key == nil || loop.Value != nil {
			// the other way of saying it: the last (first) element of the sorted List() of that set, when there is one
			if c.extremeOfSortedList(fi, fn, an, po, params, spec.name, spec.max) {
				c.OK(rule, spec.name, fi.Decl.Pos(), "the "+map[bool]string{true: "last", false: "first"}[spec.max]+" element of GetPodOrdinals(replicas, set).List(), which is sorted, when the set is not empty")
			} else {
				c.Bad(rule, spec.name, fi.Decl.Pos(), "neither a fold over the elements of GetPodOrdinals(replicas, set) nor the end of its sorted List()")
			}
			continue
		}
		key, _ := loop.Key.(*ast.Ident)
		// the result variable: returned by every return
		var res types.Object
		okRet := true
		ownNodes(fi.Decl.Body, func(x ast.Node) {
			if r, ok := x.(*ast.ReturnStmt); ok {
				id, isID := (ast.Expr)(nil), false
				if len(r.Results) == 1 {
					id, isID = ast.Unparen(r.Results[0]).(*ast.Ident)
				}
				if !isID || (res != nil && info.ObjectOf(id.(*ast.Ident)) != res) {
					okRet = false
					return
				}
				res = info.ObjectOf(id.(*ast.Ident))
			}
		})
		if key == nil || res == nil || !okRet {
			c.Bad(rule, spec.name, fi.Decl.Pos(), "the function does not return one result variable")
			continue
		}
		// writes of the result variable: one before the loop (a constant beyond every ordinal), the rest inside the loop `res = key`
		good, why := true, ""
		var stores []*ast.AssignStmt
		nInit := 0
		ast.Inspect(fi.Decl.Body, func(x ast.Node) bool {
			switch y := x.(type) {
			case *ast.AssignStmt:
				for i, l := range y.Lhs {
					if id, ok := l.(*ast.Ident); ok && info.ObjectOf(id) == res {
						if contains(loop, y) {
							if len(y.Rhs) == len(y.Lhs) && fn.Term(y.Rhs[i]).Key() == fn.Term(key).Key() && y.Tok == token.ASSIGN {
								stores = append(stores, y)
							} else {
								good, why = false, "inside the loop the result is given something other than the element of the iteration"
							}
						} else if y.Pos() < loop.Pos() && len(y.Rhs) == len(y.Lhs) {
							nInit++
							tv, ok := info.Types[y.Rhs[i]]
							if !ok || tv.Value == nil {
								good, why = false, "the start value is not a constant"
							} else if v, exact := constant.Int64Val(constant.ToInt(tv.Value)); !exact || (spec.max && v > -1) || (!spec.max && v < math.MaxInt32) {
								good, why = false, "the start value "+tv.Value.ExactString()+" is not beyond every possible ordinal"
							}
						} else {
							good, why = false, "the result is written after the loop"
						}
					}
				}
			case *ast.IncDecStmt:
				if id, ok := y.X.(*ast.Ident); ok && info.ObjectOf(id) == res {
					good, why = false, "the result is stepped"
				}
			}
			return true
		})
		if good && (nInit != 1 || len(stores) == 0) {
			good, why = false, "the result is not started once before the loop and taken from the elements inside it"
		}
		if good {
			better := gf.FLt(fn.Term(res2ident(fi, info, res)), fn.Term(key))
			if !spec.max {
				better = gf.FLt(fn.Term(key), fn.Term(res2ident(fi, info, res)))
			}
			for _, st := range stores {
				weak := gf.Or(better, gf.FEq(fn.Term(key), fn.Term(res2ident(fi, info, res))))
				if g, _ := an.StateBefore(st).Implies(weak); !g {
					good, why = false, "the element is taken although it is not "+map[bool]string{true: "greater", false: "smaller"}[spec.max]+" than what has been found so far"
				}
			}
			// and an element that is better is never passed over
			if head := loopHead(fn, loop); head != nil && len(loop.Body.List) > 0 && good {
				var stops []ast.Node
				for _, st := range stores {
					stops = append(stops, st)
				}
				start := loop.Body.List[0]
				aG := fn.FromUntil(start, an.StateBefore(start).Assume(better), stops...)
				if aG.BlockReached(head) {
					good, why = false, "an element "+map[bool]string{true: "greater", false: "smaller"}[spec.max]+" than what has been found so far can be passed over"
				}
			}
		}
		c.Check(good, rule, spec.name, fi.Decl.Pos(), "a fold over GetPodOrdinals(replicas, set) that keeps the "+map[bool]string{true: "greatest", false: "smallest"}[spec.max]+" element",
			spec.name+" does not return the "+map[bool]string{true: "highest", false: "lowest"}[spec.max]+" member of the ordinal set: "+why)
	}
	c.Floor(rule+"-helpers", n, 2)
}

// res2ident: some identifier of fi's body that denotes obj (for building terms).
func res2ident(fi *load.FuncInfo, info *types.Info, obj types.Object) *ast.Ident {
	var out *ast.Ident
	ast.Inspect(fi.Decl.Body, func(x ast.Node) bool {
		if id, ok := x.(*ast.Ident); ok && out == nil && info.ObjectOf(id) == obj {
			out = id
		}
		return out == nil
	})
	return out
}

// extremeOfSortedList: L := GetPodOrdinals(<own parameters>).List(); the one result variable starts at a constant beyond
// every ordinal, every other store into it is L[len(L)-1] (max) resp. L[0] (min), and with L non-empty and that element
// better than the start value no return is reachable without such a store.
func (c *Ctx) extremeOfSortedList(fi *load.FuncInfo, fn *gf.Fn, an *gf.Analysis, po *load.FuncInfo, params []*ast.Ident, name string, max bool) bool {
	info := fi.Pkg.TypesInfo
	var list *ast.Ident
	var listDef ast.Stmt
	ownNodes(fi.Decl.Body, func(x ast.Node) {
		as, ok := x.(*ast.AssignStmt)
		if !ok || len(as.Lhs) != 1 || len(as.Rhs) != 1 || list != nil {
			return
		}
		call, ok := ast.Unparen(as.Rhs[0]).(*ast.CallExpr)
		if !ok {
			return
		}
		sel, ok := call.Fun.(*ast.SelectorExpr)
		if !ok || sel.Sel.Name != "List" {
			return
		}
		src, ok := ast.Unparen(defRHSOr(fi, info, sel.X)).(*ast.CallExpr)
		if !ok {
			return
		}
		if f := gf.StaticCallee(info, src); f == nil || f.Origin() != po.Obj || len(src.Args) != len(params) {
			return
		}
		for i, a := range src.Args {
			if fn.Term(a).Key() != fn.Term(params[i]).Key() {
				return
			}
		}
		list, _ = as.Lhs[0].(*ast.Ident)
		listDef = as
	})
	if list == nil {
		return false
	}
	var res types.Object
	okRet := true
	ownNodes(fi.Decl.Body, func(x ast.Node) {
		if r, ok := x.(*ast.ReturnStmt); ok {
			if len(r.Results) != 1 {
				okRet = false
				return
			}
			id, isID := ast.Unparen(r.Results[0]).(*ast.Ident)
			if !isID || (res != nil && info.ObjectOf(id) != res) {
				okRet = false
				return
			}
			res = info.ObjectOf(id)
		}
	})
	if res == nil || !okRet {
		return false
	}
	resID := res2ident(fi, info, res)
	elem := c.TryWantTerm(fn, listDef.End(), "$1[len($1)-1]", list)
	if !max {
		elem = c.TryWantTerm(fn, listDef.End(), "$1[0]", list)
	}
	if elem == nil {
		return false
	}
	good := true
	var stores []ast.Node
	nInit := 0
	ast.Inspect(fi.Decl.Body, func(x ast.Node) bool {
		as, ok := x.(*ast.AssignStmt)
		if !ok {
			return true
		}
		for i, l := range as.Lhs {
			id, ok := l.(*ast.Ident)
			if !ok || info.ObjectOf(id) != res || len(as.Rhs) != len(as.Lhs) {
				continue
			}
			if as.Pos() < listDef.Pos() {
				nInit++
				tv, ok := info.Types[as.Rhs[i]]
				if !ok || tv.Value == nil {
					good = false
				} else if v, exact := constant.Int64Val(constant.ToInt(tv.Value)); !exact || (max && v > -1) || (!max && v < math.MaxInt32) {
					good = false
				}
				continue
			}
			if g, _ := an.StateBefore(as).Implies(gf.FEq(fn.Term(as.Rhs[i]), elem)); !g {
				good = false
			}
			stores = append(stores, as)
		}
		return true
	})
	if !good || nInit != 1 || len(stores) == 0 {
		return false
	}
	better := gf.FLt(fn.Term(resID), elem)
	if !max {
		better = gf.FLt(elem, fn.Term(resID))
	}
	nonEmpty := gf.FLt(gf.ConstInt(0), gf.LenOf(fn.Term(list)))
	aG := fn.FromAfterUntil(listDef, an.StateAfter(listDef).Assume(gf.And(nonEmpty, better)), stores...)
	escaped := false
	ownNodes(fi.Decl.Body, func(x ast.Node) {
		if r, ok := x.(*ast.ReturnStmt); ok && aG.StateBefore(r).Reachable() {
			escaped = true
		}
	})
	return !escaped
}
