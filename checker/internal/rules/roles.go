package rules

import (
	"fmt"
	"go/ast"
	"go/parser"
	"go/printer"
	"go/token"
	"go/types"
	"strings"

	"asverif/internal/gf"
	"asverif/internal/load"
)

// Want builds a formula from an expression template evaluated in the scope of
// fn at pos. $1..$9 are replaced by the source text of the given expressions
// (which come from the analysed function). Templates mention API field paths
// and string constants only, plus the few named helper roles of DESIGN.md
// ("Anchor resolution").
func (c *Ctx) Want(fn *gf.Fn, pos token.Pos, tmpl string, args ...ast.Expr) *gf.Formula {
	e, info := c.typedExpr(fn, pos, tmpl, args...)
	if e == nil {
		return gf.False
	}
	return c.E.Canon.Formula(info, e)
}

// TryWantTerm is WantTerm without recording a checker failure when the
// template does not type-check at pos (e.g. a variable not yet in scope).
func (c *Ctx) TryWantTerm(fn *gf.Fn, pos token.Pos, tmpl string, args ...ast.Expr) *gf.Term {
	n := len(c.Fatal)
	t := c.WantTerm(fn, pos, tmpl, args...)
	c.Fatal = c.Fatal[:n]
	return t
}

// WantTerm is Want for a non-boolean expression.
func (c *Ctx) WantTerm(fn *gf.Fn, pos token.Pos, tmpl string, args ...ast.Expr) *gf.Term {
	e, info := c.typedExpr(fn, pos, tmpl, args...)
	if e == nil {
		return nil
	}
	return c.E.Canon.Term(info, e)
}

func (c *Ctx) typedExpr(fn *gf.Fn, pos token.Pos, tmpl string, args ...ast.Expr) (ast.Expr, *types.Info) {
	src := tmpl
	for i := len(args); i >= 1; i-- {
		src = strings.ReplaceAll(src, fmt.Sprintf("$%d", i), "("+fullExprString(c.P.Fset, args[i-1])+")")
	}
	e, err := parser.ParseExpr(src)
	if err != nil {
		c.Fail("rule template %q does not parse: %v", src, err)
		return nil, nil
	}
	pk := c.P.PkgOfPos(pos)
	if pk == nil {
		c.Fail("no package at %s for template %q", c.P.Pos(pos), src)
		return nil, nil
	}
	info := &types.Info{Types: map[ast.Expr]types.TypeAndValue{}, Uses: map[*ast.Ident]types.Object{}, Defs: map[*ast.Ident]types.Object{},
		Selections: map[*ast.SelectorExpr]*types.Selection{}}
	if err := types.CheckExpr(c.P.Fset, pk.Types, pos, e, info); err != nil {
		c.Fail("rule template %q does not type-check at %s: %v", src, c.P.Pos(pos), err)
		return nil, nil
	}
	return e, info
}

// ---------------------------------------------------------------------------
// roles of the reconcile function, resolved from the program

type Reconcile struct {
	FI                         *load.FuncInfo
	Fn                         *gf.Fn
	An                         *gf.Analysis
	Set                        *ast.Ident // the StatefulSet parameter
	Pods                       *ast.Ident // the observed pods parameter
	Deletes                    []*ast.CallExpr
	Creates                    []*ast.CallExpr
	Updates                    []*ast.CallExpr
	W, K                       types.Object // wanted and condemned slices
	Bound                      *ast.Ident   // integer bound the wanted slice is made with
	Slots                      *ast.Ident   // effective delete slots
	HelperCall                 *ast.CallExpr
	CurRev, UpdRev             *ast.Ident   // ControllerRevision parameters
	Status                     types.Object // local StatefulSetStatus
	Ctor                       *types.Func  // versioned pod constructor
	GetOrdinal, GetPodRevision *types.Func
	WLoop                      *ast.RangeStmt // loop over W that contains the create site
	KLoop                      *ast.ForStmt   // scale-down loop over K
	ULoop                      *ast.ForStmt   // update walk over W
	FreshOK                    bool           // allocation summary: the constructor returns an uncreated, non-terminating pod
}

func ifaceMethod(p *load.Prog, pkg, iface, method string) *types.Func {
	tn, _ := p.Lookup(pkg, iface).(*types.TypeName)
	if tn == nil {
		return nil
	}
	it, ok := tn.Type().Underlying().(*types.Interface)
	if !ok {
		return nil
	}
	for i := 0; i < it.NumMethods(); i++ {
		if it.Method(i).Name() == method {
			return it.Method(i)
		}
	}
	return nil
}

func isNamed(t types.Type, pkg, name string) bool {
	if p, ok := t.(*types.Pointer); ok {
		t = p.Elem()
	}
	n, ok := types.Unalias(t).(*types.Named)
	return ok && n.Obj().Name() == name && n.Obj().Pkg() != nil && n.Obj().Pkg().Path() == pkg
}

func rootIdent(e ast.Expr) *ast.Ident {
	for {
		switch x := ast.Unparen(e).(type) {
		case *ast.Ident:
			return x
		case *ast.IndexExpr:
			e = x.X
		case *ast.SelectorExpr:
			e = x.X
		case *ast.StarExpr:
			e = x.X
		case *ast.SliceExpr:
			e = x.X
		default:
			return nil
		}
	}
}

var reconcileCache = map[*Ctx]*Reconcile{}

// ReconcileRoles resolves the roles of the pod reconcile function: it is the
// function of the controller package that calls the pod-create primitive of
// StatefulPodControlInterface.
func (c *Ctx) ReconcileRoles() *Reconcile {
	if r, ok := reconcileCache[c]; ok {
		return r
	}
	r := &Reconcile{}
	reconcileCache[c] = r
	mCreate := ifaceMethod(c.P, load.CtrlPkg, "StatefulPodControlInterface", "CreateStatefulPod")
	mDelete := ifaceMethod(c.P, load.CtrlPkg, "StatefulPodControlInterface", "DeleteStatefulPod")
	mUpdate := ifaceMethod(c.P, load.CtrlPkg, "StatefulPodControlInterface", "UpdateStatefulPod")
	if mCreate == nil || mDelete == nil || mUpdate == nil {
		c.Fail("StatefulPodControlInterface create/delete/update methods do not resolve")
		return nil
	}
	var host *load.FuncInfo
	for _, fi := range c.P.Funcs() {
		if fi.Pkg.PkgPath != load.CtrlPkg {
			continue
		}
		for _, call := range callsIn(fi.Decl.Body, true) {
			switch gf.StaticCallee(fi.Pkg.TypesInfo, call) {
			case mCreate:
				if host != nil && host != fi {
					c.Fail("pod create primitive is called from more than one function (%s, %s): roles ambiguous", host.Obj.Name(), fi.Obj.Name())
					return nil
				}
				host = fi
			}
		}
	}
	if host == nil {
		c.Fail("no function of the controller package calls StatefulPodControlInterface.CreateStatefulPod")
		return nil
	}
	r.FI = host
	info := host.Pkg.TypesInfo
	for _, call := range callsIn(host.Decl.Body, true) {
		switch gf.StaticCallee(info, call) {
		case mCreate:
			r.Creates = append(r.Creates, call)
		case mDelete:
			r.Deletes = append(r.Deletes, call)
		case mUpdate:
			r.Updates = append(r.Updates, call)
		}
	}
	// `victim := condemned[target]; Delete(set, victim)`: the argument stands for the cell it was read from.
	// Rules see a shadow of the call whose pod argument is that cell; the engine confirms below that the
	// local still equals the cell where the call is made, otherwise the call is left as written.
	shadowOf := map[*ast.CallExpr]*ast.CallExpr{}
	for _, lst := range []*[]*ast.CallExpr{&r.Creates, &r.Deletes, &r.Updates} {
		for i, call := range *lst {
			if len(call.Args) != 2 {
				continue
			}
			if e := aliasOf(host, info, call.Args[1]); e != nil {
				sh := &ast.CallExpr{Fun: call.Fun, Lparen: call.Lparen, Args: []ast.Expr{call.Args[0], e}, Ellipsis: call.Ellipsis, Rparen: call.Rparen}
				shadowOf[sh] = call
				(*lst)[i] = sh
			}
		}
	}
	r.Fn = c.E.FnOf(host)
	// parameters by type
	for _, f := range host.Decl.Type.Params.List {
		for _, n := range f.Names {
			t := info.TypeOf(n)
			switch {
			case isNamed(t, load.APIPkg, "StatefulSet") && r.Set == nil:
				r.Set = n
			case types.TypeString(t, nil) == "[]*k8s.io/api/core/v1.Pod" && r.Pods == nil:
				r.Pods = n
			}
		}
	}
	if r.Set == nil || r.Pods == nil {
		c.Fail("reconcile function %s: StatefulSet or pods parameter not found", host.Obj.Name())
		return nil
	}
	// helper anchors with shape self-check
	if fi := c.Func(load.CtrlPkg, "getOrdinal"); fi != nil {
		if types.TypeString(fi.Obj.Type(), nil) == "func(pod *k8s.io/api/core/v1.Pod) int" {
			r.GetOrdinal = fi.Obj
		} else {
			c.Fail("getOrdinal has unexpected shape %s", fi.Obj.Type())
		}
	}
	if fi := c.Func(load.CtrlPkg, "getPodRevision"); fi != nil {
		if types.TypeString(fi.Obj.Type(), nil) == "func(pod *k8s.io/api/core/v1.Pod) string" {
			r.GetPodRevision = fi.Obj
		} else {
			c.Fail("getPodRevision has unexpected shape %s", fi.Obj.Type())
		}
	}
	if fi := c.Func(load.CtrlPkg, "newVersionedStatefulSetPod"); fi != nil {
		sig := fi.Obj.Type().(*types.Signature)
		// (the last parameter is the ordinal; what the others carry is resolved from a call site, see ctorRolesOf)
		if sig.Params().Len() >= 2 && isIntT(sig.Params().At(sig.Params().Len()-1).Type()) && sig.Results().Len() == 1 {
			r.Ctor = fi.Obj
		} else {
			c.Fail("newVersionedStatefulSetPod has unexpected shape %s", fi.Obj.Type())
		}
	}
	// helper call: (bound, slots) := helper.GetMaxReplicaCountAndDeleteSlots(...)
	hf, _ := c.P.Lookup(load.HelperPkg, "GetMaxReplicaCountAndDeleteSlots").(*types.Func)
	if hf == nil {
		c.Fail("helper.GetMaxReplicaCountAndDeleteSlots does not resolve")
		return nil
	}
	var rawBound *ast.Ident
	ast.Inspect(host.Decl.Body, func(n ast.Node) bool {
		as, ok := n.(*ast.AssignStmt)
		if !ok || len(as.Rhs) != 1 || len(as.Lhs) != 2 {
			return true
		}
		call, ok := as.Rhs[0].(*ast.CallExpr)
		if !ok || gf.StaticCallee(info, call) != hf {
			return true
		}
		r.HelperCall = call
		rawBound, _ = as.Lhs[0].(*ast.Ident)
		r.Slots, _ = as.Lhs[1].(*ast.Ident)
		return true
	})
	if r.HelperCall == nil || rawBound == nil || r.Slots == nil {
		c.Fail("reconcile function does not bind both results of helper.GetMaxReplicaCountAndDeleteSlots")
		return nil
	}
	// W: root of the create argument; made with a bound equal to the helper's first result
	if len(r.Creates) == 0 {
		return nil
	}
	if id := rootIdent(r.Creates[0].Args[1]); id != nil {
		r.W = info.ObjectOf(id)
	}
	if r.W == nil {
		c.Fail("create site argument has no slice root")
		return nil
	}
	ast.Inspect(host.Decl.Body, func(n ast.Node) bool {
		as, ok := n.(*ast.AssignStmt)
		if !ok || len(as.Lhs) != 1 || len(as.Rhs) != 1 {
			return true
		}
		id, ok := as.Lhs[0].(*ast.Ident)
		if !ok {
			return true
		}
		call, ok := as.Rhs[0].(*ast.CallExpr)
		if !ok {
			return true
		}
		fid, _ := call.Fun.(*ast.Ident)
		if fid == nil {
			return true
		}
		b, _ := info.ObjectOf(fid).(*types.Builtin)
		if b == nil {
			return true
		}
		switch b.Name() {
		case "make":
			if info.ObjectOf(id) == r.W && len(call.Args) >= 2 {
				r.Bound, _ = ast.Unparen(call.Args[1]).(*ast.Ident)
			}
		case "append":
			if obj := info.ObjectOf(id); obj != r.W && types.TypeString(obj.Type(), nil) == "[]*k8s.io/api/core/v1.Pod" {
				if a0 := rootIdent(call.Args[0]); a0 != nil && info.ObjectOf(a0) == obj {
					r.K = obj
				}
			}
		}
		return true
	})
	if r.Bound == nil {
		c.Fail("the wanted slice is not made with an identifier bound")
		return nil
	}
	if r.K == nil {
		c.Fail("no condemned slice (a []*v1.Pod built by append) found in %s", host.Obj.Name())
		return nil
	}
	// revision parameters: the one whose .Name is stored into Status.UpdateRevision / CurrentRevision
	for _, fs := range fieldStores(info, host.Decl.Body) {
		if !isNamed(fs.Owner, load.APIPkg, "StatefulSetStatus") {
			continue
		}
		rs, ok := ast.Unparen(fs.Rhs).(*ast.SelectorExpr)
		if !ok || rs.Sel.Name != "Name" {
			continue
		}
		rid, ok := rs.X.(*ast.Ident)
		if !ok || !isNamed(info.TypeOf(rid), "k8s.io/api/apps/v1", "ControllerRevision") {
			continue
		}
		if lid, ok := ast.Unparen(fs.Base).(*ast.Ident); ok {
			r.Status = info.ObjectOf(lid)
		}
		switch fs.Field {
		case "UpdateRevision":
			r.UpdRev = rid
		case "CurrentRevision":
			r.CurRev = rid
		}
	}
	if r.UpdRev == nil || r.CurRev == nil || r.Status == nil {
		// the status may be initialised by a small constructor helper: `status := newStatus(set, cur, upd, n)`.
		// Its field stores are read in the helper, its revision parameters mapped back to the caller's arguments.
		ast.Inspect(host.Decl.Body, func(n ast.Node) bool {
			as, ok := n.(*ast.AssignStmt)
			if !ok || len(as.Lhs) != 1 || len(as.Rhs) != 1 {
				return true
			}
			call, ok := ast.Unparen(as.Rhs[0]).(*ast.CallExpr)
			lid, isID := as.Lhs[0].(*ast.Ident)
			if !ok || !isID || !isNamed(info.TypeOf(lid), load.APIPkg, "StatefulSetStatus") {
				return true
			}
			h := gf.StaticCallee(info, call)
			if h == nil {
				return true
			}
			hfi := c.P.FuncInfoOf(h)
			if hfi == nil || hfi.Pkg != host.Pkg {
				return true
			}
			if ok, _, _ := c.E.InlineDecision(h); !ok {
				return true
			}
			// parameter objects by position
			var params []types.Object
			for _, f := range hfi.Decl.Type.Params.List {
				for _, pn := range f.Names {
					params = append(params, info.ObjectOf(pn))
				}
			}
			for _, fs := range fieldStores(info, hfi.Decl.Body) {
				if !isNamed(fs.Owner, load.APIPkg, "StatefulSetStatus") {
					continue
				}
				rs, ok := ast.Unparen(fs.Rhs).(*ast.SelectorExpr)
				if !ok || rs.Sel.Name != "Name" {
					continue
				}
				rid, ok := rs.X.(*ast.Ident)
				if !ok || !isNamed(info.TypeOf(rid), "k8s.io/api/apps/v1", "ControllerRevision") {
					continue
				}
				for k, po := range params {
					if po == info.ObjectOf(rid) && k < len(call.Args) {
						if aid, ok := ast.Unparen(call.Args[k]).(*ast.Ident); ok {
							r.Status = info.ObjectOf(lid)
							switch fs.Field {
							case "UpdateRevision":
								r.UpdRev = aid
							case "CurrentRevision":
								r.CurRev = aid
							}
						}
					}
				}
			}
			return true
		})
	}
	if r.UpdRev == nil || r.CurRev == nil || r.Status == nil {
		c.Fail("status.CurrentRevision / status.UpdateRevision are not assigned from ControllerRevision parameters' names")
		return nil
	}
	// allocation summary of the constructor, installed as facts after each store of a fresh pod into W
	if r.Ctor != nil {
		r.FreshOK = c.freshZero(r.Ctor, []string{"Status", "Phase"}, 0) && c.freshZero(r.Ctor, []string{"ObjectMeta", "DeletionTimestamp"}, 0)
		if r.FreshOK {
			r.Fn.PostFacts = map[ast.Node]*gf.Formula{}
			ast.Inspect(host.Decl.Body, func(n ast.Node) bool {
				as, ok := n.(*ast.AssignStmt)
				if !ok || len(as.Lhs) != 1 || len(as.Rhs) != 1 {
					return true
				}
				call, ok := ast.Unparen(as.Rhs[0]).(*ast.CallExpr)
				if !ok || gf.StaticCallee(info, call) != r.Ctor {
					return true
				}
				if id := rootIdent(as.Lhs[0]); id != nil && info.ObjectOf(id) == r.W {
					r.Fn.PostFacts[as] = c.Want(r.Fn, as.End(), `$1 != nil && $1.Status.Phase == "" && $1.DeletionTimestamp == nil`, as.Lhs[0])
				}
				return true
			})
		}
	}
	_, r.An = c.Analysis(host)
	for _, lst := range []*[]*ast.CallExpr{&r.Creates, &r.Deletes, &r.Updates} {
		for i, sh := range *lst {
			orig, ok := shadowOf[sh]
			if !ok {
				continue
			}
			eq := gf.FEq(r.Fn.Term(orig.Args[1]), r.Fn.Term(sh.Args[1]))
			if ok, _ := r.An.StateAtExpr(orig).Implies(eq); !ok {
				(*lst)[i] = orig
			}
		}
	}
	// loops
	ast.Inspect(host.Decl.Body, func(n ast.Node) bool {
		switch x := n.(type) {
		case *ast.RangeStmt:
			if id := rootIdent(x.X); id != nil && info.ObjectOf(id) == r.W && contains(x, r.Creates[0]) {
				r.WLoop = x
			}
		case *ast.ForStmt:
			for _, d := range r.Deletes {
				if !contains(x, d) {
					continue
				}
				if id := rootIdent(d.Args[1]); id != nil {
					switch info.ObjectOf(id) {
					case r.K:
						r.KLoop = x
					case r.W:
						r.ULoop = x
					}
				}
			}
		}
		return true
	})
	return r
}

func contains(outer, inner ast.Node) bool {
	return outer.Pos() <= inner.Pos() && inner.End() <= outer.End()
}

func isIntT(t types.Type) bool {
	b, ok := t.Underlying().(*types.Basic)
	return ok && b.Info()&types.IsInteger != 0
}

// site names a call site stably: enclosing function + callee + ordinal among equal callees + argument text.
func siteName(fn string, callee string, n int, arg ast.Expr) string {
	s := fmt.Sprintf("%s#%s[%d]", fn, callee, n)
	if arg != nil {
		s += " arg=" + types.ExprString(arg)
	}
	return s
}

// stmtOf returns the innermost statement of body that contains n.
func stmtOf(body ast.Node, n ast.Node) ast.Stmt {
	var best ast.Stmt
	ast.Inspect(body, func(x ast.Node) bool {
		if x == nil {
			return true
		}
		if !contains(x, n) {
			return false
		}
		if s, ok := x.(ast.Stmt); ok {
			switch s.(type) {
			case *ast.BlockStmt:
			default:
				best = s
			}
		}
		return true
	})
	return best
}

// fieldStore is one store into a struct field: `x.F = e`, or the F: e element
// of a composite literal assigned to x (`x := T{F: e}`, `x = &T{F: e}`, `var x = T{...}`).
type fieldStore struct {
	Base    ast.Expr   // x (an identifier for literal stores)
	Owner   types.Type // type of x
	Field   string
	Rhs     ast.Expr
	Node    ast.Node // the statement (AssignStmt, ValueSpec)
	Literal bool
}

// fieldStores lists the field stores in body (function literals included).
func fieldStores(info *types.Info, body ast.Node) []fieldStore {
	var out []fieldStore
	lit := func(base ast.Expr, rhs ast.Expr, node ast.Node) {
		rhs = ast.Unparen(rhs)
		if u, ok := rhs.(*ast.UnaryExpr); ok && u.Op == token.AND {
			rhs = ast.Unparen(u.X)
		}
		cl, ok := rhs.(*ast.CompositeLit)
		if !ok {
			return
		}
		if _, isStruct := info.TypeOf(cl).Underlying().(*types.Struct); !isStruct {
			return
		}
		for _, el := range cl.Elts {
			kv, ok := el.(*ast.KeyValueExpr)
			if !ok {
				continue
			}
			if kid, ok := kv.Key.(*ast.Ident); ok {
				out = append(out, fieldStore{Base: base, Owner: info.TypeOf(base), Field: kid.Name, Rhs: kv.Value, Node: node, Literal: true})
			}
		}
	}
	ast.Inspect(body, func(n ast.Node) bool {
		switch x := n.(type) {
		case *ast.AssignStmt:
			if len(x.Lhs) != len(x.Rhs) {
				return true
			}
			for i, l := range x.Lhs {
				if sel, ok := ast.Unparen(l).(*ast.SelectorExpr); ok {
					if s, ok := info.Selections[sel]; ok && s.Kind() == types.FieldVal && (x.Tok == token.ASSIGN || x.Tok == token.DEFINE) {
						out = append(out, fieldStore{Base: sel.X, Owner: info.TypeOf(sel.X), Field: sel.Sel.Name, Rhs: x.Rhs[i], Node: x})
					}
					continue
				}
				lit(l, x.Rhs[i], x)
			}
		case *ast.ValueSpec:
			if len(x.Names) == len(x.Values) {
				for i, nm := range x.Names {
					lit(nm, x.Values[i], x)
				}
			}
		}
		return true
	})
	return out
}

// aliasOf: e is a local variable with a single definition in fi whose right-hand side is a
// cell or field path (`v := xs[i]`); returns that path, nil otherwise.
func aliasOf(fi *load.FuncInfo, info *types.Info, e ast.Expr) ast.Expr {
	id, ok := ast.Unparen(e).(*ast.Ident)
	if !ok {
		return nil
	}
	obj, ok := info.ObjectOf(id).(*types.Var)
	if !ok || obj.Parent() == nil || obj.Pkg() == nil || obj.Parent() == obj.Pkg().Scope() {
		return nil
	}
	// parameters are not aliases
	for _, f := range fi.Decl.Type.Params.List {
		for _, n := range f.Names {
			if info.ObjectOf(n) == obj {
				return nil
			}
		}
	}
	var rhs ast.Expr
	n := 0
	ast.Inspect(fi.Decl.Body, func(x ast.Node) bool {
		switch s := x.(type) {
		case *ast.AssignStmt:
			for i, l := range s.Lhs {
				if lid, ok := l.(*ast.Ident); ok && info.ObjectOf(lid) == obj {
					n++
					if len(s.Lhs) == len(s.Rhs) {
						rhs = s.Rhs[i]
					} else {
						rhs = nil
						n++
					}
				}
			}
		case *ast.ValueSpec:
			for i, nm := range s.Names {
				if info.ObjectOf(nm) == obj {
					n++
					if len(s.Values) == len(s.Names) {
						rhs = s.Values[i]
					}
				}
			}
		case *ast.RangeStmt:
			for _, kv := range []ast.Expr{s.Key, s.Value} {
				if lid, ok := kv.(*ast.Ident); ok && lid != nil && info.ObjectOf(lid) == obj {
					n += 2
				}
			}
		case *ast.IncDecStmt:
			if lid, ok := s.X.(*ast.Ident); ok && info.ObjectOf(lid) == obj {
				n += 2
			}
		case *ast.UnaryExpr:
			if lid, ok := s.X.(*ast.Ident); ok && s.Op == token.AND && info.ObjectOf(lid) == obj {
				n += 2
			}
		}
		return true
	})
	if n != 1 || rhs == nil {
		return nil
	}
	switch ast.Unparen(rhs).(type) {
	case *ast.IndexExpr, *ast.SelectorExpr:
		return ast.Unparen(rhs)
	}
	return nil
}

// resolveAlias: e is a local with a single definition `v := path` and the state st (at the use)
// implies v == path: returns the path, otherwise e itself.
func (c *Ctx) resolveAlias(fi *load.FuncInfo, fn *gf.Fn, st gf.State, e ast.Expr) ast.Expr {
	al := aliasOf(fi, fi.Pkg.TypesInfo, e)
	if al == nil {
		return e
	}
	if ok, _ := st.Implies(gf.FEq(fn.Term(e), fn.Term(al))); ok {
		return al
	}
	return e
}

// fullExprString renders e completely (types.ExprString elides composite literals and function bodies).
func fullExprString(fset *token.FileSet, e ast.Expr) string {
	var sb strings.Builder
	if err := printer.Fprint(&sb, fset, e); err != nil {
		return types.ExprString(e)
	}
	return strings.Join(strings.Fields(sb.String()), " ")
}

// ctorRoles: what the versioned constructor's parameters (or the fields of a parameter struct) carry, as
// expressions valid inside the constructor: the set restored from the current revision, the set restored
// from the update revision, the two revision names, the ordinal.
type ctorRoles struct {
	CurSet, UpdSet, CurRev, UpdRev, Ord ast.Expr
}

// ctorRolesOf resolves the roles from a call of the constructor in the reconcile function: a slot that is
// handed `<current revision>.Name` is the current revision name, a slot that is handed the result of
// ApplyRevision(set, <current revision>) is the current set, and so on. Slots are the parameters, or the
// fields of a parameter of a struct type of the package (whether the call builds it in place or beforehand).
func (c *Ctx) ctorRolesOf(r *Reconcile) *ctorRoles {
	fi := c.P.FuncInfoOf(r.Ctor)
	if fi == nil {
		return nil
	}
	info := fi.Pkg.TypesInfo
	host := r.FI
	var call *ast.CallExpr
	for _, cc := range callsIn(host.Decl.Body, true) {
		if f := gf.StaticCallee(info, cc); f != nil && f.Origin() == r.Ctor {
			call = cc
			break
		}
	}
	if call == nil {
		return nil
	}
	var params []*ast.Ident
	for _, f := range fi.Decl.Type.Params.List {
		params = append(params, f.Names...)
	}
	if len(params) != len(call.Args) {
		return nil
	}
	type slot struct {
		acc ast.Expr // accessor inside the constructor
		val ast.Expr // value at the call site
	}
	var slots []slot
	for k, p := range params {
		arg := ast.Unparen(call.Args[k])
		st, isStruct := info.TypeOf(p).Underlying().(*types.Struct)
		if ptr, ok := info.TypeOf(p).Underlying().(*types.Pointer); ok && !isStruct {
			st, isStruct = ptr.Elem().Underlying().(*types.Struct)
		}
		named, _ := types.Unalias(info.TypeOf(p)).(*types.Named)
		if ptr, ok := info.TypeOf(p).(*types.Pointer); ok {
			named, _ = types.Unalias(ptr.Elem()).(*types.Named)
		}
		if !isStruct || named == nil || named.Obj().Pkg() == nil || named.Obj().Pkg().Path() != load.CtrlPkg {
			slots = append(slots, slot{p, arg})
			continue
		}
		// the literal: in place, behind &, or the single definition of a local
		lit := arg
		if id, ok := lit.(*ast.Ident); ok {
			if d := defRHS(host, info, id); d != nil {
				lit = ast.Unparen(d)
			}
		}
		if u, ok := lit.(*ast.UnaryExpr); ok && u.Op == token.AND {
			lit = ast.Unparen(u.X)
		}
		cl, ok := lit.(*ast.CompositeLit)
		if !ok {
			return nil
		}
		for i, el := range cl.Elts {
			var fname string
			var val ast.Expr
			if kv, ok := el.(*ast.KeyValueExpr); ok {
				if kid, ok := kv.Key.(*ast.Ident); ok {
					fname, val = kid.Name, kv.Value
				}
			} else if i < st.NumFields() {
				fname, val = st.Field(i).Name(), el
			}
			if fname == "" {
				continue
			}
			acc, err := parser.ParseExpr(p.Name + "." + fname)
			if err != nil {
				continue
			}
			slots = append(slots, slot{acc, ast.Unparen(val)})
		}
	}
	out := &ctorRoles{}
	hfn := r.Fn
	curName := c.WantTerm(hfn, call.Pos(), "$1.Name", r.CurRev)
	updName := c.WantTerm(hfn, call.Pos(), "$1.Name", r.UpdRev)
	apply := c.Func(load.CtrlPkg, "ApplyRevision")
	for _, sl := range slots {
		t := info.TypeOf(sl.val)
		if t == nil {
			continue
		}
		vt := hfn.Term(sl.val)
		switch {
		case isIntT(t):
			out.Ord = sl.acc
		case curName != nil && vt.Key() == curName.Key():
			out.CurRev = sl.acc
		case updName != nil && vt.Key() == updName.Key():
			out.UpdRev = sl.acc
		case isNamed(t, load.APIPkg, "StatefulSet") && apply != nil:
			if src := assignedFromCall(host, info, sl.val); src != nil && len(src.Args) == 2 {
				if f := gf.StaticCallee(info, src); f != nil && f.Origin() == apply.Obj {
					switch hfn.Term(src.Args[1]).Key() {
					case hfn.Term(r.CurRev).Key():
						out.CurSet = sl.acc
					case hfn.Term(r.UpdRev).Key():
						out.UpdSet = sl.acc
					}
				}
			}
		}
	}
	if out.CurSet == nil || out.UpdSet == nil || out.CurRev == nil || out.UpdRev == nil || out.Ord == nil {
		return nil
	}
	return out
}
