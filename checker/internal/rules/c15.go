package rules

import (
	"fmt"
	"go/ast"
	"go/token"
	"go/types"
	"os"
	"path/filepath"
	"sort"
	"strings"

	"asverif/internal/gf"
	"asverif/internal/load"

	"gopkg.in/yaml.v3"
)

func init() {
	register(&Property{
		ID:    "C15",
		Title: "No admitted object can crash the controller",
		Run:   runC15,
		Explanation: "Decides a panic-site audit (clauses C15.1-C15.3 of DESIGN.md) over every function reachable from the worker and the informer handlers in the controller, third_party and helper packages: (1) every dereference of an optional (pointer-typed) field of the Advanced API types has a non-nil fact for that exact term, or the field is proven present for every admitted object by the CRD schema read from manifests/crd.v1.yaml on every run (field and all ancestors required or defaulted, not nullable, in every served version); dereferences of nil-initialised local pointers need a non-nil fact too; " +
			"(2) every index and slice expression on a slice, array or string is proven in range from guard facts (range variables, loop conditions, length tests, the difference-bound closure) or is a reviewed exception; (3) unchecked type assertions, explicit panics, ...OrDie calls and stores into possibly-nil maps are each proven or in the reviewed table. " +
			"(4) nil results: for producers whose returns give result != nil or error != nil that fact holds after their calls, and every dereference of such a result, also through a parameter of an expanded helper, needs a non-nil fact. NOT decided: panics inside dependencies; arithmetic overflow other than the known finding D9; objects of the built-in types (pods, revisions) are assumed well-formed as the API server stores them (T4).",
	})
}

// ---------------------------------------------------------------------------
// CRD reader

type crdSchema struct {
	Minimum    *float64             `yaml:"minimum"`
	Type       string               `yaml:"type"`
	Required   []string             `yaml:"required"`
	Nullable   bool                 `yaml:"nullable"`
	Default    *interface{}         `yaml:"default"`
	Properties map[string]crdSchema `yaml:"properties"`
}

type crdDoc struct {
	Spec struct {
		Versions []struct {
			Name   string `yaml:"name"`
			Served bool   `yaml:"served"`
			Schema struct {
				OpenAPIV3Schema crdSchema `yaml:"openAPIV3Schema"`
			} `yaml:"schema"`
		} `yaml:"versions"`
	} `yaml:"spec"`
}

// guaranteedPaths returns the JSON paths present (non-null) in every admitted object of every served version.
// crdMinimums returns, per JSON path, the largest lower bound valid in every served version.
func crdMinimums(repo string) map[string]float64 {
	b, err := os.ReadFile(filepath.Join(repo, "manifests", "crd.v1.yaml"))
	if err != nil {
		return nil
	}
	var doc crdDoc
	if yaml.Unmarshal(b, &doc) != nil {
		return nil
	}
	out := map[string]float64{}
	first := true
	for _, v := range doc.Spec.Versions {
		if !v.Served {
			continue
		}
		cur := map[string]float64{}
		var walk func(path string, s crdSchema)
		walk = func(path string, s crdSchema) {
			for name, p := range s.Properties {
				q := name
				if path != "" {
					q = path + "." + name
				}
				if p.Minimum != nil {
					cur[q] = *p.Minimum
				}
				walk(q, p)
			}
		}
		walk("", v.Schema.OpenAPIV3Schema)
		if first {
			out, first = cur, false
			continue
		}
		for k, m := range out {
			if c2, ok := cur[k]; !ok {
				delete(out, k)
			} else if c2 < m {
				out[k] = c2
			}
		}
	}
	return out
}

func guaranteedPaths(repo string) (map[string]bool, int, error) {
	b, err := os.ReadFile(filepath.Join(repo, "manifests", "crd.v1.yaml"))
	if err != nil {
		return nil, 0, err
	}
	var doc crdDoc
	if err := yaml.Unmarshal(b, &doc); err != nil {
		return nil, 0, err
	}
	var per []map[string]bool
	for _, v := range doc.Spec.Versions {
		if !v.Served {
			continue
		}
		g := map[string]bool{}
		var walk func(path string, s crdSchema)
		walk = func(path string, s crdSchema) {
			req := map[string]bool{}
			for _, r := range s.Required {
				req[r] = true
			}
			for name, p := range s.Properties {
				present := (req[name] || p.Default != nil) && !p.Nullable
				if !present {
					continue
				}
				q := name
				if path != "" {
					q = path + "." + name
				}
				g[q] = true
				walk(q, p)
			}
		}
		walk("", v.Schema.OpenAPIV3Schema)
		per = append(per, g)
	}
	if len(per) == 0 {
		return nil, 0, fmt.Errorf("no served version in the CRD")
	}
	out := map[string]bool{}
	for p := range per[0] {
		all := true
		for _, g := range per[1:] {
			if !g[p] {
				all = false
			}
		}
		if all {
			out[p] = true
		}
	}
	return out, len(per), nil
}

// optional API fields: Go field path (from the StatefulSet) -> JSON path
var optionalAPIFields = map[string]string{
	"StatefulSetSpec.Replicas":                   "spec.replicas",
	"StatefulSetSpec.Selector":                   "spec.selector",
	"StatefulSetSpec.RevisionHistoryLimit":       "spec.revisionHistoryLimit",
	"StatefulSetUpdateStrategy.RollingUpdate":    "spec.updateStrategy.rollingUpdate",
	"RollingUpdateStatefulSetStrategy.Partition": "spec.updateStrategy.rollingUpdate.partition",
	"StatefulSetStatus.CollisionCount":           "status.collisionCount",
}

// reviewed exceptions for index/slice expressions and other panic sites: "function|expression" -> reason
var panicExceptions = map[string]string{
	"getPatch|‹map[string]interface{}›[\"spec\"].(map[string]interface{})":               "the codec always emits spec for a typed object: the JSON tag of Spec has a name and encoding/json writes struct-typed fields even with omitempty",
	"getPatch|‹map[string]interface{}›[\"template\"].(map[string]interface{})":           "the JSON tag of Template has no omitempty (checked by C18.1)",
	"ApplyRevision|runtime.EncodeOrDie(patchCodec, ‹*v1.StatefulSet›)":                   "encoding a typed, registered object with the package's own codec cannot fail",
	"getStatefulSetRevisions|‹*v1.ControllerRevision›":                                   "assigned from newRevision/updateControllerRevision/createControllerRevision after their error was tested nil; each returns a non-nil revision with a nil error (NewControllerRevision always allocates; the API calls return the object)",
	"NewControllerRevision|‹*v1.ControllerRevision›.Labels[ControllerRevisionHashLabel]": "cr is built three lines above with Labels: labelMap, a map made in this function",
	"updateStatefulSet|‹*v1.Pod›#2":                                                      "scale-down wait: the target is a condemned pod that is neither terminating nor Running/Ready, so the first-unhealthy scan over the condemned pods counted it and (since fix D12) recorded a pod whenever none was recorded; the other dereference of this variable, under unhealthy > 0, is proven by the engine and guards the scan itself",
	"addPod|‹interface{}›.(*v1.Pod)":                                                     "informer Add handlers receive the registered type (T4)",
	"updatePod|‹interface{}›.(*v1.Pod)":                                                  "informer Update handlers receive the registered type (T4)",
	"processNextWorkItem|‹interface{}›.(string)":                                         "the queue only ever receives string keys from enqueueStatefulSet (keyFunc returns a string)",
	"ClaimPods$lit|‹v1.Object›.(*v1.Pod)":                                                "ClaimObject hands the callbacks the object it was given, which ClaimPods takes from a []*v1.Pod",
	"Less|‹k8s.byRevision›[‹int›]":                                                       "sort.Interface contract: indices are within [0, Len())", "Swap|‹k8s.byRevision›[‹int›]": "sort.Interface contract",
	"Less|‹statefulset.ascendingOrdinal›[‹int›]": "sort.Interface contract", "Swap|‹statefulset.ascendingOrdinal›[‹int›]": "sort.Interface contract",
	"Less|‹statefulset.overlappingStatefulSets›[‹int›]": "sort.Interface contract", "Swap|‹statefulset.overlappingStatefulSets›[‹int›]": "sort.Interface contract",
}

func (c *Ctx) panicScope() []*load.FuncInfo {
	var roots []*types.Func
	for _, n := range []string{"StatefulSetController.processNextWorkItem", "StatefulSetController.addPod", "StatefulSetController.updatePod", "StatefulSetController.deletePod", "StatefulSetController.enqueueStatefulSet"} {
		if fi := c.Func(load.CtrlPkg, n); fi != nil {
			roots = append(roots, fi.Obj)
		}
	}
	reach := c.G.ReachDirect(roots...)
	var out []*load.FuncInfo
	for f := range reach {
		fi := c.P.FuncInfoOf(f)
		if fi == nil {
			continue
		}
		pp := fi.Pkg.PkgPath
		if pp != load.CtrlPkg && pp != load.K8sPkg && pp != load.HelperPkg {
			continue
		}
		if strings.HasPrefix(filepath.Base(c.P.Fset.Position(fi.Decl.Pos()).Filename), "zz_generated") {
			continue
		}
		out = append(out, fi)
	}
	sort.Slice(out, func(i, j int) bool { return out[i].Obj.FullName() < out[j].Obj.FullName() })
	return out
}

type panicCtx struct {
	fi   *load.FuncInfo
	name string
	fn   *gf.Fn
	an   *gf.Analysis
	body *ast.BlockStmt
	info *types.Info
}

func runC15(c *Ctx) {
	guaranteed, served, err := guaranteedPaths(c.P.Repo)
	if err != nil {
		c.Fail("cannot read the CRD: %v", err)
		return
	}
	var gl []string
	for p := range guaranteed {
		gl = append(gl, p)
	}
	sort.Strings(gl)
	c.Notes = append(c.Notes, fmt.Sprintf("C15.1: CRD (%d served versions) guarantees: %s", served, strings.Join(gl, ", ")))
	c.Check(guaranteed["spec"] && guaranteed["spec.replicas"] && guaranteed["spec.revisionHistoryLimit"] && guaranteed["spec.selector"], "C15.1-crd-guarantees", "manifests/crd.v1.yaml: spec, spec.replicas, spec.selector, spec.revisionHistoryLimit", 0,
		"required or defaulted, not nullable, in every served version", "the CRD no longer guarantees spec / spec.replicas / spec.selector / spec.revisionHistoryLimit for every admitted object")
	mins := crdMinimums(c.P.Repo)
	mr, okr := mins["spec.replicas"]
	mh, okh := mins["spec.revisionHistoryLimit"]
	c.Check(okr && mr >= 0 && okh && mh >= 0, "C15.1-crd-minimums", "manifests/crd.v1.yaml: minimum of spec.replicas and spec.revisionHistoryLimit", 0, "both validated >= 0 in every served version", "the CRD admits a negative spec.replicas or spec.revisionHistoryLimit")
	scope := c.panicScope()
	c.Floor("C15.0-functions-in-scope", len(scope), 45)
	nDeref, nIdx, nOther := 0, 0, 0
	for _, fi := range scope {
		var ctxs []panicCtx
		fn, an := c.Analysis(fi)
		tname := c.tableName(fi)
		if i := strings.LastIndex(tname, "."); i >= 0 {
			tname = tname[i+1:]
		}
		// an admitted set has spec.replicas and spec.revisionHistoryLimit >= 0 (C15.1-crd-minimums)
		if okr && mr >= 0 && okh && mh >= 0 {
			var assume []*gf.Formula
			for _, pn := range paramsOfType(fi, load.APIPkg, "StatefulSet") {
				{
					if pn.Name == "_" {
						continue
					}
					// (facts about the values, used only where the code reads them; reading through a nil pointer is C15.1's business)
					assume = append(assume, c.Want(fn, fi.Decl.Body.Lbrace+1, "*$1.Spec.RevisionHistoryLimit >= 0", pn))
					assume = append(assume, c.Want(fn, fi.Decl.Body.Lbrace+1, "*$1.Spec.Replicas >= 0", pn))
				}
			}
			if len(assume) > 0 {
				an = fn.Analyze(gf.And(assume...))
			}
		}
		ctxs = append(ctxs, panicCtx{fi, tname, fn, an, fi.Decl.Body, fi.Pkg.TypesInfo})
		ast.Inspect(fi.Decl.Body, func(n ast.Node) bool {
			if l, ok := n.(*ast.FuncLit); ok {
				lfn, lan := c.LitAnalysis(fi.Pkg.TypesInfo, l, tname+"$lit")
				ctxs = append(ctxs, panicCtx{fi, tname + "$lit", lfn, lan, l.Body, fi.Pkg.TypesInfo})
			}
			return true
		})
		for _, pc := range ctxs {
			a, b, o := c.auditBody(pc, guaranteed)
			nDeref += a
			nIdx += b
			nOther += o
		}
	}
	c.nilResults(scope)
	c.validResults(scope)
	c.clonedMapsAreNotWrittenWhenNil(scope)
	c.Floor("C15.1-optional-dereferences", nDeref, 8)
	c.Floor("C15.2-index-and-slice-sites", nIdx, 25)
	c.Floor("C15.3-assertions-panics-ordie", nOther, 8)
}

func ownNodes(body *ast.BlockStmt, visit func(n ast.Node)) {
	ast.Inspect(body, func(n ast.Node) bool {
		if n == nil {
			return true
		}
		if _, ok := n.(*ast.FuncLit); ok && n != ast.Node(body) {
			return false
		}
		visit(n)
		return true
	})
}

func (c *Ctx) auditBody(pc panicCtx, guaranteed map[string]bool) (nDeref, nIdx, nOther int) {
	info, fn, an := pc.info, pc.fn, pc.an
	// nil-initialised local pointers
	nilLocals := map[types.Object]bool{}
	ownNodes(pc.body, func(n ast.Node) {
		if vs, ok := n.(*ast.ValueSpec); ok && len(vs.Values) == 0 {
			for _, id := range vs.Names {
				if o := info.Defs[id]; o != nil {
					if _, isPtr := o.Type().Underlying().(*types.Pointer); isPtr {
						nilLocals[o] = true
					}
				}
			}
		}
	})
	exc := func(e ast.Node) (string, bool) {
		short := strings.TrimSuffix(pc.name, "$lit")
		txt := normExpr(info, e.(ast.Expr))
		for _, k := range []string{pc.name + "|" + txt, short + "|" + txt} {
			if why, ok := panicExceptions[k]; ok {
				return why, true
			}
		}
		if os.Getenv("ASV_DEBUG_EXC") != "" {
			fmt.Printf("EXC-MISS %q\n", pc.name+"|"+txt)
		}
		return "", false
	}
	derefBase := func(e ast.Expr) (ast.Expr, bool) {
		// the pointer-typed expression being dereferenced by e, if any
		switch x := e.(type) {
		case *ast.StarExpr:
			return x.X, true
		case *ast.SelectorExpr:
			if sel, ok := info.Selections[x]; ok && sel.Indirect() {
				// explicit pointer base only (method values on addressable values are not dereferences of nil)
				if _, isPtr := info.TypeOf(x.X).Underlying().(*types.Pointer); isPtr {
					return x.X, true
				}
			}
		}
		return nil, false
	}
	seenDeref := map[string]bool{}
	derefOcc := map[string]int{}
	ownNodes(pc.body, func(n ast.Node) {
		e, ok := n.(ast.Expr)
		if !ok {
			return
		}
		// ---- (1) dereferences
		if base, ok := derefBase(e); ok {
			base = ast.Unparen(base)
			key := ""
			// optional API field?
			if sel, ok := base.(*ast.SelectorExpr); ok {
				if s, ok := info.Selections[sel]; ok && s.Kind() == types.FieldVal {
					owner := gf.OwnerName(info.TypeOf(sel.X))
					if strings.HasPrefix(owner, load.APIPkg+".") {
						key = strings.TrimPrefix(owner, load.APIPkg+".") + "." + sel.Sel.Name
					}
				}
			}
			jsonPath, isAPI := optionalAPIFields[key]
			id, isLocal := base.(*ast.Ident)
			isNilLocal := isLocal && nilLocals[info.ObjectOf(id)]
			if isAPI || isNilLocal {
				k := fmt.Sprintf("%s|%s|%d", pc.name, types.ExprString(base), c.P.Fset.Position(e.Pos()).Line)
				if seenDeref[k] {
					return
				}
				seenDeref[k] = true
				nDeref++
				name := fmt.Sprintf("%s: dereference of %s", pc.name, types.ExprString(base))
				derefOcc[types.ExprString(base)]++
				var occ ast.Expr = base
				if n := derefOcc[types.ExprString(base)]; n > 1 {
					occ = &ast.Ident{Name: fmt.Sprintf("%s#%d", normExpr(info, base), n)}
				}
				if why, ok := exc(occ); ok {
					c.OK("C15.1-optional-field-dereference", name, e.Pos(), "reviewed exception: "+why)
					return
				}
				st := an.StateAtExpr(e)
				if good, _ := st.Implies(gf.FNotNil(fn.Term(base))); good && st.Reachable() {
					c.OK("C15.1-optional-field-dereference", name, e.Pos(), "non-nil fact for this term on every path")
				} else if isAPI && guaranteed[jsonPath] {
					c.OK("C15.1-optional-field-dereference", name, e.Pos(), "the CRD guarantees "+jsonPath+" for every admitted object")
				} else if !st.Reachable() {
					c.Trivial("C15.1-optional-field-dereference", name, e.Pos(), "unreachable")
				} else {
					_, wit := st.Implies(gf.FNotNil(fn.Term(base)))
					what := "a nil-initialised local pointer"
					if isAPI {
						what = "an optional API field (" + jsonPath + ") that the CRD does not guarantee"
					}
					c.Bad("C15.1-optional-field-dereference", name, e.Pos(), "dereference of "+what+" without a non-nil guard on some path: an admitted object can panic the reconcile; facts: "+clip(wit, 400))
				}
			}
		}
		// ---- (2) index and slice expressions
		switch x := e.(type) {
		case *ast.IndexExpr:
			xt := info.TypeOf(x.X)
			if xt == nil {
				return
			}
			if tv, ok := info.Types[x.Index]; ok && tv.IsType() {
				return
			}
			switch u := xt.Underlying().(type) {
			case *types.Slice, *types.Array, *types.Basic:
				_ = u
			case *types.Pointer:
				if _, isArr := u.Elem().Underlying().(*types.Array); !isArr {
					return
				}
			default:
				return
			}
			nIdx++
			name := fmt.Sprintf("%s: %s", pc.name, types.ExprString(x))
			if why, ok := exc(x); ok {
				c.OK("C15.2-index-in-range", name, x.Pos(), "reviewed exception: "+why)
				return
			}
			st := an.StateAtExpr(x)
			it, xtm := fn.Term(x.Index), fn.Term(x.X)
			want := gf.And(gf.FGe(it, gf.ConstInt(0)), gf.FLt(it, gf.LenOf(xtm)))
			if !st.Reachable() {
				c.Trivial("C15.2-index-in-range", name, x.Pos(), "unreachable")
				return
			}
			if good, _ := st.Implies(want); good {
				c.OK("C15.2-index-in-range", name, x.Pos(), "facts imply 0 <= index < len")
				return
			}
			// a store into the cell right after `make` of that length, or an lvalue on the left of a range? fall through
			_, wit := st.Implies(want)
			c.Bad("C15.2-index-in-range", name, x.Pos(), "index not proven in range: required "+want.String()+"; facts: "+clip(wit, 400))
		case *ast.SliceExpr:
			xt := info.TypeOf(x.X)
			if xt == nil {
				return
			}
			nIdx++
			name := fmt.Sprintf("%s: %s", pc.name, types.ExprString(x))
			if why, ok := exc(x); ok {
				c.OK("C15.2-slice-in-range", name, x.Pos(), "reviewed exception: "+why)
				return
			}
			st := an.StateAtExpr(x)
			xtm := fn.Term(x.X)
			var conj []*gf.Formula
			lo := gf.ConstInt(0)
			if x.Low != nil {
				lo = fn.Term(x.Low)
				conj = append(conj, gf.FGe(lo, gf.ConstInt(0)))
			}
			hi := gf.LenOf(xtm)
			if x.High != nil {
				hi = fn.Term(x.High)
				conj = append(conj, gf.FLe(hi, gf.LenOf(xtm)))
			}
			conj = append(conj, gf.FLe(lo, hi))
			want := gf.And(conj...)
			if !st.Reachable() {
				c.Trivial("C15.2-slice-in-range", name, x.Pos(), "unreachable")
				return
			}
			if good, _ := st.Implies(want); good {
				c.OK("C15.2-slice-in-range", name, x.Pos(), "facts imply the bounds")
				return
			}
			_, wit := st.Implies(want)
			c.Bad("C15.2-slice-in-range", name, x.Pos(), "slice bounds not proven: required "+want.String()+"; facts: "+clip(wit, 400))
		case *ast.TypeAssertExpr:
			if x.Type == nil {
				return
			}
			p := pathTo(pc.body, x)
			if len(p) >= 2 {
				if as, ok := p[len(p)-2].(*ast.AssignStmt); ok && len(as.Lhs) == 2 && len(as.Rhs) == 1 {
					return // comma-ok
				}
				if _, ok := p[len(p)-2].(*ast.TypeSwitchStmt); ok {
					return
				}
			}
			nOther++
			name := fmt.Sprintf("%s: %s", pc.name, types.ExprString(x))
			if why, ok := exc(x); ok {
				c.OK("C15.3-unchecked-assertion", name, x.Pos(), "reviewed exception: "+why)
			} else {
				c.Bad("C15.3-unchecked-assertion", name, x.Pos(), "an unchecked type assertion reachable from the worker or an informer handler: it panics on an unexpected value")
			}
		case *ast.CallExpr:
			if id, ok := x.Fun.(*ast.Ident); ok {
				if b, ok := info.ObjectOf(id).(*types.Builtin); ok {
					switch b.Name() {
					case "panic":
						nOther++
						name := fmt.Sprintf("%s: %s", pc.name, clip(types.ExprString(x), 60))
						if why, ok := exc(x); ok {
							c.OK("C15.3-explicit-panic", name, x.Pos(), "reviewed exception: "+why)
						} else {
							c.Bad("C15.3-explicit-panic", name, x.Pos(), "an explicit panic reachable from the worker or an informer handler")
						}
					case "make":
						// make([]T, n): n must be non-negative
						if len(x.Args) >= 2 {
							if _, isSlice := info.TypeOf(x.Args[0]).Underlying().(*types.Slice); isSlice {
								nIdx++
								name := fmt.Sprintf("%s: %s", pc.name, types.ExprString(x))
								st := an.StateAtExpr(x)
								var conj []*gf.Formula
								for _, a := range x.Args[1:] {
									conj = append(conj, gf.FGe(fn.Term(a), gf.ConstInt(0)))
								}
								want := gf.And(conj...)
								if good, _ := st.Implies(want); good {
									c.OK("C15.2-make-length", name, x.Pos(), "length/capacity proven non-negative")
								} else {
									c.Bad("C15.2-make-length", name, x.Pos(), "make with a length not proven non-negative: required "+want.String())
								}
							}
						}
					}
					return
				}
			}
			if f := gf.StaticCallee(info, x); f != nil && strings.HasSuffix(f.Name(), "OrDie") {
				nOther++
				name := fmt.Sprintf("%s: %s", pc.name, clip(types.ExprString(x), 60))
				if why, ok := exc(x); ok {
					c.OK("C15.3-or-die", name, x.Pos(), "reviewed exception: "+why)
				} else {
					c.Bad("C15.3-or-die", name, x.Pos(), "a ...OrDie call reachable from the worker or an informer handler")
				}
			}
		}
	})
	// stores into possibly-nil maps
	ownNodes(pc.body, func(n ast.Node) {
		as, ok := n.(*ast.AssignStmt)
		if !ok {
			return
		}
		for _, l := range as.Lhs {
			ix, ok := ast.Unparen(l).(*ast.IndexExpr)
			if !ok {
				continue
			}
			if _, isMap := info.TypeOf(ix.X).Underlying().(*types.Map); !isMap {
				continue
			}
			nOther++
			name := fmt.Sprintf("%s: %s = ...", pc.name, types.ExprString(ix))
			if why, ok := exc(ix); ok {
				c.OK("C15.3-nil-map-store", name, as.Pos(), "reviewed exception: "+why)
				continue
			}
			st := an.StateBefore(as)
			mt := fn.Term(ix.X)
			if good, _ := st.Implies(gf.FNotNil(mt)); good {
				c.OK("C15.3-nil-map-store", name, as.Pos(), "the map is known non-nil here")
				continue
			}
			// a local map made in this function (make / literal) is non-nil
			if r := rootIdent(ix.X); r != nil && ast.Unparen(ix.X) == ast.Expr(r) {
				if rhs := defRHSIn(pc.body, info, r); rhs != nil {
					switch y := ast.Unparen(rhs).(type) {
					case *ast.CompositeLit:
						c.OK("C15.3-nil-map-store", name, as.Pos(), "local map literal")
						continue
					case *ast.CallExpr:
						if id, ok := y.Fun.(*ast.Ident); ok && id.Name == "make" {
							c.OK("C15.3-nil-map-store", name, as.Pos(), "local map from make")
							continue
						}
						if f := gf.StaticCallee(info, y); f != nil && c.returnsFreshMap(f) {
							c.OK("C15.3-nil-map-store", name, as.Pos(), "map returned fresh (make) by "+f.Name())
							continue
						}
					case *ast.TypeAssertExpr:
						// asserted from a decoded JSON tree: non-nil when the assertion succeeded
						c.OK("C15.3-nil-map-store", name, as.Pos(), "map obtained by a (tabled) type assertion: non-nil when the assertion holds")
						continue
					}
				}
			}
			_, wit := st.Implies(gf.FNotNil(mt))
			c.Bad("C15.3-nil-map-store", name, as.Pos(), "store into a map that may be nil; facts: "+clip(wit, 300))
		}
	})
	return
}

func defRHSIn(body *ast.BlockStmt, info *types.Info, id *ast.Ident) ast.Expr {
	var out ast.Expr
	ast.Inspect(body, func(n ast.Node) bool {
		if as, ok := n.(*ast.AssignStmt); ok && len(as.Rhs) == 1 {
			for _, lx := range as.Lhs {
				if l, ok := lx.(*ast.Ident); ok && info.ObjectOf(l) == info.ObjectOf(id) && out == nil {
					out = as.Rhs[0]
				}
			}
		}
		return true
	})
	return out
}

// returnsFreshMap: every return of f returns a local assigned from make(...) only.
func (c *Ctx) returnsFreshMap(f *types.Func) bool {
	fi := c.P.FuncInfoOf(f)
	if fi == nil {
		return false
	}
	info := fi.Pkg.TypesInfo
	ok := true
	n := 0
	ast.Inspect(fi.Decl.Body, func(x ast.Node) bool {
		ret, isRet := x.(*ast.ReturnStmt)
		if !isRet || len(ret.Results) != 1 {
			return true
		}
		n++
		id, isID := ret.Results[0].(*ast.Ident)
		if !isID {
			ok = false
			return true
		}
		rhs := defRHSIn(fi.Decl.Body, info, id)
		call, isCall := rhs.(*ast.CallExpr)
		if !isCall {
			ok = false
			return true
		}
		if mk, isID := call.Fun.(*ast.Ident); !isID || mk.Name != "make" {
			if conv, isT := info.Types[call.Fun]; !(isT && conv.IsType()) {
				ok = false
			}
		}
		return true
	})
	_ = token.NoPos
	return ok && n > 0
}

// nilResults: a pointer returned together with an error may be nil when the error is not. For every
// in-repo function that returns a nil literal as its first (pointer) result on some path, (a) its
// returns are checked to give "result != nil or error != nil", and (b) at its call sites in the
// panic scope the variable receiving the result is dereferenced — directly, or inside a helper the
// engine expands, through a parameter bound to it — only where facts exclude nil.
func (c *Ctx) nilResults(scope []*load.FuncInfo) {
	type producer struct {
		fi      *load.FuncInfo
		summary bool
	}
	prods := map[*types.Func]*producer{}
	for _, fi := range c.P.Funcs() {
		pp := fi.Pkg.PkgPath
		if pp != load.CtrlPkg && pp != load.K8sPkg && pp != load.HelperPkg {
			continue
		}
		sig := fi.Obj.Type().(*types.Signature)
		if sig.Results().Len() < 2 {
			continue
		}
		if _, isPtr := sig.Results().At(0).Type().Underlying().(*types.Pointer); !isPtr {
			continue
		}
		if types.TypeString(sig.Results().At(sig.Results().Len()-1).Type(), nil) != "error" {
			continue
		}
		info := fi.Pkg.TypesInfo
		hasNil := false
		var rets []*ast.ReturnStmt
		ast.Inspect(fi.Decl.Body, func(n ast.Node) bool {
			switch x := n.(type) {
			case *ast.FuncLit:
				return false
			case *ast.ReturnStmt:
				if len(x.Results) == sig.Results().Len() {
					rets = append(rets, x)
					if isNilExpr(info, x.Results[0]) {
						hasNil = true
					}
				}
			}
			return true
		})
		if !hasNil {
			continue
		}
		fn, an := c.Analysis(fi)
		ok := len(rets) > 0
		for _, r := range rets {
			st := an.StateBefore(r)
			if !st.Reachable() {
				continue
			}
			want := gf.Or(gf.FNotNil(fn.Term(r.Results[0])), gf.FNotNil(fn.Term(r.Results[len(r.Results)-1])))
			if g, _ := st.Implies(want); !g {
				ok = false
			}
		}
		prods[fi.Obj] = &producer{fi, ok}
	}
	n := 0
	for _, fi := range scope {
		info := fi.Pkg.TypesInfo
		fn := c.E.FnOf(fi)
		type recv struct {
			v    types.Object
			as   *ast.AssignStmt
			prod *producer
		}
		var recvs []recv
		ast.Inspect(fi.Decl.Body, func(x ast.Node) bool {
			as, ok := x.(*ast.AssignStmt)
			if !ok || len(as.Rhs) != 1 || len(as.Lhs) < 2 {
				return true
			}
			call, ok := ast.Unparen(as.Rhs[0]).(*ast.CallExpr)
			if !ok {
				return true
			}
			f := gf.StaticCallee(info, call)
			if f == nil || prods[f.Origin()] == nil {
				return true
			}
			// only where the producer's returns provably pair a nil result with a non-nil error, and the
			// caller keeps that error: a producer whose guarantee rests on the API machinery (objects returned
			// by client calls, elements of listed slices) and a caller that discards the error are not judged here
			eid, _ := as.Lhs[len(as.Lhs)-1].(*ast.Ident)
			if id, ok := as.Lhs[0].(*ast.Ident); ok && id.Name != "_" && prods[f.Origin()].summary && eid != nil && eid.Name != "_" {
				recvs = append(recvs, recv{info.ObjectOf(id), as, prods[f.Origin()]})
			}
			return true
		})
		if len(recvs) == 0 {
			continue
		}
		// facts after each such call: result != nil or error != nil, where the producer's returns guarantee it
		saved := fn.PostFacts
		pf := map[ast.Node]*gf.Formula{}
		for k, v := range saved {
			pf[k] = v
		}
		for _, r := range recvs {
			if !r.prod.summary {
				continue
			}
			if eid, ok := r.as.Lhs[len(r.as.Lhs)-1].(*ast.Ident); ok && eid.Name != "_" {
				pf[r.as] = gf.Or(gf.FNotNil(gf.Var(r.v)), gf.FNotNil(gf.Var(info.ObjectOf(eid))))
			}
		}
		fn.PostFacts = pf
		an := fn.Analyze(nil)
		fn.PostFacts = saved
		seen := map[string]bool{}
		for _, body := range fn.Bodies() {
			ownNodes(body, func(nd ast.Node) {
				e, ok := nd.(ast.Expr)
				if !ok {
					return
				}
				var base ast.Expr
				switch x := e.(type) {
				case *ast.StarExpr:
					base = x.X
				case *ast.SelectorExpr:
					if sel, ok := info.Selections[x]; ok && sel.Indirect() {
						if _, isPtr := info.TypeOf(x.X).Underlying().(*types.Pointer); isPtr {
							base = x.X
						}
					}
				}
				id, isID := ast.Unparen(base).(*ast.Ident)
				if base == nil || !isID {
					return
				}
				bt := fn.Term(id)
				st := an.StateAtExpr(e)
				if !st.Reachable() {
					return
				}
				for _, r := range recvs {
					hit := bt.Key() == gf.Var(r.v).Key()
					if !hit {
						for _, d := range st.D {
							for _, o := range d.EqualTerms(bt) {
								if o.Key() == gf.Var(r.v).Key() {
									hit = true
								}
							}
						}
					}
					if !hit {
						continue
					}
					k := fmt.Sprintf("%s|%s|%d", r.v.Name(), types.ExprString(base), c.P.Fset.Position(e.Pos()).Line)
					if seen[k] {
						return
					}
					seen[k] = true
					n++
					name := fmt.Sprintf("%s: dereference of %s (result of %s)", fi.Obj.Name(), types.ExprString(base), r.prod.fi.Obj.Name())
					c.Implies(st, gf.FNotNil(bt), "C15.1-nil-result-dereference", name, e.Pos())
					return
				}
			})
		}
	}
	c.Floor("C15.1-nil-result-dereferences", n, 2)
}

// normExpr renders e with every local variable replaced by ‹its type›, so that a reviewed
// exception stays attached when locals are renamed (and does not attach to a different shape).
func normExpr(info *types.Info, e ast.Expr) string {
	txt := types.ExprString(e)
	locals := map[string]string{}
	ast.Inspect(e, func(n ast.Node) bool {
		id, ok := n.(*ast.Ident)
		if !ok {
			return true
		}
		v, ok := info.ObjectOf(id).(*types.Var)
		if !ok || v.IsField() || v.Pkg() == nil || v.Parent() == v.Pkg().Scope() {
			return true
		}
		locals[id.Name] = "‹" + types.TypeString(v.Type(), func(p *types.Package) string { return p.Name() }) + "›"
		return true
	})
	if len(locals) == 0 {
		return txt
	}
	var names []string
	for n := range locals {
		names = append(names, n)
	}
	sort.Slice(names, func(i, j int) bool { return len(names[i]) > len(names[j]) })
	isWord := func(b byte) bool {
		return b == '_' || b >= '0' && b <= '9' || b >= 'a' && b <= 'z' || b >= 'A' && b <= 'Z'
	}
	var sb strings.Builder
	for i := 0; i < len(txt); {
		matched := false
		if (i == 0 || (!isWord(txt[i-1]) && txt[i-1] != '.')) && isWord(txt[i]) {
			for _, n := range names {
				if strings.HasPrefix(txt[i:], n) && (i+len(n) == len(txt) || !isWord(txt[i+len(n)])) {
					sb.WriteString(locals[n])
					i += len(n)
					matched = true
					break
				}
			}
		}
		if !matched {
			sb.WriteByte(txt[i])
			i++
		}
	}
	return sb.String()
}
