package rules

import (
	"encoding/json"
	"fmt"
	"go/types"
	"os"
	"os/exec"
	"path/filepath"
	"sort"
	"strings"
	"time"

	"asverif/internal/load"

	"golang.org/x/tools/go/callgraph"
	"golang.org/x/tools/go/callgraph/cha"
	"golang.org/x/tools/go/callgraph/vta"
	"golang.org/x/tools/go/ssa"
	"golang.org/x/tools/go/ssa/ssautil"
)

// thoroughImpl adds, on top of the quick rule evaluation:
//
//	(i)   a whole-program cross-check of the repo-restricted call graph against the VTA call graph
//	      (SSA of every dependency): every repo function that VTA finds reachable from the controller's
//	      and the helpers' entry points must be in the reach set the rules used;
//	(ii)  the same rules on loads for GOOS=darwin and GOARCH=386 (build-tag coverage);
//	(iii) replay of the seeded changes recorded for this property on scratch copies (evidence only).
func thoroughImpl(c *Ctx, prop *Property, findings []Finding, repo string, quick *Result) ([]string, int) {
	var lines []string
	exit := 0
	cov := quick.Evidence.Coverage
	t0 := time.Now()

	// (ii) other platforms
	platforms := [][2]string{{"darwin", ""}, {"", "386"}}
	var plat []map[string]any
	for _, pl := range platforms {
		p2, err := load.Load(repo, false, pl[0], pl[1])
		entry := map[string]any{"goos": pl[0], "goarch": pl[1]}
		if err != nil {
			entry["error"] = err.Error()
			lines = append(lines, fmt.Sprintf("VIOLATION property=%s replay=%s", prop.ID, filepath.Join("/verif/evidence", prop.ID+".json")))
			lines = append(lines, fmt.Sprintf("  undecided: the tree does not load for GOOS=%q GOARCH=%q: %v", pl[0], pl[1], err))
			exit = 1
			plat = append(plat, entry)
			continue
		}
		c2 := NewCtx(p2, "thorough")
		tmp, _ := os.MkdirTemp("", "asv-plat-")
		r2 := RunProperty(c2, prop, findings, 0, tmp, nil)
		os.RemoveAll(tmp)
		entry["obligations"] = len(c2.Obs)
		entry["exit"] = r2.Exit
		entry["files"] = len(p2.Files)
		if r2.Exit != 0 {
			exit = 1
			for _, l := range r2.Lines {
				if strings.HasPrefix(l, "VIOLATION") {
					lines = append(lines, fmt.Sprintf("VIOLATION property=%s replay=%s", prop.ID, filepath.Join("/verif/evidence", prop.ID+".json")))
				} else {
					lines = append(lines, fmt.Sprintf("  [GOOS=%s GOARCH=%s] %s", pl[0], pl[1], l))
				}
			}
		}
		plat = append(plat, entry)
	}
	cov["other_platform_loads"] = plat

	// (i) VTA cross-check
	vt := time.Now()
	diff, nVTA, nAST, err := vtaCrossCheck(c, repo)
	vtaEntry := map[string]any{"vta_reachable_repo_functions": nVTA, "rule_graph_reachable_repo_functions": nAST, "wall_s": time.Since(vt).Seconds()}
	if err != nil {
		vtaEntry["error"] = err.Error()
		lines = append(lines, fmt.Sprintf("VIOLATION property=%s replay=%s", prop.ID, filepath.Join("/verif/evidence", prop.ID+".json")))
		lines = append(lines, "  undecided: whole-program call graph could not be built: "+err.Error())
		exit = 1
	} else if len(diff) > 0 {
		vtaEntry["missing_from_rule_graph"] = diff
		lines = append(lines, fmt.Sprintf("VIOLATION property=%s replay=%s", prop.ID, filepath.Join("/verif/evidence", prop.ID+".json")))
		lines = append(lines, "  undecided: the whole-program VTA call graph reaches repo functions with API effects that the rules' repo-restricted call graph does not: "+strings.Join(diff, ", "))
		exit = 1
	}
	cov["vta_cross_check"] = vtaEntry

	// (iii) seeded replay
	applicable, fired := 0, 0
	var replay []map[string]any
	seeds, _ := filepath.Glob("/verif/seeded/*/meta.json")
	sort.Strings(seeds)
	for _, mf := range seeds {
		b, err := os.ReadFile(mf)
		if err != nil {
			continue
		}
		var meta struct {
			DetectedBy []string `json:"detected_by"`
		}
		if json.Unmarshal(b, &meta) != nil {
			continue
		}
		mine := false
		for _, d := range meta.DetectedBy {
			if d == prop.ID {
				mine = true
			}
		}
		if !mine {
			continue
		}
		name := filepath.Base(filepath.Dir(mf))
		entry := map[string]any{"seed": name}
		tmp, err := os.MkdirTemp("", "asv-seed-")
		if err != nil {
			continue
		}
		func() {
			defer os.RemoveAll(tmp)
			if out, err := exec.Command("rsync", "-a", "--exclude", ".git", repo+"/", tmp+"/").CombinedOutput(); err != nil {
				entry["skipped"] = "copy failed: " + string(out)
				return
			}
			cmd := exec.Command("patch", "-p1", "-s", "--no-backup-if-mismatch", "-i", filepath.Join(filepath.Dir(mf), "patch.diff"))
			cmd.Dir = tmp
			if out, err := cmd.CombinedOutput(); err != nil {
				entry["skipped"] = "patch does not apply to the current tree: " + clip(string(out), 120)
				return
			}
			applicable++
			p3, err := load.Load(tmp, false, "", "")
			if err != nil {
				entry["fired"] = true
				entry["how"] = "the patched tree does not load: " + clip(err.Error(), 120)
				fired++
				return
			}
			c3 := NewCtx(p3, "quick")
			ev, _ := os.MkdirTemp("", "asv-seed-ev-")
			r3 := RunProperty(c3, prop, findings, 0, ev, nil)
			os.RemoveAll(ev)
			entry["fired"] = r3.Exit == 1
			if r3.Exit == 1 {
				fired++
				for _, l := range r3.Lines {
					if strings.HasPrefix(strings.TrimSpace(l), "violated") || strings.HasPrefix(strings.TrimSpace(l), "undecided") {
						entry["first_report"] = clip(strings.TrimSpace(l), 240)
						break
					}
				}
			}
		}()
		replay = append(replay, entry)
	}
	cov["seeded_replay"] = map[string]any{"variants_applicable": applicable, "variants_fired": fired, "details": replay,
		"note": "evidence only: a seeded patch that no longer applies to an edited tree says nothing about the property, so the replay never changes the exit code"}
	// (iv) behaviour-preserving edits (refactorings/): a rotating dozen per property must stay silent; evidence only,
	// an alarm here is a defect of the checker, not of the tree under test
	{
		var idx int
		fmt.Sscanf(prop.ID, "C%d", &idx)
		pick := (idx+3)%4 + 1
		diffs, _ := filepath.Glob(fmt.Sprintf("/verif/refactorings/R*-r%d.diff", pick))
		sort.Strings(diffs)
		applicable, silent := 0, 0
		var noisy []string
		for _, df := range diffs {
			tmp, err := os.MkdirTemp("", "asv-refac-")
			if err != nil {
				continue
			}
			func() {
				defer os.RemoveAll(tmp)
				if _, err := exec.Command("rsync", "-a", "--exclude", ".git", repo+"/", tmp+"/").CombinedOutput(); err != nil {
					return
				}
				cmd := exec.Command("patch", "-p1", "-s", "--no-backup-if-mismatch", "-i", df)
				cmd.Dir = tmp
				if _, err := cmd.CombinedOutput(); err != nil {
					return // does not apply to an edited tree: says nothing
				}
				p4, err := load.Load(tmp, false, "", "")
				if err != nil {
					return
				}
				applicable++
				c4 := NewCtx(p4, "quick")
				ev, _ := os.MkdirTemp("", "asv-refac-ev-")
				r4 := RunProperty(c4, prop, findings, 0, ev, nil)
				os.RemoveAll(ev)
				if r4.Exit == 0 {
					silent++
				} else {
					noisy = append(noisy, filepath.Base(df))
				}
			}()
		}
		cov["behaviour_preserving_replay"] = map[string]any{"variants_applicable": applicable, "variants_silent": silent, "alarmed": noisy,
			"note": "evidence only: an alarm on a behaviour-preserving edit is a shape dependency of a rule (DESIGN.md 12.6), it never changes the exit code"}
		lines = append(lines, fmt.Sprintf("%s thorough: behaviour-preserving replay %d/%d silent", prop.ID, silent, applicable))
	}
	cov["thorough_wall_s"] = time.Since(t0).Seconds()
	lines = append(lines, fmt.Sprintf("%s thorough: platforms %d, VTA cross-check %d/%d repo functions (missing %d), seeded replay %d/%d fired", prop.ID, len(platforms), nAST, nVTA, len(diff), fired, applicable))
	return lines, exit
}

// vtaCrossCheck builds SSA for the whole program and the VTA call graph and
// compares the set of repo functions reachable from the entry points.
func vtaCrossCheck(c *Ctx, repo string) (missing []string, nVTA, nAST int, err error) {
	deep, err := load.Load(repo, true, "", "")
	if err != nil {
		return nil, 0, 0, err
	}
	var initial = deep.Roots
	prog, _ := ssautil.AllPackages(initial, ssa.InstantiateGenerics)
	prog.Build()
	all := ssautil.AllFunctions(prog)
	cg := vta.CallGraph(all, cha.CallGraph(prog))
	// entry points
	rootNames := map[string]bool{}
	var astRoots []*types.Func
	for _, r := range c.controllerRoots() {
		rootNames[r.FullName()] = true
		astRoots = append(astRoots, r)
	}
	for _, n := range []string{"Upgrade", "NewHijackClient"} {
		if fi := c.P.Func(load.HelperPkg, n); fi != nil {
			rootNames[fi.Obj.FullName()] = true
			astRoots = append(astRoots, fi.Obj)
		}
	}
	// every method of the hijack types is an entry point too (called by client code)
	for _, fi := range c.P.Funcs() {
		if fi.Pkg.PkgPath == load.HelperPkg && fi.Decl.Recv != nil {
			rootNames[fi.Obj.FullName()] = true
			astRoots = append(astRoots, fi.Obj)
		}
	}
	var roots []*callgraph.Node
	for f, n := range cg.Nodes {
		if f != nil && f.Object() != nil {
			if fo, ok := f.Object().(*types.Func); ok && rootNames[fo.FullName()] {
				roots = append(roots, n)
			}
		}
	}
	if len(roots) < 5 {
		return nil, 0, 0, fmt.Errorf("only %d entry points found in the VTA graph", len(roots))
	}
	seen := map[*callgraph.Node]bool{}
	work := append([]*callgraph.Node{}, roots...)
	vtaReach := map[string]bool{}
	for len(work) > 0 {
		n := work[len(work)-1]
		work = work[:len(work)-1]
		if seen[n] {
			continue
		}
		seen[n] = true
		if n.Func != nil {
			f := n.Func
			// closures are attributed to their enclosing declared function, as in the rule graph
			for f.Parent() != nil {
				f = f.Parent()
			}
			if fo, ok := f.Object().(*types.Func); ok && fo.Pkg() != nil && load.IsRepo(fo.Pkg().Path()) {
				vtaReach[fo.FullName()] = true
			}
		}
		for _, e := range n.Out {
			if !seen[e.Callee] {
				work = append(work, e.Callee)
			}
		}
	}
	astReach := c.G.Reach(astRoots...)
	astNames := map[string]bool{}
	for f := range astReach {
		astNames[f.FullName()] = true
	}
	// functions with effect sites
	hasSite := map[string]bool{}
	for _, s := range c.G.Sites {
		hasSite[s.Fn.FullName()] = true
	}
	for name := range vtaReach {
		if hasSite[name] && !astNames[name] {
			missing = append(missing, name)
		}
	}
	sort.Strings(missing)
	return missing, len(vtaReach), len(astNames), nil
}
