package rules

func thoroughImpl(c *Ctx, prop *Property, findings []Finding, repo string, quick *Result) ([]string, int) {
	return nil, 0
}
