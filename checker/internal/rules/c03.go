package rules

import (
	"fmt"
	"go/ast"
	"go/token"
	"go/types"
	"strings"

	"asverif/internal/gf"
	"asverif/internal/load"
)

func init() {
	register(&Property{
		ID:    "C03",
		Title: "Only pods that must go are ever deleted",
		Run:   runC03,
		Explanation: "Decides structural clauses C03.1-C03.3 of DESIGN.md on the current source: (1) every store into the wanted slice W is an observed pod at index getOrdinal(pod) with 0<=k<bound and k not an effective slot, or a fresh pod from the versioned constructor at its own index; every append to the condemned slice K is guarded by ord>=bound or slot membership; " +
			"(2) every call of the pod-delete primitive takes its pod from K (class a) or from W under the facts of class b (Failed/Succeeded, and every path from it errors out or re-creates the same cell) or class c (strategy != OnDelete, revision != update revision, not terminating, index >= partition lower bound); any other provenance is a violation; " +
			"(3) the raw Pods().Delete primitive is called only inside the real pod control and the unused RealPodControl.DeletePod, and nothing reachable from sync or the event handlers reaches DeleteCollection or RealPodControl.DeletePod. " +
			"The helper-walk rules of C01.3 are evaluated as a clause (without the int32 overflow rule). NOT decided: that the snapshot a reconcile saw is consistent with any history (cache lag, races); the rules decide which guard dominates which delete, per reconcile.",
	})
}

// storeClasses checks C03.1 for the stores into W and the appends to K.
func (c *Ctx) storeClasses(r *Reconcile) {
	info := r.FI.Pkg.TypesInfo
	fn, an := r.Fn, r.An
	nW, nK := 0, 0
	ast.Inspect(r.FI.Decl.Body, func(n ast.Node) bool {
		as, ok := n.(*ast.AssignStmt)
		if !ok || len(as.Lhs) != 1 || len(as.Rhs) != 1 {
			return true
		}
		switch lhs := ast.Unparen(as.Lhs[0]).(type) {
		case *ast.IndexExpr:
			id := rootIdent(lhs.X)
			if id == nil || info.ObjectOf(id) != r.W {
				return true
			}
			nW++
			st := an.StateBefore(as)
			name := fmt.Sprintf("%s: %s = %s", r.FI.Obj.Name(), types.ExprString(lhs), clip(types.ExprString(as.Rhs[0]), 60))
			if call, ok := ast.Unparen(as.Rhs[0]).(*ast.CallExpr); ok && gf.StaticCallee(info, call) == r.Ctor {
				// fresh pod: ordinal argument equals the index
				ordArg := call.Args[len(call.Args)-1]
				c.Check(fn.Term(ordArg).Key() == fn.Term(lhs.Index).Key(), "C03.1-W-fresh-index", name, as.Pos(),
					"constructor ordinal argument is the store index", "fresh pod stored at an index different from its ordinal argument")
				// either a vacancy fill or a replacement after a class-b delete (checked with the delete)
				fill := c.Want(fn, as.Pos(), "$1 == nil && 0 <= $2 && $2 < $3 && !$4.Has(int32($2))", lhs, lhs.Index, r.Bound, r.Slots)
				repl := c.Want(fn, as.Pos(), `$1.Status.Phase == "Failed" || $1.Status.Phase == "Succeeded"`, lhs)
				if ok, _ := st.Implies(fill); ok {
					c.OK("C03.1-W-fresh-context", name, as.Pos(), "vacancy fill: "+fill.String())
				} else if ok, _ := st.Implies(repl); ok {
					// the finished pod must have been deleted in this iteration: the store is reachable only through a delete of the same cell
					passed := false
					for _, d := range r.Deletes {
						if fn.Term(d.Args[1]).Key() != fn.Term(lhs).Key() || !contains(innermostLoop(r.FI.Decl.Body, as), d) {
							continue
						}
						loop := innermostLoop(r.FI.Decl.Body, as)
						start := loopBody(loop).List[0]
						aU := fn.FromUntil(start, an.StateBefore(start), stmtOf(r.FI.Decl.Body, d))
						if !aU.StateBefore(as).Reachable() {
							passed = true
						}
					}
					c.Check(passed, "C03.1-W-fresh-context", name, as.Pos(), "replacement of a finished pod, reachable only through the delete of that same cell: "+repl.String(),
						"a finished pod's cell is overwritten by a fresh pod on a path that does not delete the finished pod first (a create at an occupied ordinal follows)")
				} else {
					_, wit := st.Implies(gf.Or(fill, repl))
					c.Bad("C03.1-W-fresh-context", name, as.Pos(), "a fresh pod enters the wanted slice neither at a vacant desired index nor in place of a Failed/Succeeded pod; facts: "+clip(wit, 500))
				}
				return true
			}
			// observed pod
			want := c.Want(fn, as.Pos(), "$1 == getOrdinal($2) && 0 <= $1 && $1 < $3 && !$4.Has(int32($1))", lhs.Index, as.Rhs[0], r.Bound, r.Slots)
			c.Implies(st, want, "C03.1-W-observed", name, as.Pos())
		case *ast.Ident:
			if info.ObjectOf(lhs) != r.K {
				return true
			}
			call, ok := ast.Unparen(as.Rhs[0]).(*ast.CallExpr)
			if !ok {
				return true
			}
			if fid, _ := call.Fun.(*ast.Ident); fid == nil || fid.Name != "append" {
				if fid != nil && fid.Name == "make" {
					return true
				}
				c.Bad("C03.1-K-append", fmt.Sprintf("%s: %s", r.FI.Obj.Name(), types.ExprString(as.Rhs[0])), as.Pos(), "the condemned slice is assigned by something other than make/append")
				return true
			}
			st := an.StateBefore(as)
			for _, x := range call.Args[1:] {
				nK++
				name := fmt.Sprintf("%s: append(%s, %s)", r.FI.Obj.Name(), r.K.Name(), types.ExprString(x))
				want := c.Want(fn, as.Pos(), "getOrdinal($1) >= $2 || $3.Has(int32(getOrdinal($1)))", x, r.Bound, r.Slots)
				c.Implies(st, want, "C03.1-K-append", name, as.Pos())
			}
		}
		return true
	})
	c.Floor("C03.1-W-stores", nW, 3)
	c.Floor("C03.1-K-appends", nK, 1)
}

func runC03(c *Ctx) {
	r := c.ReconcileRoles()
	if r == nil {
		return
	}
	fn, an := r.Fn, r.An
	info := r.FI.Pkg.TypesInfo
	c.storeClasses(r)
	c.boundIsHelperResult(r, "C03.1-bound")
	// the desired set the reconcile works on is the helper's: its walk over the delete slots (C01.3) decides
	// which ordinals are wanted and which are condemned
	c.skipWrap = true
	c.helperChain()
	c.boundComputation()
	c.skipWrap = false

	// C03.2 delete classes
	c.Floor("C03.2-delete-sites", len(r.Deletes), 3)
	for i, d := range r.Deletes {
		arg := d.Args[1]
		name := siteName(r.FI.Obj.Name(), "DeleteStatefulPod", i, arg)
		id := rootIdent(arg)
		var root types.Object
		if id != nil {
			root = info.ObjectOf(id)
		}
		cell, isIdx := ast.Unparen(arg).(*ast.IndexExpr)
		st := an.StateAtExpr(d)
		switch {
		case root == r.K && isIdx:
			c.OK("C03.2-delete-class", name, d.Pos(), "class (a): pod taken from the condemned slice, whose appends are all guarded (C03.1-K-append)")
		case root == r.W && isIdx:
			fb := c.Want(fn, d.Pos(), `$1.Status.Phase == "Failed" || $1.Status.Phase == "Succeeded"`, cell)
			fc := c.Want(fn, d.Pos(), `$1.Spec.UpdateStrategy.Type != "OnDelete" && getPodRevision($2) != $3.Name && $2.DeletionTimestamp == nil`, r.Set, cell, r.UpdRev)
			if ok, _ := st.Implies(fb); ok {
				c.OK("C03.2-delete-class", name, d.Pos(), "class (b): "+fb.String())
				c.classBReplaces(r, d, cell, name)
			} else if ok, _ := st.Implies(fc); ok {
				c.OK("C03.2-delete-class", name, d.Pos(), "class (c): "+fc.String())
				part := c.Want(fn, d.Pos(), `$1.Spec.UpdateStrategy.RollingUpdate == nil || $1.Spec.UpdateStrategy.RollingUpdate.Partition == nil || $2 >= int(*$1.Spec.UpdateStrategy.RollingUpdate.Partition)`, r.Set, cell.Index)
				c.Implies(st, part, "C03.2-class-c-partition", name, d.Pos())
				nonneg := c.Want(fn, d.Pos(), `0 <= $1 && $1 < len($2)`, cell.Index, cell.X)
				c.Implies(st, nonneg, "C03.2-class-c-index-in-range", name, d.Pos())
			} else {
				_, w1 := st.Implies(fb)
				c.Bad("C03.2-delete-class", name, d.Pos(), "a pod of the wanted slice is deleted under neither class (b) [Failed/Succeeded] nor class (c) [RollingUpdate, outdated, not terminating]; facts on one path: "+clip(w1, 700))
			}
		default:
			c.Bad("C03.2-delete-class", name, d.Pos(), "deleted pod comes from neither the condemned nor the wanted slice: provenance unknown")
		}
	}

	// C03.3 who may delete
	c.whoMayCall("C03.3-who-may-delete", "pods", []string{"Delete", "DeleteCollection"},
		map[string]string{
			"(*" + load.CtrlPkg + ".realStatefulPodControl).DeleteStatefulPod": "the real pod control's delete method",
			"(" + load.K8sPkg + ".RealPodControl).DeletePod":                   "copied upstream helper, unreachable from the controller (checked below)",
		}, 2)
	c.unreachableFromController("C03.3-unreachable", []string{"(" + load.K8sPkg + ".RealPodControl).DeletePod"}, []string{"pods.DeleteCollection"})
}

// boundIsHelperResult: the wanted slice is made with the helper's bound.
func (c *Ctx) boundIsHelperResult(r *Reconcile, rule string) {
	info := r.FI.Pkg.TypesInfo
	// find the make statement
	var mk *ast.AssignStmt
	ast.Inspect(r.FI.Decl.Body, func(n ast.Node) bool {
		as, ok := n.(*ast.AssignStmt)
		if ok && len(as.Lhs) == 1 && len(as.Rhs) == 1 {
			if id, ok := as.Lhs[0].(*ast.Ident); ok && info.ObjectOf(id) == r.W {
				if call, ok := as.Rhs[0].(*ast.CallExpr); ok {
					if f, ok := call.Fun.(*ast.Ident); ok && f.Name == "make" {
						mk = as
					}
				}
			}
		}
		return true
	})
	if mk == nil {
		c.Fail("make of the wanted slice not found")
		return
	}
	// the helper call's first result variable
	var raw *ast.Ident
	ast.Inspect(r.FI.Decl.Body, func(n ast.Node) bool {
		if as, ok := n.(*ast.AssignStmt); ok && len(as.Rhs) == 1 && as.Rhs[0] == ast.Expr(r.HelperCall) {
			raw, _ = as.Lhs[0].(*ast.Ident)
		}
		return true
	})
	if raw == nil {
		c.Fail("first result of the helper call is not bound to a variable")
		return
	}
	st := r.An.StateBefore(mk)
	want := c.Want(r.Fn, mk.Pos(), "int($1) == int($2)", r.Bound, raw)
	c.Implies(st, want, rule, fmt.Sprintf("%s: make(%s) length", r.FI.Obj.Name(), r.W.Name()), mk.Pos())
	// the helper is fed spec.replicas and the annotation's slots
	a0 := r.HelperCall.Args[0]
	wantArg := c.WantTerm(r.Fn, mk.Pos(), "*$1.Spec.Replicas", r.Set)
	c.Check(wantArg != nil && r.Fn.Term(a0).Key() == wantArg.Key(), rule+"-helper-arg0", r.FI.Obj.Name()+": helper replicas argument", r.HelperCall.Pos(),
		"helper is called with *set.Spec.Replicas", "helper is not called with the set's spec.replicas: "+types.ExprString(a0))
}

// classBReplaces: after a class-(b) delete every path errors out or stores a
// fresh pod into the same cell and then calls the create primitive on it.
func (c *Ctx) classBReplaces(r *Reconcile, d *ast.CallExpr, cell *ast.IndexExpr, name string) {
	fn, an := r.Fn, r.An
	info := r.FI.Pkg.TypesInfo
	stmt := stmtOf(r.FI.Decl.Body, d)
	if stmt == nil {
		c.Unk("C03.2-class-b-replaced", name, d.Pos(), "statement of the delete call not found")
		return
	}
	cellKey := fn.Term(cell).Key()
	var store ast.Node
	var create *ast.CallExpr
	ast.Inspect(r.FI.Decl.Body, func(n ast.Node) bool {
		if as, ok := n.(*ast.AssignStmt); ok && len(as.Lhs) == 1 && len(as.Rhs) == 1 && as.Pos() > d.Pos() {
			if fn.Term(as.Lhs[0]).Key() == cellKey {
				if call, ok := ast.Unparen(as.Rhs[0]).(*ast.CallExpr); ok && gf.StaticCallee(info, call) == r.Ctor && store == nil {
					store = as
				}
			}
		}
		return true
	})
	for _, cr := range r.Creates {
		if fn.Term(cr.Args[1]).Key() == cellKey && cr.Pos() > d.Pos() && create == nil {
			create = cr
		}
	}
	if store == nil || create == nil {
		c.Bad("C03.2-class-b-replaced", name, d.Pos(), "no store of a fresh pod into the same cell followed by a create of that cell after the delete")
		return
	}
	// the error variable of the delete
	errWant := c.errNonNilAfter(fn, stmt, d)
	after := an.StateAfter(stmt)
	// (i) before the store, control leaves only through error returns and never back to the loop head
	a1 := fn.FromAfterUntil(stmt, after, store)
	ok1 := c.onlyErrorExits(r, a1, errWant, "C03.2-class-b-replaced", name+" [before the fresh store]", d)
	// (ii) from the store to the create, likewise
	// the freshly constructed pod has an empty phase and no deletion timestamp (allocation summary)
	fresh := c.freshPodFacts(r, cell, store.Pos())
	a2 := fn.FromAfterUntil(store, an.StateAfter(store).Assume(fresh), create)
	ok2 := c.onlyErrorExits(r, a2, nil, "C03.2-class-b-replaced", name+" [between the fresh store and the create]", d)
	// (iii) the create is reached from the store
	a3 := fn.FromAfter(store, an.StateAfter(store).Assume(fresh))
	reached := a3.StateAtExpr(create).Reachable()
	if ok1 && ok2 {
		c.Check(reached, "C03.2-class-b-replaced", name, d.Pos(),
			"every non-error path from the delete passes the fresh store into the same cell and reaches the create of that cell",
			"the create of the same cell is not reachable after the fresh store")
	}
}

// errNonNilAfter returns the formula "the error returned by call is non-nil",
// for calls of the shapes `if err := call; err != nil` and `err := call`.
func (c *Ctx) errNonNilAfter(fn *gf.Fn, stmt ast.Stmt, call *ast.CallExpr) *gf.Formula {
	if as, ok := stmt.(*ast.AssignStmt); ok && len(as.Rhs) == 1 {
		last := as.Lhs[len(as.Lhs)-1]
		if id, ok := last.(*ast.Ident); ok && id.Name != "_" {
			return gf.FNotNil(fn.Term(id))
		}
	}
	return nil
}

// onlyErrorExits checks that in the truncated analysis a no return is reached
// without the error fact and the enclosing loop does not continue.
func (c *Ctx) onlyErrorExits(r *Reconcile, a *gf.Analysis, errWant *gf.Formula, rule, name string, at ast.Node) bool {
	ok := true
	ast.Inspect(r.FI.Decl.Body, func(n ast.Node) bool {
		switch x := n.(type) {
		case *ast.FuncLit:
			return false
		case *ast.ReturnStmt:
			st := a.StateBefore(x)
			if !st.Reachable() {
				return true
			}
			if errWant != nil {
				if good, _ := st.Implies(errWant); good {
					return true
				}
			}
			ok = false
			c.Bad(rule, name, at.Pos(), fmt.Sprintf("a return at %s is reachable without an error fact", c.P.Pos(x.Pos())))
		case *ast.BranchStmt:
			// continue/break leave the iteration
		}
		return true
	})
	// loop continuation: the loop statement's post/head must not be reached
	for _, b := range a.Fn.CFG.Blocks {
		if !b.Live {
			continue
		}
		if _, in := a.In[b.Index]; !in {
			continue
		}
		if !a.In[b.Index].Reachable() {
			continue
		}
		if b.Stmt != nil && (b.Stmt == ast.Stmt(r.WLoop)) && (b.Kind.String() == "RangeLoop") {
			ok = false
			c.Bad(rule, name, at.Pos(), "the iteration can continue to the next ordinal without replacing the deleted pod")
		}
	}
	return ok
}

// ---------------------------------------------------------------------------
// who-may-call helpers (engine E1)

// whoMayCall: every call site of resource.verbs must lie in an allowed function.
func (c *Ctx) whoMayCall(rule, resource string, verbs []string, allowed map[string]string, floor int) {
	vs := map[string]bool{}
	for _, v := range verbs {
		vs[v] = true
	}
	n := 0
	reach := c.G.Reach(c.controllerRoots()...)
	// a function that did not exist at the pinned commit and whose every caller is an allowed caller (or such a helper
	// itself): the primitive's call was moved, not added
	var onlyThrough func(f *types.Func, depth int) (string, bool)
	onlyThrough = func(f *types.Func, depth int) (string, bool) {
		if depth > 3 || (c.E.IsPinned != nil && c.E.IsPinned(f)) {
			return "", false
		}
		callers := c.G.Callers(f)
		if len(callers) == 0 {
			return "", false
		}
		via := ""
		for _, cl := range callers {
			if _, ok := allowed[cl.FullName()]; ok {
				via = cl.Name()
				continue
			}
			v, ok := onlyThrough(cl, depth+1)
			if !ok {
				return "", false
			}
			via = v
		}
		return via, true
	}
	for _, s := range c.G.Sites {
		if s.Resource != resource || !vs[s.Verb] {
			continue
		}
		n++
		name := fmt.Sprintf("%s.%s in %s", s.Resource, s.Verb, s.Fn.FullName())
		if why, ok := allowed[s.Fn.FullName()]; ok {
			c.OK(rule, name, s.Call.Pos(), "allowed caller: "+why)
		} else if reach == nil || !reach[s.Fn] {
			c.OK(rule, name, s.Call.Pos(), "not reachable from the controller's entry points (sync, the worker, the event handlers)")
		} else if via, ok := onlyThrough(s.Fn, 0); ok {
			c.OK(rule, name, s.Call.Pos(), "a helper called only from an allowed caller ("+via+")")
		} else {
			c.Bad(rule, name, s.Call.Pos(), fmt.Sprintf("%s.%s is called from %s, which is not an allowed caller of this primitive", s.Resource, s.Verb, s.Fn.FullName()))
		}
	}
	c.Floor(rule, n, floor)
}

// controllerRoots are the entry points of the running controller.
func (c *Ctx) controllerRoots() []*types.Func {
	var roots []*types.Func
	for _, n := range []string{"StatefulSetController.sync", "StatefulSetController.processNextWorkItem", "StatefulSetController.addPod",
		"StatefulSetController.updatePod", "StatefulSetController.deletePod", "StatefulSetController.enqueueStatefulSet", "StatefulSetController.Run",
		"NewStatefulSetController"} {
		if fi := c.Func(load.CtrlPkg, n); fi != nil {
			roots = append(roots, fi.Obj)
		}
	}
	return roots
}

// unreachableFromController: none of the named functions / effects is reachable from the controller's entry points.
func (c *Ctx) unreachableFromController(rule string, funcs []string, effects []string) {
	reach := c.G.Reach(c.controllerRoots()...)
	for _, fnName := range funcs {
		hit := false
		for f := range reach {
			if f.FullName() == fnName {
				hit = true
			}
		}
		c.Check(!hit, rule, fnName, 0, "not reachable from sync, the worker or the event handlers (repo call graph with interface dispatch)",
			fnName+" is reachable from the controller's entry points")
	}
	for _, e := range effects {
		var wit string
		for _, s := range c.G.SitesIn(reach) {
			if s.Resource+"."+s.Verb == e {
				wit = s.String()
			}
		}
		c.Check(wit == "", rule, e, 0, "no call site of "+e+" in any function reachable from the controller's entry points", "reachable: "+wit)
	}
	c.Notes = append(c.Notes, fmt.Sprintf("%s: reach set of the controller entry points has %d functions", rule, len(reach)))
	if len(reach) < 40 {
		c.Fail("reach set of the controller entry points has only %d functions (floor 40): call graph incomplete", len(reach))
	}
}

// freshPodFacts returns `cell.Status.Phase == "" && cell.DeletionTimestamp == nil`
// after checking (allocation summary) that the versioned constructor returns a
// freshly allocated pod in which neither field is ever stored.
func (c *Ctx) freshPodFacts(r *Reconcile, cell ast.Expr, pos token.Pos) *gf.Formula {
	okPhase, okDel := r.FreshOK, r.FreshOK
	c.Check(okPhase && okDel, "C03.2-fresh-pod-is-uncreated", r.Ctor.Name()+" result", pos,
		"the constructor returns a freshly allocated pod; no store to Status.Phase or DeletionTimestamp on any path (callee mod-sets included)",
		"the constructor's result may carry a phase or a deletion timestamp: it is not provably a new, uncreated pod")
	if !(okPhase && okDel) {
		return gf.True
	}
	return c.Want(r.Fn, pos, `$1.Status.Phase == "" && $1.DeletionTimestamp == nil`, cell)
}

// freshZero: every value returned by f is allocated inside f (or by a callee
// with the same property) and the field path is never written.
func (c *Ctx) freshZero(f *types.Func, path []string, depth int) bool {
	fi := c.P.FuncInfoOf(f)
	if fi == nil || depth > 5 {
		return false
	}
	info := fi.Pkg.TypesInfo
	// no write to the path anywhere below f (type-and-field granularity)
	mod := c.E.Sum.ModOf(f)
	for w := range mod {
		for _, seg := range path {
			if strings.HasSuffix(w, "."+seg) && (strings.Contains(w, "k8s.io/api/core/v1.") || strings.Contains(w, "meta/v1.ObjectMeta")) {
				// Pod.Status / PodStatus.Phase / Pod.ObjectMeta / ObjectMeta.DeletionTimestamp
				if w == "k8s.io/api/core/v1.Pod."+seg || w == "k8s.io/api/core/v1.PodStatus."+seg || w == "k8s.io/apimachinery/pkg/apis/meta/v1.ObjectMeta."+seg {
					return false
				}
			}
		}
		if w == "k8s.io/api/core/v1.Pod.*" || w == "k8s.io/api/core/v1.PodStatus.*" || w == "deref:k8s.io/api/core/v1.Pod" {
			return false
		}
	}
	ok := true
	sawReturn := false
	ast.Inspect(fi.Decl.Body, func(n ast.Node) bool {
		if _, isLit := n.(*ast.FuncLit); isLit {
			return false
		}
		ret, isRet := n.(*ast.ReturnStmt)
		if !isRet || len(ret.Results) == 0 {
			return true
		}
		sawReturn = true
		res := ast.Unparen(ret.Results[0])
		if isNilExpr(info, res) {
			return true
		}
		id, isID := res.(*ast.Ident)
		if !isID {
			ok = ok && c.freshExpr(info, res, path, depth)
			return true
		}
		obj := info.ObjectOf(id)
		// every assignment to the variable
		assigned := false
		ast.Inspect(fi.Decl.Body, func(m ast.Node) bool {
			as, isAs := m.(*ast.AssignStmt)
			if !isAs {
				return true
			}
			for i, l := range as.Lhs {
				lid, isL := l.(*ast.Ident)
				if !isL || info.ObjectOf(lid) != obj {
					continue
				}
				assigned = true
				var rhs ast.Expr
				if len(as.Rhs) == len(as.Lhs) {
					rhs = as.Rhs[i]
				} else if len(as.Rhs) == 1 && i == 0 {
					rhs = as.Rhs[0]
				}
				if rhs == nil || !c.freshExpr(info, rhs, path, depth) {
					ok = false
				}
			}
			return true
		})
		if !assigned {
			ok = false
		}
		return true
	})
	return ok && sawReturn
}

func isNilExpr(info *types.Info, e ast.Expr) bool {
	tv, ok := info.Types[e]
	return ok && tv.IsNil()
}

func (c *Ctx) freshExpr(info *types.Info, e ast.Expr, path []string, depth int) bool {
	e = ast.Unparen(e)
	switch x := e.(type) {
	case *ast.UnaryExpr:
		if cl, ok := x.X.(*ast.CompositeLit); ok {
			return litLacks(cl, path)
		}
	case *ast.CallExpr:
		if g := gf.StaticCallee(info, x); g != nil {
			return c.freshZero(g.Origin(), path, depth+1)
		}
	}
	return false
}

// litLacks: the composite literal does not set the field path.
func litLacks(cl *ast.CompositeLit, path []string) bool {
	if len(path) == 0 {
		return false
	}
	for _, el := range cl.Elts {
		kv, ok := el.(*ast.KeyValueExpr)
		if !ok {
			return false // positional literal: cannot tell
		}
		k, ok := kv.Key.(*ast.Ident)
		if !ok {
			return false
		}
		if k.Name == path[0] {
			inner, ok := ast.Unparen(kv.Value).(*ast.CompositeLit)
			if !ok || len(path) == 1 {
				return false
			}
			return litLacks(inner, path[1:])
		}
	}
	return true
}
