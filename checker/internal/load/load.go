// Package load is engine E0: it loads and type-checks /repo's current working
// tree with go/packages and offers lookups of program entities by type, never
// by text position.
package load

import (
	"crypto/sha256"
	"encoding/hex"
	"fmt"
	"go/ast"
	"go/token"
	"go/types"
	"os"
	"path/filepath"
	"sort"
	"strings"

	"golang.org/x/tools/go/packages"
)

const (
	RootMod   = "github.com/pingcap/advanced-statefulset"
	ClientMod = RootMod + "/client"
	CtrlPkg   = RootMod + "/pkg/controller/statefulset"
	K8sPkg    = RootMod + "/pkg/third_party/k8s"
	HelperPkg = ClientMod + "/apis/apps/v1/helper"
	APIPkg    = ClientMod + "/apis/apps/v1"
	DefPkg    = ClientMod + "/apis/apps/v1/third_party/k8s"
	TypedPkg  = ClientMod + "/client/clientset/versioned/typed/apps/v1"
	ListerPkg = ClientMod + "/client/listers/apps/v1"
)

// Patterns are the production packages of both modules. test/... (e2e and
// integration drivers) is excluded on purpose: it legitimately deletes pods.
var Patterns = []string{
	"./pkg/...", "./cmd/...",
	ClientMod + "/apis/...",
	ClientMod + "/client/...",
}

// MinPackages is the floor of root packages; fewer means the load was partial.
const MinPackages = 20

type Prog struct {
	Repo   string
	Fset   *token.FileSet
	Roots  []*packages.Package          // repo packages (both modules)
	All    map[string]*packages.Package // every package reachable, by path
	Deep   bool                         // true when dependencies carry syntax too
	Files  map[string]string            // analysed repo file -> sha256
	GOOS   string
	GOARCH string

	funcDecl map[*types.Func]*FuncInfo
}

type FuncInfo struct {
	Pkg  *packages.Package
	Decl *ast.FuncDecl
	Obj  *types.Func
}

func env(goos, goarch string) []string {
	e := os.Environ()
	out := e[:0:0]
	for _, kv := range e {
		if strings.HasPrefix(kv, "GOFLAGS=") || strings.HasPrefix(kv, "GOWORK=") || strings.HasPrefix(kv, "GOPROXY=") ||
			strings.HasPrefix(kv, "GOSUMDB=") || strings.HasPrefix(kv, "GOTOOLCHAIN=") || strings.HasPrefix(kv, "GOOS=") || strings.HasPrefix(kv, "GOARCH=") {
			continue
		}
		out = append(out, kv)
	}
	out = append(out, "GOFLAGS=-mod=mod", "GOWORK=off", "GOPROXY=off", "GOSUMDB=off", "GOTOOLCHAIN=local", "CGO_ENABLED=0")
	if goos != "" {
		out = append(out, "GOOS="+goos)
	}
	if goarch != "" {
		out = append(out, "GOARCH="+goarch)
	}
	return out
}

// Load loads the production packages of repo. deep=false keeps syntax for the
// repo packages only (dependencies from export data); deep=true keeps syntax
// for everything (needed for whole-program SSA/VTA).
func Load(repo string, deep bool, goos, goarch string) (*Prog, error) {
	mode := packages.NeedName | packages.NeedFiles | packages.NeedCompiledGoFiles | packages.NeedImports |
		packages.NeedTypes | packages.NeedTypesSizes | packages.NeedSyntax | packages.NeedTypesInfo | packages.NeedModule
	if deep {
		mode |= packages.NeedDeps
	} else {
		mode |= packages.NeedDeps // deps' types are still needed; syntax only for roots (see below)
	}
	cfg := &packages.Config{
		Mode:  mode,
		Dir:   repo,
		Env:   env(goos, goarch),
		Tests: false,
		Fset:  token.NewFileSet(),
	}
	if !deep {
		// LoadSyntax semantics: type information for dependencies comes from
		// export data, syntax only for the matched packages.
		cfg.Mode = packages.NeedName | packages.NeedFiles | packages.NeedCompiledGoFiles | packages.NeedImports |
			packages.NeedTypes | packages.NeedTypesSizes | packages.NeedSyntax | packages.NeedTypesInfo | packages.NeedModule | packages.NeedExportFile
		cfg.Mode = packages.LoadSyntax | packages.NeedModule
	} else {
		cfg.Mode = packages.LoadAllSyntax | packages.NeedModule
	}
	pkgs, err := packages.Load(cfg, Patterns...)
	if err != nil {
		return nil, fmt.Errorf("go/packages: %v", err)
	}
	p := &Prog{Repo: repo, Fset: cfg.Fset, All: map[string]*packages.Package{}, Deep: deep, Files: map[string]string{},
		GOOS: goos, GOARCH: goarch, funcDecl: map[*types.Func]*FuncInfo{}}
	var errs []string
	packages.Visit(pkgs, nil, func(pk *packages.Package) {
		p.All[pk.PkgPath] = pk
		if strings.HasPrefix(pk.PkgPath, RootMod) {
			for _, e := range pk.Errors {
				errs = append(errs, e.Error())
			}
		}
	})
	if len(errs) > 0 {
		sort.Strings(errs)
		if len(errs) > 10 {
			errs = errs[:10]
		}
		return nil, fmt.Errorf("type/load errors in repo packages (no verdict possible):\n  %s", strings.Join(errs, "\n  "))
	}
	for _, pk := range pkgs {
		if !strings.HasPrefix(pk.PkgPath, RootMod) {
			continue
		}
		if len(pk.Syntax) == 0 && len(pk.GoFiles) > 0 {
			return nil, fmt.Errorf("package %s loaded without syntax", pk.PkgPath)
		}
		p.Roots = append(p.Roots, pk)
	}
	sort.Slice(p.Roots, func(i, j int) bool { return p.Roots[i].PkgPath < p.Roots[j].PkgPath })
	if len(p.Roots) < MinPackages {
		return nil, fmt.Errorf("only %d repo packages loaded, floor is %d", len(p.Roots), MinPackages)
	}
	for _, pk := range p.Roots {
		for i, f := range pk.Syntax {
			name := pk.CompiledGoFiles[i]
			if strings.HasSuffix(name, "_test.go") {
				return nil, fmt.Errorf("test file %s in a production load", name)
			}
			b, err := os.ReadFile(name)
			if err != nil {
				return nil, err
			}
			h := sha256.Sum256(b)
			rel, _ := filepath.Rel(repo, name)
			p.Files[rel] = hex.EncodeToString(h[:8])
			for _, d := range f.Decls {
				if fd, ok := d.(*ast.FuncDecl); ok {
					if obj, ok := pk.TypesInfo.Defs[fd.Name].(*types.Func); ok {
						p.funcDecl[obj] = &FuncInfo{Pkg: pk, Decl: fd, Obj: obj}
					}
				}
			}
		}
	}
	return p, nil
}

// IsRepo reports whether the package path belongs to one of the repo's modules.
func IsRepo(path string) bool { return strings.HasPrefix(path, RootMod) }

func (p *Prog) Pkg(path string) *packages.Package { return p.All[path] }

// FuncInfoOf returns the declaration of a repo function (nil if it has no body here).
func (p *Prog) FuncInfoOf(f *types.Func) *FuncInfo {
	if f == nil {
		return nil
	}
	return p.funcDecl[f.Origin()]
}

// Funcs lists all repo functions with bodies, sorted.
func (p *Prog) Funcs() []*FuncInfo {
	var out []*FuncInfo
	for _, fi := range p.funcDecl {
		if fi.Decl.Body != nil {
			out = append(out, fi)
		}
	}
	sort.Slice(out, func(i, j int) bool { return out[i].Obj.FullName() < out[j].Obj.FullName() })
	return out
}

// Func finds a package-level function or a method ("Recv.Name") in a repo package.
func (p *Prog) Func(pkgPath, name string) *FuncInfo {
	pk := p.All[pkgPath]
	if pk == nil || pk.Types == nil {
		return nil
	}
	if i := strings.Index(name, "."); i >= 0 {
		tn, _ := pk.Types.Scope().Lookup(name[:i]).(*types.TypeName)
		if tn == nil {
			return nil
		}
		obj, _, _ := types.LookupFieldOrMethod(types.NewPointer(tn.Type()), true, pk.Types, name[i+1:])
		if f, ok := obj.(*types.Func); ok {
			return p.FuncInfoOf(f)
		}
		return nil
	}
	if f, ok := pk.Types.Scope().Lookup(name).(*types.Func); ok {
		return p.FuncInfoOf(f)
	}
	return nil
}

// Lookup returns a package-level object.
func (p *Prog) Lookup(pkgPath, name string) types.Object {
	pk := p.All[pkgPath]
	if pk == nil || pk.Types == nil {
		return nil
	}
	return pk.Types.Scope().Lookup(name)
}

// Pos renders a position relative to the repo.
func (p *Prog) Pos(pos token.Pos) string {
	if !pos.IsValid() {
		return "-"
	}
	ps := p.Fset.Position(pos)
	rel, err := filepath.Rel(p.Repo, ps.Filename)
	if err != nil || strings.HasPrefix(rel, "..") {
		rel = ps.Filename
	}
	return fmt.Sprintf("%s:%d", rel, ps.Line)
}

// PkgOfPos finds the repo package containing pos.
func (p *Prog) PkgOfPos(pos token.Pos) *packages.Package {
	for _, pk := range p.Roots {
		for _, f := range pk.Syntax {
			if f.Pos() <= pos && pos <= f.End() {
				return pk
			}
		}
	}
	return nil
}
