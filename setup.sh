#!/bin/sh
# builds the checker offline from files on disk only
set -e
cd "$(dirname "$0")/checker"
export GOFLAGS=-mod=mod GOPROXY=off GOSUMDB=off GOTOOLCHAIN=local GOWORK=off
mkdir -p ../bin
go build -o ../bin/asverif ./cmd/asverif
