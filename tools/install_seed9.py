#!/usr/bin/env python3
"""install_seed9.py <Cxx> <A|B> <newletter> <first|missed>: copies a confirmed round-9 seed from /var/tmp/seed9 into /verif/seeded,
runs all checks on it (scratch copy) and writes meta.json."""
import json, os, re, shutil, subprocess, sys
p, x, letter, when = sys.argv[1:5]
src = f"/var/tmp/seed9/{p}-{x}"
dst = f"/verif/seeded/{p}-{letter}"
os.makedirs(dst, exist_ok=True)
for f in ("patch.diff", "demo_test.go", "README.md"):
    shutil.copy(os.path.join(src, f), os.path.join(dst, f))
env = dict(os.environ, RX_RAW="1")
out = subprocess.run(["/verif/tools/rx.sh", dst + "/patch.diff"], capture_output=True, text=True, env=env).stdout
fired = re.findall(r"^== (C\d\d) exit 1", out, re.M)
readme = open(os.path.join(dst, "README.md")).read()
title = ""
for line in readme.splitlines():
    t = line.strip("# ").strip()
    if t:
        title = t
        break
meta = {
    "property": p,
    "change": title[:200],
    "needs_to_manifest": "see README.md",
    "author": "independent sub-agent (round 9) given only the property text, the list of ideas already used, and a scratch worktree of /repo",
    "confirmed_by": "tools/confirm_seed.sh in a scratch worktree at /repo HEAD 32a39ff: patch applies and builds, both suites pass with the patch, the demonstration passes on the clean tree and fails with the patch",
    "detected_by": fired,
    "detected_when": "first run of round 9 (before any rule change for it)" if when == "first" else "missed by its own property at the first run of round 9; reported after the rule additions of that round (DESIGN.md section 10)",
    "how_run": f"tools/rx.sh seeded/{p}-{letter}/patch.diff <checks>",
}
json.dump(meta, open(os.path.join(dst, "meta.json"), "w"), indent=1)
print(p + "-" + letter, "own" if p in fired else "OWN-MISSING", fired, "|", title[:90])
