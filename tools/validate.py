#!/opt/veriftools/pyvenv/bin/python
import json, jsonschema, glob, sys
jsonschema.validate(json.load(open('/verif/MANIFEST.json')), json.load(open('/root/.vp/MANIFEST.schema.json')))
print("manifest valid")
sch = json.load(open('/root/.vp/EVIDENCE.schema.json'))
for f in sorted(glob.glob('/verif/evidence/C??.json')):
    jsonschema.validate(json.load(open(f)), sch)
    print(f, "valid")
