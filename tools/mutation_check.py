#!/usr/bin/env python3
"""mutation_check.py <results.jsonl> <out.jsonl> [jobs]: gives every mutant that survived the test suite to the checks
(all twenty, one load, on a scratch copy of HEAD) and records which properties report it."""
import json, os, subprocess, sys, tempfile, shutil, multiprocessing, re

BIN = os.environ.get("ASV_BIN", "/verif/bin/asverif")

def run(m):
    d = tempfile.mkdtemp(prefix="mutc-", dir="/var/tmp")
    try:
        subprocess.run("git -C /repo archive HEAD | tar -x -C %s" % d, shell=True, check=True)
        p = os.path.join(d, m["file"])
        b = open(p, "rb").read()
        b = b[:m["start"]] + m["repl"].encode() + b[m["end"]:]
        open(p, "wb").write(b)
        r = subprocess.run([BIN, "checkall", "--repo", d], capture_output=True, text=True, timeout=900)
        fired = re.findall(r"^== (C\d\d) exit 1", r.stdout, re.M)
        broken = re.findall(r"^== (C\d\d) exit 2", r.stdout, re.M)
        first = {}
        cur = None
        for line in r.stdout.splitlines():
            mm = re.match(r"^== (C\d\d) exit", line)
            if mm:
                cur = mm.group(1)
            elif cur and cur not in first and ("violated" in line or "undecided" in line):
                first[cur] = line.strip()[:300]
        return dict(m, fired=fired, broken=broken, first=first)
    except Exception as e:
        return dict(m, fired=[], error=str(e)[:200])
    finally:
        shutil.rmtree(d, ignore_errors=True)

if __name__ == "__main__":
    done = set()
    if os.path.exists(sys.argv[2]):
        for l in open(sys.argv[2]):
            done.add(json.loads(l)["id"])
    muts = [json.loads(l) for l in open(sys.argv[1])]
    muts = [m for m in muts if m["result"] == "survived" and m["id"] not in done]
    jobs = int(sys.argv[3]) if len(sys.argv) > 3 else 6
    with multiprocessing.Pool(jobs) as pool, open(sys.argv[2], "a") as out:
        for res in pool.imap_unordered(run, muts):
            out.write(json.dumps(res) + "\n")
            out.flush()
