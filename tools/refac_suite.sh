#!/bin/bash
# refac_suite.sh <dir-with-Rk/rN.diff> : runs every behaviour-preserving change on its own scratch copy, 8 at a time.
d="${1:-/verif/refactorings}"
ls $d/*.diff | xargs -P 8 -I{} sh -c 'o=$(LINES_MAX=${LINES_MAX:-2} WIDTH_MAX=${WIDTH_MAX:-260} /verif/tools/rx.sh {} 2>&1); echo "### {}
$o"' 
