#!/bin/bash
# run_on_refactor.sh <diff> [Cxx ...]: applies a change to /repo, runs the quick checks on one load, reverts; prints only alarms.
set -u
d="$1"; shift
cd /repo || exit 2
[ -n "$(git status --porcelain)" ] && { echo "/repo is not clean"; exit 2; }
git apply "$d" || { echo "patch does not apply"; exit 2; }
trap 'git -C /repo checkout -- . ; git -C /repo clean -fdq' EXIT
out=$(/verif/bin/asverif checkall "$@" 2>&1)
echo "$out" | awk -v L=${LINES_MAX:-3} -v W=${WIDTH_MAX:-330} '/^== /{ if ($4!="0") {print "  ALARM " $2 " (exit " $4 ")"; n++; k=0; show=1} else show=0; next } /^VIOLATION|^KNOWN/{next} show && k<L {print "     " substr($0,1,W); k++} END{print "  => " n+0 " alarms"}'
