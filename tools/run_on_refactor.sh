#!/bin/bash
# run_on_refactor.sh <diff>: applies a behaviour-preserving refactoring to /repo, runs all quick checks, reverts; prints only alarms.
set -u
cd /repo || exit 2
[ -n "$(git status --porcelain)" ] && { echo "/repo is not clean"; exit 2; }
git apply "$1" || { echo "patch does not apply"; exit 2; }
trap 'git -C /repo checkout -- . ; git -C /repo clean -fdq' EXIT
n=0
for p in C01 C02 C03 C04 C05 C06 C07 C08 C09 C10 C11 C12 C13 C14 C15 C16 C17 C18 C19 C20; do
  out=$(/verif/bin/asverif check $p --no-evidence --evidence /tmp/refac-ev 2>&1); rc=$?
  if [ $rc -ne 0 ]; then n=$((n+1)); echo "  ALARM $p (exit $rc)"; echo "$out" | grep -v '^VIOLATION\|^KNOWN' | head -${LINES_MAX:-3} | cut -c1-${WIDTH_MAX:-330} | sed 's/^/     /'; fi
done
echo "  => $n alarms"
