#!/bin/bash
# seed_suite.sh: every seeded change on its own scratch copy of HEAD (8 at a time), all properties on one load;
# prints, per seed, the properties that report it and whether the ones recorded in its meta.json are among them.
out=$(mktemp -d /var/tmp/seed-suite.XXXXXX)
trap 'rm -rf "$out"' EXIT
ls -d /verif/seeded/*/ | xargs -P 8 -I{} sh -c 'n=$(basename {}); RX_RAW=1 /verif/tools/rx.sh {}patch.diff > '"$out"'/$n.txt 2>&1'
fail=0
for f in "$out"/*.txt; do
  n=$(basename $f .txt)
  fired=$(grep -o "^== C[0-9][0-9] exit 1" $f | awk '{print $2}' | tr '\n' ' ')
  broken=$(grep -o "^== C[0-9][0-9] exit 2" $f | awk '{print $2}' | tr '\n' ' ')
  want=$(python3 -c "import json;print(' '.join(json.load(open('/verif/seeded/$n/meta.json'))['detected_by']))")
  own=$(python3 -c "import json;print(json.load(open('/verif/seeded/$n/meta.json'))['property'])")
  miss=""
  for w in $want; do case " $fired " in *" $w "*) ;; *) miss="$miss $w";; esac; done
  ownhit=no; case " $fired " in *" $own "*) ownhit=yes;; esac
  [ "$ownhit" = no ] && fail=1
  echo "$n own=$own hit=$ownhit fired: $fired${miss:+ MISSING:$miss}${broken:+ BROKEN: $broken}"
done
exit $fail
