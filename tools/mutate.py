#!/usr/bin/env python3
"""Try a one-off textual mutation of /repo in a scratch copy and run checks on it.
usage: mutate.py <props comma-separated> <relative file> <old> <new> [<file> <old> <new> ...]
Prints each check's exit code and VIOLATION lines; always removes the scratch copy."""
import subprocess, sys, tempfile, shutil, os
props = sys.argv[1].split(',')
edits = sys.argv[2:]
d = tempfile.mkdtemp(prefix='asv-mut-')
try:
    subprocess.check_call(['rsync', '-a', '--exclude', '.git', '/repo/', d + '/'])
    for i in range(0, len(edits), 3):
        f, old, new = edits[i:i+3]
        p = os.path.join(d, f)
        s = open(p).read()
        if s.count(old) != 1:
            print(f'MUTATION DOES NOT APPLY: {s.count(old)} occurrences of {old!r} in {f}'); sys.exit(3)
        open(p, 'w').write(s.replace(old, new))
    env = dict(os.environ, GOFLAGS='-mod=mod', GOPROXY='off', GOSUMDB='off', GOTOOLCHAIN='local', GOWORK='off')
    if os.environ.get('MUT_BUILD', '1') == '1':
        for m in ['.', 'client']:
            r = subprocess.run(['go', 'build', './...'], cwd=os.path.join(d, m), env=env, capture_output=True, text=True)
            if r.returncode != 0:
                print('MUTANT DOES NOT COMPILE:', r.stderr[:800]); sys.exit(3)
    for pr in props:
        r = subprocess.run(['/verif/bin/asverif', 'check', pr, '--repo', d, '--no-evidence', '--evidence', d + '/.ev'], capture_output=True, text=True, env=env)
        lines = [l for l in r.stdout.splitlines() if not l.startswith('VIOLATION')]
        print(f'== {pr}: exit {r.returncode}')
        for l in lines[:int(os.environ.get('MUT_LINES', '6'))]:
            print('   ', l[:int(os.environ.get('MUT_WIDTH', '400'))])
finally:
    shutil.rmtree(d, ignore_errors=True)
