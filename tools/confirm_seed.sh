#!/bin/bash
# confirm_seed.sh <dir with patch.diff and demo_test.go>: confirms in a scratch worktree that
#  (1) the patch applies and the tree builds, (2) the existing suite passes with it,
#  (3) the demonstration fails with it, (4) the demonstration passes without it.
set -u
export GOFLAGS=-mod=mod GOPROXY=off GOSUMDB=off GOTOOLCHAIN=local
src="$1"
w=$(mktemp -d /tmp/seedconfirm-XXXX)
git -C /repo worktree add --detach "$w/r" HEAD >/dev/null 2>&1 || { echo "worktree failed"; exit 2; }
trap 'git -C /repo worktree remove --force "$w/r" >/dev/null 2>&1; rm -rf "$w"' EXIT
cd "$w/r"
# where does the demo go?
place=$(grep -m1 -oE '(pkg|client)/[A-Za-z0-9_/.-]+_test\.go' "$src/demo_test.go")
[ -z "$place" ] && { echo "cannot find placement path in demo_test.go"; exit 2; }
mod=.
case "$place" in client/*) mod=client;; esac
pkgdir=$(dirname "$place")
runpat=$(grep -oE 'func (Test[A-Za-z0-9_]+)' "$src/demo_test.go" | awk '{print $2}' | paste -sd'|')
echo "demo placement: $place  tests: $runpat"
cp "$src/demo_test.go" "$place"
( cd $mod && go test -vet=off -count=1 -run "^($runpat)\$" "./${pkgdir#client/}" ) > "$w/demo_clean.log" 2>&1; rc_clean=$?
rm -f "$place"
git apply "$src/patch.diff" || { echo "PATCH DOES NOT APPLY"; exit 2; }
( go build ./... && cd client && go build ./... ) > "$w/build.log" 2>&1 || { echo "DOES NOT BUILD"; tail -5 "$w/build.log"; exit 2; }
( go test -vet=off -count=1 ./pkg/... && cd client && go test -vet=off -count=1 ./... ) > "$w/suite.log" 2>&1; rc_suite=$?
cp "$src/demo_test.go" "$place"
( cd $mod && go test -vet=off -count=1 -run "^($runpat)\$" "./${pkgdir#client/}" ) > "$w/demo_patched.log" 2>&1; rc_patched=$?
echo "suite with patch: rc=$rc_suite ; demo on clean tree: rc=$rc_clean ; demo with patch: rc=$rc_patched"
grep -E "^(--- FAIL|FAIL|ok|panic)" "$w/demo_patched.log" | head -5
if [ $rc_suite -eq 0 ] && [ $rc_clean -eq 0 ] && [ $rc_patched -ne 0 ]; then echo "CONFIRMED"; exit 0; else echo "NOT CONFIRMED"; tail -5 "$w/suite.log"; tail -5 "$w/demo_clean.log"; exit 1; fi
