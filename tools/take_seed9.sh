#!/bin/bash
# take_seed9.sh <Cxx> <A|B>: confirm a round-9 seed delivered in /tmp/seed9-Cxx/SEED-X and run all checks on it (dev aid)
set -u
p=$1; x=$2
src=/tmp/seed9-$p/SEED-$x
dst=/var/tmp/seed9/$p-$x
mkdir -p $dst; cp $src/patch.diff $src/demo_test.go $src/README.md $dst/ 2>/dev/null
echo "== confirm $p-$x"
/verif/tools/confirm_seed.sh $dst 2>&1 | tail -4
echo "== checks"
RX_RAW=1 /verif/tools/rx.sh $dst/patch.diff 2>&1 | grep "^== C[0-9][0-9] exit [12]" | tr '\n' ' '
echo
