#!/bin/bash
# rx.sh <diff|-> [Cxx ...]: checks a change on a private scratch copy of /repo's HEAD (under /tmp, removed afterwards),
# so that it can run while /repo itself is in use. "-" means the unchanged HEAD.
set -u
d="$1"; shift
x=$(mktemp -d /tmp/rx.XXXXXX)
trap 'rm -rf "$x"' EXIT
git -C /repo archive HEAD | tar -x -C "$x"
if [ "$d" != "-" ]; then (cd "$x" && patch -p1 -s --no-backup-if-mismatch < "$d") || { echo "patch does not apply"; exit 2; }; fi
out=$(${ASV_BIN:-/verif/bin/asverif} checkall --repo "$x" "$@" 2>&1)
if [ -n "${RX_RAW:-}" ]; then echo "$out"; exit 0; fi
echo "$out" | awk -v L=${LINES_MAX:-3} -v W=${WIDTH_MAX:-330} '/^== /{ if ($4!="0") {print "  ALARM " $2 " (exit " $4 ")"; n++; k=0; show=1} else show=0; next } /^VIOLATION|^KNOWN/{next} show && k<L {print "     " substr($0,1,W); k++} END{print "  => " n+0 " alarms"}'
