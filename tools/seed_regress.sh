#!/bin/bash
# seed_regress.sh: every seeded change must still be reported by the checks recorded in its meta.json,
# and the unchanged tree must be silent. Applies each patch to /repo and reverts it straight afterwards.
set -u
cd /verif
fail=0
[ -n "$(git -C /repo status --porcelain)" ] && { echo "/repo is not clean"; exit 2; }
for d in seeded/*/; do
  n=$(basename $d)
  checks=$(python3 -c "import json;print(' '.join(json.load(open('$d/meta.json'))['detected_by']))")
  git -C /repo apply "$PWD/$d/patch.diff" || { echo "$n: patch does not apply"; fail=1; continue; }
  hit=""
  for c in $checks; do
    bin/asverif check $c --no-evidence --evidence /tmp/seed-ev >/tmp/seed-ev.out 2>&1; rc=$?
    if [ $rc -eq 1 ] && grep -q "^VIOLATION property=$c" /tmp/seed-ev.out; then hit="$hit $c"; else echo "$n: $c did NOT fire (exit $rc)"; fail=1; fi
  done
  git -C /repo checkout -- . ; git -C /repo clean -fdq
  echo "$n: fired:$hit"
done
exit $fail
