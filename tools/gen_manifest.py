#!/usr/bin/env python3
"""Regenerates /verif/MANIFEST.json from the table below (claimed properties) and properties.jsonl."""
import json, subprocess, os
root = os.path.dirname(os.path.dirname(os.path.abspath(__file__)))
props = [json.loads(l) for l in open(os.path.join(root, 'properties.jsonl'))]
claims = json.load(open(os.path.join(root, 'tools', 'claims.json')))
NOTE = ("Trusted base T1-T5 (DESIGN.md section 3): go/packages+go/types+go/cfg of x/tools v0.29.0; the effect catalogue's verb lists; code outside the "
        "repository does not mutate objects passed to it except tabled mutators; the Kubernetes API contracts the controller itself relies on; the hand-written rule tables. "
        "The check decides the listed structural clauses on the current source; it does not decide the behaviour under the property's quantifier.")
checks, na = [], []
for p in props:
    c = claims.get(p['id'])
    if not c:
        na.append({"property_id": p['id'], "reason": "check under construction (static-analysis rules not yet armed); see DESIGN.md section 4"})
        continue
    if c.get('not_applicable'):
        na.append({"property_id": p['id'], "reason": c['not_applicable']})
        continue
    checks.append({
        "property_id": p['id'],
        "quick_cmd": f"./run.sh {p['id']} quick",
        "thorough_cmd": f"./run.sh {p['id']} thorough",
        "evidence_file": f"/verif/evidence/{p['id']}.json",
        "replay_cmd_template": "cat {path}",
        "engine": "asverif",
        "level_claimed": {"category": "other", "text": c['text'], "design_ref": f"DESIGN.md section 4, {p['id']}"},
        "level_note": NOTE,
        "technique": c['technique'],
    })
m = {
 "version": 1,
 "setup_cmd": "./setup.sh",
 "hooks": {"guard": "verif", "enable": "none needed: the checks parse and type-check /repo's source; nothing is compiled into the repository",
           "baseline_off_cmd": "for m in . client; do (cd /repo/$m && GOFLAGS=-mod=mod GOPROXY=off GOSUMDB=off go test -json -vet=off -count=1 -timeout 25m ./...); done",
           "source_commits": [], "add_only": True},
 "engines": [{"name": "asverif", "path": "checker/", "serves_properties": [c['property_id'] for c in checks],
              "kind_free_text": "repository-specific static checker: go/packages loader, effect catalogue + call graph, guard-fact dataflow on go/cfg, type/CRD comparison"}],
 "checks": checks,
 "not_applicable": na,
 "notes": "Static-analysis family only. Every claim is at level 'other': structural necessary conditions decided from the source on every run; see DESIGN.md sections 0 and 6 for what is not decided.",
}
json.dump(m, open(os.path.join(root, 'MANIFEST.json'), 'w'), indent=1)
print(len(checks), 'claimed;', len(na), 'not claimed')
