#!/usr/bin/env python3
"""mut_one.py <mutants.jsonl> <id>[,<id>...] [Cxx ...]: applies single mutants to a scratch copy of HEAD and prints what the checks say."""
import json, os, subprocess, sys, tempfile, shutil
BIN = os.environ.get("ASV_BIN", "/verif/bin/asverif")
muts = {json.loads(l)["id"]: json.loads(l) for l in open(sys.argv[1])}
ids = [int(x) for x in sys.argv[2].split(",")]
props = sys.argv[3:]
for i in ids:
    m = muts[i]
    d = tempfile.mkdtemp(prefix="mut1-", dir="/var/tmp")
    try:
        subprocess.run("git -C /repo archive HEAD | tar -x -C %s" % d, shell=True, check=True)
        p = os.path.join(d, m["file"])
        b = open(p, "rb").read()
        b = b[:m["start"]] + m["repl"].encode() + b[m["end"]:]
        open(p, "wb").write(b)
        print("### mutant %d %s:%d %s [%s]" % (i, m["file"].split("/")[-1], m["line"], m["fn"], m["op"]))
        if props:
            for pr in props:
                r = subprocess.run([BIN, "check", "--repo", d, "--no-evidence", pr], capture_output=True, text=True)
                lines = [l for l in r.stdout.splitlines() if "violated" in l or "undecided" in l]
                print("  %s exit %d" % (pr, r.returncode))
                for l in lines[:4]:
                    print("     " + l.strip()[:int(os.environ.get("WIDTH_MAX", "260"))])
        else:
            r = subprocess.run([BIN, "checkall", "--repo", d], capture_output=True, text=True)
            for l in r.stdout.splitlines():
                if l.startswith("== ") and "exit 0" not in l:
                    print("  " + l)
                elif "violated" in l or "undecided" in l:
                    print("     " + l.strip()[:int(os.environ.get("WIDTH_MAX", "260"))])
    finally:
        shutil.rmtree(d, ignore_errors=True)
