#!/usr/bin/env python3
"""mutation_run.py <mutants.jsonl> <out.jsonl> [jobs]: for every single-point mutant (cmd/mutgen) build both modules and
run the pinned test suite on a scratch copy of /repo's HEAD; records compile-fail / killed / survived. Development aid:
the survivors are then given to the checks (tools/mutation_check.py) to see what the rules report that the tests do not.
Resumable (ids already in <out.jsonl> are skipped). Uses its own build cache (MUT_GOCACHE, default /var/tmp/mut-gocache),
built with -trimpath so that scratch directories share compiled packages, and empties it when it passes MUT_CACHE_GB."""
import json, os, subprocess, sys, tempfile, shutil, multiprocessing

CACHE = os.environ.get("MUT_GOCACHE", "/var/tmp/mut-gocache")
LIMIT = int(os.environ.get("MUT_CACHE_GB", "25")) * (1 << 30)
ENV = dict(os.environ, GOFLAGS="-mod=mod -trimpath", GOPROXY="off", GOSUMDB="off", GOTOOLCHAIN="local", GOCACHE=CACHE)

def run(m):
    d = tempfile.mkdtemp(prefix="mut-", dir="/var/tmp")
    try:
        subprocess.run("git -C /repo archive HEAD | tar -x -C %s" % d, shell=True, check=True)
        p = os.path.join(d, m["file"])
        b = open(p, "rb").read()
        b = b[:m["start"]] + m["repl"].encode() + b[m["end"]:]
        open(p, "wb").write(b)
        r = subprocess.run("go build ./... && (cd client && go build ./...)", shell=True, cwd=d, env=ENV, capture_output=True, timeout=900)
        if r.returncode != 0:
            if b"no space left" in r.stderr.lower():
                return dict(m, result="error", how="disk full")
            return dict(m, result="nocompile")
        try:
            r = subprocess.run("go test -vet=off -count=1 ./pkg/... && (cd client && go test -vet=off -count=1 ./...)", shell=True, cwd=d, env=ENV, capture_output=True, timeout=400)
        except subprocess.TimeoutExpired:
            return dict(m, result="killed", how="timeout")
        if r.returncode != 0:
            if b"no space left" in (r.stderr + r.stdout).lower():
                return dict(m, result="error", how="disk full")
            return dict(m, result="killed")
        return dict(m, result="survived")
    except Exception as e:
        return dict(m, result="error", how=str(e)[:200])
    finally:
        shutil.rmtree(d, ignore_errors=True)

def cache_size():
    try:
        return int(subprocess.run(["du", "-sb", CACHE], capture_output=True, text=True).stdout.split()[0])
    except Exception:
        return 0

if __name__ == "__main__":
    done = set()
    if os.path.exists(sys.argv[2]):
        for l in open(sys.argv[2]):
            r = json.loads(l)
            if r.get("result") != "error":
                done.add(r["id"])
    muts = [m for m in (json.loads(l) for l in open(sys.argv[1])) if m["id"] not in done]
    jobs = int(sys.argv[3]) if len(sys.argv) > 3 else 10
    batch = 60
    with open(sys.argv[2], "a") as out:
        for i in range(0, len(muts), batch):
            if cache_size() > LIMIT:
                subprocess.run(["go", "clean", "-cache"], env=ENV)
            with multiprocessing.Pool(jobs) as pool:
                for res in pool.imap_unordered(run, muts[i:i + batch]):
                    out.write(json.dumps(res) + "\n")
                    out.flush()
