#!/usr/bin/env python3
"""mutation_run.py <mutants.jsonl> <out.jsonl> [jobs]: for every single-point mutant (cmd/mutgen) build both modules and
run the pinned test suite on a scratch copy of /repo's HEAD; records compile-fail / killed / survived. Development aid:
the survivors are then given to the checks (tools/mutation_check.sh) to see what the rules report that the tests do not."""
import json, os, subprocess, sys, tempfile, shutil, multiprocessing

ENV = dict(os.environ, GOFLAGS="-mod=mod", GOPROXY="off", GOSUMDB="off", GOTOOLCHAIN="local")

def run(m):
    d = tempfile.mkdtemp(prefix="mut-", dir="/tmp")
    try:
        subprocess.run("git -C /repo archive HEAD | tar -x -C %s" % d, shell=True, check=True)
        p = os.path.join(d, m["file"])
        b = open(p, "rb").read()
        b = b[:m["start"]] + m["repl"].encode() + b[m["end"]:]
        open(p, "wb").write(b)
        r = subprocess.run("go build ./... && (cd client && go build ./...)", shell=True, cwd=d, env=ENV, capture_output=True, timeout=600)
        if r.returncode != 0:
            return dict(m, result="nocompile")
        try:
            r = subprocess.run("go vet ./pkg/... >/dev/null 2>&1; go test -vet=off -count=1 ./pkg/... && (cd client && go test -vet=off -count=1 ./...)", shell=True, cwd=d, env=ENV, capture_output=True, timeout=300)
        except subprocess.TimeoutExpired:
            return dict(m, result="killed", how="timeout")
        if r.returncode != 0:
            return dict(m, result="killed")
        return dict(m, result="survived")
    except Exception as e:
        return dict(m, result="error", how=str(e)[:200])
    finally:
        shutil.rmtree(d, ignore_errors=True)

if __name__ == "__main__":
    muts = [json.loads(l) for l in open(sys.argv[1])]
    jobs = int(sys.argv[3]) if len(sys.argv) > 3 else 12
    with multiprocessing.Pool(jobs) as pool, open(sys.argv[2], "w") as out:
        for res in pool.imap_unordered(run, muts):
            out.write(json.dumps(res) + "\n")
            out.flush()
