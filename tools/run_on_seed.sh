#!/bin/bash
# run_on_seed.sh <patch.diff> <Cxx> [<Cyy> ...]: applies the patch to /repo, runs the quick checks, reverts.
set -u
patch="$1"; shift
cd /repo || exit 2
[ -n "$(git status --porcelain)" ] && { echo "/repo is not clean"; exit 2; }
git apply "$patch" || { echo "patch does not apply"; exit 2; }
trap 'git -C /repo checkout -- . ; git -C /repo clean -fdq' EXIT
for p in "$@"; do
  out=$(/verif/bin/asverif check $p --no-evidence --evidence /tmp/seed-ev 2>&1); rc=$?
  echo "== $p exit $rc"
  echo "$out" | grep -v '^VIOLATION' | head -${LINES_MAX:-4} | cut -c1-${WIDTH_MAX:-420}
done
